/-
  C17 — AMD PSP/BIOS directories decode exactly; entry reads and patches are confined.
  Property theorems only; the lemmas live in FianoModel/Amd/*Lemmas.lean.  All statements are
  unbounded: every image (any length, any content), every record, every key, every data block.

  The model follows the code as repaired by fixes/C17-keybits.diff and fixes/C20-amd-efs-wrap.diff;
  section "the code at the pinned commit" states what fails there.
-/
import FianoModel.Amd.MoreLemmas
import FianoModel.Amd.FletcherLemmas
import FianoModel.Amd.Unfixed
import FianoModel.Amd.Tie
import FianoModel.Amd.Sample
import FianoModel.Amd.CodeTie   -- T1 code-as-code tie (wp-t1x): audited as a tie module of this check

namespace Fiano.Amd

/-! ## C17.1 every decoded field equals the bits of its record -/

/-- PSP entry: type 0:7, sub-program 8:15, ROM id 30:31, size 32:63, location 64:127 of the record. -/
theorem c17_entry_decode_exact_psp (r : Bytes) : decodePSPEntry r = Spec.pspEntry r :=
  decodePSPEntry_eq_spec r

/-- BIOS entry: type 0:7, region 8:15, reset 16, copy 17, read-only 18, compressed 19, instance 20:23,
    sub-program 24:26, ROM id 27:28, size 32:63, source 64:127, destination 128:191. -/
theorem c17_entry_decode_exact_bios (r : Bytes) : decodeBIOSEntry r = Spec.biosEntry r :=
  decodeBIOSEntry_eq_spec r

/-- the flag-byte expressions of the BIOS entry decoder, for each of the 256 byte values -/
theorem c17_flag_bytes_bios (b : UInt8) :
    biosResetImage b = (b.toNat % 2 == 1) ∧ biosCopyImage b = (b.toNat / 2 % 2 == 1) ∧
    biosReadOnly b = (b.toNat / 4 % 2 == 1) ∧ biosCompressed b = (b.toNat / 8 % 2 == 1) ∧
    (biosInstance b).toNat = b.toNat / 16 ∧ (biosSubprogram b).toNat = b.toNat % 8 ∧
    (biosRomId b).toNat = b.toNat / 8 % 4 := by
  have := bios_flags b.toNat b.toNat_lt
  simpa using this

/-- the ROM id of a PSP entry is bits 14:15 of the flags word, for every 16-bit value -/
theorem c17_flag_word_psp (f : UInt16) : (pspRomId f).toNat = f.toNat / 2 ^ 14 := romId_nat f

/-- embedded firmware structure: signature, the PSP pointer and the four BIOS pointers are the
    documented 32-bit words of the 74-byte record -/
theorem c17_efs_decode_exact (r : Bytes) : decodeEFS r = Spec.efs r := decodeEFS_eq_spec r

/-- A parsed PSP table is the specification's reading (header words, then 16-byte records) of exactly
    the `n` bytes reported as consumed, and those bytes are a complete table. -/
theorem c17_table_decode_exact_psp (d : Img) (t : PSPTable) (n : Nat) (h : parsePSP d = .ok (t, n)) :
    n ≤ d.len ∧ Spec.IsPSPTable (d.window 0 n) ∧ t = Spec.pspTable (d.window 0 n) :=
  parsePSP_eq_spec d t n h

theorem c17_table_decode_exact_bios (d : Img) (t : BIOSTable) (n : Nat) (h : parseBIOS d = .ok (t, n)) :
    n ≤ d.len ∧ Spec.IsBIOSTable (d.window 0 n) ∧ t = Spec.biosTable (d.window 0 n) :=
  parseBIOS_eq_spec d t n h

/-! ## C17.2 exactly the declared number of entries -/

theorem c17_table_count_psp (d : Img) (t : PSPTable) (n : Nat) (h : parsePSP d = .ok (t, n)) :
    t.entries.length = t.total ∧ n = 16 + 16 * t.total := by
  obtain ⟨_, rfl, rfl⟩ := (parsePSP_iff d t n).1 h
  simp [pspTableAt, dirHeaderSize, pspEntrySize]

theorem c17_table_count_bios (d : Img) (t : BIOSTable) (n : Nat) (h : parseBIOS d = .ok (t, n)) :
    t.entries.length = t.total ∧ n = 16 + 24 * t.total := by
  obtain ⟨_, rfl, rfl⟩ := (parseBIOS_iff d t n).1 h
  simp [biosTableAt, dirHeaderSize, biosEntrySize]

/-- The BIOS pre-check multiplies the count by `BIOSDirectoryTableEntrySize = 16` although a record
    has 24 bytes.  It is harmless: the parser accepts exactly the complete tables with 24-byte records
    (a short table that passes the pre-check fails in the entry loop and nothing is returned). -/
theorem c17_bios_precheck_harmless (d : Img) :
    (∃ t n, parseBIOS d = .ok (t, n)) ↔
      (fromLE (d.window 0 4) = biosCookie ∨ fromLE (d.window 0 4) = biosL2Cookie) ∧
      16 + 24 * fromLE (d.window 8 4) ≤ d.len := by
  constructor
  · rintro ⟨t, n, h⟩
    exact ((parseBIOS_iff d t n).1 h).1
  · intro h
    exact ⟨_, _, (parseBIOS_iff d _ _).2 ⟨h, rfl, rfl⟩⟩

/-! ## C17.3 each reported table range, re-read from the image, decodes to the same table -/

/-- parse level: parsing only the bytes reported as consumed gives the same table -/
theorem c17_range_reparse_psp (d : Img) (t : PSPTable) (n : Nat) (h : parsePSP d = .ok (t, n)) :
    parsePSP (d.take n) = .ok (t, n) := parsePSP_take d t n h

theorem c17_range_reparse_bios (d : Img) (t : BIOSTable) (n : Nat) (h : parseBIOS d = .ok (t, n)) :
    parseBIOS (d.take n) = .ok (t, n) := parseBIOS_take d t n h

/-- discovery level, all four tables, whichever way they were located (EFS pointer, cookie scan,
    level-2 entry): the range lies inside the image and `image[off : off+len]` parses to the table. -/
theorem c17_range_reparse (img : Img) (fw : PSPFirmware) (h : discover img = .ok fw) :
    (∀ t r, fw.psp1 = some (t, r) → r.off + r.len ≤ img.len ∧ parsePSP ((img.drop r.off).take r.len) = .ok (t, r.len)) ∧
    (∀ t r, fw.psp2 = some (t, r) → r.off + r.len ≤ img.len ∧ parsePSP ((img.drop r.off).take r.len) = .ok (t, r.len)) ∧
    (∀ t r, fw.bios1 = some (t, r) → r.off + r.len ≤ img.len ∧ parseBIOS ((img.drop r.off).take r.len) = .ok (t, r.len)) ∧
    (∀ t r, fw.bios2 = some (t, r) → r.off + r.len ≤ img.len ∧ parseBIOS ((img.drop r.off).take r.len) = .ok (t, r.len)) := by
  refine ⟨fun t r ht => ?_, fun t r ht => ?_, fun t r ht => ?_, fun t r ht => ?_⟩
  · have hp := discover_psp1 img fw h t r ht
    exact ⟨(parsePSP_inside img _ t _ hp).1, parsePSP_take _ t _ hp⟩
  · have hp := discover_psp2 img fw h t r ht
    exact ⟨(parsePSP_inside img _ t _ hp).1, parsePSP_take _ t _ hp⟩
  · have hp := discover_bios1 img fw h t r ht
    exact ⟨(parseBIOS_inside img _ t _ hp).1, parseBIOS_take _ t _ hp⟩
  · have hp := discover_bios2 img fw h t r ht
    exact ⟨(parseBIOS_inside img _ t _ hp).1, parseBIOS_take _ t _ hp⟩

/-- the same on byte strings: the slice `b[off : off+len]`, parsed on its own, is the table -/
theorem c17_range_reparse_bytes (b : Bytes) (fw : PSPFirmware) (h : discover (Img.ofBytes b) = .ok fw) :
    (∀ t r, fw.psp1 = some (t, r) → parsePSP (Img.ofBytes (slice b r.off r.len)) = .ok (t, r.len)) ∧
    (∀ t r, fw.psp2 = some (t, r) → parsePSP (Img.ofBytes (slice b r.off r.len)) = .ok (t, r.len)) ∧
    (∀ t r, fw.bios1 = some (t, r) → parseBIOS (Img.ofBytes (slice b r.off r.len)) = .ok (t, r.len)) ∧
    (∀ t r, fw.bios2 = some (t, r) → parseBIOS (Img.ofBytes (slice b r.off r.len)) = .ok (t, r.len)) := by
  obtain ⟨h1, h2, h3, h4⟩ := c17_range_reparse (Img.ofBytes b) fw h
  refine ⟨fun t r ht => ?_, fun t r ht => ?_, fun t r ht => ?_, fun t r ht => ?_⟩
  · obtain ⟨hin, hp⟩ := h1 t r ht
    exact parsePSP_same (ofBytes_drop_take_same b r.off r.len hin) _ hp
  · obtain ⟨hin, hp⟩ := h2 t r ht
    exact parsePSP_same (ofBytes_drop_take_same b r.off r.len hin) _ hp
  · obtain ⟨hin, hp⟩ := h3 t r ht
    exact parseBIOS_same (ofBytes_drop_take_same b r.off r.len hin) _ hp
  · obtain ⟨hin, hp⟩ := h4 t r ht
    exact parseBIOS_same (ofBytes_drop_take_same b r.off r.len hin) _ hp

/-- the embedded firmware structure is reported at the image offset of one of the six anchor
    addresses, with 74 bytes inside the image, and its fields are those bytes -/
theorem c17_efs_at_anchor (img : Img) (fw : PSPFirmware) (h : discover img = .ok fw) :
    ∃ a, a ∈ efsAnchors ∧ fw.efsRange.off = physAddrToOffset img.len a ∧ fw.efsRange.len = 74 ∧
      fw.efsRange.off + 74 ≤ img.len ∧ fw.efs = Spec.efs (img.window fw.efsRange.off 74) ∧
      fw.efs.signature = efsSignature := by
  obtain ⟨he, _⟩ := discover_inv img fw h
  exact findEFSLoop_inv img efsAnchors fw.efs fw.efsRange he

/-- inside the 4 GiB window the image offset of a physical address is `len − (2³² − addr)`, and
    OffsetToPhysAddr is the inverse map (modulo 2⁶⁴, as in Go) -/
theorem c17_phys_offset (len a : Nat) (hl : len ≤ 2 ^ 32) (ha : a < 2 ^ 32) (hw : 2 ^ 32 - len ≤ a) :
    physAddrToOffset len a = len - (2 ^ 32 - a) ∧ offsetToPhysAddr len (physAddrToOffset len a) = a := by
  refine ⟨physAddrToOffset_window len a hl ha hw, ?_⟩
  rw [phys_inverse]
  exact Nat.mod_eq_of_lt (by omega)

/-! ## C17.4 the directory checksum is Fletcher-32 over the table after its first 8 bytes -/

/-- **For every input the coded function returns (it never indexes out of range, its uint32
    accumulators never wrap) mathematical Fletcher-32: both sums of the little-endian 16-bit words
    (last word zero-padded) modulo 65535.** -/
theorem c17_fletcher_eq_spec (data : Bytes) : fletcherCRC32 data = some (Spec.fletcher32 data) :=
  fletcherCRC32_eq_spec data

theorem c17_directory_checksum (raw : Bytes) (h : 8 ≤ raw.length) :
    calcDirectoryChecksum raw = some (Spec.fletcher32 (raw.drop 8)) := by
  unfold calcDirectoryChecksum
  rw [if_neg (by simp only [checksumDataOffset]; omega)]
  exact fletcherCRC32_eq_spec _

/-! ## C17.5 extraction returns exactly the image bytes of the entry's location and size -/

theorem c17_extract_exact_psp (img : Img) (fw : PSPFirmware) (hfw : discover img = .ok fw) (level id : Nat) (d : Bytes)
    (h : extractPSPEntry img fw level id = .ok d) :
    ∃ t r e, pspTableOf fw level = some (t, r) ∧ t.entries.filter (fun x => x.type = id) = [e] ∧
      e.loc + e.size ≤ img.len ∧ d = img.window e.loc e.size := by
  unfold extractPSPEntry at h
  split at h
  · cases h
  · rename_i e he
    obtain ⟨t, r, ht, hu⟩ := getPSPEntry_ok fw level id e he
    obtain ⟨w1, w2⟩ := discover_pspTableOf_wt img fw hfw level t r ht e (mem_of_filter_singleton _ _ _ hu)
    obtain ⟨a, b⟩ := getRangeBytes_ok img e.loc e.size d w1 (by omega) h
    exact ⟨t, r, e, ht, hu, a, b⟩

theorem c17_extract_exact_bios (img : Img) (fw : PSPFirmware) (hfw : discover img = .ok fw) (level id inst : Nat)
    (d : Bytes) (h : extractBIOSEntry img fw level id inst = .ok d) :
    ∃ t r e, biosTableOf fw level = some (t, r) ∧
      t.entries.filter (fun x => x.type = id ∧ x.instance_ = inst) = [e] ∧
      e.src + e.size ≤ img.len ∧ d = img.window e.src e.size := by
  unfold extractBIOSEntry at h
  split at h
  · cases h
  · rename_i e he
    obtain ⟨t, r, ht, hu⟩ := getBIOSEntry_ok fw level id inst e he
    obtain ⟨w1, w2⟩ := discover_biosTableOf_wt img fw hfw level t r ht e (mem_of_filter_singleton _ _ _ hu)
    obtain ⟨a, b⟩ := getRangeBytes_ok img e.src e.size d w1 (by omega) h
    exact ⟨t, r, e, ht, hu, a, b⟩

/-- and conversely: a unique matching entry whose range lies inside the image is extracted -/
theorem c17_extract_complete_psp (img : Img) (fw : PSPFirmware) (level id : Nat) (t : PSPTable) (r : Range)
    (e : PSPEntry) (ht : pspTableOf fw level = some (t, r)) (hu : t.entries.filter (fun x => x.type = id) = [e])
    (hfit : e.loc + e.size ≤ img.len) (hb : e.loc + e.size < 2 ^ 64) :
    extractPSPEntry img fw level id = .ok (img.window e.loc e.size) := by
  unfold extractPSPEntry
  rw [getPSPEntry_unique fw level id t r e ht hu]
  exact getRangeBytes_fits img e.loc e.size hfit hb

/-! ## C17.6 patching is confined to the entry's range and refused on a size mismatch -/

/-- A successful patch keeps the image length, leaves every byte outside `[loc, loc+size)` as it
    was, stores the new bytes in that range, and the new data had exactly `size` bytes. -/
theorem c17_patch_confined_psp (img : Img) (fw : PSPFirmware) (hfw : discover img = .ok fw) (level id : Nat)
    (new : Bytes) (out : Img) (h : patchPSPEntry img fw level id new = .ok out) :
    ∃ t r e, pspTableOf fw level = some (t, r) ∧ t.entries.filter (fun x => x.type = id) = [e] ∧
      e.loc + e.size ≤ img.len ∧ new.length = e.size ∧ out.len = img.len ∧
      (∀ j, j < e.loc ∨ e.loc + e.size ≤ j → out.get j = img.get j) ∧
      out.window e.loc e.size = new := by
  unfold patchPSPEntry at h
  split at h
  · cases h
  · rename_i e he
    obtain ⟨t, r, ht, hu⟩ := getPSPEntry_ok fw level id e he
    obtain ⟨w1, w2⟩ := discover_pspTableOf_wt img fw hfw level t r ht e (mem_of_filter_singleton _ _ _ hu)
    obtain ⟨p1, p2, p3, p4, p5, p6, p7⟩ := patchEntry_ok img _ _ new out h
    have hw := nowrap64 e.loc e.size w1 (by omega) p1
    rw [hw] at p2 p3 p6
    have hsz : new.length = e.size := by omega
    refine ⟨t, r, e, ht, hu, p2, hsz, p4, ?_, by rw [← hsz]; exact p7⟩
    intro j hj
    rcases hj with hj | hj
    · exact p5 j hj
    · exact p6 j hj

theorem c17_patch_confined_bios (img : Img) (fw : PSPFirmware) (hfw : discover img = .ok fw) (level id inst : Nat)
    (new : Bytes) (out : Img) (h : patchBIOSEntry img fw level id inst new = .ok out) :
    ∃ t r e, biosTableOf fw level = some (t, r) ∧
      t.entries.filter (fun x => x.type = id ∧ x.instance_ = inst) = [e] ∧
      e.src + e.size ≤ img.len ∧ new.length = e.size ∧ out.len = img.len ∧
      (∀ j, j < e.src ∨ e.src + e.size ≤ j → out.get j = img.get j) ∧
      out.window e.src e.size = new := by
  unfold patchBIOSEntry at h
  split at h
  · cases h
  · rename_i e he
    obtain ⟨t, r, ht, hu⟩ := getBIOSEntry_ok fw level id inst e he
    obtain ⟨w1, w2⟩ := discover_biosTableOf_wt img fw hfw level t r ht e (mem_of_filter_singleton _ _ _ hu)
    obtain ⟨p1, p2, p3, p4, p5, p6, p7⟩ := patchEntry_ok img _ _ new out h
    have hw := nowrap64 e.src e.size w1 (by omega) p1
    rw [hw] at p2 p3 p6
    have hsz : new.length = e.size := by omega
    refine ⟨t, r, e, ht, hu, p2, hsz, p4, ?_, by rw [← hsz]; exact p7⟩
    intro j hj
    rcases hj with hj | hj
    · exact p5 j hj
    · exact p6 j hj

/-- size mismatch ⇒ error (nothing is produced): for the entry the look-up selects, new data of any
    other length is refused -/
theorem c17_patch_size_mismatch_psp (img : Img) (fw : PSPFirmware) (hfw : discover img = .ok fw) (level id : Nat)
    (e : PSPEntry) (he : getPSPEntry fw level id = .ok e) (new : Bytes) (hne : new.length ≠ e.size) :
    ∃ err, patchPSPEntry img fw level id new = .error err := by
  unfold patchPSPEntry
  rw [he]
  simp only
  cases hp : patchEntry img e.loc ((e.loc + e.size) % 2 ^ 64) new with
  | error err => exact ⟨err, rfl⟩
  | ok out =>
    obtain ⟨t, r, ht, hu⟩ := getPSPEntry_ok fw level id e he
    obtain ⟨w1, w2⟩ := discover_pspTableOf_wt img fw hfw level t r ht e (mem_of_filter_singleton _ _ _ hu)
    obtain ⟨p1, p2, p3, _⟩ := patchEntry_ok img _ _ new out hp
    have hw := nowrap64 e.loc e.size w1 (by omega) p1
    omega

theorem c17_patch_size_mismatch_bios (img : Img) (fw : PSPFirmware) (hfw : discover img = .ok fw)
    (level id inst : Nat) (e : BIOSEntry) (he : getBIOSEntry fw level id inst = .ok e) (new : Bytes)
    (hne : new.length ≠ e.size) : ∃ err, patchBIOSEntry img fw level id inst new = .error err := by
  unfold patchBIOSEntry
  rw [he]
  simp only
  cases hp : patchEntry img e.src ((e.src + e.size) % 2 ^ 64) new with
  | error err => exact ⟨err, rfl⟩
  | ok out =>
    obtain ⟨t, r, ht, hu⟩ := getBIOSEntry_ok fw level id inst e he
    obtain ⟨w1, w2⟩ := discover_biosTableOf_wt img fw hfw level t r ht e (mem_of_filter_singleton _ _ _ hu)
    obtain ⟨p1, p2, p3, _⟩ := patchEntry_ok img _ _ new out hp
    have hw := nowrap64 e.src e.size w1 (by omega) p1
    omega

/-- and an entry whose range does not lie inside the image is refused as well -/
theorem c17_patch_out_of_bounds_psp (img : Img) (fw : PSPFirmware) (hfw : discover img = .ok fw) (level id : Nat)
    (e : PSPEntry) (he : getPSPEntry fw level id = .ok e) (new : Bytes) (hout : img.len < e.loc + e.size) :
    ∃ err, patchPSPEntry img fw level id new = .error err := by
  cases hp : patchPSPEntry img fw level id new with
  | error err => exact ⟨err, rfl⟩
  | ok out =>
    obtain ⟨t, r, e', _, hu', hfit, _⟩ := c17_patch_confined_psp img fw hfw level id new out hp
    obtain ⟨t2, r2, ht2, hu2⟩ := getPSPEntry_ok fw level id e he
    have : getPSPEntry fw level id = .ok e' := by
      unfold patchPSPEntry at hp
      split at hp
      · cases hp
      · rename_i e4 he4
        obtain ⟨t4, r4, ht4, hu4⟩ := getPSPEntry_ok fw level id e4 he4
        rename_i t0 r0 _
        rw [‹pspTableOf fw level = some (t, r)›] at ht4
        injection ht4 with ht4; injection ht4 with e1 e2
        subst e1
        rw [hu'] at hu4
        injection hu4 with hu4
        rw [hu4]; exact he4
    rw [he] at this
    injection this with this
    subst this
    omega

/-! ## C17.7 key attributes reflect the bits of the key -/

set_option exponentiation.threshold 512 in
/-- For every byte string accepted as a root key: the usage flag is the LE word at byte 36, the
    attributes exist exactly for `PSBSignBIOS` keys, and then vendor id / key revision id / platform
    model id are bits 0:7 / 8:11 / 12:15 and the three feature flags bits 24, 25, 26 of the reserved
    field (bytes 40..55 of the key). -/
theorem c17_key_bits (kb : Bytes) (k : KeyData) (h : newRootKey kb = .ok k) :
    k.usage = Spec.bits kb 288 32 ∧
    (k.usage = psbSignBIOS →
      getPlatformBindingInfo k = .ok (Spec.platformBinding (slice kb 40 16)) ∧
      getSecurityFeatureVector k = .ok (Spec.securityFeatures (slice kb 40 16))) ∧
    (k.usage ≠ psbSignBIOS →
      getPlatformBindingInfo k = .error .usage ∧ getSecurityFeatureVector k = .error .usage) := by
  obtain ⟨_, hu, hr, _⟩ := newRootKey_inv kb k h
  refine ⟨?_, fun h8 => ?_, fun h8 => ?_⟩
  · rw [hu, fromLE_slice]; rfl
  · unfold getPlatformBindingInfo getSecurityFeatureVector
    rw [if_neg (by simp [h8]), if_neg (by simp [h8]), hr, parsePlatformBinding_eq_spec,
      parseSecurityFeatureVector_eq_spec]
    exact ⟨rfl, rfl⟩
  · unfold getPlatformBindingInfo getSecurityFeatureVector
    rw [if_pos h8, if_pos h8]
    exact ⟨rfl, rfl⟩

/-- the attribute decoders themselves, for every 16-byte reserved field -/
theorem c17_key_bits_decoders (reserved : Bytes) :
    parsePlatformBinding reserved = Spec.platformBinding reserved ∧
    parseSecurityFeatureVector reserved = Spec.securityFeatures reserved :=
  ⟨parsePlatformBinding_eq_spec reserved, parseSecurityFeatureVector_eq_spec reserved⟩

/-! ## C17.8 discovery returns exactly the embedded tables (reference grammar: Amd/Grammar.lean) -/

/-- `find_wf`: in an image (< 4 GiB) whose EFS stands at the first anchor carrying the signature,
    whose level-1 directories are designated by the EFS pointer or — pointer zero / outside — are the
    first occurrence of their cookie, and whose level-2 directories are designated by the first
    level-2 entry, discovery returns the EFS, the four tables (absent ones as absent) and their
    ranges exactly. -/
theorem c17_find_wf (lay : Layout) (img : Img) (wf : lay.WF img) : discover img = .ok (lay.expected img) :=
  discover_wf lay img wf

/-! ## the code at the pinned commit (before the two fixes) -/

/-- DESIGN.md §8 row 11: `key_bits` is false of the current decoders
    (reserved[1] = 0xA5 → revision 5 / model 0x28 instead of 5 / 0xA; reserved[3] = 7 → (T,F,F)) -/
theorem c17_unfixed_key_bits_refuted :
    Unfixed.parsePlatformBinding Unfixed.witnessReserved ≠ Spec.platformBinding Unfixed.witnessReserved ∧
    Unfixed.parseSecurityFeatureVector Unfixed.witnessReserved ≠ Spec.securityFeatures Unfixed.witnessReserved ∧
    (∀ b : UInt8, Unfixed.featAMDKeyUse b = false ∧ Unfixed.featDebugUnlock b = false) := by
  refine ⟨Unfixed.key_bits_binding_refuted.2.2, ?_, Unfixed.features_always_false⟩
  rw [Unfixed.key_bits_features_refuted.1, Unfixed.key_bits_features_refuted.2]
  decide

/-- DESIGN.md §8 row 10: the current EFS probe panics on every image of 0x5FFFF bytes; the repaired
    one reports "not found" -/
theorem c17_unfixed_efs_probe_panics (get : Nat → UInt8) :
    Unfixed.findEFSLoop ⟨0x5FFFF, get⟩ efsAnchors = .error .panic ∧ findEFS ⟨0x5FFFF, get⟩ = .error .notFound :=
  ⟨Unfixed.efs_probe_panics get, Unfixed.efs_probe_repaired get⟩

/-! ## non-vacuity: the hypotheses are met by concrete, non-trivial values (Amd/Sample.lean) -/

/-- `c17_find_wf` applies to a concrete image with an EFS, three directories and a payload -/
example : discover sampleImg = .ok (sampleLayout.expected sampleImg) := c17_find_wf _ _ sample_wf

/-- and what it finds there is not trivial: two PSP entries, the second with ROM id 3 -/
example : (Spec.pspTable samplePSP1).entries = [⟨0x40, 0, 0, 0x10, 0x180⟩, ⟨0x01, 2, 3, 4, 0x1B0⟩] := by decide

/-- `c17_extract_exact_psp` / `c17_patch_confined_psp`: extraction and patching succeed on it -/
example : extractPSPEntry sampleImg (sampleLayout.expected sampleImg) 1 1 = .ok [0xDE, 0xAD, 0xBE, 0xEF] := by
  rw [c17_extract_complete_psp sampleImg _ 1 1 (Spec.pspTable samplePSP1) ⟨0x150, 48⟩ ⟨0x01, 2, 3, 4, 0x1B0⟩
    rfl (by decide) (by decide) (by decide)]
  rfl

example : ∃ out, patchPSPEntry sampleImg (sampleLayout.expected sampleImg) 1 1 [1, 2, 3, 4] = .ok out := by
  unfold patchPSPEntry
  rw [getPSPEntry_unique _ 1 1 (Spec.pspTable samplePSP1) ⟨0x150, 48⟩ ⟨0x01, 2, 3, 4, 0x1B0⟩ rfl (by decide)]
  simp only
  unfold patchEntry
  rw [if_neg (by decide), if_neg (by decide)]
  exact ⟨_, rfl⟩

/-- `c17_table_count_psp`, `c17_range_reparse_psp`: a byte string that parses -/
example : ∃ t, parsePSP (Img.ofBytes samplePSP1) = .ok (t, 48) ∧ t.total = 2 := by
  refine ⟨Spec.pspTable samplePSP1, parsePSP_of_spec _ samplePSP1 (by decide) (by decide) ⟨by decide, by decide⟩, by decide⟩

/-- `c17_key_bits`: a key that parses, is a PSBSignBIOS key, and has non-trivial attribute bits -/
example : ∃ k, newRootKey sampleKey = .ok k ∧ k.usage = psbSignBIOS ∧
    getPlatformBindingInfo k = .ok ⟨0x8D, 5, 0xA⟩ ∧ getSecurityFeatureVector k = .ok ⟨true, true, true⟩ := by
  have hk : newRootKey sampleKey = .ok ⟨1, List.replicate 16 0x11, List.replicate 16 0x11, 8,
      [0x8D, 0xA5, 0x00, 0x07] ++ List.replicate 12 0, 0, 0, [], []⟩ := by rfl
  obtain ⟨hu, h8, _⟩ := c17_key_bits sampleKey _ hk
  obtain ⟨a, b⟩ := h8 rfl
  refine ⟨_, hk, rfl, ?_, ?_⟩
  · rw [a]; congr 1
  · rw [b]; congr 1

/-- the specification is the Fletcher-32 of the published vectors (pkg/amd/manifest/checksum_test.go) -/
example : Spec.fletcher32 [0x61, 0x62, 0x63, 0x64, 0x65] = 0xF04FC729 ∧
    Spec.fletcher32 [0x61, 0x62, 0x63, 0x64, 0x65, 0x66] = 0x56502D2A ∧
    Spec.fletcher32 [0x61, 0x62, 0x63, 0x64, 0x65, 0x66, 0x67, 0x68] = 0xEBE19591 := by decide

end Fiano.Amd
