/-
  C11 — the DXE cleaner ends in a state that matches its report, whatever the boot test says.

  Property theorems only.  Model: Dxe/Model.lean (the code as repaired by fixes/C11-*.diff);
  specification vocabulary: Dxe/Spec.lean; lemmas: Dxe/Lemmas.lean, Dxe/CleanLemmas.lean.
  The refutation of C11 on the code *before* the repair is Dxe/Unfixed.lean
  (`Unfixed.c11_current_code_refuted` and one witness per defect).

  Every theorem is for every image (any number of volumes and files, any GUID multiplicities,
  PEIM / pad / other files carrying candidate GUIDs), every erase-polarity state `pg`, every
  candidate predicate `cand`, and every oracle — an arbitrary state machine `test : Oracle σ`
  that is shown the image (a scripted history is the instance `histOracle`).  No bound on
  sizes, rounds or history length.
-/
import FianoModel.Dxe.CleanLemmas
import FianoModel.Dxe.Tie
import FianoModel.Dxe.Unfixed

namespace Fiano.Dxe

variable {σ : Type}

/-! ## C11a — on return without error the image is the original minus exactly the report -/

/-- If `Run` returns nil (the loop ran to its end, or the user cancelled) the image left behind
    is the original image minus the reported removals, applied in the order reported:
    volume-wise, order of the remaining files preserved (every file with a removed GUID is gone,
    a PEIM among them replaced in place by a pad file). -/
theorem c11a_final_image_matches_report (pg : Option Nat) (cand : FileId → Bool) (test : Oracle σ)
    (os : σ) (orig : Image) (h : (clean pg cand test os orig).1 = .ok) :
    minusAll? pg orig (clean pg cand test os orig).2.removals = some (clean pg cand test os orig).2.img := by
  obtain ⟨inv, hcur⟩ := clean_inv pg cand test os orig
  rw [inv.rem, hcur h]
  exact endImg_minusAll pg _ orig inv.chain

/-- The same in the plain case (no PEIM file in the image): the final image is the original
    with exactly the files whose GUID is reported filtered out of every volume. -/
theorem c11a_final_image_is_filter (pg : Option Nat) (cand : FileId → Bool) (test : Oracle σ)
    (os : σ) (orig : Image) (hp : NoPeim orig) (h : (clean pg cand test os orig).1 = .ok) :
    (clean pg cand test os orig).2.img = filterOut (clean pg cand test os orig).2.removals orig := by
  have := c11a_final_image_matches_report pg cand test os orig h
  rw [minusAll?_noPeim pg _ orig hp] at this
  exact (Option.some.inj this).symm

/-! ## C11b — every reported removal was accepted by the oracle on exactly the image shown -/

/-- (Whatever the status of the run.)  The report is the list of candidates the oracle accepted,
    in order; the recorded answers are what the oracle, run from its initial state, answers on
    the recorded images; and the image on which an acceptance was given is exactly the original
    minus the removals reported up to and including that one. -/
theorem c11b_removals_accepted_on_image_shown (pg : Option Nat) (cand : FileId → Bool)
    (test : Oracle σ) (os : σ) (orig : Image) :
    let st := (clean pg cand test os orig).2
    st.removals = accGuids st.trace ∧
    runOracle test os (st.trace.map (·.shown)) = (st.trace.map (·.res), st.os) ∧
    ∀ pre e post, st.trace = pre ++ e :: post → verdict e.res = .accept →
      minusAll? pg orig (accGuids pre ++ [e.guid]) = some e.shown := by
  intro st
  obtain ⟨inv, _⟩ := clean_inv pg cand test os orig
  refine ⟨inv.rem, inv.orc, ?_⟩
  intro pre e post hsplit _
  have hc := inv.chain
  rw [show (clean pg cand test os orig).2.trace = pre ++ e :: post from hsplit] at hc
  obtain ⟨h1, h2, h3, _⟩ := TraceOK_split pg pre e post orig hc
  rw [minusAll?_append, endImg_minusAll pg pre orig h1, Option.bind_some, ← h2]
  exact h3

/-! ## C11c — a rejected removal is undone completely -/

/-- The repaired `Undo()` after `Remove.Run` restores every volume to its file list before the
    run (all volumes, order preserved) — also when the run failed half-way. -/
theorem c11c_undo_restores_every_volume (pg : Option Nat) (g : Nat) (img : Image) :
    applyUndo (removeAll pg g img).2.1 (removeAll pg g img).1 = img :=
  removeAll_undo pg g img

/-- `Remove.Run` succeeds exactly when "image minus g" exists, and then produces exactly it. -/
theorem c11c_remove_exact (pg : Option Nat) (g : Nat) (img : Image) :
    match minus? pg g img with
    | some r => (removeAll pg g img).1 = r ∧ (removeAll pg g img).2.2 = true
    | none => (removeAll pg g img).2.2 = false :=
  removeAll_spec pg g img

/-- In a run: a test that was not accepted (rejected or cancelled) was made on the original
    minus the removals accepted before it, and leaves the image exactly as it was before that
    candidate's removal — the next test starts from the same image, and if it was the last test
    of a run that returns nil, that is the final image. -/
theorem c11c_rejected_removal_is_undone (pg : Option Nat) (cand : FileId → Bool)
    (test : Oracle σ) (os : σ) (orig : Image) :
    let out := clean pg cand test os orig
    ∀ pre e post, out.2.trace = pre ++ e :: post → verdict e.res ≠ .accept →
      minusAll? pg orig (accGuids pre) = some e.base ∧
      minus? pg e.guid e.base = some e.shown ∧
      match post with
      | [] => out.1 = .ok → out.2.img = e.base
      | e' :: _ => e'.base = e.base := by
  intro out pre e post hsplit hna
  obtain ⟨inv, hcur⟩ := clean_inv pg cand test os orig
  have hc := inv.chain
  rw [show (clean pg cand test os orig).2.trace = pre ++ e :: post from hsplit] at hc
  obtain ⟨h1, h2, h3, h4⟩ := TraceOK_split pg pre e post orig hc
  refine ⟨by rw [endImg_minusAll pg pre orig h1, h2], h3, ?_⟩
  have haft : after e = e.base := by simp [after, hna]
  cases post with
  | nil =>
    intro hok
    have := hcur hok
    rw [show (clean pg cand test os orig).2.trace = pre ++ [e] from hsplit, endImg_append] at this
    rw [this, haft]
  | cons e' post' =>
    simp only
    rw [← haft]
    exact h4.1

/-! ## C11d — a monotone oracle gets everything outside the required set removed -/

/-- Monotone oracle (boots iff every required GUID is carried by a non-pad file), an image that
    boots, a valid erase polarity, at least one candidate: `Run` returns nil and reports exactly
    the candidates whose GUID is not required (in candidate order, duplicates kept: the second
    occurrence of an already removed GUID is "removed successfully" again). -/
theorem c11d_monotone_oracle (p : Nat) (cand : FileId → Bool) (req : List Nat) (orig : Image)
    (hboot : boots req orig = true) (hne : candidates cand orig ≠ []) :
    (clean (some p) cand (monoOracle req) () orig).1 = .ok ∧
    (clean (some p) cand (monoOracle req) () orig).2.removals =
      (candidates cand orig).filter (fun g => !req.contains g) := by
  unfold clean
  have hemp : (candidates cand orig).isEmpty = false := by
    cases h : candidates cand orig with
    | nil => exact absurd h hne
    | cons a l => rfl
  simp only [hemp, Bool.false_eq_true, if_false]
  obtain ⟨n, hn⟩ : ∃ n, (candidates cand orig).length + 1 = n + 2 := by
    cases h : candidates cand orig with
    | nil => exact absurd h hne
    | cons a l => exact ⟨l.length, by simp⟩
  rw [hn]
  have := rounds_mono p req n (candidates cand orig)
    { img := orig, os := (), removals := [], trace := [] } hboot
  simpa using this

/-- and therefore no candidate outside the required set is left in the image -/
theorem c11d_nothing_unrequired_left (p : Nat) (cand : FileId → Bool) (req : List Nat) (orig : Image)
    (hboot : boots req orig = true) (hne : candidates cand orig ≠ []) :
    ∀ f ∈ (clean (some p) cand (monoOracle req) () orig).2.img.flatten,
      f.kind ≠ .pad → f.guid ∈ candidates cand orig → f.guid ∈ req := by
  intro f hf hk hc
  obtain ⟨hok, hrem⟩ := c11d_monotone_oracle p cand req orig hboot hne
  have ha := c11a_final_image_matches_report (some p) cand (monoOracle req) () orig hok
  rw [hrem] at ha
  refine Classical.byContradiction fun hnr => ?_
  have hmem : f.guid ∈ (candidates cand orig).filter (fun g => !req.contains g) :=
    List.mem_filter.mpr ⟨hc, by simpa using hnr⟩
  exact minusAll?_removes (some p) _ orig _ ha f.guid hmem f hf hk rfl

/-! ## termination -/

/-- The round loop needs at most `n + 1` rounds for `n` candidates (every round that asks for
    another one has shortened the candidate list): the model's fuel is never exhausted. -/
theorem c11_terminates (pg : Option Nat) (cand : FileId → Bool) (test : Oracle σ) (os : σ)
    (orig : Image) : (clean pg cand test os orig).1 ≠ .fuel :=
  clean_fuel pg cand test os orig

/-! ## non-vacuity: the hypotheses are inhabited by non-trivial runs -/

section Examples
open Unfixed (drv rej acc cancel isDriver imgDup)

def peimFile (g t : Nat) : FileId := { guid := g, tag := t, kind := .peim }

/-- GUID 11 in both volumes (once as a PEIM), GUID 12 once -/
def imgMixed : Image := [[drv 11 0, drv 10 1], [peimFile 11 2, drv 12 3]]

/-- a run with an acceptance, rejections and a duplicate GUID returns nil, removes GUID 11 from
    both volumes (the PEIM becomes a pad file) -/
example :
    (clean (some 0) isDriver histOracle [acc, rej, rej] imgMixed).1 = .ok ∧
    (clean (some 0) isDriver histOracle [acc, rej, rej] imgMixed).2.removals = [11] ∧
    (clean (some 0) isDriver histOracle [acc, rej, rej] imgMixed).2.img =
      [[drv 10 1], [padOf 0 (peimFile 11 2), drv 12 3]] := by decide

/-- a cancelled run returns nil (the hypothesis of C11a) with the image restored -/
example :
    (clean (some 0) isDriver histOracle [rej, cancel] imgDup).1 = .ok ∧
    (clean (some 0) isDriver histOracle [rej, cancel] imgDup).2.img = imgDup := by decide

/-- the four defect inputs of DESIGN.md §8 on the repaired model -/
example : (clean (some 0) isDriver histOracle [] imgDup).2.img = imgDup := by decide
example : (clean (some 0) isDriver histOracle [acc, rej] imgDup).1 = .ok := by decide
example : (clean (some 0) isDriver histOracle [] Unfixed.imgLast).2.img = Unfixed.imgLast := by decide
example : (clean (some 0) isDriver histOracle [cancel] Unfixed.imgTwo).2.img = Unfixed.imgTwo := by decide

/-- C11d's hypotheses hold for a non-trivial required set, and the conclusion is not empty -/
example : boots [10] imgMixed = true ∧ candidates isDriver imgMixed ≠ [] ∧
    (clean (some 0) isDriver (monoOracle [10]) () imgMixed).2.removals = [11, 12] := by decide

/-- `NoPeim` is satisfiable by an image with duplicate GUIDs -/
example : NoPeim imgDup := by unfold NoPeim; decide

end Examples

end Fiano.Dxe
