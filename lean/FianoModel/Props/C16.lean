/-
  C16 — Integrity verdicts are sound: success only on the signed or hashed bytes.

  Theorems about the executable model `FianoModel/Crypto/{Cbnt,Psb}.lean` (the logic around the
  primitives in pkg/intel/metadata/{cbnt,bg} and pkg/amd/psb, as repaired by fixes/C16-*.diff).
  Hash functions and signature primitives are parameters (`Prims`, `Signers`); what is assumed of
  them appears as the explicit hypotheses `LawfulHash P` and `S.Lawful P` (both inhabited by the
  toy instance, see the examples at the end).  All statements are about every byte string, every
  structure and every key — no size bound.

  FULL STATEMENT of the property, first half: "changing any bit of the covered data, of the
  signature or of the public key, or presenting a different key, yields an error".
  This is NOT a theorem about fiano: it is collision / forgery resistance of SHA-2, SM3, RSA-PSS and
  RSASSA.  What is proved instead (the `…_partial` theorems) is the exact reduction: the verdict is a
  function of (decoded key, named hash of exactly the covered bytes, signature bytes); the key decode
  is injective at a fixed length; therefore an undetected mutation of covered data is a hash collision
  or a signature valid for two digests, and an undetected mutation of key bytes is a signature valid
  under two different keys.  The remaining, cryptographic part is exercised by the harness' single-bit
  mutation sweeps on the real primitives only (checks.d/C16.json `unproved`).
-/
import FianoModel.Crypto.Tie
import FianoModel.Crypto.CbntLemmas
import FianoModel.Crypto.PsbLemmas

namespace Fiano.Props.C16
open Fiano Fiano.Crypto

/-! ## 1. CBnT / Boot Guard key-signature verification -/

/-- **verify_bound.** `KeySignature.Verify` succeeds iff the structure names an RSA scheme, an RSA key
    whose data has the announced length, SHA256 or SHA384 — and the primitive accepts
    (key decoded from the LE fields, the *named* hash of exactly `d`, the signature bytes). -/
theorem verify_bound (P : Prims) (ks : Cbnt.KeySignature) (d : Bytes) :
    Cbnt.verify P ks d = .ok () ↔
      ∃ sch, Cbnt.rsaSchemeOf ks.sig.sigScheme = some sch ∧
        ks.key.keyAlg = Cbnt.algRSA ∧ ks.key.data.length = ks.key.keySize / 8 + 4 ∧
        (ks.sig.hashAlg = Cbnt.algSHA256 ∨ ks.sig.hashAlg = Cbnt.algSHA384) ∧
        P.rsaVerify sch ks.sig.hashAlg (Cbnt.decodeRSA ks.key.data) (P.hash ks.sig.hashAlg d) ks.sig.data = true :=
  Cbnt.verify_ok_iff P ks d

/-- The verdict is a function of exactly (scheme, key algorithm, key size in bytes, key bytes, named
    hash, signature bytes, data): the three version fields, the informational `Signature.KeySize`
    and the low three bits of `Key.KeySize` have no influence. -/
theorem verify_noninterference (P : Prims) (ks ks' : Cbnt.KeySignature) (d : Bytes)
    (h1 : ks.sig.sigScheme = ks'.sig.sigScheme) (h2 : ks.key.keyAlg = ks'.key.keyAlg)
    (h3 : ks.key.keySize / 8 = ks'.key.keySize / 8) (h4 : ks.key.data = ks'.key.data)
    (h5 : ks.sig.hashAlg = ks'.sig.hashAlg) (h6 : ks.sig.data = ks'.sig.data) :
    Cbnt.verify P ks d = .ok () ↔ Cbnt.verify P ks' d = .ok () := by
  rw [verify_bound, verify_bound, h1, h2, h3, h4, h5, h6]

/-- Boot Guard 1.0: RSASSA over SHA256, whatever hash the structure names. -/
theorem bg_verify_bound (P : Prims) (ks : Cbnt.KeySignature) (d : Bytes) :
    Cbnt.Bg.verify P ks d = .ok () ↔
      ks.sig.sigScheme = Cbnt.algRSASSA ∧ ks.key.keyAlg = Cbnt.algRSA ∧
      ks.key.data.length = ks.key.keySize / 8 + 4 ∧
      P.rsaVerify .pkcs1v15 Cbnt.algSHA256 (Cbnt.decodeRSA ks.key.data) (P.hash Cbnt.algSHA256 d) ks.sig.data = true :=
  Cbnt.bg_verify_ok_iff P ks d

/-- ECDSA and SM2 structures never verify (fiano: "not implemented, yet"): no false success. -/
theorem verify_ecc_never_ok (P : Prims) (ks : Cbnt.KeySignature) (d : Bytes)
    (h : ks.sig.sigScheme = Cbnt.algECDSA ∨ ks.sig.sigScheme = Cbnt.algSM2) : Cbnt.verify P ks d ≠ .ok () := by
  intro hv
  obtain ⟨sch, hs, _⟩ := (verify_bound P ks d).mp hv
  have e1 : Cbnt.rsaSchemeOf Cbnt.algECDSA = none := by decide
  have e2 : Cbnt.rsaSchemeOf Cbnt.algSM2 = none := by decide
  rcases h with h | h <;> rw [h] at hs
  · rw [e1] at hs; cases hs
  · rw [e2] at hs; cases hs

/-! ## 2. key decode: different key bytes give a different key -/

/-- **decodeKey_injective** (RSA: LE uint32 exponent ‖ LE modulus). -/
theorem decodeKey_injective_rsa (a b : Bytes) (hl : a.length = b.length)
    (h : Cbnt.decodeRSA a = Cbnt.decodeRSA b) : a = b := Cbnt.decodeRSA_inj hl h

/-- **decodeKey_injective** (ECC / SM2: LE x ‖ LE y, each `w` bytes). -/
theorem decodeKey_injective_ec (w : Nat) (a b : Bytes) (hl : a.length = b.length)
    (h : Cbnt.decodeEC w a = Cbnt.decodeEC w b) : a = b := Cbnt.decodeEC_inj w hl h

/-- **decodeKey_injective** (AMD PSB keys: LE exponent and LE modulus fields; `Key.Get` as repaired
    rejects an exponent that does not fit instead of dropping its upper bytes). -/
theorem decodeKey_injective_psb (k k' : Psb.Key) (pk : RSAPub) (he : k.exponent.length = k'.exponent.length)
    (hm : k.modulus.length = k'.modulus.length) (h : Psb.keyGet k = .ok pk) (h' : Psb.keyGet k' = .ok pk) :
    k.exponent = k'.exponent ∧ k.modulus = k'.modulus := Psb.keyGet_inj k k' pk he hm h h'

/-- Reduction, data: if a verdict survives a change of the covered data, the primitives were beaten —
    either the named hash collides on the two inputs, or one signature is valid for two digests. -/
theorem data_mutation_partial (P : Prims) (ks : Cbnt.KeySignature) (d d' : Bytes)
    (h : Cbnt.verify P ks d = .ok ()) (h' : Cbnt.verify P ks d' = .ok ()) :
    P.hash ks.sig.hashAlg d = P.hash ks.sig.hashAlg d' ∨
    ∃ sch g g', g ≠ g' ∧ P.rsaVerify sch ks.sig.hashAlg (Cbnt.decodeRSA ks.key.data) g ks.sig.data = true ∧
      P.rsaVerify sch ks.sig.hashAlg (Cbnt.decodeRSA ks.key.data) g' ks.sig.data = true := by
  obtain ⟨sch, hs, _, _, _, hv⟩ := (verify_bound P ks d).mp h
  obtain ⟨sch', hs', _, _, _, hv'⟩ := (verify_bound P ks d').mp h'
  rw [hs] at hs'; cases hs'
  by_cases e : P.hash ks.sig.hashAlg d = P.hash ks.sig.hashAlg d'
  · exact .inl e
  · exact .inr ⟨sch, _, _, e, hv, hv'⟩

/-- Reduction, key: if a verdict survives a change of key bytes (same length), one signature is valid
    under two different RSA keys. -/
theorem key_mutation_partial (P : Prims) (ks ks' : Cbnt.KeySignature) (d : Bytes)
    (hsig : ks.sig = ks'.sig) (hl : ks.key.data.length = ks'.key.data.length) (hne : ks.key.data ≠ ks'.key.data)
    (h : Cbnt.verify P ks d = .ok ()) (h' : Cbnt.verify P ks' d = .ok ()) :
    ∃ sch k k', k ≠ k' ∧ P.rsaVerify sch ks.sig.hashAlg k (P.hash ks.sig.hashAlg d) ks.sig.data = true ∧
      P.rsaVerify sch ks.sig.hashAlg k' (P.hash ks.sig.hashAlg d) ks.sig.data = true := by
  obtain ⟨sch, hs, _, _, _, hv⟩ := (verify_bound P ks d).mp h
  obtain ⟨sch', hs', _, _, _, hv'⟩ := (verify_bound P ks' d).mp h'
  rw [← hsig, hs] at hs'; cases hs'
  rw [← hsig] at hv'
  exact ⟨sch, _, _, fun e => hne (Cbnt.decodeRSA_inj hl e), hv, hv'⟩

/-! ## 3. fixed-width (r, s) -/

/-- **rs_fixed_width.** `r ‖ s` on `w` bytes each decodes to `(r, s)` whenever both fit. -/
theorem rs_fixed_width (w r s : Nat) (hr : r < 2 ^ (8 * w)) (hs : s < 2 ^ (8 * w)) :
    Cbnt.decodeRS (Cbnt.encodeRS w r s) = (r, s) := by
  have e : (256 : Nat) ^ w = 2 ^ (8 * w) := by rw [show (256 : Nat) = 2 ^ 8 from rfl, ← Nat.pow_mul]
  exact Cbnt.decodeRS_encodeRS w r s (by omega) (by omega)

/-- `SetSignatureByData` (repaired) stores every ECDSA pair below 2^384 — leading zeros included — on
    2·32 bytes (2·48 if a component needs more than 256 bits), and `SignatureData` reads it back. -/
theorem rs_stored_fixed_width (m : Cbnt.Signature) (r s hashAlgo : Nat) (hr : r < 2 ^ 384) (hs : s < 2 ^ 384) :
    ∃ m', Cbnt.setSignatureByData m (.ecdsa r s) hashAlgo = .ok m' ∧
      (m'.data.length = 64 ∨ m'.data.length = 96) ∧
      (r < 2 ^ 256 → s < 2 ^ 256 → m'.data.length = 64) ∧
      Cbnt.signatureData m' = .ok (.ecdsa r s) := by
  have h1 : ¬ Cbnt.algECDSA = Cbnt.algRSAPSS := by decide
  have h2 : ¬ Cbnt.algECDSA = Cbnt.algRSASSA := by decide
  rcases Cbnt.rsWidth_cases r s ⟨hr, hs⟩ with ⟨hw, a, b⟩ | ⟨hw, a, b⟩
  · refine ⟨_, by simp only [Cbnt.setSignatureByData, Cbnt.signatureBytes, hw]; rfl, ?_, ?_, ?_⟩
    · left; simp [Cbnt.encodeRS_length]
    · intro _ _; simp [Cbnt.encodeRS_length]
    · simp only [Cbnt.signatureData, Cbnt.schemeOf, h1, h2, if_false, if_true, Cbnt.encodeRS_length,
        Cbnt.decodeRS_encodeRS 32 r s a b]
      simp
  · refine ⟨_, by simp only [Cbnt.setSignatureByData, Cbnt.signatureBytes, hw]; rfl, ?_, ?_, ?_⟩
    · right; simp [Cbnt.encodeRS_length]
    · intro c d
      exfalso
      have : Cbnt.rsWidth r s = some 32 := Cbnt.rsWidth_256 r s c d
      rw [hw] at this; cases this
    · simp only [Cbnt.signatureData, Cbnt.schemeOf, h1, h2, if_false, if_true, Cbnt.encodeRS_length,
        Cbnt.decodeRS_encodeRS 48 r s a b]
      simp

/-! ## 4. signing: what the library signs verifies -/

/-- **sign_verify** (RSA). For every RSA key (modulus below 2^65536, exponent below 2^32), RSASSA or
    RSAPSS — named or auto-detected — and a requested hash that is null, SHA256 or SHA384:
    `SetSignature` succeeds and `Verify` accepts its result over the same data.  The hash used for
    the digest is the hash recorded (fixes/C16-sign-recorded-hash.diff made that so). -/
theorem sign_verify (P : Prims) (S : Signers) (L : S.Lawful P) (hH : LawfulHash P)
    (ks : Cbnt.KeySignature) (signAlgo hashAlgo : Alg) (sk : S.RSAPriv) (rnd data : Bytes)
    (he : (S.rsaPub sk).e < 2 ^ 32) (hn : Cbnt.byteLen (S.rsaPub sk).n < 8192)
    (sch : RSAScheme) (hs : Cbnt.rsaSchemeOf (Cbnt.detectScheme S signAlgo (.rsa sk)) = some sch)
    (hh : Cbnt.rsaHashOK (Cbnt.recordedHash (Cbnt.detectScheme S signAlgo (.rsa sk)) hashAlgo) = true) :
    ∃ ks', Cbnt.setSignature P S ks signAlgo hashAlgo (.rsa sk) rnd data = .ok ks' ∧
      Cbnt.verify P ks' data = .ok () :=
  Cbnt.setSignature_rsa_verify P S L hH ks signAlgo hashAlgo sk rnd data he hn sch hs hh

/-- **hash used = hash recorded** (RSA): the stored signature is the primitive's signature over the
    digest of exactly the hash algorithm that `SetSignature` records in the structure. -/
theorem sign_uses_recorded_hash (P : Prims) (S : Signers)
    (ks : Cbnt.KeySignature) (signAlgo hashAlgo : Alg) (sk : S.RSAPriv) (rnd data : Bytes)
    (sch : RSAScheme) (hs : Cbnt.rsaSchemeOf (Cbnt.detectScheme S signAlgo (.rsa sk)) = some sch)
    (hh : Cbnt.rsaHashOK (Cbnt.recordedHash (Cbnt.detectScheme S signAlgo (.rsa sk)) hashAlgo) = true) :
    ∃ ks', Cbnt.setSignature P S ks signAlgo hashAlgo (.rsa sk) rnd data = .ok ks' ∧
      Cbnt.rsaSchemeOf ks'.sig.sigScheme = some sch ∧
      ks'.sig.data = S.rsaSign sch ks'.sig.hashAlg sk rnd (P.hash ks'.sig.hashAlg data) :=
  Cbnt.setSignature_rsa_recorded P S ks signAlgo hashAlgo sk rnd data sch hs hh

/-- Boot Guard 1.0 signing (RSASSA / SHA256) verifies. -/
theorem bg_sign_verify (P : Prims) (S : Signers) (L : S.Lawful P) (hH : LawfulHash P)
    (ks : Cbnt.KeySignature) (signAlgo : Alg) (sk : S.RSAPriv) (rnd data : Bytes)
    (he : (S.rsaPub sk).e < 2 ^ 32) (hn : Cbnt.byteLen (S.rsaPub sk).n < 8192)
    (hs : signAlgo = 0 ∨ signAlgo = Cbnt.algRSASSA) :
    ∃ ks', Cbnt.Bg.setSignature P S ks signAlgo sk rnd data = .ok ks' ∧ Cbnt.Bg.verify P ks' data = .ok () :=
  Cbnt.bg_setSignature_verify P S L hH ks signAlgo sk rnd data he hn hs

/-- ECDSA: signing succeeds for every key with coordinates below 2^256 and every supported hash; the
    stored signature is 2·32 bytes, decodes to what the signer produced over the digest of the
    *recorded* hash, verifies under the standard algorithm; the stored key decodes to the signer's. -/
theorem sign_stored_ecdsa (P : Prims) (S : Signers) (L : S.Lawful P)
    (ks : Cbnt.KeySignature) (signAlgo hashAlgo : Alg) (sk : S.ECPriv) (rnd data : Bytes)
    (hx : (S.ecPub sk).x < 2 ^ 256) (hy : (S.ecPub sk).y < 2 ^ 256)
    (hs : signAlgo = 0 ∨ signAlgo = Cbnt.algECDSA)
    (hh : Cbnt.hashSupported (Cbnt.recordedHash Cbnt.algECDSA hashAlgo) = true) :
    ∃ ks', Cbnt.setSignature P S ks signAlgo hashAlgo (.ecdsa sk) rnd data = .ok ks' ∧
      ks'.sig.hashAlg = Cbnt.recordedHash Cbnt.algECDSA hashAlgo ∧
      ks'.sig.data.length = 64 ∧
      Cbnt.signatureData ks'.sig = .ok (.ecdsa (S.ecSign sk rnd (P.hash ks'.sig.hashAlg data)).1
                                                (S.ecSign sk rnd (P.hash ks'.sig.hashAlg data)).2) ∧
      S.ecVerify (S.ecPub sk) (P.hash ks'.sig.hashAlg data) (S.ecSign sk rnd (P.hash ks'.sig.hashAlg data)).1
          (S.ecSign sk rnd (P.hash ks'.sig.hashAlg data)).2 = true ∧
      Cbnt.pubKey ks'.key = .ok (.ecc (S.ecPub sk)) :=
  Cbnt.setSignature_ecdsa_stored P S L ks signAlgo hashAlgo sk rnd data hx hy hs hh

/-- SM2: the same for `sm2.Sm2Sign` over the message. -/
theorem sign_stored_sm2 (P : Prims) (S : Signers) (L : S.Lawful P)
    (ks : Cbnt.KeySignature) (signAlgo hashAlgo : Alg) (sk : S.SM2Priv) (rnd data : Bytes)
    (hx : (S.sm2Pub sk).x < 2 ^ 256) (hy : (S.sm2Pub sk).y < 2 ^ 256)
    (hs : signAlgo = 0 ∨ signAlgo = Cbnt.algSM2) :
    ∃ ks', Cbnt.setSignature P S ks signAlgo hashAlgo (.sm2 sk) rnd data = .ok ks' ∧
      ks'.sig.hashAlg = Cbnt.recordedHash Cbnt.algSM2 hashAlgo ∧
      ks'.sig.data.length = 64 ∧
      Cbnt.signatureData ks'.sig = .ok (.sm2 (S.sm2Sign sk rnd data).1 (S.sm2Sign sk rnd data).2) ∧
      S.sm2Verify (S.sm2Pub sk) data (S.sm2Sign sk rnd data).1 (S.sm2Sign sk rnd data).2 = true ∧
      Cbnt.pubKey ks'.key = .ok (.sm2 (S.sm2Pub sk)) :=
  Cbnt.setSignature_sm2_stored P S L ks signAlgo hashAlgo sk rnd data hx hy hs

/-! ## 5. BPM key hash against the key manifest -/

/-- `ValidateBPMKey` succeeds iff some digest carries the BPM usage bit and every such digest is the
    named (supported) hash of the RSA key's modulus bytes `Data[4:]`. -/
theorem bpmkey_bound (P : Prims) (hH : LawfulHash P) (hs : List Cbnt.KMHash) (key : Cbnt.Key) :
    Cbnt.validateBPMKey P hs key = .ok () ↔
      (∃ h ∈ hs, Cbnt.usageBPM h.usage = true) ∧
      ∀ h ∈ hs, Cbnt.usageBPM h.usage = true →
        Cbnt.hashSupported h.hashAlg = true ∧ key.keyAlg = Cbnt.algRSA ∧ 4 ≤ key.data.length ∧
        h.buf = P.hash h.hashAlg (key.data.drop 4) :=
  Cbnt.validateBPMKey_ok_iff P hH hs key

/-- **noninterference** (BPM key): the verdict depends on the key only through its algorithm and the
    modulus bytes — the exponent field `Data[:4]`, `KeySize` and `Version` are not covered (the KM
    digest of the BPM key is over the modulus only); digests of other usages are not consulted. -/
theorem bpmkey_noninterference (P : Prims) (hH : LawfulHash P) (hs hs' : List Cbnt.KMHash) (key key' : Cbnt.Key)
    (ha : key.keyAlg = key'.keyAlg) (hd : key.data.drop 4 = key'.data.drop 4) (hl : key.data.length = key'.data.length)
    (hf : hs.filter (fun h => Cbnt.usageBPM h.usage) = hs'.filter (fun h => Cbnt.usageBPM h.usage)) :
    Cbnt.validateBPMKey P hs key = .ok () ↔ Cbnt.validateBPMKey P hs' key' = .ok () := by
  have hm : ∀ (l : List Cbnt.KMHash) (p : Cbnt.KMHash → Prop),
      (∀ h ∈ l, Cbnt.usageBPM h.usage = true → p h) ↔ ∀ h ∈ l.filter (fun h => Cbnt.usageBPM h.usage), p h := by
    intro l p
    simp only [List.mem_filter]
    constructor
    · intro f h ⟨a, b⟩; exact f h a b
    · intro f h a b; exact f h ⟨a, b⟩
  have he : ∀ (l : List Cbnt.KMHash),
      (∃ h ∈ l, Cbnt.usageBPM h.usage = true) ↔ ∃ h, h ∈ l.filter (fun h => Cbnt.usageBPM h.usage) := by
    intro l
    simp only [List.mem_filter]
  rw [bpmkey_bound P hH, bpmkey_bound P hH, he, he, hm, hm, hf, ha, hd, hl]

/-! ## 6. IBB digest -/

/-- `ValidateIBB` succeeds iff the first digest of SE[0] names a supported hash, every selected
    segment lies inside the image, and that hash of the concatenated segments equals the digest. -/
theorem ibb_bound (P : Prims) (supported : Alg → Bool) (digest : Option (Alg × Bytes))
    (segs : List Cbnt.IBBSegment) (fw : Bytes) :
    Cbnt.validateIBB P supported digest segs fw = .ok () ↔
      ∃ alg buf, digest = some (alg, buf) ∧ supported alg = true ∧
        (Cbnt.ibbRanges segs fw.length).all (Cbnt.rangeOK fw.length) = true ∧
        P.hash alg (Cbnt.gather fw (Cbnt.ibbRanges segs fw.length)) = buf :=
  Cbnt.validateIBB_ok_iff P supported digest segs fw

/-- **noninterference** (IBB, cbnt and bg): two images of the same size that agree on the IBB ranges
    get the same outcome (success, error or run-time panic alike). -/
theorem ibb_noninterference (P : Prims) (supported : Alg → Bool) (digest : Option (Alg × Bytes))
    (segs : List Cbnt.IBBSegment) (fw fw' : Bytes)
    (h : AgreeOn (InRanges (Cbnt.ibbRanges segs fw.length)) fw fw') :
    Cbnt.validateIBB P supported digest segs fw = Cbnt.validateIBB P supported digest segs fw' :=
  Cbnt.validateIBB_agree P supported digest segs fw fw' h

/-- segments with the non-hashed flag (bit 0) are not covered -/
theorem ibb_ranges_skip_flagged (segs : List Cbnt.IBBSegment) (n : Nat) :
    (Cbnt.ibbRanges segs n).length = (segs.filter (fun s => s.flags % 2 ≠ 1)).length := by
  induction segs with
  | nil => rfl
  | cons s rest ih =>
    by_cases h : s.flags % 2 = 1
    · simp only [Cbnt.ibbRanges, List.filterMap_cons, h, if_true, List.filter_cons, ne_eq, not_true_eq_false,
        decide_false, Bool.false_eq_true, if_false] at ih ⊢
      exact ih
    · simp only [Cbnt.ibbRanges, List.filterMap_cons, h, if_false, List.filter_cons, ne_eq, not_false_eq_true,
        decide_true, if_true, List.length_cons] at ih ⊢
      rw [ih]

/-! ## 7. AMD PSB -/

/-- `NewSignedBlob` succeeds iff the key decodes and RSA-PSS accepts the signature over the SHA-384
    (4096-bit modulus) or SHA-256 (2048-bit modulus) digest of exactly the signed data. -/
theorem psb_signedblob_bound (P : Prims) (sig data : Bytes) (key : Psb.Key) :
    Psb.newSignedBlob P sig data key = .ok () ↔
      ∃ pk, Psb.keyGet key = .ok pk ∧
        ((Psb.modBytes pk.n = 512 ∧ P.rsaVerify .pss Psb.algSHA384 pk (P.hash Psb.algSHA384 data) sig = true) ∨
         (Psb.modBytes pk.n = 256 ∧ P.rsaVerify .pss Psb.algSHA256 pk (P.hash Psb.algSHA256 data) sig = true)) :=
  Psb.newSignedBlob_ok_iff P sig data key

/-- The ranges `getSignedBlob` derives with its uint32 arithmetic (wrap-around modelled) are well
    formed whenever it accepts them: the signing key is the one named in the header, with equal
    exponent / modulus sizes; the signed data `[0, signedEnd)` contains the whole 0x100-byte header
    and lies in the binary; so does the signature, whose length is the modulus size. -/
theorem psb_blob_ranges_wf (h : Psb.Header) (ks : Psb.KeySet) (len : Nat) (r : Psb.BlobRanges)
    (hWT : h.sizeImage < 2 ^ 32) (hr : Psb.blobRanges h ks len = .ok r) :
    ks.getKey h.sigParams = some r.key ∧ r.key.modSize = r.key.expSize ∧ r.sigLen = r.key.modSize / 8 ∧
    Psb.pspHeaderSize < r.signedEnd ∧ r.signedEnd ≤ len ∧ r.sigStart + r.sigLen ≤ len :=
  Psb.blobRanges_wf h ks len r hWT hr

/-- **noninterference** (PSP binary): two binaries of the same length that agree on the header and —
    when ranges are derived — on the signed data and on the signature get the same outcome. -/
theorem psb_blob_noninterference (P : Prims) (raw raw' : Bytes) (ks : Psb.KeySet)
    (h : AgreeOn (Psb.blobCovered raw ks) raw raw') : Psb.getSignedBlob P raw ks = Psb.getSignedBlob P raw' ks :=
  Psb.getSignedBlob_agree P raw raw' ks h

/-- **noninterference** (`ValidatePSPEntry`): bytes of the image outside the entry, and inside the
    entry outside header / signed data / signature, have no influence. -/
theorem psb_entry_noninterference (P : Prims) (img img' : Bytes) (ks : Psb.KeySet) (off len : Nat)
    (h : AgreeOn (Psb.entryCovered img ks off len) img img') :
    Psb.validatePSPEntry P img ks off len = Psb.validatePSPEntry P img' ks off len :=
  Psb.validatePSPEntry_agree P img img' ks off len h

/-- **noninterference** (token key): bytes after the signature that follows the key material, and
    beyond the signed prefix, have no influence. -/
theorem psb_token_noninterference (P : Prims) (raw raw' : Bytes) (ks : Psb.KeySet)
    (h : AgreeOn (Psb.tokenCovered raw ks) raw raw') : Psb.newTokenKey P raw ks = Psb.newTokenKey P raw' ks :=
  Psb.newTokenKey_agree P raw raw' ks h

/-- `NewTokenKey` (repaired) accepts exactly the tokens whose certifying key is in the key set and
    whose signature — stored reversed behind the key material — that key accepts over the key
    material `raw[:n]` (header ‖ exponent ‖ modulus as parsed). -/
theorem psb_token_bound (P : Prims) (raw : Bytes) (ks : Psb.KeySet) (k : Psb.Key) :
    Psb.newTokenKey P raw ks = .ok k ↔
      ∃ n sk, Psb.parseKey raw = .ok (k, n) ∧ ks.getKey k.certID = some sk ∧ Psb.checkValid sk = true ∧
        n + sk.modulus.length ≤ raw.length ∧
        Psb.newSignedBlob P (slice raw n sk.modulus.length).reverse (raw.take n) sk = .ok () :=
  Psb.newTokenKey_ok_iff P raw ks k

/-- The key an accepted token yields is a function of the signed prefix alone: parsing `raw[:n]`
    gives the same key.  (Before fixes/C16-token-signed-length.diff the signed length was
    `64 + 2·ModulusSize/8`; with an exponent field longer than the modulus the tail of the modulus
    was not signed — corpus case 30.) -/
theorem psb_token_key_signed (raw : Bytes) (k : Psb.Key) (n : Nat) (hk : Psb.parseKey raw = .ok (k, n)) :
    Psb.parseKey (raw.take n) = .ok (k, n) :=
  Psb.parseKey_take raw k n hk

/-- `ValidateRTM`, when its in-place `append` does not overwrite what it reads afterwards: the verdict
    is `NewSignedBlob(reverse(signature entry), volume ‖ [level-1 directory] ‖ directory, OEM key)`. -/
theorem psb_rtm_bound (P : Prims) (img : Bytes) (level : Nat) (rtm sig dir1 dirL : Nat × Nat) (oem : Psb.Key)
    (hna : Psb.NoAlias level rtm sig dir1 dirL) (v : Except Psb.Err Unit) (img' : Bytes)
    (h : Psb.validateRTM P img level rtm sig dir1 dirL oem = some (v, img')) :
    v = Psb.newSignedBlob P (slice img sig.1 sig.2).reverse (Psb.rtmSigned img level rtm dir1 dirL) oem :=
  Psb.validateRTM_noalias P img level rtm sig dir1 dirL oem hna v img' h

/-- **noninterference** (RTM volume), under the same no-aliasing hypothesis: images that agree on the
    volume, the concatenated directories and the signature entry get the same verdict. -/
theorem psb_rtm_noninterference (P : Prims) (img img' : Bytes) (level : Nat) (rtm sig dir1 dirL : Nat × Nat)
    (oem : Psb.Key) (hna : Psb.NoAlias level rtm sig dir1 dirL)
    (h : AgreeOn (Psb.rtmCovered level rtm sig dir1 dirL) img img') :
    (Psb.validateRTM P img level rtm sig dir1 dirL oem).map Prod.fst =
    (Psb.validateRTM P img' level rtm sig dir1 dirL oem).map Prod.fst :=
  Psb.validateRTM_agree P img img' level rtm sig dir1 dirL oem hna h

/-- The key-database loop never runs out of fuel: every fuel above the length gives the same result
    (each accepted entry consumes at least 80 bytes). -/
theorem psb_keydb_fuel (db : Bytes) (ks : Psb.KeySet) (fuel : Nat) (h : db.length < fuel) :
    Psb.parseKeyDatabase db ks = if db.length < 80 then .error .format else Psb.dbLoop fuel (db.drop 80) ks :=
  Psb.parseKeyDatabase_never_out_of_fuel db ks fuel h

/-! ## non-vacuity: the hypotheses above are inhabited -/

/-- the assumed laws hold for the toy primitives -/
example : LawfulHash Toy.prims := Toy.hash_lawful
example : Toy.signers.Lawful Toy.prims := Toy.signers_lawful

/-- `sign_verify` applies: RSASSA with the default hash and a (toy) key `n = 0x0301, e = 65537` -/
example : ∃ ks', Cbnt.setSignature Toy.prims Toy.signers default Cbnt.algRSASSA 0
      (.rsa (show Toy.signers.RSAPriv from ({ n := 0x0301, e := 65537 } : RSAPub))) [] [1, 2, 3] = .ok ks' ∧
    Cbnt.verify Toy.prims ks' [1, 2, 3] = .ok () :=
  sign_verify Toy.prims Toy.signers Toy.signers_lawful Toy.hash_lawful default Cbnt.algRSASSA 0 _ [] [1, 2, 3]
    (by decide) (by decide) .pkcs1v15 (by decide) (by decide)

/-- … and RSAPSS with SHA256 requested -/
example : ∃ ks', Cbnt.setSignature Toy.prims Toy.signers default Cbnt.algRSAPSS Cbnt.algSHA256
      (.rsa (show Toy.signers.RSAPriv from ({ n := 0x0301, e := 3 } : RSAPub))) [] [] = .ok ks' ∧
    Cbnt.verify Toy.prims ks' [] = .ok () :=
  sign_verify Toy.prims Toy.signers Toy.signers_lawful Toy.hash_lawful default Cbnt.algRSAPSS Cbnt.algSHA256 _ [] []
    (by decide) (by decide) .pss (by decide) (by decide)

/-- `sign_stored_ecdsa` applies with the default hash (SHA512) -/
example : ∃ ks', Cbnt.setSignature Toy.prims Toy.signers default 0 0
      (.ecdsa (show Toy.signers.ECPriv from ({ x := 5, y := 7 } : ECPub))) [] [9] = .ok ks' ∧ ks'.sig.data.length = 64 := by
  obtain ⟨ks', h, _, hl, _⟩ := sign_stored_ecdsa Toy.prims Toy.signers Toy.signers_lawful default 0 0
    (show Toy.signers.ECPriv from ({ x := 5, y := 7 } : ECPub)) [] [9] (by decide) (by decide) (.inl rfl) (by decide)
  exact ⟨ks', h, hl⟩

/-- `AgreeOn` is not equality: two different images that agree on the IBB range `[1, 3)` -/
example : AgreeOn (InRanges [(1, 2)]) [0, 1, 2, 3] [9, 1, 2, 7] ∧ ([0, 1, 2, 3] : Bytes) ≠ [9, 1, 2, 7] := by
  refine ⟨⟨rfl, ?_⟩, by decide⟩
  rintro i ⟨r, hr, h1, h2⟩
  simp only [List.mem_singleton] at hr
  subst hr
  have : i = 1 ∨ i = 2 := by simp only at h1 h2; omega
  rcases this with rfl | rfl <;> rfl

/-- `NoAlias` holds for a layout with the signature and the directory before the volume -/
example : Psb.NoAlias 1 (400, 100) (100, 256) (0, 0) (10, 88) := by
  unfold Psb.NoAlias; decide

/-- … and fails for a signature placed right behind the volume (the case `ValidateRTM` gets wrong:
    its `append` overwrites the signature before it is read) -/
example : ¬ Psb.NoAlias 1 (400, 100) (500, 256) (0, 0) (10, 88) := by
  unfold Psb.NoAlias; decide

/-- `psb_blob_ranges_wf` applies: an uncompressed binary of 0x100 + 16 signed bytes, signature of a
    2048-bit key right behind -/
example : ∃ r, Psb.blobRanges
      ({ sizeSigned := 16, sigParams := [1], compressionOpts := 0, compressedSize := 0, sizeImage := 528 } : Psb.Header)
      [(.amdRoot, ({ versionID := 1, keyID := [1], certID := [1], usage := 0, reserved := [], expSize := 2048,
                     modSize := 2048, exponent := [], modulus := [] } : Psb.Key))] 528 = .ok r ∧
    r.signedEnd = 272 ∧ r.sigStart = 272 ∧ r.sigLen = 256 :=
  ⟨{ key := { versionID := 1, keyID := [1], certID := [1], usage := 0, reserved := [], expSize := 2048,
              modSize := 2048, exponent := [], modulus := [] },
     signedEnd := 272, sigStart := 272, sigLen := 256 }, by rfl, rfl, rfl, rfl⟩

/-- the uint32 wrap of the compressed convention: a compressed size of 0xFFFFFFF0 "aligns" to a signed
    image of 0xF0 bytes — smaller than the header — and is refused -/
example : Psb.alignedSigned 0xFFFFFFF0 = 0xF0 := by decide

end Fiano.Props.C16
