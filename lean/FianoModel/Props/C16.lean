/-
  C16 — Integrity verdicts are sound: success only on the signed or hashed bytes.

  Theorems about the executable model `FianoModel/Crypto/{Cbnt,Psb}.lean` (the logic around the
  primitives in pkg/intel/metadata/{cbnt,bg} and pkg/amd/psb, as repaired by fixes/C16-*.diff).
  Hash functions and signature primitives are parameters (`Prims`, `Signers`); what is assumed of
  them appears as the explicit hypotheses `LawfulHash P` and `S.Lawful P` (both inhabited by the
  toy instance, see the examples at the end).  All statements are about every byte string, every
  structure and every key — no size bound.

  Sections 1–7: the single routines (wp-c16).  Follow-up wp-c16b: §7 `ValidateRTM` without the
  aliasing hypothesis (the code is repaired by fixes/C16-rtm-append-copy.diff; the in-place model is
  kept in Crypto/RtmInPlace.lean with witnesses of what it got wrong), §8 `GetKeys` as a whole (the
  inductive predicate `Psb.Trusted`, soundness, exact result, noninterference of the chain and of
  `ValidateRTM` including its key chain), §9 the bytes an Intel manifest signature covers, derived
  from C15's codec theorems on the regenerated layouts.

  FULL STATEMENT of the property, first half: "changing any bit of the covered data, of the
  signature or of the public key, or presenting a different key, yields an error".
  This is NOT a theorem about fiano: it is collision / forgery resistance of SHA-2, SM3, RSA-PSS and
  RSASSA.  What is proved instead (the `…_partial` theorems) is the exact reduction: the verdict is a
  function of (decoded key, named hash of exactly the covered bytes, signature bytes); the key decode
  is injective at a fixed length; therefore an undetected mutation of covered data is a hash collision
  or a signature valid for two digests, and an undetected mutation of key bytes is a signature valid
  under two different keys.  The remaining, cryptographic part is exercised by the harness' single-bit
  mutation sweeps on the real primitives only (checks.d/C16.json `unproved`).
-/
import FianoModel.Crypto.Tie
import FianoModel.Crypto.CbntLemmas
import FianoModel.Crypto.PsbLemmas
import FianoModel.Crypto.RtmInPlace
import FianoModel.Crypto.PsbChainNI
import FianoModel.Crypto.ChainExample
import FianoModel.Crypto.SignedRange
import FianoModel.Crypto.CodeTie   -- T1 code-as-code tie (wp-t1x): audited as a tie module of this check

namespace Fiano.Props.C16
open Fiano Fiano.Crypto

/-! ## 1. CBnT / Boot Guard key-signature verification -/

/-- **verify_bound.** `KeySignature.Verify` succeeds iff the structure names an RSA scheme, an RSA key
    whose data has the announced length, SHA256 or SHA384 — and the primitive accepts
    (key decoded from the LE fields, the *named* hash of exactly `d`, the signature bytes). -/
theorem verify_bound (P : Prims) (ks : Cbnt.KeySignature) (d : Bytes) :
    Cbnt.verify P ks d = .ok () ↔
      ∃ sch, Cbnt.rsaSchemeOf ks.sig.sigScheme = some sch ∧
        ks.key.keyAlg = Cbnt.algRSA ∧ ks.key.data.length = ks.key.keySize / 8 + 4 ∧
        (ks.sig.hashAlg = Cbnt.algSHA256 ∨ ks.sig.hashAlg = Cbnt.algSHA384) ∧
        P.rsaVerify sch ks.sig.hashAlg (Cbnt.decodeRSA ks.key.data) (P.hash ks.sig.hashAlg d) ks.sig.data = true :=
  Cbnt.verify_ok_iff P ks d

/-- The verdict is a function of exactly (scheme, key algorithm, key size in bytes, key bytes, named
    hash, signature bytes, data): the three version fields, the informational `Signature.KeySize`
    and the low three bits of `Key.KeySize` have no influence. -/
theorem verify_noninterference (P : Prims) (ks ks' : Cbnt.KeySignature) (d : Bytes)
    (h1 : ks.sig.sigScheme = ks'.sig.sigScheme) (h2 : ks.key.keyAlg = ks'.key.keyAlg)
    (h3 : ks.key.keySize / 8 = ks'.key.keySize / 8) (h4 : ks.key.data = ks'.key.data)
    (h5 : ks.sig.hashAlg = ks'.sig.hashAlg) (h6 : ks.sig.data = ks'.sig.data) :
    Cbnt.verify P ks d = .ok () ↔ Cbnt.verify P ks' d = .ok () := by
  rw [verify_bound, verify_bound, h1, h2, h3, h4, h5, h6]

/-- Boot Guard 1.0: RSASSA over SHA256, whatever hash the structure names. -/
theorem bg_verify_bound (P : Prims) (ks : Cbnt.KeySignature) (d : Bytes) :
    Cbnt.Bg.verify P ks d = .ok () ↔
      ks.sig.sigScheme = Cbnt.algRSASSA ∧ ks.key.keyAlg = Cbnt.algRSA ∧
      ks.key.data.length = ks.key.keySize / 8 + 4 ∧
      P.rsaVerify .pkcs1v15 Cbnt.algSHA256 (Cbnt.decodeRSA ks.key.data) (P.hash Cbnt.algSHA256 d) ks.sig.data = true :=
  Cbnt.bg_verify_ok_iff P ks d

/-- ECDSA and SM2 structures never verify (fiano: "not implemented, yet"): no false success. -/
theorem verify_ecc_never_ok (P : Prims) (ks : Cbnt.KeySignature) (d : Bytes)
    (h : ks.sig.sigScheme = Cbnt.algECDSA ∨ ks.sig.sigScheme = Cbnt.algSM2) : Cbnt.verify P ks d ≠ .ok () := by
  intro hv
  obtain ⟨sch, hs, _⟩ := (verify_bound P ks d).mp hv
  have e1 : Cbnt.rsaSchemeOf Cbnt.algECDSA = none := by decide
  have e2 : Cbnt.rsaSchemeOf Cbnt.algSM2 = none := by decide
  rcases h with h | h <;> rw [h] at hs
  · rw [e1] at hs; cases hs
  · rw [e2] at hs; cases hs

/-! ## 2. key decode: different key bytes give a different key -/

/-- **decodeKey_injective** (RSA: LE uint32 exponent ‖ LE modulus). -/
theorem decodeKey_injective_rsa (a b : Bytes) (hl : a.length = b.length)
    (h : Cbnt.decodeRSA a = Cbnt.decodeRSA b) : a = b := Cbnt.decodeRSA_inj hl h

/-- **decodeKey_injective** (ECC / SM2: LE x ‖ LE y, each `w` bytes). -/
theorem decodeKey_injective_ec (w : Nat) (a b : Bytes) (hl : a.length = b.length)
    (h : Cbnt.decodeEC w a = Cbnt.decodeEC w b) : a = b := Cbnt.decodeEC_inj w hl h

/-- **decodeKey_injective** (AMD PSB keys: LE exponent and LE modulus fields; `Key.Get` as repaired
    rejects an exponent that does not fit instead of dropping its upper bytes). -/
theorem decodeKey_injective_psb (k k' : Psb.Key) (pk : RSAPub) (he : k.exponent.length = k'.exponent.length)
    (hm : k.modulus.length = k'.modulus.length) (h : Psb.keyGet k = .ok pk) (h' : Psb.keyGet k' = .ok pk) :
    k.exponent = k'.exponent ∧ k.modulus = k'.modulus := Psb.keyGet_inj k k' pk he hm h h'

/-- Reduction, data: if a verdict survives a change of the covered data, the primitives were beaten —
    either the named hash collides on the two inputs, or one signature is valid for two digests. -/
theorem data_mutation_partial (P : Prims) (ks : Cbnt.KeySignature) (d d' : Bytes)
    (h : Cbnt.verify P ks d = .ok ()) (h' : Cbnt.verify P ks d' = .ok ()) :
    P.hash ks.sig.hashAlg d = P.hash ks.sig.hashAlg d' ∨
    ∃ sch g g', g ≠ g' ∧ P.rsaVerify sch ks.sig.hashAlg (Cbnt.decodeRSA ks.key.data) g ks.sig.data = true ∧
      P.rsaVerify sch ks.sig.hashAlg (Cbnt.decodeRSA ks.key.data) g' ks.sig.data = true := by
  obtain ⟨sch, hs, _, _, _, hv⟩ := (verify_bound P ks d).mp h
  obtain ⟨sch', hs', _, _, _, hv'⟩ := (verify_bound P ks d').mp h'
  rw [hs] at hs'; cases hs'
  by_cases e : P.hash ks.sig.hashAlg d = P.hash ks.sig.hashAlg d'
  · exact .inl e
  · exact .inr ⟨sch, _, _, e, hv, hv'⟩

/-- Reduction, key: if a verdict survives a change of key bytes (same length), one signature is valid
    under two different RSA keys. -/
theorem key_mutation_partial (P : Prims) (ks ks' : Cbnt.KeySignature) (d : Bytes)
    (hsig : ks.sig = ks'.sig) (hl : ks.key.data.length = ks'.key.data.length) (hne : ks.key.data ≠ ks'.key.data)
    (h : Cbnt.verify P ks d = .ok ()) (h' : Cbnt.verify P ks' d = .ok ()) :
    ∃ sch k k', k ≠ k' ∧ P.rsaVerify sch ks.sig.hashAlg k (P.hash ks.sig.hashAlg d) ks.sig.data = true ∧
      P.rsaVerify sch ks.sig.hashAlg k' (P.hash ks.sig.hashAlg d) ks.sig.data = true := by
  obtain ⟨sch, hs, _, _, _, hv⟩ := (verify_bound P ks d).mp h
  obtain ⟨sch', hs', _, _, _, hv'⟩ := (verify_bound P ks' d).mp h'
  rw [← hsig, hs] at hs'; cases hs'
  rw [← hsig] at hv'
  exact ⟨sch, _, _, fun e => hne (Cbnt.decodeRSA_inj hl e), hv, hv'⟩

/-! ## 3. fixed-width (r, s) -/

/-- **rs_fixed_width.** `r ‖ s` on `w` bytes each decodes to `(r, s)` whenever both fit. -/
theorem rs_fixed_width (w r s : Nat) (hr : r < 2 ^ (8 * w)) (hs : s < 2 ^ (8 * w)) :
    Cbnt.decodeRS (Cbnt.encodeRS w r s) = (r, s) := by
  have e : (256 : Nat) ^ w = 2 ^ (8 * w) := by rw [show (256 : Nat) = 2 ^ 8 from rfl, ← Nat.pow_mul]
  exact Cbnt.decodeRS_encodeRS w r s (by omega) (by omega)

/-- `SetSignatureByData` (repaired) stores every ECDSA pair below 2^384 — leading zeros included — on
    2·32 bytes (2·48 if a component needs more than 256 bits), and `SignatureData` reads it back. -/
theorem rs_stored_fixed_width (m : Cbnt.Signature) (r s hashAlgo : Nat) (hr : r < 2 ^ 384) (hs : s < 2 ^ 384) :
    ∃ m', Cbnt.setSignatureByData m (.ecdsa r s) hashAlgo = .ok m' ∧
      (m'.data.length = 64 ∨ m'.data.length = 96) ∧
      (r < 2 ^ 256 → s < 2 ^ 256 → m'.data.length = 64) ∧
      Cbnt.signatureData m' = .ok (.ecdsa r s) := by
  have h1 : ¬ Cbnt.algECDSA = Cbnt.algRSAPSS := by decide
  have h2 : ¬ Cbnt.algECDSA = Cbnt.algRSASSA := by decide
  rcases Cbnt.rsWidth_cases r s ⟨hr, hs⟩ with ⟨hw, a, b⟩ | ⟨hw, a, b⟩
  · refine ⟨_, by simp only [Cbnt.setSignatureByData, Cbnt.signatureBytes, hw]; rfl, ?_, ?_, ?_⟩
    · left; simp [Cbnt.encodeRS_length]
    · intro _ _; simp [Cbnt.encodeRS_length]
    · simp only [Cbnt.signatureData, Cbnt.schemeOf, h1, h2, if_false, if_true, Cbnt.encodeRS_length,
        Cbnt.decodeRS_encodeRS 32 r s a b]
      simp
  · refine ⟨_, by simp only [Cbnt.setSignatureByData, Cbnt.signatureBytes, hw]; rfl, ?_, ?_, ?_⟩
    · right; simp [Cbnt.encodeRS_length]
    · intro c d
      exfalso
      have : Cbnt.rsWidth r s = some 32 := Cbnt.rsWidth_256 r s c d
      rw [hw] at this; cases this
    · simp only [Cbnt.signatureData, Cbnt.schemeOf, h1, h2, if_false, if_true, Cbnt.encodeRS_length,
        Cbnt.decodeRS_encodeRS 48 r s a b]
      simp

/-! ## 4. signing: what the library signs verifies -/

/-- **sign_verify** (RSA). For every RSA key (modulus below 2^65536, exponent below 2^32), RSASSA or
    RSAPSS — named or auto-detected — and a requested hash that is null, SHA256 or SHA384:
    `SetSignature` succeeds and `Verify` accepts its result over the same data.  The hash used for
    the digest is the hash recorded (fixes/C16-sign-recorded-hash.diff made that so). -/
theorem sign_verify (P : Prims) (S : Signers) (L : S.Lawful P) (hH : LawfulHash P)
    (ks : Cbnt.KeySignature) (signAlgo hashAlgo : Alg) (sk : S.RSAPriv) (rnd data : Bytes)
    (he : (S.rsaPub sk).e < 2 ^ 32) (hn : Cbnt.byteLen (S.rsaPub sk).n < 8192)
    (sch : RSAScheme) (hs : Cbnt.rsaSchemeOf (Cbnt.detectScheme S signAlgo (.rsa sk)) = some sch)
    (hh : Cbnt.rsaHashOK (Cbnt.recordedHash (Cbnt.detectScheme S signAlgo (.rsa sk)) hashAlgo) = true) :
    ∃ ks', Cbnt.setSignature P S ks signAlgo hashAlgo (.rsa sk) rnd data = .ok ks' ∧
      Cbnt.verify P ks' data = .ok () :=
  Cbnt.setSignature_rsa_verify P S L hH ks signAlgo hashAlgo sk rnd data he hn sch hs hh

/-- **hash used = hash recorded** (RSA): the stored signature is the primitive's signature over the
    digest of exactly the hash algorithm that `SetSignature` records in the structure. -/
theorem sign_uses_recorded_hash (P : Prims) (S : Signers)
    (ks : Cbnt.KeySignature) (signAlgo hashAlgo : Alg) (sk : S.RSAPriv) (rnd data : Bytes)
    (sch : RSAScheme) (hs : Cbnt.rsaSchemeOf (Cbnt.detectScheme S signAlgo (.rsa sk)) = some sch)
    (hh : Cbnt.rsaHashOK (Cbnt.recordedHash (Cbnt.detectScheme S signAlgo (.rsa sk)) hashAlgo) = true) :
    ∃ ks', Cbnt.setSignature P S ks signAlgo hashAlgo (.rsa sk) rnd data = .ok ks' ∧
      Cbnt.rsaSchemeOf ks'.sig.sigScheme = some sch ∧
      ks'.sig.data = S.rsaSign sch ks'.sig.hashAlg sk rnd (P.hash ks'.sig.hashAlg data) :=
  Cbnt.setSignature_rsa_recorded P S ks signAlgo hashAlgo sk rnd data sch hs hh

/-- Boot Guard 1.0 signing (RSASSA / SHA256) verifies. -/
theorem bg_sign_verify (P : Prims) (S : Signers) (L : S.Lawful P) (hH : LawfulHash P)
    (ks : Cbnt.KeySignature) (signAlgo : Alg) (sk : S.RSAPriv) (rnd data : Bytes)
    (he : (S.rsaPub sk).e < 2 ^ 32) (hn : Cbnt.byteLen (S.rsaPub sk).n < 8192)
    (hs : signAlgo = 0 ∨ signAlgo = Cbnt.algRSASSA) :
    ∃ ks', Cbnt.Bg.setSignature P S ks signAlgo sk rnd data = .ok ks' ∧ Cbnt.Bg.verify P ks' data = .ok () :=
  Cbnt.bg_setSignature_verify P S L hH ks signAlgo sk rnd data he hn hs

/-- ECDSA: signing succeeds for every key with coordinates below 2^256 and every supported hash; the
    stored signature is 2·32 bytes, decodes to what the signer produced over the digest of the
    *recorded* hash, verifies under the standard algorithm; the stored key decodes to the signer's. -/
theorem sign_stored_ecdsa (P : Prims) (S : Signers) (L : S.Lawful P)
    (ks : Cbnt.KeySignature) (signAlgo hashAlgo : Alg) (sk : S.ECPriv) (rnd data : Bytes)
    (hx : (S.ecPub sk).x < 2 ^ 256) (hy : (S.ecPub sk).y < 2 ^ 256)
    (hs : signAlgo = 0 ∨ signAlgo = Cbnt.algECDSA)
    (hh : Cbnt.hashSupported (Cbnt.recordedHash Cbnt.algECDSA hashAlgo) = true) :
    ∃ ks', Cbnt.setSignature P S ks signAlgo hashAlgo (.ecdsa sk) rnd data = .ok ks' ∧
      ks'.sig.hashAlg = Cbnt.recordedHash Cbnt.algECDSA hashAlgo ∧
      ks'.sig.data.length = 64 ∧
      Cbnt.signatureData ks'.sig = .ok (.ecdsa (S.ecSign sk rnd (P.hash ks'.sig.hashAlg data)).1
                                                (S.ecSign sk rnd (P.hash ks'.sig.hashAlg data)).2) ∧
      S.ecVerify (S.ecPub sk) (P.hash ks'.sig.hashAlg data) (S.ecSign sk rnd (P.hash ks'.sig.hashAlg data)).1
          (S.ecSign sk rnd (P.hash ks'.sig.hashAlg data)).2 = true ∧
      Cbnt.pubKey ks'.key = .ok (.ecc (S.ecPub sk)) :=
  Cbnt.setSignature_ecdsa_stored P S L ks signAlgo hashAlgo sk rnd data hx hy hs hh

/-- SM2: the same for `sm2.Sm2Sign` over the message. -/
theorem sign_stored_sm2 (P : Prims) (S : Signers) (L : S.Lawful P)
    (ks : Cbnt.KeySignature) (signAlgo hashAlgo : Alg) (sk : S.SM2Priv) (rnd data : Bytes)
    (hx : (S.sm2Pub sk).x < 2 ^ 256) (hy : (S.sm2Pub sk).y < 2 ^ 256)
    (hs : signAlgo = 0 ∨ signAlgo = Cbnt.algSM2) :
    ∃ ks', Cbnt.setSignature P S ks signAlgo hashAlgo (.sm2 sk) rnd data = .ok ks' ∧
      ks'.sig.hashAlg = Cbnt.recordedHash Cbnt.algSM2 hashAlgo ∧
      ks'.sig.data.length = 64 ∧
      Cbnt.signatureData ks'.sig = .ok (.sm2 (S.sm2Sign sk rnd data).1 (S.sm2Sign sk rnd data).2) ∧
      S.sm2Verify (S.sm2Pub sk) data (S.sm2Sign sk rnd data).1 (S.sm2Sign sk rnd data).2 = true ∧
      Cbnt.pubKey ks'.key = .ok (.sm2 (S.sm2Pub sk)) :=
  Cbnt.setSignature_sm2_stored P S L ks signAlgo hashAlgo sk rnd data hx hy hs

/-! ## 5. BPM key hash against the key manifest -/

/-- `ValidateBPMKey` succeeds iff some digest carries the BPM usage bit and every such digest is the
    named (supported) hash of the RSA key's modulus bytes `Data[4:]`. -/
theorem bpmkey_bound (P : Prims) (hH : LawfulHash P) (hs : List Cbnt.KMHash) (key : Cbnt.Key) :
    Cbnt.validateBPMKey P hs key = .ok () ↔
      (∃ h ∈ hs, Cbnt.usageBPM h.usage = true) ∧
      ∀ h ∈ hs, Cbnt.usageBPM h.usage = true →
        Cbnt.hashSupported h.hashAlg = true ∧ key.keyAlg = Cbnt.algRSA ∧ 4 ≤ key.data.length ∧
        h.buf = P.hash h.hashAlg (key.data.drop 4) :=
  Cbnt.validateBPMKey_ok_iff P hH hs key

/-- **noninterference** (BPM key): the verdict depends on the key only through its algorithm and the
    modulus bytes — the exponent field `Data[:4]`, `KeySize` and `Version` are not covered (the KM
    digest of the BPM key is over the modulus only); digests of other usages are not consulted. -/
theorem bpmkey_noninterference (P : Prims) (hH : LawfulHash P) (hs hs' : List Cbnt.KMHash) (key key' : Cbnt.Key)
    (ha : key.keyAlg = key'.keyAlg) (hd : key.data.drop 4 = key'.data.drop 4) (hl : key.data.length = key'.data.length)
    (hf : hs.filter (fun h => Cbnt.usageBPM h.usage) = hs'.filter (fun h => Cbnt.usageBPM h.usage)) :
    Cbnt.validateBPMKey P hs key = .ok () ↔ Cbnt.validateBPMKey P hs' key' = .ok () := by
  have hm : ∀ (l : List Cbnt.KMHash) (p : Cbnt.KMHash → Prop),
      (∀ h ∈ l, Cbnt.usageBPM h.usage = true → p h) ↔ ∀ h ∈ l.filter (fun h => Cbnt.usageBPM h.usage), p h := by
    intro l p
    simp only [List.mem_filter]
    constructor
    · intro f h ⟨a, b⟩; exact f h a b
    · intro f h a b; exact f h ⟨a, b⟩
  have he : ∀ (l : List Cbnt.KMHash),
      (∃ h ∈ l, Cbnt.usageBPM h.usage = true) ↔ ∃ h, h ∈ l.filter (fun h => Cbnt.usageBPM h.usage) := by
    intro l
    simp only [List.mem_filter]
  rw [bpmkey_bound P hH, bpmkey_bound P hH, he, he, hm, hm, hf, ha, hd, hl]

/-! ## 6. IBB digest -/

/-- `ValidateIBB` succeeds iff the first digest of SE[0] names a supported hash, every selected
    segment lies inside the image, and that hash of the concatenated segments equals the digest. -/
theorem ibb_bound (P : Prims) (supported : Alg → Bool) (digest : Option (Alg × Bytes))
    (segs : List Cbnt.IBBSegment) (fw : Bytes) :
    Cbnt.validateIBB P supported digest segs fw = .ok () ↔
      ∃ alg buf, digest = some (alg, buf) ∧ supported alg = true ∧
        (Cbnt.ibbRanges segs fw.length).all (Cbnt.rangeOK fw.length) = true ∧
        P.hash alg (Cbnt.gather fw (Cbnt.ibbRanges segs fw.length)) = buf :=
  Cbnt.validateIBB_ok_iff P supported digest segs fw

/-- **noninterference** (IBB, cbnt and bg): two images of the same size that agree on the IBB ranges
    get the same outcome (success, error or run-time panic alike). -/
theorem ibb_noninterference (P : Prims) (supported : Alg → Bool) (digest : Option (Alg × Bytes))
    (segs : List Cbnt.IBBSegment) (fw fw' : Bytes)
    (h : AgreeOn (InRanges (Cbnt.ibbRanges segs fw.length)) fw fw') :
    Cbnt.validateIBB P supported digest segs fw = Cbnt.validateIBB P supported digest segs fw' :=
  Cbnt.validateIBB_agree P supported digest segs fw fw' h

/-- segments with the non-hashed flag (bit 0) are not covered -/
theorem ibb_ranges_skip_flagged (segs : List Cbnt.IBBSegment) (n : Nat) :
    (Cbnt.ibbRanges segs n).length = (segs.filter (fun s => s.flags % 2 ≠ 1)).length := by
  induction segs with
  | nil => rfl
  | cons s rest ih =>
    by_cases h : s.flags % 2 = 1
    · simp only [Cbnt.ibbRanges, List.filterMap_cons, h, if_true, List.filter_cons, ne_eq, not_true_eq_false,
        decide_false, Bool.false_eq_true, if_false] at ih ⊢
      exact ih
    · simp only [Cbnt.ibbRanges, List.filterMap_cons, h, if_false, List.filter_cons, ne_eq, not_false_eq_true,
        decide_true, if_true, List.length_cons] at ih ⊢
      rw [ih]

/-! ## 7. AMD PSB -/

/-- `NewSignedBlob` succeeds iff the key decodes and RSA-PSS accepts the signature over the SHA-384
    (4096-bit modulus) or SHA-256 (2048-bit modulus) digest of exactly the signed data. -/
theorem psb_signedblob_bound (P : Prims) (sig data : Bytes) (key : Psb.Key) :
    Psb.newSignedBlob P sig data key = .ok () ↔
      ∃ pk, Psb.keyGet key = .ok pk ∧
        ((Psb.modBytes pk.n = 512 ∧ P.rsaVerify .pss Psb.algSHA384 pk (P.hash Psb.algSHA384 data) sig = true) ∨
         (Psb.modBytes pk.n = 256 ∧ P.rsaVerify .pss Psb.algSHA256 pk (P.hash Psb.algSHA256 data) sig = true)) :=
  Psb.newSignedBlob_ok_iff P sig data key

/-- The ranges `getSignedBlob` derives with its uint32 arithmetic (wrap-around modelled) are well
    formed whenever it accepts them: the signing key is the one named in the header, with equal
    exponent / modulus sizes; the signed data `[0, signedEnd)` contains the whole 0x100-byte header
    and lies in the binary; so does the signature, whose length is the modulus size. -/
theorem psb_blob_ranges_wf (h : Psb.Header) (ks : Psb.KeySet) (len : Nat) (r : Psb.BlobRanges)
    (hWT : h.sizeImage < 2 ^ 32) (hr : Psb.blobRanges h ks len = .ok r) :
    ks.getKey h.sigParams = some r.key ∧ r.key.modSize = r.key.expSize ∧ r.sigLen = r.key.modSize / 8 ∧
    Psb.pspHeaderSize < r.signedEnd ∧ r.signedEnd ≤ len ∧ r.sigStart + r.sigLen ≤ len :=
  Psb.blobRanges_wf h ks len r hWT hr

/-- **noninterference** (PSP binary): two binaries of the same length that agree on the header and —
    when ranges are derived — on the signed data and on the signature get the same outcome. -/
theorem psb_blob_noninterference (P : Prims) (raw raw' : Bytes) (ks : Psb.KeySet)
    (h : AgreeOn (Psb.blobCovered raw ks) raw raw') : Psb.getSignedBlob P raw ks = Psb.getSignedBlob P raw' ks :=
  Psb.getSignedBlob_agree P raw raw' ks h

/-- **noninterference** (`ValidatePSPEntry`): bytes of the image outside the entry, and inside the
    entry outside header / signed data / signature, have no influence. -/
theorem psb_entry_noninterference (P : Prims) (img img' : Bytes) (ks : Psb.KeySet) (off len : Nat)
    (h : AgreeOn (Psb.entryCovered img ks off len) img img') :
    Psb.validatePSPEntry P img ks off len = Psb.validatePSPEntry P img' ks off len :=
  Psb.validatePSPEntry_agree P img img' ks off len h

/-- **noninterference** (token key): bytes after the signature that follows the key material, and
    beyond the signed prefix, have no influence. -/
theorem psb_token_noninterference (P : Prims) (raw raw' : Bytes) (ks : Psb.KeySet)
    (h : AgreeOn (Psb.tokenCovered raw ks) raw raw') : Psb.newTokenKey P raw ks = Psb.newTokenKey P raw' ks :=
  Psb.newTokenKey_agree P raw raw' ks h

/-- `NewTokenKey` (repaired) accepts exactly the tokens whose certifying key is in the key set and
    whose signature — stored reversed behind the key material — that key accepts over the key
    material `raw[:n]` (header ‖ exponent ‖ modulus as parsed). -/
theorem psb_token_bound (P : Prims) (raw : Bytes) (ks : Psb.KeySet) (k : Psb.Key) :
    Psb.newTokenKey P raw ks = .ok k ↔
      ∃ n sk, Psb.parseKey raw = .ok (k, n) ∧ ks.getKey k.certID = some sk ∧ Psb.checkValid sk = true ∧
        n + sk.modulus.length ≤ raw.length ∧
        Psb.newSignedBlob P (slice raw n sk.modulus.length).reverse (raw.take n) sk = .ok () :=
  Psb.newTokenKey_ok_iff P raw ks k

/-- The key an accepted token yields is a function of the signed prefix alone: parsing `raw[:n]`
    gives the same key.  (Before fixes/C16-token-signed-length.diff the signed length was
    `64 + 2·ModulusSize/8`; with an exponent field longer than the modulus the tail of the modulus
    was not signed — corpus case 30.) -/
theorem psb_token_key_signed (raw : Bytes) (k : Psb.Key) (n : Nat) (hk : Psb.parseKey raw = .ok (k, n)) :
    Psb.parseKey (raw.take n) = .ok (k, n) :=
  Psb.parseKey_take raw k n hk

/-- **`ValidateRTM`** (as repaired by fixes/C16-rtm-append-copy.diff — no aliasing hypothesis any
    more): whenever the boundary checks pass, the verdict is
    `NewSignedBlob(reverse(signature entry), volume ‖ [level-1 directory] ‖ directory, OEM key)`,
    and the caller's image is left exactly as it was. -/
theorem psb_rtm_bound (P : Prims) (img : Bytes) (level : Nat) (rtm sig dir1 dirL : Nat × Nat) (oem : Psb.Key)
    (v : Except Psb.Err Unit) (img' : Bytes)
    (h : Psb.validateRTM P img level rtm sig dir1 dirL oem = some (v, img')) :
    v = Psb.newSignedBlob P (slice img sig.1 sig.2).reverse (Psb.rtmSigned img level rtm dir1 dirL) oem ∧ img' = img :=
  Psb.validateRTM_some P img level rtm sig dir1 dirL oem v img' h

/-- … and it fails (returns a Go error instead of a result) exactly when a boundary check does: a
    function of the image length only. -/
theorem psb_rtm_fails_iff (P : Prims) (img : Bytes) (level : Nat) (rtm sig dir1 dirL : Nat × Nat) (oem : Psb.Key) :
    Psb.validateRTM P img level rtm sig dir1 dirL oem = none ↔
      Psb.rtmBounds img.length level rtm sig dir1 dirL = false :=
  Psb.validateRTM_none_iff P img level rtm sig dir1 dirL oem

/-- **noninterference** (RTM volume), unconditional: images that agree on the volume, the concatenated
    directories and the signature entry get the same verdict. -/
theorem psb_rtm_noninterference (P : Prims) (img img' : Bytes) (level : Nat) (rtm sig dir1 dirL : Nat × Nat)
    (oem : Psb.Key) (h : AgreeOn (Psb.rtmCovered level rtm sig dir1 dirL) img img') :
    (Psb.validateRTM P img level rtm sig dir1 dirL oem).map Prod.fst =
    (Psb.validateRTM P img' level rtm sig dir1 dirL oem).map Prod.fst :=
  Psb.validateRTM_agree P img img' level rtm sig dir1 dirL oem h

/-- **the image length has no influence either**: bytes appended to an image that contains the four
    ranges change nothing.  (`Fits64`: offsets and sizes are uint64 values; Go slices are shorter than
    2^64.)  The in-place code violated this — `psb_rtm_inplace_padding_flips_verdict`. -/
theorem psb_rtm_padding_no_influence (P : Prims) (img pad : Bytes) (level : Nat) (rtm sig dir1 dirL : Nat × Nat)
    (oem : Psb.Key) (h1 : Psb.Fits64 rtm) (h2 : Psb.Fits64 sig) (h3 : Psb.Fits64 dir1) (h4 : Psb.Fits64 dirL)
    (hlen : (img ++ pad).length < 2 ^ 64) (hb : Psb.rtmBounds img.length level rtm sig dir1 dirL = true) :
    (Psb.validateRTM P (img ++ pad) level rtm sig dir1 dirL oem).map Prod.fst =
    (Psb.validateRTM P img level rtm sig dir1 dirL oem).map Prod.fst :=
  Psb.validateRTM_pad P img pad level rtm sig dir1 dirL oem h1 h2 h3 h4 hlen hb

/-! ### `ValidateRTM` before the repair (in-place `append` onto a sub-slice of the image)

  `Psb.InPlace.validateRTM` is the model of the code as it was.  These statements are the analysis of
  the defect; they are not tied to the current code. -/

/-- Where the old code was right: if the window the in-place appends write, `[end of volume, + length
    of the directories)`, is disjoint from the signature entry and from the directory read after the
    first append (`NoAlias`), old and repaired code fail together and carry the same verdict. -/
theorem psb_rtm_inplace_agrees_of_noalias (P : Prims) (img : Bytes) (level : Nat) (rtm sig dir1 dirL : Nat × Nat)
    (oem : Psb.Key) (hna : Psb.InPlace.NoAlias level rtm sig dir1 dirL) :
    (Psb.InPlace.validateRTM P img level rtm sig dir1 dirL oem).map Prod.fst =
    (Psb.validateRTM P img level rtm sig dir1 dirL oem).map Prod.fst :=
  Psb.InPlace.inplace_eq_repaired P img level rtm sig dir1 dirL oem hna

/-- `NoAlias` fails exactly when the window meets the signature entry or the directory of the level
    (both taken as half-open intervals that may be empty): the characterisation of the layouts on
    which the old code could go wrong. -/
theorem psb_rtm_noalias_iff (level : Nat) (rtm sig dir1 dirL : Nat × Nat) :
    ¬ Psb.InPlace.NoAlias level rtm sig dir1 dirL ↔
      (rtm.1 + rtm.2 < sig.1 + sig.2 ∧ sig.1 < rtm.1 + rtm.2 + ((if level = 2 then dir1.2 else 0) + dirL.2)) ∨
      (rtm.1 + rtm.2 < dirL.1 + dirL.2 ∧ dirL.1 < rtm.1 + rtm.2 + ((if level = 2 then dir1.2 else 0) + dirL.2)) := by
  unfold Psb.InPlace.NoAlias
  omega

/-- Witness (i): signature entry right behind the volume — a properly signed image is rejected. -/
theorem psb_rtm_inplace_rejects_valid :
    ∃ (img : Bytes) (rtm sig dirL : Nat × Nat) (oem : Psb.Key), ¬ Psb.InPlace.NoAlias 1 rtm sig (0, 0) dirL ∧
      Psb.InPlace.verdict (Psb.validateRTM Toy.prims img 1 rtm sig (0, 0) dirL oem) = some true ∧
      Psb.InPlace.verdict (Psb.InPlace.validateRTM Toy.prims img 1 rtm sig (0, 0) dirL oem) = some false :=
  ⟨_, _, _, _, _, Psb.InPlace.witness_valid_rejected⟩

/-- Witness (ii), the unsound direction: an image whose signature entry is *not* valid for
    volume ‖ directory is accepted (the bytes read as signature are partly directory bytes). -/
theorem psb_rtm_inplace_accepts_invalid :
    ∃ (img : Bytes) (rtm sig dirL : Nat × Nat) (oem : Psb.Key),
      Psb.newSignedBlob Toy.prims (slice img sig.1 sig.2).reverse (Psb.rtmSigned img 1 rtm (0, 0) dirL) oem ≠ .ok () ∧
      Psb.InPlace.verdict (Psb.InPlace.validateRTM Toy.prims img 1 rtm sig (0, 0) dirL oem) = some true := by
  refine ⟨[0, 0x7D, 70, 70, 0xFF, 0xFF, 0x18, 0x81], (2, 2), (4, 4), (0, 2), Psb.InPlace.wKey, ?_,
    Psb.InPlace.witness_invalid_accepted.2⟩
  intro h
  have := Psb.InPlace.witness_invalid_accepted.1
  unfold Psb.InPlace.verdict Psb.validateRTM at this
  rw [if_neg (by decide)] at this
  simp only [Option.map_some, h] at this
  cases this

/-- Witness (iii): the old verdict depended on bytes outside every covered range — two padding bytes
    appended to the image switch `append` from reallocating to writing in place and flip the verdict
    from valid to invalid (contrast `psb_rtm_padding_no_influence`). -/
theorem psb_rtm_inplace_padding_flips_verdict :
    ∃ (img pad : Bytes) (rtm sig dirL : Nat × Nat) (oem : Psb.Key),
      Psb.rtmBounds img.length 1 rtm sig (0, 0) dirL = true ∧
      Psb.InPlace.verdict (Psb.InPlace.validateRTM Toy.prims img 1 rtm sig (0, 0) dirL oem) = some true ∧
      Psb.InPlace.verdict (Psb.InPlace.validateRTM Toy.prims (img ++ pad) 1 rtm sig (0, 0) dirL oem) = some false :=
  ⟨[1, 2, 3, 4, 5, 6, 7, 8, 0x00, 0xFC, 0x5D, 0x81], [0, 0], (6, 2), (8, 4), (0, 6), Psb.InPlace.wKey, by decide,
    Psb.InPlace.witness_padding_flips_verdict.1, Psb.InPlace.witness_padding_flips_verdict.2.1⟩

/-- Witness (iv): the old code wrote into the caller's image, so that a second run on the same buffer
    gave another verdict (contrast `psb_rtm_bound`: `img' = img`). -/
theorem psb_rtm_inplace_second_run_differs :
    ∃ (img img' : Bytes) (rtm sig dirL : Nat × Nat) (oem : Psb.Key),
      Psb.InPlace.verdict (Psb.InPlace.validateRTM Toy.prims img 1 rtm sig (0, 0) dirL oem) = some true ∧
      (Psb.InPlace.validateRTM Toy.prims img 1 rtm sig (0, 0) dirL oem).map Prod.snd = some img' ∧
      Psb.InPlace.verdict (Psb.InPlace.validateRTM Toy.prims img' 1 rtm sig (0, 0) dirL oem) = some false :=
  ⟨_, _, _, _, _, _, Psb.InPlace.witness_second_run_differs⟩

/-- The key-database loop never runs out of fuel: every fuel above the length gives the same result
    (each accepted entry consumes at least 80 bytes). -/
theorem psb_keydb_fuel (db : Bytes) (ks : Psb.KeySet) (fuel : Nat) (h : db.length < fuel) :
    Psb.parseKeyDatabase db ks = if db.length < 80 then .error .format else Psb.dbLoop fuel (db.drop 80) ks :=
  Psb.parseKeyDatabase_never_out_of_fuel db ks fuel h

/-! ## 8. AMD PSB: `GetKeys` as a whole (root key → key database → ABL / OEM token keys) -/

/-- `Psb.getKeysAll` — the key set as Go leaves it (it is filled in place and returned *together with*
    the error) — refines the error-or-result model `Psb.getKeys` the harness compares: same error, or
    the same key set. -/
theorem psb_getkeys_refines (P : Prims) (r d a : Bytes) (o : Option Bytes) :
    Psb.toExcept (Psb.getKeysAll P r d a o) = Psb.getKeys P r d a o :=
  Psb.getKeysAll_toExcept P r d a o

/-- **`GetKeys`, soundness of the whole chain.**  Every key of the key set `GetKeys` hands back — with
    or without an error — is `Trusted`: it is the root key, or a key of the key database whose PSP
    binary a trusted key signed, or the key of an ABL / OEM token that a trusted key signed.
    (`Psb.Trusted P root db toks k` is the inductive predicate "chain of verified signatures from
    `root` to `k`".)  A key enters the result only if its whole chain verifies. -/
theorem psb_getkeys_trusted (P : Prims) (r d a : Bytes) (o : Option Bytes) :
    ∀ e ∈ (Psb.getKeysAll P r d a o).1,
      ∃ root, Psb.newRootKey r = .ok root ∧ Psb.Trusted P root d (a :: o.toList) e.2 :=
  Psb.getKeysAll_trusted P r d a o

/-- the same for a key set returned without error -/
theorem psb_getkeys_ok_trusted (P : Prims) (r d a : Bytes) (o : Option Bytes) (ks : Psb.KeySet)
    (h : Psb.getKeys P r d a o = .ok ks) :
    ∃ root, Psb.newRootKey r = .ok root ∧ ∀ e ∈ ks, Psb.Trusted P root d (a :: o.toList) e.2 :=
  Psb.getKeys_trusted P r d a o ks h

/-- **every link of the chain is the abstract primitive**: a token link is RSA-PSS under the decoded
    value of the certifying key, with the hash named by that key's modulus size (SHA-384 for 4096,
    SHA-256 for 2048 bits), over exactly the `n` bytes parsed into the key, against the reversed
    bytes that follow them. -/
theorem psb_chain_link_token (P : Prims) (tok : Bytes) (s k : Psb.Key) (h : Psb.TokenCertifies P tok s k) :
    ∃ n pk, Psb.parseKey tok = .ok (k, n) ∧ Psb.keyGet s = .ok pk ∧
      ((Psb.modBytes pk.n = 512 ∧ P.rsaVerify .pss Psb.algSHA384 pk (P.hash Psb.algSHA384 (tok.take n))
          (slice tok n s.modulus.length).reverse = true) ∨
       (Psb.modBytes pk.n = 256 ∧ P.rsaVerify .pss Psb.algSHA256 pk (P.hash Psb.algSHA256 (tok.take n))
          (slice tok n s.modulus.length).reverse = true)) :=
  h.prim

/-- … and a key database link is RSA-PSS under the decoded value of the signing key over exactly the
    signed range `[0, signedEnd)` that `getSignedBlob` derives from the PSP header under that key,
    against the signature range; the certified key is one of the keys of that signed range. -/
theorem psb_chain_link_db (P : Prims) (db : Bytes) (s k : Psb.Key) (h : Psb.DbCertifies P db s k) :
    ∃ hd r pk, Psb.parseHeader db = some hd ∧ Psb.blobRanges hd [(.amdRoot, s)] db.length = .ok r ∧ r.key = s ∧
      Psb.keyGet s = .ok pk ∧ k ∈ Psb.dbKeysOf ((slice db 0 r.signedEnd).drop Psb.pspHeaderSize) ∧
      ((Psb.modBytes pk.n = 512 ∧ P.rsaVerify .pss Psb.algSHA384 pk (P.hash Psb.algSHA384 (slice db 0 r.signedEnd))
          (slice db r.sigStart r.sigLen) = true) ∨
       (Psb.modBytes pk.n = 256 ∧ P.rsaVerify .pss Psb.algSHA256 pk (P.hash Psb.algSHA256 (slice db 0 r.signedEnd))
          (slice db r.sigStart r.sigLen) = true)) :=
  h.prim

/-- a link depends on the certifying key only through its id, its *decoded value* and the length of
    its modulus field: version, usage flag, reserved bytes and certifying-key id of the signer have no
    influence on the verdict. -/
theorem psb_chain_link_signer_decoded (P : Prims) (tok : Bytes) (s s' k : Psb.Key) (hid : s.keyID = s'.keyID)
    (hg : Psb.keyGet s = Psb.keyGet s') (hl : s.modulus.length = s'.modulus.length)
    (hv : Psb.checkValid s = Psb.checkValid s') :
    Psb.TokenCertifies P tok s k ↔ Psb.TokenCertifies P tok s' k :=
  Psb.TokenCertifies.signer_decoded hid hg hl hv

/-- **`GetKeys`, the exact result**: a key set returned without error is the root key, then all keys of
    the signed key database body in order, then the ABL key, then the OEM key if there is an OEM entry;
    the database is accepted under the root key alone, the ABL token under root + database keys, the
    OEM token under root + database + ABL keys. -/
theorem psb_getkeys_shape (P : Prims) (r d a : Bytes) (o : Option Bytes) (ks : Psb.KeySet)
    (h : Psb.getKeys P r d a o = .ok ks) :
    ∃ root signed abl, Psb.newRootKey r = .ok root ∧ Psb.getSignedBlob P d [(.amdRoot, root)] = .ok signed ∧
      let base : Psb.KeySet :=
        (.amdRoot, root) :: (Psb.dbKeysOf (signed.drop Psb.pspHeaderSize)).map (fun k => (Psb.KeyType.keyDB, k))
      Psb.newTokenKey P a base = .ok abl ∧
      match o with
      | none => ks = base ++ [(.abl, abl)]
      | some oe => ∃ oem, Psb.newTokenKey P oe (base ++ [(.abl, abl)]) = .ok oem ∧
          ks = base ++ [(.abl, abl)] ++ [(.oem, oem)] :=
  Psb.getKeys_shape P r d a o ks h

/-- **`GetKeys`, noninterference of the whole chain** (entries): two sets of entries that agree on what
    each step reads — the root entry on what the key parser consumes; the database entry on header,
    signed range and signature as derived under the root key; the ABL token on key material and
    signature under the key set after the database step; the OEM token likewise under the key set
    with the ABL key (`Psb.KeysAgree`) — yield the same key set and the same error. -/
theorem psb_getkeys_noninterference (P : Prims) (r r' d d' a a' : Bytes) (o o' : Option Bytes)
    (h : Psb.KeysAgree P r r' d d' a a' o o') :
    Psb.getKeysAll P r d a o = Psb.getKeysAll P r' d' a' o' ∧ Psb.getKeys P r d a o = Psb.getKeys P r' d' a' o' :=
  ⟨Psb.getKeysAll_agree P h, Psb.getKeys_agree P h⟩

/-- … on an image with located entries: images of the same length that agree on the covered positions
    of the four entries give the same result. -/
theorem psb_getkeys_image_noninterference (P : Prims) (img img' : Bytes) (rootR dbR ablR : Nat × Nat)
    (oemR : Option (Nat × Nat)) (h : AgreeOn (Psb.keysCovered P img rootR dbR ablR oemR) img img') :
    Psb.getKeysImg P img rootR dbR ablR oemR = Psb.getKeysImg P img' rootR dbR ablR oemR :=
  Psb.getKeysImg_agree P img img' rootR dbR ablR oemR h

/-- **`ValidateRTM` including its key chain, noninterference**: images of the same length that agree on
    the covered positions of the key chain entries and on volume, concatenated directories and signature
    entry get the same outcome (error, invalid, valid). -/
theorem psb_rtm_full_noninterference (P : Prims) (img img' : Bytes) (level : Nat) (rootR dbR ablR : Nat × Nat)
    (oemR : Option (Nat × Nat)) (rtm sig dir1 dirL : Nat × Nat)
    (h : AgreeOn (fun i => Psb.keysCovered P img rootR dbR ablR oemR i ∨ Psb.rtmCovered level rtm sig dir1 dirL i) img img') :
    (Psb.validateRTMFull P img level rootR dbR ablR oemR rtm sig dir1 dirL).map Prod.fst =
    (Psb.validateRTMFull P img' level rootR dbR ablR oemR rtm sig dir1 dirL).map Prod.fst :=
  Psb.validateRTMFull_agree P img img' level rootR dbR ablR oemR rtm sig dir1 dirL h

/-- **`ValidateRTM` including its key chain, bound**: a valid verdict means that the OEM key is trusted
    (chain of verified signatures up to the root key of the image), has usage PSBSignBIOS, and accepts
    the reversed signature entry over volume ‖ [level-1 directory] ‖ directory; the image is unchanged. -/
theorem psb_rtm_full_bound (P : Prims) (img : Bytes) (level : Nat) (rootR dbR ablR : Nat × Nat)
    (oemR : Option (Nat × Nat)) (rtm sig dir1 dirL : Nat × Nat) (img' : Bytes)
    (h : Psb.validateRTMFull P img level rootR dbR ablR oemR rtm sig dir1 dirL = some (.ok (), img')) :
    ∃ root oem oR, oemR = some oR ∧ Psb.newRootKey (slice img rootR.1 rootR.2) = .ok root ∧
      Psb.Trusted P root (slice img dbR.1 dbR.2) [slice img ablR.1 ablR.2, slice img oR.1 oR.2] oem ∧
      oem.usage = Psb.usagePSBSignBIOS ∧
      Psb.newSignedBlob P (slice img sig.1 sig.2).reverse (Psb.rtmSigned img level rtm dir1 dirL) oem = .ok () ∧
      img' = img :=
  Psb.validateRTMFull_ok P img level rootR dbR ablR oemR rtm sig dir1 dirL img' h

/-! ## 9. Intel: the bytes a manifest signature covers (C16's covered range ∘ C15's codec)

  `SignedRange.covered b off = b.take off` is C16's covered-range function: `bytes[0 : signatureOffset]`
  of the serialised manifest.  The theorems below are derived from C15's `offset_eq`, `km_sigoffset`
  and `bpm_sigoffset` on the layouts regenerated from the Go declarations (`IsGenerated`). -/

open Fiano.Manifest Fiano.Manifest.C15 in
/-- **key manifests, covered range by accessor** (`bytes[:m.KeyAndSignatureOffset()]`, CBnT and Boot
    Guard): the covered bytes of a written key manifest are exactly the serialisation of the fields
    before `KeyAndSignature` (as written), and the rest of the output is exactly the `KeyAndSignature`
    structure. -/
theorem km_signature_covers (q : String) (hq : q = "cbntkey.Manifest" ∨ q = "bgkey.Manifest") (S : SDef)
    (h : IsGenerated q S) (vs : List Val) (hs : shaped S.body vs = true) :
    ∃ o rs inner, offsetOf S.body vs "KeyAndSignature" = some o ∧
      S.body.fromField "KeyAndSignature" = .sub "KeyAndSignature" rs inner .done ∧
      SignedRange.covered (S.encode vs) o = encodeRaw (S.body.before "KeyAndSignature") (S.rehash vs) ∧
      (S.encode vs).drop o = encodeRaw (.sub "KeyAndSignature" rs inner .done)
                                ((S.rehash vs).drop (S.body.index "KeyAndSignature")) :=
  SignedRange.km_covered_by_accessor q hq S h vs hs

open Fiano.Manifest Fiano.Manifest.C15 in
/-- **CBnT key manifest, covered range by the stored field** (`bytes[:KeyManifestSignatureOffset]`): the
    stored offset equals the accessor and cuts the output exactly between the fields before
    `KeyAndSignature` and that structure.  `hlen` rules out the wrap of the uint16 field. -/
theorem km_signature_covers_stored (S : SDef) (h : IsGenerated "cbntkey.Manifest" S) (vs : List Val)
    (hs : shaped S.body vs = true) (hlen : (S.encode vs).length < 65536) :
    ∃ off rs inner, getNum S.body (S.rehash vs) "KeyManifestSignatureOffset" = some off ∧
      offsetOf S.body vs "KeyAndSignature" = some off ∧
      S.body.fromField "KeyAndSignature" = .sub "KeyAndSignature" rs inner .done ∧
      SignedRange.covered (S.encode vs) off = encodeRaw (S.body.before "KeyAndSignature") (S.rehash vs) ∧
      (S.encode vs).drop off = encodeRaw (.sub "KeyAndSignature" rs inner .done)
                                  ((S.rehash vs).drop (S.body.index "KeyAndSignature")) :=
  SignedRange.km_covered_by_stored_offset S h vs hs hlen

open Fiano.Manifest Fiano.Manifest.C15 in
/-- **CBnT boot policy manifest, covered range by the stored field** (`bytes[:BPMH.KeySignatureOffset]`):
    exactly the output for the six slots before PMSE followed by PMSE's struct-info; the rest of the
    output is exactly PMSE's `KeySignature` structure (PMSE is the last slot, `KeySignature` its last
    field). -/
theorem bpm_signature_covers_stored (C : Container) (h : IsGeneratedContainer "cbntbootpolicy.Manifest" C)
    (vs : List Val) (bpmh pmse : List Val) (sg st : Slot)
    (hsg : C.slots[0]? = some sg) (hst : C.slots[6]? = some st)
    (hvg : vs[0]? = some (.node bpmh)) (hvt : vs[6]? = some (.node pmse))
    (hshg : shaped sg.elem.body bpmh = true) (hsht : shaped st.elem.body pmse = true)
    (hlen : (C.encode vs).length < 65536) :
    ∃ off Wg Wt rs inner, (C.rehash vs)[0]? = some (.node Wg) ∧ (C.rehash vs)[6]? = some (.node Wt) ∧
      getNum sg.elem.body Wg "KeySignatureOffset" = some off ∧
      st.elem.body.fromField "KeySignature" = .sub "KeySignature" rs inner .done ∧
      SignedRange.covered (C.encode vs) off = ((zipSlots slotRaw C.slots (C.rehash vs)).take 6).flatten
                                    ++ encodeRaw (st.elem.body.before "KeySignature") Wt ∧
      (C.encode vs).drop off = encodeRaw (.sub "KeySignature" rs inner .done)
                                  (Wt.drop (st.elem.body.index "KeySignature")) :=
  SignedRange.bpm_covered_by_stored_offset C h vs bpmh pmse sg st hsg hst hvg hvt hshg hsht hlen

open Fiano.Manifest Fiano.Manifest.C15 in
/-- **the verdict on the bytes of a written CBnT key manifest** ("ReadFrom, then
    `KeyAndSignature.Verify(bytes[:KeyManifestSignatureOffset])`"): it is valid iff the key-and-signature
    structure as written decodes to a `ks` that names an RSA scheme and key, SHA256 or SHA384, and the
    primitive accepts (decoded key, *the named hash of exactly the serialisation of the fields before
    `KeyAndSignature`*, signature bytes) — `verify_bound` with the covered range of the codec.  Bytes
    that follow the manifest have no influence. -/
theorem km_written_verdict_bound (P : Prims) (S : SDef) (h : IsGenerated "cbntkey.Manifest" S) (vs : List Val) (r : Bytes)
    (hwt : wt S.body [] vs = true) (hlen : (S.encode vs).length < 65536) :
    SignedRange.kmVerify P S (S.encode vs ++ r) = some (.ok ()) ↔
      ∃ L kv ks sch, findSub S.body (S.rehash vs) "KeyAndSignature" = some (L, kv) ∧
        SignedRange.ksOfVal L kv = some ks ∧ Cbnt.rsaSchemeOf ks.sig.sigScheme = some sch ∧
        ks.key.keyAlg = Cbnt.algRSA ∧ ks.key.data.length = ks.key.keySize / 8 + 4 ∧
        (ks.sig.hashAlg = Cbnt.algSHA256 ∨ ks.sig.hashAlg = Cbnt.algSHA384) ∧
        P.rsaVerify sch ks.sig.hashAlg (Cbnt.decodeRSA ks.key.data)
          (P.hash ks.sig.hashAlg (encodeRaw (S.body.before "KeyAndSignature") (S.rehash vs))) ks.sig.data = true := by
  rw [SignedRange.kmVerify_written P S h vs r hwt hlen]
  cases hf : findSub S.body (S.rehash vs) "KeyAndSignature" with
  | none => simp
  | some p =>
    obtain ⟨L, kv⟩ := p
    simp only [Option.bind_some]
    cases hk : SignedRange.ksOfVal L kv with
    | none =>
      simp only [Option.map_none]
      constructor
      · intro h; cases h
      · rintro ⟨L', kv', ks', sch, e1, e2, _⟩
        cases e1
        rw [hk] at e2; cases e2
    | some ks =>
      simp only [Option.map_some, Option.some.injEq]
      rw [verify_bound]
      constructor
      · rintro ⟨sch, h1, h2, h3, h4, h5⟩
        exact ⟨L, kv, ks, sch, rfl, hk, h1, h2, h3, h4, h5⟩
      · rintro ⟨L', kv', ks', sch, e1, e2, h1, h2, h3, h4, h5⟩
        cases e1
        rw [hk] at e2
        cases e2
        exact ⟨sch, h1, h2, h3, h4, h5⟩

open Fiano.Manifest Fiano.Manifest.C15 in
/-- **noninterference on the serialised key manifest**: two written key manifests whose fields before
    `KeyAndSignature` serialise alike and whose key-and-signature structures are equal get the same
    verdict, whatever follows them. -/
theorem km_written_verdict_noninterference (P : Prims) (S : SDef) (h : IsGenerated "cbntkey.Manifest" S) (vs vs' : List Val)
    (r r' : Bytes) (hwt : wt S.body [] vs = true) (hwt' : wt S.body [] vs' = true)
    (hlen : (S.encode vs).length < 65536) (hlen' : (S.encode vs').length < 65536)
    (hcov : encodeRaw (S.body.before "KeyAndSignature") (S.rehash vs) =
            encodeRaw (S.body.before "KeyAndSignature") (S.rehash vs'))
    (hks : findSub S.body (S.rehash vs) "KeyAndSignature" = findSub S.body (S.rehash vs') "KeyAndSignature") :
    SignedRange.kmVerify P S (S.encode vs ++ r) = SignedRange.kmVerify P S (S.encode vs' ++ r') :=
  SignedRange.kmVerify_noninterference P S h vs vs' r r' hwt hwt' hlen hlen' hcov hks

/-! ## non-vacuity: the hypotheses above are inhabited -/

/-- the assumed laws hold for the toy primitives -/
example : LawfulHash Toy.prims := Toy.hash_lawful
example : Toy.signers.Lawful Toy.prims := Toy.signers_lawful

/-- `sign_verify` applies: RSASSA with the default hash and a (toy) key `n = 0x0301, e = 65537` -/
example : ∃ ks', Cbnt.setSignature Toy.prims Toy.signers default Cbnt.algRSASSA 0
      (.rsa (show Toy.signers.RSAPriv from ({ n := 0x0301, e := 65537 } : RSAPub))) [] [1, 2, 3] = .ok ks' ∧
    Cbnt.verify Toy.prims ks' [1, 2, 3] = .ok () :=
  sign_verify Toy.prims Toy.signers Toy.signers_lawful Toy.hash_lawful default Cbnt.algRSASSA 0 _ [] [1, 2, 3]
    (by decide) (by decide) .pkcs1v15 (by decide) (by decide)

/-- … and RSAPSS with SHA256 requested -/
example : ∃ ks', Cbnt.setSignature Toy.prims Toy.signers default Cbnt.algRSAPSS Cbnt.algSHA256
      (.rsa (show Toy.signers.RSAPriv from ({ n := 0x0301, e := 3 } : RSAPub))) [] [] = .ok ks' ∧
    Cbnt.verify Toy.prims ks' [] = .ok () :=
  sign_verify Toy.prims Toy.signers Toy.signers_lawful Toy.hash_lawful default Cbnt.algRSAPSS Cbnt.algSHA256 _ [] []
    (by decide) (by decide) .pss (by decide) (by decide)

/-- `sign_stored_ecdsa` applies with the default hash (SHA512) -/
example : ∃ ks', Cbnt.setSignature Toy.prims Toy.signers default 0 0
      (.ecdsa (show Toy.signers.ECPriv from ({ x := 5, y := 7 } : ECPub))) [] [9] = .ok ks' ∧ ks'.sig.data.length = 64 := by
  obtain ⟨ks', h, _, hl, _⟩ := sign_stored_ecdsa Toy.prims Toy.signers Toy.signers_lawful default 0 0
    (show Toy.signers.ECPriv from ({ x := 5, y := 7 } : ECPub)) [] [9] (by decide) (by decide) (.inl rfl) (by decide)
  exact ⟨ks', h, hl⟩

/-- `AgreeOn` is not equality: two different images that agree on the IBB range `[1, 3)` -/
example : AgreeOn (InRanges [(1, 2)]) [0, 1, 2, 3] [9, 1, 2, 7] ∧ ([0, 1, 2, 3] : Bytes) ≠ [9, 1, 2, 7] := by
  refine ⟨⟨rfl, ?_⟩, by decide⟩
  rintro i ⟨r, hr, h1, h2⟩
  simp only [List.mem_singleton] at hr
  subst hr
  have : i = 1 ∨ i = 2 := by simp only at h1 h2; omega
  rcases this with rfl | rfl <;> rfl

/-- `NoAlias` (hypothesis of `psb_rtm_inplace_agrees_of_noalias`) holds for a layout with the signature
    and the directory before the volume -/
example : Psb.InPlace.NoAlias 1 (400, 100) (100, 256) (0, 0) (10, 88) := by
  unfold Psb.InPlace.NoAlias; decide

/-- … and at the boundary: a signature entry that starts exactly where the window ends -/
example : Psb.InPlace.NoAlias 1 (400, 100) (588, 256) (0, 0) (10, 88) ∧
    ¬ Psb.InPlace.NoAlias 1 (400, 100) (587, 256) (0, 0) (10, 88) := by
  unfold Psb.InPlace.NoAlias; decide

/-- `psb_rtm_padding_no_influence` applies: ranges of uint64 values inside a 600-byte image -/
example : Psb.Fits64 (400, 100) ∧ Psb.rtmBounds 600 1 (400, 100) (100, 256) (0, 0) (10, 88) = true := by
  unfold Psb.Fits64; decide

/-- `psb_blob_ranges_wf` applies: an uncompressed binary of 0x100 + 16 signed bytes, signature of a
    2048-bit key right behind -/
example : ∃ r, Psb.blobRanges
      ({ sizeSigned := 16, sigParams := [1], compressionOpts := 0, compressedSize := 0, sizeImage := 528 } : Psb.Header)
      [(.amdRoot, ({ versionID := 1, keyID := [1], certID := [1], usage := 0, reserved := [], expSize := 2048,
                     modSize := 2048, exponent := [], modulus := [] } : Psb.Key))] 528 = .ok r ∧
    r.signedEnd = 272 ∧ r.sigStart = 272 ∧ r.sigLen = 256 :=
  ⟨{ key := { versionID := 1, keyID := [1], certID := [1], usage := 0, reserved := [], expSize := 2048,
              modSize := 2048, exponent := [], modulus := [] },
     signedEnd := 272, sigStart := 272, sigLen := 256 }, by rfl, rfl, rfl, rfl⟩

/-- the uint32 wrap of the compressed convention: a compressed size of 0xFFFFFFF0 "aligns" to a signed
    image of 0xF0 bytes — smaller than the header — and is refused -/
example : Psb.alignedSigned 0xFFFFFFF0 = 0xF0 := by decide

open Fiano.Manifest Fiano.Manifest.C15 in
/-- **the verdict on the bytes of a written CBnT boot policy manifest** ("ReadFrom, then
    `PMSE.KeySignature.Verify(bytes[:BPMH.KeySignatureOffset])`"): `KeySignature.Verify` of PMSE's
    key-and-signature structure as written, over exactly the output for the six slots before PMSE
    followed by PMSE's struct-info.  Hypotheses as in C15's container theorems: the value is well-typed
    as written (`C.wt`), BPMH and PMSE are shaped, fewer bytes than a struct-info follow, and the
    manifest is shorter than 64 KiB (no wrap of the uint16 offset). -/
theorem bpm_written_verdict (P : Prims) (C : Container) (h : IsGeneratedContainer "cbntbootpolicy.Manifest" C)
    (vs : List Val) (r : Bytes) (bpmh pmse : List Val) (sg st : Slot)
    (hsg : C.slots[0]? = some sg) (hst : C.slots[6]? = some st)
    (hvg : vs[0]? = some (.node bpmh)) (hvt : vs[6]? = some (.node pmse))
    (hshg : shaped sg.elem.body bpmh = true) (hsht : shaped st.elem.body pmse = true)
    (hwt : C.wt (C.rehash vs) = true) (hr : r.length < C.siLen) (hlen : (C.encode vs).length < 65536) :
    ∃ Wt, (C.rehash vs)[6]? = some (.node Wt) ∧
      SignedRange.bpmVerify P C (C.encode vs ++ r) =
        (findSub st.elem.body Wt "KeySignature").bind fun p =>
          (SignedRange.ksOfVal p.1 p.2).map fun ks =>
            Cbnt.verify P ks (((zipSlots slotRaw C.slots (C.rehash vs)).take 6).flatten
                                ++ encodeRaw (st.elem.body.before "KeySignature") Wt) :=
  SignedRange.bpmVerify_written P C h vs r bpmh pmse sg st hsg hst hvg hvt hshg hsht hwt hr hlen

/-! ### non-vacuity of sections 8 and 9 -/

set_option maxRecDepth 1000000

/-- `psb_getkeys_ok_trusted` / `psb_getkeys_shape` apply: a complete three-level chain over (wide) toy
    primitives — root A1, database key B2, ABL key C3 certified by B2, OEM key D4 certified by C3 —
    is accepted, so the OEM key is `Trusted` through three verified links -/
example : ∃ ks, Psb.getKeys Psb.Example.prims Psb.Example.rootEntry Psb.Example.dbEntry Psb.Example.ablEntry
    (some Psb.Example.oemEntry) = .ok ks ∧ ks.length = 4 := by
  have h := Psb.Example.chain_ok
  unfold Psb.Example.ids at h
  split at h
  · rename_i ks hk
    refine ⟨ks, hk, ?_⟩
    have := congrArg (Option.map List.length) h
    simpa using this
  · cases h

/-- a broken link in the middle (ABL signature with one bit flipped): `GetKeys` fails and the key set it
    leaves behind holds root and database key only; a token certified by a key that is not in the set,
    or naming a trusted key but signed by another one, or naming and signed by itself, is refused; a broken
    database signature leaves
    the root key alone -/
example : Psb.Example.ids (Psb.getKeys Psb.Example.prims Psb.Example.rootEntry Psb.Example.dbEntry Psb.Example.ablBroken
      (some Psb.Example.oemEntry)) = none ∧
    Psb.Example.ids (Psb.getKeys Psb.Example.prims Psb.Example.rootEntry Psb.Example.dbEntry Psb.Example.ablEntry
      (some Psb.Example.oemUntrusted)) = none ∧
    Psb.Example.ids (Psb.getKeys Psb.Example.prims Psb.Example.rootEntry Psb.Example.dbEntry Psb.Example.ablEntry
      (some Psb.Example.oemWrongSigner)) = none ∧
    Psb.Example.ids (Psb.getKeys Psb.Example.prims Psb.Example.rootEntry Psb.Example.dbEntry Psb.Example.ablEntry
      (some Psb.Example.oemSelfSigned)) = none ∧
    Psb.Example.kids (Psb.getKeysAll Psb.Example.prims Psb.Example.rootEntry Psb.Example.dbBroken Psb.Example.ablEntry
      (some Psb.Example.oemEntry)).1 = [Psb.Example.id16 0xA1] :=
  ⟨Psb.Example.chain_broken_middle.1, Psb.Example.chain_untrusted_signer.1, Psb.Example.chain_wrong_signer,
    Psb.Example.chain_self_signed, Psb.Example.chain_broken_db.2⟩

/-- `KeysAgree` is not equality: root entries that differ in a byte behind the key material agree on
    everything `GetKeys` reads -/
example : Psb.KeysAgree Psb.Example.prims (Psb.Example.rootEntry ++ [7]) (Psb.Example.rootEntry ++ [9])
    Psb.Example.dbEntry Psb.Example.dbEntry Psb.Example.ablEntry Psb.Example.ablEntry none none ∧
    Psb.Example.rootEntry ++ [7] ≠ Psb.Example.rootEntry ++ [9] := by
  have hlen : Psb.Example.rootEntry.length = 576 := Psb.Example.lengths.1
  have hn : (match Psb.parseKey (Psb.Example.rootEntry ++ [7]) with | .ok (_, n) => n | .error _ => 0) = 576 := by
    decide
  refine ⟨⟨⟨by simp, ?_⟩, fun _ _ => AgreeOn.refl _ _, fun _ _ => AgreeOn.refl _ _, rfl,
    fun _ _ _ _ _ hx => by cases hx⟩, by simp⟩
  intro i hi
  have hi' : i < 576 := by
    rcases hi with hi | ⟨k, n, hk, hi⟩
    · omega
    · rw [hk] at hn; simp only at hn; omega
  rw [List.getElem?_append_left (by omega), List.getElem?_append_left (by omega)]

/-- `psb_rtm_full_bound` and `psb_rtm_full_noninterference` apply: the toy image (key chain, directory,
    volume and the signature entry right behind the volume) is valid as a whole; an image that differs
    from it in a byte appended behind everything agrees with it on all covered positions -/
example : (Psb.validateRTMFull Psb.Example.prims Psb.Example.image 1 (0, 576) (576, 928) (1504, 580) (some (2084, 580))
      (2666, 3) (2669, 256) (0, 0) (2664, 2)).map (fun r => (r.1.toBool, r.2 == Psb.Example.image)) = some (true, true) :=
  Psb.Example.image_valid

example : AgreeOn (fun i => Psb.keysCovered Psb.Example.prims (Psb.Example.image ++ [0]) (0, 576) (576, 928) (1504, 580)
      (some (2084, 580)) i ∨ Psb.rtmCovered 1 (2666, 3) (2669, 256) (0, 0) (2664, 2) i)
    (Psb.Example.image ++ [0]) (Psb.Example.image ++ [1]) := by
  have hlen : Psb.Example.image.length = 2925 := Psb.Example.lengths.2.2.2.2
  refine ⟨by simp, ?_⟩
  intro i hi
  have hi' : i < 2925 := by
    rcases hi with (⟨_, h, _⟩ | ⟨_, h, _⟩ | ⟨_, h, _⟩ | ⟨oR, _, _, _, ho, _, h, _⟩) | (h | h | h | h)
    · simp only at h; omega
    · simp only at h; omega
    · simp only at h; omega
    · cases ho; simp only at h; omega
    · simp only at h; omega
    · simp only at h; omega
    · simp only at h; omega
    · exact absurd h.1 (by decide)
  rw [List.getElem?_append_left (by omega), List.getElem?_append_left (by omega)]

/-- section 9: the regenerated layouts exist (`IsGenerated`), the sample key manifest is well-typed on
    them and shorter than 64 KiB; `tie_ks_fields` evaluates the whole pipeline on it -/
example : (∃ S, Fiano.Manifest.C15.IsGenerated "cbntkey.Manifest" S) ∧ (∃ S, Fiano.Manifest.C15.IsGenerated "bgkey.Manifest" S) ∧
    (∃ C, Fiano.Manifest.C15.IsGeneratedContainer "cbntbootpolicy.Manifest" C) := by
  refine ⟨?_, ?_, ?_⟩
  · cases h : Fiano.Manifest.sdefOf Fiano.Manifest.Tie.src 8 "cbntkey.Manifest" with
    | some S => exact ⟨S, by decide, h⟩
    | none => exact absurd h (by decide)
  · cases h : Fiano.Manifest.sdefOf Fiano.Manifest.Tie.src 8 "bgkey.Manifest" with
    | some S => exact ⟨S, by decide, h⟩
    | none => exact absurd h (by decide)
  · cases h : Fiano.Manifest.containerOf Fiano.Manifest.Tie.src 8 "cbntbootpolicy.Manifest"
        (Fiano.Manifest.Tie.strictOf "cbntbootpolicy.Manifest") with
    | some C => exact ⟨C, by decide, h⟩
    | none => exact absurd h (by decide)

/-- … and a small CBnT boot policy manifest (BPMH, no SE, no optional element, PMSE with a toy-sized
    key and signature) satisfies the hypotheses of `bpm_signature_covers_stored` and `bpm_written_verdict`: both elements
    are shaped, the value is well-typed as written, the output is 53 bytes, the stored
    `KeySignatureOffset` is 32 = |BPMH| + |PMSE struct-info|, and the pipeline reaches a verdict -/
example :
    let key : Fiano.Manifest.Val := .node [.num 1, .num 0x10, .num 16, .bytes [1, 0, 1, 0, 0xaa, 0xbb]]
    let sg : Fiano.Manifest.Val := .node [.num 0x14, .num 0x10, .num 16, .num 0x0b, .bytes [0xcc, 0xdd]]
    let bpmh : List Fiano.Manifest.Val :=
      [.node [.bytes (Fiano.Manifest.idBytes "__ACBP__"), .num 0x23, .num 0, .num 0], .num 0, .num 1, .num 2, .num 3, .bytes [0], .num 4]
    let pmse : List Fiano.Manifest.Val :=
      [.node [.bytes (Fiano.Manifest.idBytes "__PMSG__"), .num 0x20, .num 0, .num 0], .node [.num 0x10, key, sg]]
    let bpm : List Fiano.Manifest.Val := [.node bpmh, .node [], .node [], .node [], .node [], .node [], .node pmse]
    (match Fiano.Manifest.containerOf Fiano.Manifest.Tie.src 8 "cbntbootpolicy.Manifest"
        (Fiano.Manifest.Tie.strictOf "cbntbootpolicy.Manifest") with
      | some C => (match C.slots[0]?, C.slots[6]? with
        | some s0, some s6 =>
          Fiano.Manifest.shaped s0.elem.body bpmh && Fiano.Manifest.shaped s6.elem.body pmse &&
          decide ((C.encode bpm).length = 53) &&
          (match (C.rehash bpm)[0]? with
            | some (Fiano.Manifest.Val.node Wg) =>
              decide (Fiano.Manifest.getNum s0.elem.body Wg "KeySignatureOffset" = some 32)
            | _ => false) &&
          decide (SignedRange.covered (C.encode bpm) 32 = (C.encode bpm).take 32) &&
          C.wt (C.rehash bpm) && decide ([7, 7, 7].length < C.siLen) &&
          (SignedRange.bpmVerify Toy.prims C (C.encode bpm ++ [7, 7, 7])).isSome
        | _, _ => false)
      | none => false) = true := by decide

end Fiano.Props.C16
