/-
  C09 — validate accepts what is well-formed and flags what is corrupt.
  Property theorems only; the lemmas live in FianoModel/Uefi/{ChecksumLemmas,ValidateLemmas,ValidateSerLen,
  ValidateWf,ValidateImage}.lean.  All statements are unbounded: every image of the reference grammar, every byte
  string, every alteration position, every replacement value.

  Model: `validate : Tree → St → List VErr` (FianoModel/Uefi/Validate.lean) = `visitors.Validate.Run` with
  one `VErr` per error site; `St` carries `uefi.Attributes.ErasePolarity` as the parser left it.
  The model follows validate.go as repaired by fixes/C09-body-checksum.diff, C09-large-bit.diff and
  C09-headerlen-blockmap.diff.
-/
import FianoModel.Uefi.ValidateWf
import FianoModel.Uefi.ValidateImage
import FianoModel.Uefi.ValidateTie
import FianoModel.Uefi.Tie   -- audited as a tie module of this check: make sure it is built with it
import FianoModel.Uefi.CodeTie   -- T1 code-as-code tie (wp-t1x): audited as a tie module of this check

namespace Fiano.Props.C09
open Fiano Fiano.Uefi Fiano.Uefi.Spec

/-! ## checksum sensitivity ("changing one summed byte changes the sum") -/

/-- replacing one byte of a byte string by a different value changes its 8-bit sum (`uefi.Checksum8`) -/
theorem c09_sum8_sensitive (pre post : Bytes) (x y : UInt8) (h : x ≠ y) :
    sum8 (pre ++ x :: post) ≠ sum8 (pre ++ y :: post) := sum8_alter pre post x y h

/-- replacing one byte of an even-length byte string by a different value changes its 16-bit word sum
    (`uefi.Checksum16`) -/
theorem c09_sum16_sensitive (pre post : Bytes) (x y : UInt8) (h : x ≠ y)
    (hev : (pre ++ x :: post).length % 2 = 0) :
    sum16 (pre ++ x :: post) ≠ sum16 (pre ++ y :: post) := sum16_alter pre post x y h hev

/-- the relation the detection theorems use is "one existing byte replaced by a different value" -/
theorem c09_alter_is_setByte (b : Bytes) (p : Nat) (y : UInt8) (hp : p < b.length) (hy : b[p]'hp ≠ y) :
    Alter b (setByte b p y) p := alter_setByte b p y hp hy

/-! ## validate itself never faults -/

/-- the file case of `Validate.Visit` as Go executes it (with the slice `f.Buf()[headerSize:]` that can
    panic) returns normally on every node, with the errors of the pure model used everywhere else -/
theorem c09_validate_file_no_panic (i : FileInfo) (buf : Bytes) :
    validateFileNodeGo i buf = .ok (validateFileNode i buf) := validateFileNodeGo_eq i buf

/-! ## C09a: no false alarm -/

/-- **C09a** `validate_wf`.  For every image `i` of the reference grammar that is well-formed (`Spec.WF`:
    a faithful reader finds exactly `Spec.tree i`) and sound (`Spec.Sound`: checksums of verbatim files,
    large attribute, volume revision, known file system, descriptor-map bases, region table entries as the
    formats require), validate reports nothing on `Spec.tree i`.  Flash images with descriptor, bare BIOS
    regions, nested volumes to any depth, every file / section kind of the grammar. -/
theorem c09_validate_wf (i : Img) (hv : Valid i) : validate (tree i) (stOf i) = [] :=
  Fiano.Uefi.C09.validate_wf i hv

/-- the same for the implementation's pipeline, given the reader theorem of C01
    (`parse_ser`, wp-uefi stage B) as a hypothesis: parse followed by validate reports nothing -/
theorem c09_validate_parse_ser (i : Img) (hv : Valid i)
    (hparse : parseWith Hooks.none (defaultFuel (ser i)) (ser i) {} = .ok (tree i, stOf i)) :
    parseValidate Hooks.none (ser i) = .ok [] := by
  unfold parseValidate
  rw [hparse]
  simp only [c09_validate_wf i hv]

/-- a hand-written volume: a checksummed driver with a UI and a raw section, a checksummed verbatim
    RAW file, and a pad file -/
def g (n : Nat) : Guid := (List.range 16).map (fun i => UInt8.ofNat (n + i))
def sampleFv : FvI :=
  .ffs (List.replicate 16 0) false 0x0004FEFF 2 0 [⟨28, 8⟩] none
    [ .sect (g 1) 7 0x40 0xF8 [.ui [0x41, 0x42], .leaf 0x19 false [1, 2, 3, 4, 5]],
      .leaf (g 0x30) 38 211 1 0x40 0xF8 false [1, 2, 3, 4, 5, 6, 7, 8, 9],
      .leaf guidFF 0 0xAA 0xF0 0 0xF8 false (List.replicate 8 0xFF) ] 32
def sampleImg : Img := .bios ⟨[([], sampleFv)], []⟩

set_option maxRecDepth 100000 in
/-- non-vacuity of C09a -/
theorem c09_sample_valid : Valid sampleImg := by decide

/-- … and the reader hypothesis of `c09_validate_parse_ser` holds on it (evaluated by the kernel) -/
theorem c09_sample_parses :
    (match parseWith Hooks.none (defaultFuel (ser sampleImg)) (ser sampleImg) {} with
     | .ok (t, st) => decide (validate t st = []) && decide (st = stOf sampleImg)
     | .error _ => false) = true := by decide +kernel

/-! ## C09b at node level: no miss -/

/-- **Volume header.**  `data` is what the parser sees at the volume's offset.  If the volume parsed from
    `data` passes the volume checks and `data'` differs from `data` in exactly one byte of the volume
    header `[0, HeaderLen)` — the `HeaderLen` bytes 48–49 and the `Length` field included — then the volume
    parsed from `data'` (whenever the parser accepts it at all) fails at least one volume check. -/
theorem c09_alter_detected_fvHeader {h h' : Hooks} {fuel fuel' off off' : Nat} {rs rs' : Bool}
    {st st1 st' st2 : St} {data data' : Bytes} {fv fv' : Fv} {p : Nat}
    (hp : parseFv h fuel data off rs st = .ok (fv, st1))
    (hv : validateFvNode fv.info fv.buf = [])
    (ha : Alter data data' p) (hlt : p < fv.info.headerLen)
    (hp' : parseFv h' fuel' data' off' rs' st' = .ok (fv', st2)) :
    validateFvNode fv'.info fv'.buf ≠ [] := fvHeader_alter_detected hp hv ha hlt hp'

/-- **File.**  `buf` is what the parser sees at the file's offset.  If the file parsed from `buf` passes
    the file checks and `buf'` differs from `buf` in exactly one byte of the file that is a header byte
    other than `State` (size field, large bit and `IntegrityCheck.File` included) or — when the file carries
    the body-checksum attribute — any byte of the file, then the file parsed from `buf'` (whenever the
    parser reports a file there) fails at least one file check. -/
theorem c09_alter_detected_file {h h' : Hooks} {fuel fuel' : Nat} {st st1 st' st2 : St} {buf buf' : Bytes}
    {f f' : File} {p : Nat}
    (hp : parseFile h fuel buf st = .ok (some f, st1)) (hv : validateFileNode f.info f.buf = [])
    (ha : Alter buf buf' p) (hin : p < f.info.extSize) (hst : p ≠ 23)
    (hcl : p < (if isLarge f.info.attrs = true then 32 else 24) ∨ hasChecksum f.info.attrs = true)
    (hp' : parseFile h' fuel' buf' st' = .ok (some f', st2)) :
    validateFileNode f'.info f'.buf ≠ [] := file_alter_detected hp hv ha hin hst hcl hp'

/-- the same on bytes alone: the integrity conditions of a file (PI 1.7 vol. 3, 3.2.3) cannot hold on two
    byte strings that differ in exactly one protected byte -/
theorem c09_file_integrity_sensitive {buf buf' : Bytes} {p : Nat} (ok : FileBytesOk buf) (ok' : FileBytesOk buf')
    (ha : Alter buf buf' p) (hin : p < extOf buf) (hst : p ≠ 23)
    (hcl : p < hsOf buf ∨ hasChecksum (rd buf 19 1) = true) : False :=
  fileBytesOk_alter ok ok' ha hin hst hcl

/-- non-vacuity of the node-level theorems: the sample volume parses, passes, and the hypotheses are met
    by the alteration of byte 48 (`HeaderLen`) and of byte 72+19 (the attribute byte of the first file) -/
theorem c09_sample_node_hyps :
    (match parseFv Hooks.none 300 (ser sampleImg) 0 false {} with
     | .ok (fv, _) => decide (validateFvNode fv.info fv.buf = []) && decide (48 < fv.info.headerLen)
     | .error _ => false) = true ∧
    (match parseFile Hooks.none 300 ((ser sampleImg).drop 72) {} with
     | .ok (some f, _) => decide (validateFileNode f.info f.buf = []) && decide (19 < f.info.extSize)
     | _ => false) = true := by
  constructor <;> decide +kernel

/-! ## C09b at image level: the volume that starts the image

  Full statement of DESIGN §7 (`alter_detected`), for the record:

    ∀ i, Valid i → ∀ p ∈ protectedPositions i, ∀ b', Alter (ser i) b' p →
      ∀ es, parseValidate Hooks.none b' = .ok es → es ≠ []

  It is **false** as it stands — two excluded points are reproduced on the real code
  (corpus/C09/x-size-becomes-freespace.json, x-zerovector-signature.json; known findings) — and is proved
  below, on byte strings rather than on the grammar (so for *every* image that parses and validates cleanly,
  grammar or not), for the volume at offset 0 of an image without flash descriptor: all its header bytes and
  all protected bytes of the files directly inside it.  Not proved at image level (node level only, above):
  later volumes of a BIOS region, volumes nested in sections, regions of a flash image with descriptor —
  they need "the parser reaches the same node again", i.e. locality of the parser for everything that
  precedes the altered node (checks.d/C09.json `unproved`). -/

/-- **C09b `alter_detected`, volume-header class, first volume** (`_partial`: first volume only).
    Hypothesis forced by the proof: the altered image is still not taken for a flash image (it can only fail
    when the alteration is in zero-vector bytes 0–3 and completes the flash signature there). -/
theorem c09_alter_detected_fvHeader_partial (h : Hooks) {b b' : Bytes} {p : Nat}
    (hns : findSignature b = none) (hns' : findSignature b' = none) (h0 : findFvOffset b = some 0)
    (hok : parseValidate h b = .ok []) (ha : Alter b b' p) (hp : p < rd b 48 2) (hsig : ¬ (40 ≤ p ∧ p < 44)) :
    parseValidate h b' ≠ .ok [] := alter_detected_fvHeader_first h hns hns' h0 hok ha hp hsig

/-- **C09b `alter_detected`, file classes (checksummed header bytes, body-checksum byte, body bytes of a
    body-checksummed file), files directly inside the first volume** (`_partial`).  `fv` is the first
    volume as the parser returns it, `f` one of its files, `o = align8 (startAfter pre DataOffset)` its
    offset, `r` the position inside the file.  Hypotheses forced by the proof: the byte lies behind the
    volume header and extended header; the image is shorter than 2^64 − 8 bytes; the altered header is not
    the free-space marker (size FFFFFF followed by eight erased bytes: the excluded point at which the real
    code misses the alteration). -/
theorem c09_alter_detected_file_partial (h : Hooks) {b b' : Bytes} {fv : Fv} {st1 : St} {pre post : List File}
    {f : File} {r : Nat}
    (hns : findSignature b = none) (h0 : findFvOffset b = some 0) (hok : parseValidate h b = .ok [])
    (hfv : parseFv h (b.length + 7) b 0 false {} = .ok (fv, st1))
    (hfiles : fv.files = pre ++ f :: post)
    (ha : Alter b b' (align8 (startAfter pre fv.info.dataOffset) + r))
    (hr : r < f.info.extSize) (h23 : r ≠ 23)
    (hcl : r < (if isLarge f.info.attrs = true then 32 else 24) ∨ hasChecksum f.info.attrs = true)
    (hpro : fvPrologue b ≤ align8 (startAfter pre fv.info.dataOffset) + r)
    (hbig : b.length + 8 < 2 ^ 64)
    (hfree : ¬ FreeSpaceAt (b'.take (rd b 32 8)) (align8 (startAfter pre fv.info.dataOffset))) :
    parseValidate h b' ≠ .ok [] :=
  alter_detected_file_first h hns h0 hok hfv hfiles ha hr h23 hcl hpro hbig hfree

/-- non-vacuity of the image-level theorems: on the sample image (first volume at 0, no descriptor, clean)
    the second file (the checksummed RAW file, `pre` = the driver) starts at 120, byte 120 + 30 is one of
    its body bytes and lies behind the volume prologue; byte 48 is a volume-header byte -/
theorem c09_sample_image_hyps :
    (let b := ser sampleImg
     decide (findSignature b = none) && decide (findFvOffset b = some 0) &&
     (match parseValidate Hooks.none b with | .ok [] => true | _ => false) && decide (48 < rd b 48 2) &&
     (match parseFv Hooks.none (b.length + 7) b 0 false {} with
      | .ok (fv, _) =>
        (match fv.files with
         | f0 :: f1 :: _ =>
           decide (align8 (startAfter [f0] fv.info.dataOffset) = 120) && decide (30 < f1.info.extSize) &&
           hasChecksum f1.info.attrs && decide (fvPrologue b ≤ 150) && decide (b.length + 8 < 2 ^ 64)
         | _ => false)
      | .error _ => false)) = true := by decide +kernel

end Fiano.Props.C09
