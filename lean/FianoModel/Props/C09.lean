/-
  C09 — validate accepts what is well-formed and flags what is corrupt.
  Property theorems only; the lemmas live in FianoModel/Uefi/{ChecksumLemmas,ValidateLemmas,ValidateSerLen,
  ValidateWf,ValidateImage}.lean and, for the follow-up wp-c09b (image-level detection for every protected
  node, validate on saved images, `regionsValid`), in Uefi/{ValidateLocal,ValidateLocalFv,ValidateScan,
  ValidatePath,ValidateTree,ValidateSample,ValidateWitnessA,ValidateWitnessB,ValidateSaved,ValidateBridgeCore,
  ValidateBridge,ValidateRegions,ValidateGrammar}.lean (definitions only: ValidateLoc.lean), and for the
  follow-up wp-c09c (validate on what the tool saved after ANY edit sequence; detection in the stored payload
  of GUID-defined sections) in Uefi/ValidateEdit{Node,Tree,Top,Conv,Run,Sample,SampleFlash*,SampleGrow,Stored,StoredIn}.lean
  (definitions only: ValidateEditDef.lean).  All statements are unbounded: every image of the reference grammar, every byte
  string, every alteration position, every replacement value, every path into the tree.

  Model: `validate : Tree → St → List VErr` (FianoModel/Uefi/Validate.lean) = `visitors.Validate.Run` with
  one `VErr` per error site; `St` carries `uefi.Attributes.ErasePolarity` as the parser left it.
  The model follows validate.go as repaired by fixes/C09-body-checksum.diff, C09-large-bit.diff and
  C09-headerlen-blockmap.diff.
-/
import FianoModel.Uefi.ValidateWf
import FianoModel.Uefi.ValidateImage
import FianoModel.Uefi.ValidateTie
import FianoModel.Uefi.Tie   -- audited as a tie module of this check: make sure it is built with it
import FianoModel.Uefi.ValidateTree
import FianoModel.Uefi.ValidateSample
import FianoModel.Uefi.ValidateWitnessA
import FianoModel.Uefi.ValidateWitnessB
import FianoModel.Uefi.ValidateSaved
import FianoModel.Uefi.ValidateBridgeCore
import FianoModel.Uefi.ValidateBridge
import FianoModel.Uefi.ValidateRegions
import FianoModel.Uefi.ValidateGrammar
import FianoModel.Uefi.CodeTie   -- T1 code-as-code tie (wp-t1x): audited as a tie module of this check
import FianoModel.Uefi.ValidateEditRun          -- wp-c09c: validate_saved for a whole edited tree
import FianoModel.Uefi.ValidateEditSample
import FianoModel.Uefi.ValidateEditSampleFlash
import FianoModel.Uefi.ValidateEditSampleGrow
import FianoModel.Uefi.ValidateEditConv         -- wp-c09c: extraB is implied by a clean validate
import FianoModel.Uefi.ValidateEditStored       -- wp-c09c: detection in the stored payload of GUID-defined sections
import FianoModel.Uefi.ValidateEditStoredIn

namespace Fiano.Props.C09
open Fiano Fiano.Uefi Fiano.Uefi.Spec

/-! ## checksum sensitivity ("changing one summed byte changes the sum") -/

/-- replacing one byte of a byte string by a different value changes its 8-bit sum (`uefi.Checksum8`) -/
theorem c09_sum8_sensitive (pre post : Bytes) (x y : UInt8) (h : x ≠ y) :
    sum8 (pre ++ x :: post) ≠ sum8 (pre ++ y :: post) := sum8_alter pre post x y h

/-- replacing one byte of an even-length byte string by a different value changes its 16-bit word sum
    (`uefi.Checksum16`) -/
theorem c09_sum16_sensitive (pre post : Bytes) (x y : UInt8) (h : x ≠ y)
    (hev : (pre ++ x :: post).length % 2 = 0) :
    sum16 (pre ++ x :: post) ≠ sum16 (pre ++ y :: post) := sum16_alter pre post x y h hev

/-- the relation the detection theorems use is "one existing byte replaced by a different value" -/
theorem c09_alter_is_setByte (b : Bytes) (p : Nat) (y : UInt8) (hp : p < b.length) (hy : b[p]'hp ≠ y) :
    Alter b (setByte b p y) p := alter_setByte b p y hp hy

/-! ## validate itself never faults -/

/-- the file case of `Validate.Visit` as Go executes it (with the slice `f.Buf()[headerSize:]` that can
    panic) returns normally on every node, with the errors of the pure model used everywhere else -/
theorem c09_validate_file_no_panic (i : FileInfo) (buf : Bytes) :
    validateFileNodeGo i buf = .ok (validateFileNode i buf) := validateFileNodeGo_eq i buf

/-! ## C09a: no false alarm -/

/-- **C09a** `validate_wf`.  For every image `i` of the reference grammar that is well-formed (`Spec.WF`:
    a faithful reader finds exactly `Spec.tree i`) and sound (`Spec.Sound`: checksums of verbatim files,
    large attribute, volume revision, known file system, descriptor-map bases, region table entries as the
    formats require), validate reports nothing on `Spec.tree i`.  Flash images with descriptor, bare BIOS
    regions, nested volumes to any depth, every file / section kind of the grammar. -/
theorem c09_validate_wf (i : Img) (hv : Valid i) : validate (tree i) (stOf i) = [] :=
  Fiano.Uefi.C09.validate_wf i hv

/-- the same for the implementation's pipeline, given the reader theorem of C01
    (`parse_ser`, wp-uefi stage B) as a hypothesis: parse followed by validate reports nothing -/
theorem c09_validate_parse_ser (i : Img) (hv : Valid i)
    (hparse : parseWith Hooks.none (defaultFuel (ser i)) (ser i) {} = .ok (tree i, stOf i)) :
    parseValidate Hooks.none (ser i) = .ok [] := by
  unfold parseValidate
  rw [hparse]
  simp only [c09_validate_wf i hv]

/-- a hand-written volume: a checksummed driver with a UI and a raw section, a checksummed verbatim
    RAW file, and a pad file -/
def g (n : Nat) : Guid := (List.range 16).map (fun i => UInt8.ofNat (n + i))
def sampleFv : FvI :=
  .ffs (List.replicate 16 0) false 0x0004FEFF 2 0 [⟨28, 8⟩] none
    [ .sect (g 1) 7 0x40 0xF8 [.ui [0x41, 0x42], .leaf 0x19 false [1, 2, 3, 4, 5]],
      .leaf (g 0x30) 38 211 1 0x40 0xF8 false [1, 2, 3, 4, 5, 6, 7, 8, 9],
      .leaf guidFF 0 0xAA 0xF0 0 0xF8 false (List.replicate 8 0xFF) ] 32
def sampleImg : Img := .bios ⟨[([], sampleFv)], []⟩

set_option maxRecDepth 100000 in
/-- non-vacuity of C09a -/
theorem c09_sample_valid : Valid sampleImg := by decide

/-- … and the reader hypothesis of `c09_validate_parse_ser` holds on it (evaluated by the kernel) -/
theorem c09_sample_parses :
    (match parseWith Hooks.none (defaultFuel (ser sampleImg)) (ser sampleImg) {} with
     | .ok (t, st) => decide (validate t st = []) && decide (st = stOf sampleImg)
     | .error _ => false) = true := by decide +kernel

/-! ## C09b at node level: no miss -/

/-- **Volume header.**  `data` is what the parser sees at the volume's offset.  If the volume parsed from
    `data` passes the volume checks and `data'` differs from `data` in exactly one byte of the volume
    header `[0, HeaderLen)` — the `HeaderLen` bytes 48–49 and the `Length` field included — then the volume
    parsed from `data'` (whenever the parser accepts it at all) fails at least one volume check. -/
theorem c09_alter_detected_fvHeader {h h' : Hooks} {fuel fuel' off off' : Nat} {rs rs' : Bool}
    {st st1 st' st2 : St} {data data' : Bytes} {fv fv' : Fv} {p : Nat}
    (hp : parseFv h fuel data off rs st = .ok (fv, st1))
    (hv : validateFvNode fv.info fv.buf = [])
    (ha : Alter data data' p) (hlt : p < fv.info.headerLen)
    (hp' : parseFv h' fuel' data' off' rs' st' = .ok (fv', st2)) :
    validateFvNode fv'.info fv'.buf ≠ [] := fvHeader_alter_detected hp hv ha hlt hp'

/-- **File.**  `buf` is what the parser sees at the file's offset.  If the file parsed from `buf` passes
    the file checks and `buf'` differs from `buf` in exactly one byte of the file that is a header byte
    other than `State` (size field, large bit and `IntegrityCheck.File` included) or — when the file carries
    the body-checksum attribute — any byte of the file, then the file parsed from `buf'` (whenever the
    parser reports a file there) fails at least one file check. -/
theorem c09_alter_detected_file {h h' : Hooks} {fuel fuel' : Nat} {st st1 st' st2 : St} {buf buf' : Bytes}
    {f f' : File} {p : Nat}
    (hp : parseFile h fuel buf st = .ok (some f, st1)) (hv : validateFileNode f.info f.buf = [])
    (ha : Alter buf buf' p) (hin : p < f.info.extSize) (hst : p ≠ 23)
    (hcl : p < (if isLarge f.info.attrs = true then 32 else 24) ∨ hasChecksum f.info.attrs = true)
    (hp' : parseFile h' fuel' buf' st' = .ok (some f', st2)) :
    validateFileNode f'.info f'.buf ≠ [] := file_alter_detected hp hv ha hin hst hcl hp'

/-- the same on bytes alone: the integrity conditions of a file (PI 1.7 vol. 3, 3.2.3) cannot hold on two
    byte strings that differ in exactly one protected byte -/
theorem c09_file_integrity_sensitive {buf buf' : Bytes} {p : Nat} (ok : FileBytesOk buf) (ok' : FileBytesOk buf')
    (ha : Alter buf buf' p) (hin : p < extOf buf) (hst : p ≠ 23)
    (hcl : p < hsOf buf ∨ hasChecksum (rd buf 19 1) = true) : False :=
  fileBytesOk_alter ok ok' ha hin hst hcl

/-- non-vacuity of the node-level theorems: the sample volume parses, passes, and the hypotheses are met
    by the alteration of byte 48 (`HeaderLen`) and of byte 72+19 (the attribute byte of the first file) -/
theorem c09_sample_node_hyps :
    (match parseFv Hooks.none 300 (ser sampleImg) 0 false {} with
     | .ok (fv, _) => decide (validateFvNode fv.info fv.buf = []) && decide (48 < fv.info.headerLen)
     | .error _ => false) = true ∧
    (match parseFile Hooks.none 300 ((ser sampleImg).drop 72) {} with
     | .ok (some f, _) => decide (validateFileNode f.info f.buf = []) && decide (19 < f.info.extSize)
     | _ => false) = true := by
  constructor <;> decide +kernel

/-! ## C09b at image level: the volume that starts the image

  Full statement of DESIGN §7 (`alter_detected`), for the record:

    ∀ i, Valid i → ∀ p ∈ protectedPositions i, ∀ b', Alter (ser i) b' p →
      ∀ es, parseValidate Hooks.none b' = .ok es → es ≠ []

  It is **false** as it stands — two excluded points are reproduced on the real code
  (corpus/C09/x-size-becomes-freespace.json, x-zerovector-signature.json; known findings) — and is proved
  below, on byte strings rather than on the grammar (so for *every* image that parses and validates cleanly,
  grammar or not), first for the volume at offset 0 of an image without flash descriptor (the two `_partial`
  theorems below: all its header bytes and all protected bytes of the files directly inside it), then — section
  "every protected node" further down, `c09_alter_detected_image` — for every volume and file a path into
  the tree selects: later volumes of a BIOS region, volumes nested in volume-image sections at any depth,
  the BIOS region of a flash image with descriptor.  What makes the step possible is the locality of the
  parser: the walk up to a node depends only on the headers of the nodes in front of it. -/

/-- **C09b `alter_detected`, volume-header class, first volume** (`_partial`: first volume only).
    Hypothesis forced by the proof: the altered image is still not taken for a flash image (it can only fail
    when the alteration is in zero-vector bytes 0–3 and completes the flash signature there). -/
theorem c09_alter_detected_fvHeader_partial (h : Hooks) {b b' : Bytes} {p : Nat}
    (hns : findSignature b = none) (hns' : findSignature b' = none) (h0 : findFvOffset b = some 0)
    (hok : parseValidate h b = .ok []) (ha : Alter b b' p) (hp : p < rd b 48 2) (hsig : ¬ (40 ≤ p ∧ p < 44)) :
    parseValidate h b' ≠ .ok [] := alter_detected_fvHeader_first h hns hns' h0 hok ha hp hsig

/-- **C09b `alter_detected`, file classes (checksummed header bytes, body-checksum byte, body bytes of a
    body-checksummed file), files directly inside the first volume** (`_partial`).  `fv` is the first
    volume as the parser returns it, `f` one of its files, `o = align8 (startAfter pre DataOffset)` its
    offset, `r` the position inside the file.  Hypotheses forced by the proof: the byte lies behind the
    volume header and extended header; the image is shorter than 2^64 − 8 bytes; the altered header is not
    the free-space marker (size FFFFFF followed by eight erased bytes: the excluded point at which the real
    code misses the alteration). -/
theorem c09_alter_detected_file_partial (h : Hooks) {b b' : Bytes} {fv : Fv} {st1 : St} {pre post : List File}
    {f : File} {r : Nat}
    (hns : findSignature b = none) (h0 : findFvOffset b = some 0) (hok : parseValidate h b = .ok [])
    (hfv : parseFv h (b.length + 7) b 0 false {} = .ok (fv, st1))
    (hfiles : fv.files = pre ++ f :: post)
    (ha : Alter b b' (align8 (startAfter pre fv.info.dataOffset) + r))
    (hr : r < f.info.extSize) (h23 : r ≠ 23)
    (hcl : r < (if isLarge f.info.attrs = true then 32 else 24) ∨ hasChecksum f.info.attrs = true)
    (hpro : fvPrologue b ≤ align8 (startAfter pre fv.info.dataOffset) + r)
    (hbig : b.length + 8 < 2 ^ 64)
    (hfree : ¬ FreeSpaceAt (b'.take (rd b 32 8)) (align8 (startAfter pre fv.info.dataOffset))) :
    parseValidate h b' ≠ .ok [] :=
  alter_detected_file_first h hns h0 hok hfv hfiles ha hr h23 hcl hpro hbig hfree

/-- non-vacuity of the image-level theorems: on the sample image (first volume at 0, no descriptor, clean)
    the second file (the checksummed RAW file, `pre` = the driver) starts at 120, byte 120 + 30 is one of
    its body bytes and lies behind the volume prologue; byte 48 is a volume-header byte -/
theorem c09_sample_image_hyps :
    (let b := ser sampleImg
     decide (findSignature b = none) && decide (findFvOffset b = some 0) &&
     (match parseValidate Hooks.none b with | .ok [] => true | _ => false) && decide (48 < rd b 48 2) &&
     (match parseFv Hooks.none (b.length + 7) b 0 false {} with
      | .ok (fv, _) =>
        (match fv.files with
         | f0 :: f1 :: _ =>
           decide (align8 (startAfter [f0] fv.info.dataOffset) = 120) && decide (30 < f1.info.extSize) &&
           hasChecksum f1.info.attrs && decide (fvPrologue b ≤ 150) && decide (b.length + 8 < 2 ^ 64)
         | _ => false)
      | .error _ => false)) = true := by decide +kernel

/-! ## C09b at image level: every protected node (follow-up wp-c09b)

  `Path := List Nat` selects a node of the parsed tree:

      image without descriptor   n :: p      n-th volume of the region, then `p` inside it
      flash image                ρ :: n :: p ρ-th region of the tree (the BIOS region), n-th volume, `p`
      inside a volume            []          the volume (its header)
                                 [k]         its k-th file
                                 k :: j :: p file k, section j (a volume-image section), `p` in the nested volume

  `locTree t path = some il` computes from the tree alone the absolute offset `il.pos` of the node's first
  byte, the target (`il.loc.tgt`: a volume header or a file), the top-level volume (`il.vol`, relative to the
  region at `il.region`), where the scan that found it started (`il.base`) and the volumes passed through.
  Files inside decompressed sections are not image bytes and have no path. -/

/-- **Locality of the volume scan** (`FindFirmwareVolumeOffset`).  The scan over `d` found a volume at `off`;
    one byte `x` of `d` is altered; the scan finds the volume at `off` again when `x` lies behind the
    volume's signature, or in front of it without making `_FVH` appear at the probe position whose 8-byte
    stride contains `x` (`NewSig`). -/
theorem c09_scan_local {d d' : Bytes} {off x : Nat} (h0 : findFvOffset d = some off) (ha : Alter d d' x)
    (hx : off + 44 ≤ x ∨ (x < off + 40 ∧ ¬ NewSig d' x)) : findFvOffset d' = some off :=
  findFvOffset_alter_stable h0 ha hx

/-- **Locality of the volume parser.**  An alteration behind the `Length` bytes of a volume does not change
    what `parseFv` returns: same node, same process state.  (The same holds for `parseFile`,
    `parseFile_alter_beyond`; it does **not** hold for `parseSection`: a GUID-defined section decodes
    `buf[DataOffset:]` to the end of the file and reads its sub-header from the unclipped buffer.  For the
    loops — sections of a file, decoded payload, files of a volume, volumes of a region — the walk-level form
    is proved: `parseSections_detect`, `parseEncap_detect`, `parseFiles_detect`, `biosElems_detect`.) -/
theorem c09_parseFv_local {h : Hooks} {fuel : Nat} {data data' : Bytes} {off : Nat} {rs : Bool} {st st1 : St}
    {fv : Fv} {q : Nat} (ha : Alter data data' q) (hp : parseFv h fuel data off rs st = .ok (fv, st1))
    (hq : fv.info.length ≤ q) : parseFv h fuel data' off rs st = .ok (fv, st1) :=
  parseFv_alter_beyond ha hp hq

/-- **Detection along a path inside a volume the parser is handed** (a nested volume, or a top-level volume
    once the scan has found it).  `fv` was parsed from `data` and passes with everything below it; the path
    selects a node at offset `loc.off` of `data`; one protected byte of it is altered.  Then every volume
    the parser reports on the altered bytes — from any process state, with any budget — fails validation.
    Here **no byte of a volume header is excluded**, the signature included: `parseFv` does not look for the
    volume.  Hypotheses: every volume whose file area the path enters keeps its files behind its header and
    extended header; the buffer is shorter than 2^64 − 8; the altered header of a selected *file* is not the
    free-space marker. -/
theorem c09_alter_detected_in_volume (h : Hooks) (path : Path) {fuel : Nat} {data data' : Bytes} {off : Nat}
    {rs : Bool} {st st1 : St} {fv : Fv} {loc : Loc} {r : Nat}
    (hp : parseFv h fuel data off rs st = .ok (fv, st1)) (hv : vFv fv = [])
    (hloc : locFv path fv = some loc) (hreg : ∀ v ∈ loc.through, v.regular)
    (ha : Alter data data' (loc.off + r)) (hpr : loc.tgt.protects r) (hbig : data.length + 8 < 2 ^ 64)
    (hfree : ∀ f, loc.tgt = .file f → ¬ FreeMarker data' loc.off) :
    ∀ fuel' off' rs' st' fv' st2, parseFv h fuel' data' off' rs' st' = .ok (fv', st2) → vFv fv' ≠ [] :=
  fv_path_detected h path fuel data data' off rs st st1 fv loc r hp hv hloc hreg ha hpr hbig hfree

/-- **C09b `alter_detected`, every protected node.**  `b` parses to `t` and validates cleanly.  `path`
    selects a volume or a file anywhere in the tree (`locTree`): any volume of an image without descriptor or
    of the BIOS region of a flash image, any file directly inside, any volume nested in a volume-image section
    at any depth and any file in it.  `b'` differs from `b` in exactly one protected byte of that node
    (`Target.protects`: every byte of the volume header `[0, HeaderLen)`; every file-header byte but `State`
    — size, attributes, `IntegrityCheck.File` included — and every byte of a body-checksummed file).  Then
    parsing `b'` fails or validate reports at least one error.

    Hypotheses:
    * `hreg` — every volume whose file area the path enters keeps its files behind its header and extended
      header (true of every volume of the reference grammar and of every volume the tool writes);
    * `hbig` — the image is shorter than 2^64 − 8 bytes;
    * `hflash` — the alteration neither creates nor destroys the flash-descriptor signature (automatic from
      image offset 20 on: `c09_flash_signature_far`);
    and the two **exceptions**, each a genuine miss reproduced on the real code (known findings), each with
    a kernel-checked witness below:
    * `hscan : ScanKept …` — the byte is not one of the four signature bytes of the *top-level* volume (the
      exclusion the property itself makes; for nested volumes the signature is covered), and when it lies in
      front of them it does not make `_FVH` appear at a position the volume scan probes before it reaches
      the volume (F-C09-zerovector, `c09_exception_zerovector`);
    * `hfree : ¬ FreeMarker …` — the selected node is a file and its altered header does not read "size
      FFFFFF followed by eight erased bytes", which `NewFile` takes for the start of the free space
      (F-C09-freespace, `c09_exception_freespace`).  The second form of free space the repaired reader knows
      (fixes/C02-erased-tail-24) cannot arise from a one-byte alteration of a file that passes: proved, not
      assumed (`parseFile_target_detect`). -/
theorem c09_alter_detected_image (h : Hooks) {b b' : Bytes} {t : Tree} {st : St} {path : Path} {il : ImgLoc} {r : Nat}
    (hparse : parseWith h (defaultFuel b) b {} = .ok (t, st)) (hval : validate t st = [])
    (hloc : locTree t path = some il) (hreg : ∀ v ∈ il.loc.through, v.regular)
    (ha : Alter b b' (il.pos + r)) (hpr : il.loc.tgt.protects r)
    (hbig : b.length + 8 < 2 ^ 64)
    (hflash : findSignature b' = findSignature b)
    (hscan : ScanKept (b'.drop il.region) il.base il.vol (il.loc.off + r))
    (hfree : ∀ f, il.loc.tgt = .file f → ¬ FreeMarker b' il.pos) :
    parseValidate h b' ≠ .ok [] :=
  alter_detected_image h hparse hval hloc hreg ha hpr hbig hflash hscan hfree

/-- **C09b `alter_detected` on the reference grammar** — the statement of DESIGN §7 with its exceptions
    spelled out.  For every valid image `i` (`WF` and `Sound`), every node a path selects in `Spec.tree i` and
    every single-byte alteration `b'` of `ser i` in a protected byte of that node: parsing `b'` fails or validate
    reports an error.  Nothing is assumed about the parse, validate or the volumes on the path (C01
    `parseWith_ser`, `c09_validate_wf`, and every volume of the grammar keeps its files behind its headers);
    what remains are the size bound, the flash-signature condition and the two exceptions. -/
theorem c09_alter_detected_grammar (i : Img) (hv : Valid i) {b' : Bytes} {path : Path} {il : ImgLoc} {r : Nat}
    (hloc : locTree (tree i) path = some il)
    (ha : Alter (ser i) b' (il.pos + r)) (hpr : il.loc.tgt.protects r)
    (hbig : (ser i).length + 8 < 2 ^ 64)
    (hflash : findSignature b' = findSignature (ser i))
    (hscan : ScanKept (b'.drop il.region) il.base il.vol (il.loc.off + r))
    (hfree : ∀ f, il.loc.tgt = .file f → ¬ FreeMarker b' il.pos) :
    parseValidate Hooks.none b' ≠ .ok [] :=
  Fiano.Uefi.C09.alter_detected_grammar i hv hloc ha hpr hbig hflash hscan hfree

/-- `hscan` is automatic for every byte behind the signature of the top-level volume — in particular for
    every byte of a file and of a nested volume in a volume that keeps its files behind its header -/
theorem c09_scanKept_far (d : Bytes) (base cur q : Nat) (h : 44 ≤ q) : ScanKept d base cur q :=
  ⟨by omega, fun h40 => by omega⟩

/-- the verdict `T` the driver computes for the harness (`why`, `imgwhy`: FianoModel/Uefi/ValidateLoc.lean
    `verdictAt`) is this theorem: on an image that parses and validates cleanly, `T` for "byte `p` becomes `y`"
    implies that the altered image is refused by the parser or flagged by validate -/
theorem c09_verdict_T_detected (b : Bytes) (t : Tree) (st : St) (p : Nat) (y : UInt8)
    (hparse : parseWith Hooks.none (defaultFuel b) b {} = .ok (t, st)) (hval : validate t st = [])
    (hbig : b.length + 8 < 2 ^ 64) (hv : Fiano.Uefi.C09.verdictAt b (Fiano.Uefi.C09.nodesOf t) p y = 'T') :
    parseValidate Hooks.none (setByte b p y) ≠ .ok [] :=
  Fiano.Uefi.C09.verdictAt_T_detected b t st p y hparse hval hbig hv

/-- `hflash` is automatic for every alteration from image offset 20 on -/
theorem c09_flash_signature_far {b b' : Bytes} {p : Nat} (ha : Alter b b' p) (hp : 20 ≤ p) :
    findSignature b' = findSignature b := findSignature_alter_far ha hp

/-- `Fiano.Uefi.C09.hyps b path r y` is the executable conjunction of all hypotheses of
    `c09_alter_detected_image` for "byte `r` of the node `path` selects becomes `y`": when it evaluates to
    `true` the theorem applies -/
theorem c09_hyps_sound (b : Bytes) (path : Path) (r : Nat) (y : UInt8) (h : Fiano.Uefi.C09.hyps b path r y = true) :
    ∃ t st il, parseWith Hooks.none (defaultFuel b) b {} = .ok (t, st) ∧ locTree t path = some il ∧
      parseValidate Hooks.none (setByte b (il.pos + r) y) ≠ .ok [] :=
  Fiano.Uefi.C09.hyps_detected b path r y h

open Fiano.Uefi.C09 in
/-- **non-vacuity of `c09_alter_detected_image`** (kernel evaluation).  `deepImg` is a BIOS region without
    descriptor: a volume with three files, 16 bytes of padding, a second volume whose only file holds a
    volume-image section with a third volume inside, a 3-byte tail; `deepFlash` is a flash image (4 KiB
    descriptor + 4 KiB BIOS region) with the same volumes.  Both are `Valid`; all hypotheses hold for:
    byte 48 (`HeaderLen`) of the second volume's header (image offset 240 + 48), the attribute byte of the
    file in the second volume (312 + 19), byte 41 — a *signature* byte — of the nested volume's header
    (340 + 41), a body byte of the checksummed file in the nested volume (412 + 30), the same nested body
    byte in the flash image (4508 + 30), and `HeaderLen` of the first volume of the flash image. -/
theorem c09_sample_deep_hyps :
    Valid deepImg ∧ Valid deepFlash ∧
    (whereIs (ser deepImg) [1] == some (240, 224, 240) && whereIs (ser deepImg) [1, 0] == some (312, 224, 240) &&
     whereIs (ser deepImg) [1, 0, 0] == some (340, 224, 240) && whereIs (ser deepImg) [1, 0, 0, 0] == some (412, 224, 240) &&
     whereIs (ser deepFlash) [0, 1, 0, 0, 0] == some (4508, 4320, 4336) &&
     hyps (ser deepImg) [1] 48 0 && hyps (ser deepImg) [1, 0] 19 0 && hyps (ser deepImg) [1, 0, 0] 41 0 &&
     hyps (ser deepImg) [1, 0, 0, 0] 30 0 && hyps (ser deepFlash) [0, 1, 0, 0, 0] 30 0 &&
     hyps (ser deepFlash) [0, 0] 48 0) = true := by
  refine ⟨by decide +kernel, by decide +kernel, by decide +kernel⟩

open Fiano.Uefi.C09 in
/-- **Exception F-C09-zerovector, witnessed** (corpus/C09/x-zerovector-signature.json, kernel evaluation).
    `zvImg`: 40 bytes of padding, then a volume whose reserved zero vector reads `_FVG…`.  The image parses
    and validates cleanly; for "byte 3 of the volume header becomes `H`" (image offset 43) every hypothesis
    of `c09_alter_detected_image` holds except `ScanKept` (the `false` argument) — and the altered image
    parses and validates **without any error**: the scan finds a phantom volume 40 bytes earlier that
    swallows the real one. -/
theorem c09_exception_zerovector :
    (isClean (parseValidate Hooks.none (ser zvImg)) && hypsBut (ser zvImg) [0] 3 0x48 false true &&
     isClean (parseValidate Hooks.none (altered (ser zvImg) 43 0x48))) = true := by decide +kernel

open Fiano.Uefi.C09 in
/-- **Exception F-C09-freespace, witnessed** (corpus/C09/x-size-becomes-freespace.json, kernel evaluation of
    a 64 KiB image in ValidateWitnessA/B.lean).  `fsImg`: a RAW file of 0x00FFFF bytes with an erased body,
    then a checksummed file.  For "size byte 2 of the first file becomes FF" (image offset 94) every
    hypothesis of `c09_alter_detected_image` holds except `¬ FreeMarker` — and the altered image parses and
    validates **without any error**: both files have vanished into the free space. -/
theorem c09_exception_freespace :
    hypsBut (ser fsImg) [0, 0] 22 0xFF true false = true ∧
    isClean (parseValidate Hooks.none (altered (ser fsImg) 94 0xFF)) = true := ⟨fs_hyps, fs_missed⟩

/-! ## C09a: images the tool has saved (follow-up wp-c09b) -/

/-- the reader hypothesis of `c09_validate_parse_ser` is discharged by C01 (`parseWith_ser`): parse followed
    by validate reports nothing on the serialisation of every valid image -/
theorem c09_validate_ser (i : Img) (hv : Valid i) : parseValidate Hooks.none (ser i) = .ok [] :=
  Fiano.Uefi.C09.validate_ser i hv

/-- **`validate_saved`, unedited save**: for every valid image, `Save` (parse, assemble, write) succeeds and
    what it wrote, parsed again, validates without error (C01 `save_identity` ∘ `c09_validate_wf`) -/
theorem c09_validate_saved_unedited (i : Img) (hv : Valid i) :
    ∃ out, save Hooks.none (ser i) = .ok out ∧ parseValidate Hooks.none out = .ok [] :=
  Fiano.Uefi.C09.validate_saved_unedited i hv

/-- **`validate_saved`, per node — files**: a file that satisfies the file rules X1–X5 of C02's independent
    reader (`Valid.fileOk`: what C02 proves of every pad file and every rebuilt file `Assemble` writes,
    Props/C02 `padFile_valid`, `asmFile_valid`) and stores FFFFFF in its size field when it is large passes
    every file check of validate on the node the parser makes of it, whatever follows it in the volume -/
theorem c09_saved_file_validates {fuel0 o : Nat} {fb rest : Bytes} (hok : Valid.fileOk (fuel0 + 1) fb o = true)
    (hlarge : Valid.fld fb 19 1 % 2 = 1 → Valid.fld fb 20 3 = 0xFFFFFF)
    {h : Hooks} {fuel : Nat} {st st1 : St} {f : File}
    (hp : parseFile h fuel (fb ++ rest) st = .ok (some f, st1)) : validateFileNode f.info f.buf = [] :=
  Fiano.Uefi.C09.fileOk_validates hok hlarge hp

/-- **… sections**: a section with consistent size fields (`SecSized`: the size fields of C02's `GoodSec`,
    what `GenSecHeader` writes, Props/C02 `genSecHeader_valid`) passes the section checks of validate -/
theorem c09_saved_section_validates {sb rest : Bytes} (hgs : Fiano.Uefi.C09.SecSized sb) {h : Hooks} {fuel idx : Nat}
    {st st1 : St} {s : Section} (hp : parseSection h fuel (sb ++ rest) idx st = .ok (s, st1)) :
    validateSecNode s.info s.buf = [] := Fiano.Uefi.C09.secSized_validates hgs hp

/-- **… volumes**: a volume that satisfies the rules V1–V7 of C02's independent reader (`Valid.fvOk`: what
    C02 proves of every volume a relayout writes, Props/C02 `relayout_volume_valid`), has revision 2 and a
    file-system GUID the tool knows passes every volume check of validate — `HeaderLen` against the block
    map, length, signature, the 16-bit header checksum -/
theorem c09_saved_fv_validates {fuel0 : Nat} {b rest : Bytes} (hok : Valid.fvOk (fuel0 + 1) b = true)
    (hrev : rd b 55 1 = 2) (hguid : knownFvGuids.contains (slice b 16 16) = true)
    {h : Hooks} {fuel off : Nat} {rs : Bool} {st st1 : St} {fv : Fv}
    (hp : parseFv h fuel (b ++ rest) off rs st = .ok (fv, st1)) : validateFvNode fv.info fv.buf = [] :=
  Fiano.Uefi.C09.fvOk_validates hok hrev hguid hp

/-- **`validate_saved`, pad files** (C02 `padFile_valid` ∘ bridge): the pad file `Assemble` creates for a gap
    — any size from 24 bytes on, either erase polarity, both header forms — passes every file check of
    validate once the saved image is parsed again -/
theorem c09_saved_padFile_validates (pol : UInt8) (size : Nat) (h24 : 24 ≤ size) (h64 : size < 2 ^ 64)
    (hp : pol = 0xFF ∨ pol = 0) :
    ∃ f, mkPadFile pol size = .ok f ∧
      ∀ (h : Hooks) (fuel : Nat) (rest : Bytes) (st st1 : St) (g : File),
        parseFile h fuel (f.buf ++ rest) st = .ok (some g, st1) → validateFileNode g.info g.buf = [] :=
  Fiano.Uefi.C09.padFile_validates pol size h24 h64 hp

/-- **`validate_saved`, rebuilt files** (C02 `asmFile_valid` ∘ bridge): the file `Assemble` rebuilds from its
    sections (`SetSize`, `ChecksumAndAssemble`) passes every file check of validate once the saved image is
    parsed again; hypotheses of C02 `asmFile_valid` (the sections have consistent sizes, header fields in
    range) — the alignment hypothesis is not needed, validate does not look at it -/
theorem c09_saved_asmFile_validates (i : FileInfo) (secs : List Bytes)
    (hsec : ∀ b ∈ secs, GoodSec b) (hb : joinEnd secs 0 < 2 ^ 62)
    (hg : i.guid.length = 16) (ht : i.type < 256) (ha : i.attrs < 256) (hst : i.state < 256)
    {h : Hooks} {fuel : Nat} {rest : Bytes} {st st1 : St} {g : File}
    (hp : parseFile h fuel
      ((checksumAndAssemble { i with attrs := (setSize i.attrs (24 + (joinPad4 secs []).length) true).1,
                                      size3 := (setSize i.attrs (24 + (joinPad4 secs []).length) true).2.1,
                                      extSize := (setSize i.attrs (24 + (joinPad4 secs []).length) true).2.2 }
          (joinPad4 secs [])).2 ++ rest) st = .ok (some g, st1)) :
    validateFileNode g.info g.buf = [] :=
  Fiano.Uefi.C09.asmFile_validates i secs hsec hb hg ht ha hst hp

/-- **`validate_saved`, regenerated sections** (C02 `genSecHeader_valid` ∘ bridge): the section
    `GenSecHeader` writes (UI, version, depex regenerated by Assemble; the PE32 section of replace_pe32;
    GUID-defined with its sub-header) passes the section checks of validate once parsed again -/
theorem c09_saved_genSecHeader_validates (i i' : SecInfo) (body buf' : Bytes)
    (hgen : genSecHeader i body = .ok (i', buf'))
    (ht : i.type < 256) (hnf : i.type ≠ 0x17) (hts : i.type ≠ 0x02 → i.ts = none)
    (hg : ∀ g, i.ts = some g → g.guid.length = 16) (hb : body.length + 28 < 4294967296)
    {h : Hooks} {fuel idx : Nat} {rest : Bytes} {st st1 : St} {s : Section}
    (hp : parseSection h fuel (buf' ++ rest) idx st = .ok (s, st1)) : validateSecNode s.info s.buf = [] :=
  Fiano.Uefi.C09.genSecHeader_validates i i' body buf' hgen ht hnf hts hg hb hp

/-- **`validate_saved`, relaid-out volumes** (C02 `relayout_volume_valid` ∘ bridge): under the hypotheses of
    C02's theorem (a relayout that neither grows the volume nor switches it to FFSv3, on a volume node whose
    buffer is the whole volume and passes the reader's header rules), when the volume had revision 2 and a
    file-system GUID the tool knows before the edit (the header patches do not touch those bytes: proved),
    the volume `Assemble` writes passes every volume check of validate once the saved image is parsed again -/
theorem c09_saved_relayout_validates (i : FvInfo) (buf : Bytes) (files : List File) (st : St) (i' : FvInfo)
    (out : Bytes) (st' : St)
    (hr : relayoutFv i buf files st = .ok (i', out, st'))
    (hp : st.pol = 0xFF ∨ st.pol = 0)
    (hgood : ∀ f ∈ files, GoodFile st.pol (f.info.attrs, f.buf))
    (hbound : layEnd (placed files) i.dataOffset < 2 ^ 62)
    (hfit : layEnd (placed files) i.dataOffset ≤ i.length)
    (hfull : buf.length = i.length) (hok : hdrOk buf = true) (hffs : fvIsFfs buf = true)
    (hhl : i.headerLen = Valid.fld buf 48 2)
    (hcnt : ∀ b0 bs, i.blocks = b0 :: bs → b0.count = Valid.fld buf 56 4)
    (hnoswap : (st.ffs3 && i.fsGuid == guidFFS2) = false)
    (hD : i.dataOffset = Valid.alignUp (fvFirst buf) 8) (hD64 : 64 ≤ i.dataOffset)
    (her : Valid.allAre st.pol ((buf.drop (fvFirst buf)).take (i.dataOffset - fvFirst buf)) = true)
    (hpol : st.pol = fvErased buf)
    (hext : Valid.fld buf 52 2 ≠ 0 → Valid.fld buf 52 2 + 20 ≤ i.dataOffset)
    (hhD : Valid.fld buf 48 2 ≤ i.dataOffset)
    (hrev : rd buf 55 1 = 2) (hguid : knownFvGuids.contains (slice buf 16 16) = true)
    {h : Hooks} {fuel off : Nat} {rs : Bool} {rest : Bytes} {st0 st1 : St} {fv : Fv}
    (hpv : parseFv h fuel (out ++ rest) off rs st0 = .ok (fv, st1)) : validateFvNode fv.info fv.buf = [] :=
  Fiano.Uefi.C09.relayout_volume_validates i buf files st i' out st' hr hp hgood hbound hfit hfull hok hffs hhl hcnt
    hnoswap hD hD64 her hpol hext hhD hrev hguid hpv

open Fiano.Uefi.C09 in
/-- non-vacuity of the three bridges: the checksummed file of the nested sample volume, a RAW section of 8
    bytes, and the nested sample volume itself satisfy their hypotheses -/
theorem c09_sample_saved_hyps :
    (Valid.fileOk 1 (serFile (.leaf (g 0x40) 39 220 1 0x40 0xF8 false [1, 2, 3, 4, 5, 6, 7, 8])) 72 &&
     decide (Valid.fld (serFile (.leaf (g 0x40) 39 220 1 0x40 0xF8 false [1, 2, 3, 4, 5, 6, 7, 8])) 19 1 % 2 = 0) &&
     Valid.fvOk 9 (serFv fvC) && decide (rd (serFv fvC) 55 1 = 2) &&
     knownFvGuids.contains (slice (serFv fvC) 16 16)) = true ∧
    SecSized [8, 0, 0, 0x19, 1, 2, 3, 4] :=
  ⟨by decide +kernel, ⟨by decide, by decide, by decide⟩⟩

/-! ## C09a: `regionsValid` is not a hypothesis any more (follow-up wp-c09b) -/

/-- **`regionsValid` follows from well-formedness**: every region of `Spec.tree` of a well-formed flash image
    carries a valid table entry — the selected entry of its kind for a region the table describes, the entry
    the reader synthesises for a gap (valid because the flash has fewer than 0xFFFF blocks) -/
theorem c09_regionsValid_of_wf (f : FlashI) (h : WF (.flash f)) : regionsValid f = true :=
  Fiano.Uefi.C09.wfFlash_regionsValid f h

/-- the soundness conditions without the region-entry conjunct -/
def SoundCore : Img → Prop
  | .flash f => soundDesc f.desc = true ∧ f.regions.all soundReg = true
  | .bios b => soundBios b = true

/-- **C09a with `Sound` reduced to what is genuinely extra**: well-formed + checksums / revision / known
    file system / descriptor-map bases ⇒ validate reports nothing -/
theorem c09_validate_wf_core (i : Img) (hw : WF i) (hs : SoundCore i) : validate (tree i) (stOf i) = [] := by
  apply c09_validate_wf i
  refine ⟨hw, ?_⟩
  cases i with
  | flash f => exact Fiano.Uefi.C09.sound_of_wf_flash f hw hs.1 hs.2
  | bios b => exact hs

open Fiano.Uefi.C09 in
/-- non-vacuity of `c09_validate_wf_core` / `c09_regionsValid_of_wf`: the sample flash image is well formed
    and satisfies `SoundCore` (kernel evaluation) -/
theorem c09_sample_soundCore : WF deepFlash ∧ SoundCore deepFlash :=
  ⟨by decide +kernel, ⟨by decide +kernel, by decide +kernel⟩⟩

/-! ## C09a, second half, closed: validate on what the tool saved after an edit sequence (follow-up wp-c09c)

  Full statement of DESIGN §7 (`validate_saved`): for every image and every command sequence, if the run
  succeeds, validate reports nothing on the saved image.  Proved below **for the re-parsed saved image** (what
  `utk saved.rom validate` does), by composing C02's central theorem `edits_valid` (every image written passes
  the independent reader `Valid.validImage`) with the bridge

      validImage bs  ∧  uefi.Parse bs = (t, st)  ∧  readAlikeB t  ∧  extraB t st   ⇒   validate t st = []

  (`c09_validImage_validates`).  It is NOT stated for the in-memory tree after `Assemble`: C02's invariant
  does not say that the fields of a rebuilt node are those of its new bytes.  The hypotheses are decidable
  predicates on the re-parsed tree, collected in `reparseB`:
    * the parse of the saved image succeeds (`validImage ⇒ parse succeeds` is not proved: a codec may refuse
      what it is handed; sections of unlisted types; …);
    * `readAlikeB` — fiano read the headers as the specification does (C02's hypothesis, here on the output);
    * `extraB` — the checks validate makes that the reader does not: revision 2 and a known file-system GUID
      of every volume, polarity of the top-level volumes = the process-wide one, valid region entries, a volume
      in the BIOS region, descriptor-map bases, and clean children below GUID-defined sections (decoded bytes
      are not image bytes; neither the reader nor C02's invariant speaks about them).
  That these hold on the output whenever they hold on the input (a preservation proof over all operations) is
  what remains open; the oracle `saved-validates` of the harness watches it on the implementation. -/

/-- **what C02's independent reader accepts, validate accepts** — on the tree `uefi.Parse` builds from those
    bytes, from any process state and with any recursion budget; every image below 256 MiB, flash images
    with descriptor and bare BIOS regions, volumes nested to any depth.  Hypotheses: `readAlikeB t` (fiano
    read the headers as the specification does) and `extraB t st'` (the checks validate makes beyond the
    reader, FianoModel/Uefi/ValidateEditDef.lean); the laws of the hooks (`BoundedCodecs`, `NvLaw`). -/
theorem c09_validImage_validates (h : Hooks) (hb : h.BoundedCodecs) (hlaw : h.NvLaw) (fuel : Nat) (bs : Bytes)
    (st st' : St) (t : Tree) (hp : parseWith h fuel bs st = .ok (t, st')) (hv : Valid.validImage bs = true)
    (hL : bs.length < 65536 * 4096) (hRA : readAlikeB t = true) (hx : Fiano.Uefi.C09.extraB t st' = true) :
    validate t st' = [] :=
  Fiano.Uefi.C09.ve_validImage_validates h hb hlaw fuel bs st st' t hp hv hL hRA hx

/-- … as one statement about parse + validate in a fresh process: `ok []` -/
theorem c09_validImage_parseValidate (h : Hooks) (hb : h.BoundedCodecs) (hlaw : h.NvLaw) (b : Bytes)
    (hv : Valid.validImage b = true) (hL : b.length < 65536 * 4096) (hre : Fiano.Uefi.C09.reparseB h b = true) :
    parseValidate h b = .ok [] :=
  Fiano.Uefi.C09.ve_parseValidate_clean h hb hlaw b hv hL hre

/-- **`extraB` is the weakest hypothesis possible**: it is implied by the conclusion, for every tree and
    state, with no assumption at all -/
theorem c09_extraB_of_clean (t : Tree) (st : St) (h : validate t st = []) : Fiano.Uefi.C09.extraB t st = true :=
  Fiano.Uefi.C09.ve_extra_of_clean t st h

/-- … hence on an image the reader accepts, read as the specification reads it, **validate is clean iff
    `extraB` holds**: `extraB` is exactly the part of validate that the reader's rules do not imply -/
theorem c09_clean_iff_extraB (h : Hooks) (hb : h.BoundedCodecs) (hlaw : h.NvLaw) (fuel : Nat) (bs : Bytes)
    (st st' : St) (t : Tree) (hp : parseWith h fuel bs st = .ok (t, st')) (hv : Valid.validImage bs = true)
    (hL : bs.length < 65536 * 4096) (hRA : readAlikeB t = true) :
    validate t st' = [] ↔ Fiano.Uefi.C09.extraB t st' = true :=
  Fiano.Uefi.C09.ve_clean_iff_extra h hb hlaw fuel bs st st' t hp hv hL hRA

/-- **C09a `validate_saved`, whole edited tree**: for every image the independent reader accepts (below
    256 MiB) and every command line of the modelled operations — insert at front / end / after / before,
    replace_ffs, insert pad_file, insert_dxe, remove, remove_pad, replace_pe32, saves between the edits,
    read-only commands; the nested volume that grows by a block and the switch to FFSv3 included —, if `utk`
    succeeds then **every image it wrote, parsed again and validated in a fresh process, gives `ok []`**,
    provided that image is read again as the specification reads it (`reparseB`: the parse succeeds,
    `readAlikeB`, `extraB`).  Other hypotheses: those of C02's `edits_valid` (on the *input*: `readAlikeB` of
    its tree; `SpecOk` of the command line; the hooks laws). -/
theorem c09_validate_saved_edits (h : Hooks) (hb : h.BoundedCodecs) (hlaw : h.NvLaw) (image : Bytes)
    (specs : List OpSpec) (r : Run) (hu : utk h image specs = .ok r)
    (hv : Valid.validImage image = true) (hL : image.length < 65536 * 4096)
    (hspecs : ∀ s ∈ specs, SpecOk h s)
    (hRA : ∀ ops st t st', cliParse h specs {} = .ok (ops, st) →
      parseWith h (defaultFuel image) image st = .ok (t, st') → readAlikeB t = true) :
    ∀ b ∈ r.outs, Fiano.Uefi.C09.reparseB h b = true → parseValidate h b = .ok [] :=
  Fiano.Uefi.C09.ve_validate_saved h hb hlaw image specs r hu hv hL hspecs hRA

/-- the same in tree form: on every image written, whatever state and budget it is parsed with -/
theorem c09_validate_saved_edits_tree (h : Hooks) (hb : h.BoundedCodecs) (hlaw : h.NvLaw) (image : Bytes)
    (specs : List OpSpec) (r : Run) (hu : utk h image specs = .ok r)
    (hv : Valid.validImage image = true) (hL : image.length < 65536 * 4096)
    (hspecs : ∀ s ∈ specs, SpecOk h s)
    (hRA : ∀ ops st t st', cliParse h specs {} = .ok (ops, st) →
      parseWith h (defaultFuel image) image st = .ok (t, st') → readAlikeB t = true) :
    ∀ b ∈ r.outs, ∀ fuel st0 t st, parseWith h fuel b st0 = .ok (t, st) → readAlikeB t = true →
      Fiano.Uefi.C09.extraB t st = true → validate t st = [] :=
  Fiano.Uefi.C09.ve_validate_saved_tree h hb hlaw image specs r hu hv hL hspecs hRA

/-- **`validate_saved` with `create-fv`** (C02 `edits_valid_createfv`): command lines that mix `create-fv` with
    the modelled operations, every `create-fv` finding its state as `Guard2` / `CreateFvPre` asks -/
theorem c09_validate_saved_edits_createfv (h : Hooks) (hb : h.BoundedCodecs) (hlaw : h.NvLaw) (image : Bytes)
    (specs : List OpSpec2) (r : Run) (hu : utk2 h image specs = .ok r)
    (hv : Valid.validImage image = true) (hL : image.length < 65536 * 4096)
    (hspecs : ∀ s, .base s ∈ specs → SpecOk h s)
    (hRA : ∀ ops st t st', cliParse2 h specs {} = .ok (ops, st) →
      parseWith h (defaultFuel image) image st = .ok (t, st') → readAlikeB t = true)
    (hG : ∀ ops st t st', cliParse2 h specs {} = .ok (ops, st) →
      parseWith h (defaultFuel image) image st = .ok (t, st') → Guard2 h ops { tree := t, st := st' }) :
    ∀ b ∈ r.outs, Fiano.Uefi.C09.reparseB h b = true → parseValidate h b = .ok [] :=
  Fiano.Uefi.C09.ve_validate_saved_createfv h hb hlaw image specs r hu hv hL hspecs hRA hG

open Fiano.Uefi.C09 SampleC04 in
/-- **non-vacuity, bare BIOS image with a decoded GUID-defined section** (kernel evaluation): on C04's
    264-byte sample image the command line `remove <1st driver> save replace_pe32 <2nd driver> MZ remove_pad
    <2nd driver> save` succeeds and writes two images, both different from the input; all hypotheses of
    `c09_validate_saved_edits` hold (`reparseB` on both outputs included), hence both validate cleanly -/
theorem c09_sample_validate_saved : ∃ r, utk hooks sampleBios veSpecs = .ok r ∧ r.outs.length = 2 ∧
    ∀ b ∈ r.outs, b ≠ sampleBios ∧ reparseB hooks b = true ∧ parseValidate hooks b = .ok [] :=
  ve_sample_validate_saved

open Fiano.Uefi.C09 in
/-- **non-vacuity, flash image with a nested volume** (kernel evaluation, ≈ 2 min when rebuilt): on the 8 KiB
    `deepFlash` the command line `remove <RAW file of the 1st volume> save remove_pad <the file of the NESTED
    volume> save` succeeds and writes two images, both different from the input; all hypotheses hold, hence
    both validate cleanly -/
theorem c09_sample_validate_saved_flash : ∃ r, utk Hooks.none veFlash veFlashSpecs = .ok r ∧ r.outs.length = 2 ∧
    ∀ b ∈ r.outs, b ≠ veFlash ∧ reparseB Hooks.none b = true ∧ parseValidate Hooks.none b = .ok [] :=
  ve_flash_validate_saved

open Fiano.Uefi.C09 in
/-- **non-vacuity in the growing branch** (kernel evaluation): on the 579-byte `deepImg`, `insert_end <file of
    the nested volume> <96-byte RAW file> save` succeeds; the nested volume (168 bytes, 64 free) cannot hold the
    new file and **grows** to 200 bytes (`Length`, `Blocks[0].Count` rewritten; section, holder file, outer
    volume rebuilt); all hypotheses of `c09_validate_saved_edits` hold — `SpecOk` of the inserted file
    included —, hence the saved image validates cleanly -/
theorem c09_sample_validate_saved_grow : ∃ r, utk Hooks.none veGrowImg veGrowSpecs = .ok r ∧ r.outs.length = 1 ∧
    veNestedLen veGrowImg = some 168 ∧
    ∀ b ∈ r.outs, veNestedLen b = some 200 ∧ reparseB Hooks.none b = true ∧ parseValidate Hooks.none b = .ok [] :=
  ve_grow_validate_saved

/-! ## C09b inside GUID-defined sections: the stored payload (follow-up wp-c09c)

  Full statement wanted: altering a byte that *determines* a file inside a decompressed section is detected.
  Those files are parsed from decoded bytes; which image byte determines which decoded byte is up to the
  codec, so the statement has no model-level meaning beyond the stored bytes.  Proved: every **stored** byte
  of a GUID-defined section — common header, sub-header, compressed payload — is a body byte of the enclosing
  file(s); when one of them carries the checksum attribute it is a protected byte and detection follows from
  `c09_alter_detected_image`.  Open: stored bytes under files without body checksum at every level (validate
  has no check that covers them — the format's only protection there would be the section's own CRC32 /
  the codec's integrity, which validate.go does not look at), and any statement about the decoded children. -/

open Fiano.Uefi.C09 in
/-- **`alter_detected` for the stored payload of a GUID-defined section**: the image parses and validates
    cleanly; `path` selects a file `f` with the checksum attribute; byte `r` of `f` is a stored byte of its
    `j`-th section, a GUID-defined one (`StoredGuidByte`: header, sub-header or compressed payload, behind
    the file header and inside the file).  One alteration of that byte ⇒ the parser refuses the altered image
    or validate reports an error — for every codec, whatever it decodes from the altered payload.
    Hypotheses and exceptions: those of `c09_alter_detected_image`. -/
theorem c09_alter_detected_stored_payload (h : Hooks) {b b' : Bytes} {t : Tree} {st : St} {path : Path} {il : ImgLoc}
    {f : File} {j r : Nat}
    (hparse : parseWith h (defaultFuel b) b {} = .ok (t, st)) (hval : validate t st = [])
    (hloc : locTree t path = some il) (hreg : ∀ v ∈ il.loc.through, v.regular)
    (htgt : il.loc.tgt = .file f) (hck : hasChecksum f.info.attrs = true) (hst : StoredGuidByte f j r)
    (ha : Alter b b' (il.pos + r))
    (hbig : b.length + 8 < 2 ^ 64)
    (hflash : findSignature b' = findSignature b)
    (hscan : ScanKept (b'.drop il.region) il.base il.vol (il.loc.off + r))
    (hfree : ¬ FreeMarker b' il.pos) :
    parseValidate h b' ≠ .ok [] :=
  ve_alter_detected_stored h hparse hval hloc hreg htgt hck hst ha hbig hflash hscan hfree

open Fiano.Uefi.C09 in
/-- **non-vacuity** (kernel evaluation): `veGuidImg` = C04's sample image with the checksum attribute on the
    driver whose only section is GUID-defined.  The path `[0, 1]` selects that driver at image offset 120;
    file bytes 24 (section header), 30 (GUID of the sub-header), 44 (`DataOffset`), 50 and 63 (stored payload)
    are `StoredGuidByte`s of a checksummed file, bytes 23 and 64 are not; all hypotheses of the theorem hold for
    the five alterations; and with the sample codec the section has two decoded children and the image still
    validates cleanly -/
theorem c09_sample_stored_payload :
    (whereIs veGuidImg [0, 1] == some (120, 0, 0) &&
     veStoredB 24 && veStoredB 30 && veStoredB 44 && veStoredB 50 && veStoredB 63 && !veStoredB 64 && !veStoredB 23 &&
     hyps veGuidImg [0, 1] 24 0 && hyps veGuidImg [0, 1] 30 0 && hyps veGuidImg [0, 1] 44 0 &&
     hyps veGuidImg [0, 1] 50 1 && hyps veGuidImg [0, 1] 63 1) = true :=
  ve_sample_stored

open Fiano.Uefi.C09 in
/-- **… with the side condition derived** (C04 `Faithful`: the sections of a parsed file lie behind its header
    and inside it; paths never enter a GUID-defined section, so every node on the way is a window of the
    image): `SectionByte f j r` = byte `r` of `f` lies in its `j`-th section and that section is GUID-defined.
    Hypotheses: those of `c09_alter_detected_image` with the size bound `GoLen b` (a Go slice: < 2^63 bytes),
    and the law `BoundedCodecs` of the hooks. -/
theorem c09_alter_detected_stored_section (h : Hooks) (hb : h.BoundedCodecs) {b b' : Bytes} {t : Tree} {st : St}
    {path : Path} {il : ImgLoc} {f : File} {j r : Nat}
    (hparse : parseWith h (defaultFuel b) b {} = .ok (t, st)) (hval : validate t st = [])
    (hloc : locTree t path = some il) (hreg : ∀ v ∈ il.loc.through, v.regular)
    (htgt : il.loc.tgt = .file f) (hck : hasChecksum f.info.attrs = true) (hsec : SectionByte f j r)
    (ha : Alter b b' (il.pos + r))
    (hgo : GoLen b)
    (hflash : findSignature b' = findSignature b)
    (hscan : ScanKept (b'.drop il.region) il.base il.vol (il.loc.off + r))
    (hfree : ¬ FreeMarker b' il.pos) :
    parseValidate h b' ≠ .ok [] :=
  ve_alter_detected_stored_section h hb hparse hval hloc hreg htgt hck hsec ha hgo hflash hscan hfree

open Fiano.Uefi.C09 in
/-- … and for the compressed payload proper (file byte 44 or later) the flash-signature condition and
    `ScanKept` are automatic: what remains are `Fv.regular` on the path, `GoLen`, and the free-space exception -/
theorem c09_alter_detected_stored_section_far (h : Hooks) (hb : h.BoundedCodecs) {b b' : Bytes} {t : Tree} {st : St}
    {path : Path} {il : ImgLoc} {f : File} {j r : Nat}
    (hparse : parseWith h (defaultFuel b) b {} = .ok (t, st)) (hval : validate t st = [])
    (hloc : locTree t path = some il) (hreg : ∀ v ∈ il.loc.through, v.regular)
    (htgt : il.loc.tgt = .file f) (hck : hasChecksum f.info.attrs = true) (hsec : SectionByte f j r) (h44 : 44 ≤ r)
    (ha : Alter b b' (il.pos + r))
    (hgo : GoLen b)
    (hfree : ¬ FreeMarker b' il.pos) :
    parseValidate h b' ≠ .ok [] :=
  ve_alter_detected_stored_section_far h hb hparse hval hloc hreg htgt hck hsec h44 ha hgo hfree

open Fiano.Uefi.C09 in
/-- non-vacuity of `SectionByte` / `GoLen` (kernel evaluation): the GUID-defined section occupies file bytes
    24 … 63 of the checksummed driver of `veGuidImg` -/
theorem c09_sample_section :
    (veSectionB 24 && veSectionB 47 && veSectionB 48 && veSectionB 63 && !veSectionB 23 && !veSectionB 64 &&
     decide (GoLen veGuidImg)) = true :=
  ve_sample_section

end Fiano.Props.C09
