/-
  C12 — Shrinking the ME region never loses ME partitions or BIOS content.

  Property theorems only (helper lemmas: FianoModel/TightenMe/*Lemmas.lean, WF.lean, Preserve.lean).
  All statements are unbounded: every well-formed flash tree (`WF`, FianoModel/TightenMe/WF.lean —
  what parsing a flash image builds: the regions tile [4096, size) in list order according to the
  descriptor's table, ME node ↔ slot 1, BIOS node ↔ slot 0, BIOS `Length` = total size of its
  elements, `FreeSpaceOffset` = what NewMERegion computes), every erase polarity, every partition
  table.  `tighten` models `TightenME.Run` AS REPAIRED (fixes/C12-partition-beyond-region.diff);
  `asmFlash` models `visitors.Assemble` (what `save` writes).

  Forced hypotheses (each excluded point was run on the real code, see reports/C12.md):
   * `free ≤ |ME buffer|`   — otherwise unrepaired Go panics (DESIGN §8 #22); repaired Go and the
                              model refuse (`c12_refuses_partition_beyond_region`).
   * ME base ≥ 1, values fit uint16 — not hypotheses: they follow from `WF` (the chain starts at
                              4096 and the table fields are 16 bit), see `tighten_shape`.
   * FPT parsed             — not needed: without a table `free = 0`, an all-erased ME region is
                              shrunk to nothing (`newBoundary base 0 = base`), which loses no
                              partition because there is none; stated as `c12_no_table`.
   * master section not on top of the region section — needed only for the two fields to *hold*
                              the new values in the written descriptor (`c12_descriptor_fields`);
                              "no other descriptor byte changes" holds without it.
-/
import FianoModel.TightenMe.Preserve
import FianoModel.TightenMe.ParseLemmas
import FianoModel.TightenMe.Reparse
import FianoModel.TightenMe.SecondRun
import FianoModel.TightenMe.Large
import FianoModel.TightenMe.TreeStep
import FianoModel.TightenMe.TreeAbs
import FianoModel.TightenMe.TreeAsm
import FianoModel.TightenMe.TreeExample
import FianoModel.TightenMe.TreeParse
import FianoModel.TightenMe.TreeMore
import FianoModel.TightenMe.SortStable
import FianoModel.TightenMe.LargeMem
import FianoModel.TightenMe.ProbeStart
import FianoModel.TightenMe.GrammarTight
import FianoModel.TightenMe.ProbeImage
import FianoModel.TightenMe.ReparseOk
import FianoModel.TightenMe.ReparseSave
import FianoModel.Props.C01   -- only for the sample grammar element of the non-vacuity example in C12.14
import FianoModel.Uefi.Guid
import FianoModel.TightenMe.Example
import FianoModel.TightenMe.Tie
import FianoModel.TightenMe.CodeTie   -- T1 code-as-code tie (wp-t1x): audited as a tie module of this check

namespace Fiano.TightenMe

/-! ## C12.1 the new boundary -/

/-- **Formula.**  After a successful `tighten_me` the ME Limit is `⌈(meBase·4096 + free)/4096⌉ − 1`
    and the BIOS Base is that plus one (`newBoundary`), every other table field is unchanged; the
    boundary is the first 4 KiB boundary at or after `meBase·4096 + free`, it does not move up, and
    `free` is the largest end of the partitions that have storage (0 if there is none). -/
theorem c12_boundary (pol : Nat) (f f' : Flash) (w : WF f) (h : tighten pol f = .ok f') :
    ∃ r0 r1 rest mer fpt free,
      f.desc.regs = r0 :: r1 :: rest ∧ mer ∈ f.regions ∧ mer.body = .me fpt free ∧
      f'.desc.regs = { r0 with base := newBoundary r1.base free } ::
                     { r1 with limit := newBoundary r1.base free - 1 } :: rest ∧
      1 ≤ r1.base ∧ r1.limit + 1 = r0.base ∧
      r1.base * 4096 + free ≤ newBoundary r1.base free * 4096 ∧
      newBoundary r1.base free * 4096 < r1.base * 4096 + free + 4096 ∧
      r1.base ≤ newBoundary r1.base free ∧ newBoundary r1.base free ≤ r1.limit + 1 ∧
      newBoundary r1.base free < 65536 ∧
      free = (match fpt with | some es => freeOf es | none => 0) := by
  obtain ⟨pre, post, mer, br, fpt, free, blen, elems, r0, r1, rest, nb, hsplit, hr, hmb, mref, hbb, bref,
    hadj, hb1, hnb, hnb1, hnb2, hmlen, her, hf'⟩ := tighten_shape pol f f' w h
  have hu0 := w.u16 r0 (by rw [hr]; simp)
  have hspec := boundary_spec (r1.base * 4096) free
  refine ⟨r0, r1, rest, mer, fpt, free, hr, by rw [hsplit]; simp, hmb, by rw [hf', hnb], hb1, hadj,
    hspec.1, hspec.2.1, by rw [← hnb]; exact hnb1, by rw [← hnb]; exact hnb2, ?_,
    (w.me mer (by rw [hsplit]; simp) fpt free hmb).1⟩
  -- the BIOS Base was a 16-bit value and the boundary does not exceed it
  have : newBoundary r1.base free ≤ r0.base := by rw [← hnb, ← hadj]; exact hnb2
  have hlt := hu0.1
  omega

/-- `free` really is the end of the last partition: every partition with storage ends at or
    before it and (unless there is none) one ends exactly there. -/
theorem c12_free_is_last_partition_end (es : List Entry) :
    (∀ e ∈ es, e.offsetValid = true → e.offset + e.length ≤ freeOf es) ∧
    (freeOf es = 0 ∨ ∃ e ∈ es, e.offsetValid = true ∧ freeOf es = e.offset + e.length) :=
  ⟨fun e he hv => freeOf_ge es e he hv, freeOf_attained es⟩

/-! ## C12.2 the descriptor -/

/-- **Only the two 16-bit fields change.**  In the descriptor that `save` writes after
    `tighten_me`, every byte other than region-section bytes 4,5 (BIOS Base) and 10,11 (ME Limit)
    equals the byte written without `tighten_me`; both descriptors are 4096 bytes long. -/
theorem c12_descriptor_diff (pol : Nat) (f f' : Flash) (w : WF f) (h : tighten pol f = .ok f') (p : Nat)
    (hp : p ≠ f.desc.regionStart + 4 ∧ p ≠ f.desc.regionStart + 5 ∧
          p ≠ f.desc.regionStart + 10 ∧ p ≠ f.desc.regionStart + 11) :
    (asmDesc f'.desc)[p]? = (asmDesc f.desc)[p]? ∧
    (asmDesc f'.desc).length = descLen ∧ (asmDesc f.desc).length = descLen := by
  obtain ⟨pre, post, mer, br, fpt, free, blen, elems, r0, r1, rest, nb, hsplit, hr, hmb, mref, hbb, bref,
    hadj, hb1, hnb, hnb1, hnb2, hmlen, her, hf'⟩ := tighten_shape pol f f' w h
  have hd : f'.desc = { f.desc with regs := setRegBase (setRegLimit f.desc.regs 1 (nb - 1)) 0 nb } := by
    rw [hf', hr, setRegs01]
  refine ⟨by rw [hd]; exact asmDesc_diff f.desc w.geom nb (nb - 1) p hp,
    asmDesc_length _ (wf_tighten pol f f' w h).geom, asmDesc_length _ w.geom⟩

/-- **The two fields hold the new values** (little endian) when the master section does not lie
    on top of the region section. -/
theorem c12_descriptor_fields (pol : Nat) (f f' : Flash) (w : WF f) (h : tighten pol f = .ok f')
    (hdisj : f.desc.masterStart + masterSize ≤ f.desc.regionStart ∨
             f.desc.regionStart + regionSectionSize ≤ f.desc.masterStart) :
    ∃ r0 r1 rest mer fpt free,
      f.desc.regs = r0 :: r1 :: rest ∧ mer ∈ f.regions ∧ mer.body = .me fpt free ∧
      ∀ k, k < 2 →
        (asmDesc f'.desc)[f.desc.regionStart + 4 + k]? = (leN 2 (newBoundary r1.base free))[k]? ∧
        (asmDesc f'.desc)[f.desc.regionStart + 10 + k]? = (leN 2 (newBoundary r1.base free - 1))[k]? := by
  obtain ⟨pre, post, mer, br, fpt, free, blen, elems, r0, r1, rest, nb, hsplit, hr, hmb, mref, hbb, bref,
    hadj, hb1, hnb, hnb1, hnb2, hmlen, her, hf'⟩ := tighten_shape pol f f' w h
  have hd : f'.desc = { f.desc with regs := setRegBase (setRegLimit f.desc.regs 1 (nb - 1)) 0 nb } := by
    rw [hf', hr, setRegs01]
  refine ⟨r0, r1, rest, mer, fpt, free, hr, by rw [hsplit]; simp, hmb, ?_⟩
  intro k hk
  rw [hd, ← hnb]
  exact asmDesc_fields f.desc w.geom nb (nb - 1) hdisj k hk

/-! ## C12.3 no partition is lost -/

/-- **Every partition with storage lies inside the new ME region, bytes intact.**  The new ME
    buffer is a prefix of the old one, exactly as long as the new extent
    `[meBase·4096, newBoundary·4096)`, and contains `[offset, offset+length)` of every entry whose
    offset is valid. -/
theorem c12_partitions_inside (pol : Nat) (f f' : Flash) (w : WF f) (h : tighten pol f = .ok f') :
    ∃ r0 r1 rest mer mer' fpt free,
      f.desc.regs = r0 :: r1 :: rest ∧ mer ∈ f.regions ∧ mer' ∈ f'.regions ∧
      mer.body = .me fpt free ∧ mer'.body = .me fpt free ∧
      mer'.buf = mer.buf.take mer'.buf.length ∧
      mer'.buf.length = (newBoundary r1.base free - r1.base) * 4096 ∧
      ∀ es, fpt = some es → ∀ e ∈ es, e.offsetValid = true →
        e.offset + e.length ≤ mer'.buf.length ∧
        slice mer'.buf e.offset e.length = slice mer.buf e.offset e.length := by
  obtain ⟨pre, post, mer, br, fpt, free, blen, elems, r0, r1, rest, nb, hsplit, hr, hmb, mref, hbb, bref,
    hadj, hb1, hnb, hnb1, hnb2, hmlen, her, hf'⟩ := tighten_shape pol f f' w h
  have hl : (mer.buf.take ((nb - r1.base) * 4096)).length = (nb - r1.base) * 4096 := by
    rw [List.length_take, hmlen]
    have : (nb - r1.base) * 4096 ≤ (r1.limit + 1 - r1.base) * 4096 := Nat.mul_le_mul_right _ (by omega)
    omega
  refine ⟨r0, r1, rest, mer, { mer with buf := mer.buf.take ((nb - r1.base) * 4096) }, fpt, free, hr,
    by rw [hsplit]; simp, by rw [hf']; simp, hmb, hmb, by simp only [hl], by rw [← hnb]; exact hl, ?_⟩
  intro es hes e he hv
  have hfree := (w.me mer (by rw [hsplit]; simp) fpt free hmb).1
  subst hes
  simp only at hfree
  have h1 := freeOf_ge es e he hv
  have hspec := boundary_spec (r1.base * 4096) free
  have hX : (r1.base * 4096 + free + 4095) / 4096 = nb := by rw [hnb]; rfl
  rw [hX] at hspec
  have hle : e.offset + e.length ≤ (nb - r1.base) * 4096 := by
    rw [Nat.sub_mul]; omega
  refine ⟨by simp only [hl]; exact hle, ?_⟩
  simp only [slice]
  rw [List.drop_take, List.take_take]
  congr 1
  omega

/-- Without a partition table `free = 0`: an ME region that is erased from its first byte is
    shrunk to nothing (new boundary = ME base).  No partition is lost, because the tree has none. -/
theorem c12_no_table (pol : Nat) (f f' : Flash) (w : WF f) (h : tighten pol f = .ok f')
    (hno : ∀ r ∈ f.regions, ∀ fpt free, r.body = .me fpt free → fpt = none) :
    ∃ r0 r1 rest, f.desc.regs = r0 :: r1 :: rest ∧
      f'.desc.regs = { r0 with base := r1.base } :: { r1 with limit := r1.base - 1 } :: rest := by
  obtain ⟨r0, r1, rest, mer, fpt, free, hr, hmem, hmb, hregs, _, _, _, _, _, _, _, hfree⟩ := c12_boundary pol f f' w h
  have := hno mer hmem fpt free hmb
  subst this
  simp only at hfree
  subst hfree
  refine ⟨r0, r1, rest, hr, ?_⟩
  have : newBoundary r1.base 0 = r1.base := by unfold newBoundary; omega
  rw [hregs, this]

/-! ## C12.4 nothing outside the descriptor changes; the freed blocks are erased BIOS padding -/

/-- **The truncated ME tail reappears as the leading padding of the BIOS region, and it is
    erased.**  All other BIOS elements keep their bytes and order (their offsets grow by the
    size of the tail).  `leadPad tail` is that one padding, or nothing when the tail is empty (the
    repaired code does not insert an empty padding, fixes/C12-empty-leading-padding.diff). -/
theorem c12_freed_is_erased_bios_padding (pol : Nat) (f f' : Flash) (w : WF f) (h : tighten pol f = .ok f') :
    ∃ mer br br' fpt free blen elems tail,
      mer ∈ f.regions ∧ br ∈ f.regions ∧ br' ∈ f'.regions ∧
      mer.body = .me fpt free ∧ br.body = .bios blen elems ∧
      mer.buf = mer.buf.take (mer.buf.length - tail.length) ++ tail ∧
      isErased tail pol = true ∧
      br'.body = .bios (blen + tail.length) (leadPad tail ++ shiftElems tail.length elems) ∧
      payload br' = tail ++ payload br := by
  obtain ⟨pre, post, mer, br, fpt, free, blen, elems, r0, r1, rest, nb, hsplit, hr, hmb, mref, hbb, bref,
    hadj, hb1, hnb, hnb1, hnb2, hmlen, her, hf'⟩ := tighten_shape pol f f' w h
  refine ⟨mer, br, { br with body := biosAfter blen elems (mer.buf.drop ((nb - r1.base) * 4096)) }, fpt, free,
    blen, elems, mer.buf.drop ((nb - r1.base) * 4096), by rw [hsplit]; simp, by rw [hsplit]; simp,
    by rw [hf']; simp, hmb, hbb, ?_, her, rfl, ?_⟩
  · have hle : (nb - r1.base) * 4096 ≤ mer.buf.length := by
      rw [hmlen]; exact Nat.mul_le_mul_right _ (by omega)
    rw [List.length_drop, show mer.buf.length - (mer.buf.length - (nb - r1.base) * 4096) = (nb - r1.base) * 4096 by omega]
    exact (List.take_append_drop _ _).symm
  · rw [payload_biosAfter]; simp [payload, hbb]

/-- **Frame / size / tiling after save.**  If the tree can be saved (`asmFlash` succeeds) then
    after `tighten_me` it can still be saved, with the same erase-polarity state; the saved image
    has the same length (= FlashSize), is byte-identical from offset 4096 on, and differs inside
    the descriptor at most in the four bytes of the two fields. -/
theorem c12_save_frame (pol p0 : Nat) (f f' g : Flash) (p1 : Nat) (w : WF f)
    (h : tighten pol f = .ok f') (hs : asmFlash p0 f = .ok (g, p1)) :
    ∃ g', asmFlash p0 f' = .ok (g', p1) ∧
      g'.buf.length = g.buf.length ∧ g.buf.length = f.size ∧
      g'.buf.drop descLen = g.buf.drop descLen ∧
      ∀ p, p ≠ f.desc.regionStart + 4 → p ≠ f.desc.regionStart + 5 →
           p ≠ f.desc.regionStart + 10 → p ≠ f.desc.regionStart + 11 → g'.buf[p]? = g.buf[p]? := by
  have w' := wf_tighten pol f f' w h
  rw [asmFlash_wf p0 f w] at hs
  cases hpf : polFold p0 f.regions with
  | error e => rw [hpf] at hs; cases hs
  | ok p =>
    rw [hpf] at hs
    simp only at hs
    cases hv : biosSlotValid f with
    | false => rw [hv] at hs; simp at hs
    | true =>
      rw [hv] at hs
      simp only [if_true, Except.ok.injEq, Prod.mk.injEq] at hs
      obtain ⟨hg, hp1⟩ := hs
      subst hp1
      have hv' := biosSlotValid_tighten pol f f' w h hv
      refine ⟨_, by rw [asmFlash_wf p0 f' w', polFold_tighten pol p0 f f' w h, hpf]; simp only [hv', if_true]; rfl, ?_⟩
      have hpay := payload_tighten pol f f' w h
      have hl' := asmDesc_length f'.desc w'.geom
      have hl := asmDesc_length f.desc w.geom
      have hsz : (f.regions.flatMap payload).length = f.size - descLen := chain_payload_length _ _ _ _ w.chain
      have hle := chain_le _ _ _ _ w.chain
      rw [← hg]
      simp only [hpay, List.length_append, hl, hl']
      refine ⟨trivial, by omega, ?_, ?_⟩
      · rw [List.drop_left' hl', List.drop_left' hl]
      · intro q h4 h5 h10 h11
        have hd := (c12_descriptor_diff pol f f' w h q ⟨h4, h5, h10, h11⟩).1
        by_cases hq : q < descLen
        · rw [List.getElem?_append_left (by omega), List.getElem?_append_left (by omega)]; exact hd
        · rw [List.getElem?_append_right (by omega), List.getElem?_append_right (by omega), hl, hl']

/-- **Regions still tile the flash** (and the tree stays well-formed): in list order the regions
    of the result cover `[4096, FlashSize)` exactly, each payload as long as its extent;
    FlashSize is unchanged. -/
theorem c12_regions_still_tile (pol : Nat) (f f' : Flash) (w : WF f) (h : tighten pol f = .ok f') :
    WF f' ∧ Chain f'.desc.regs descLen f'.regions f'.size ∧ f'.size = f.size := by
  have w' := wf_tighten pol f f' w h
  refine ⟨w', w'.chain, ?_⟩
  obtain ⟨_, _, _, _, _, _, _, _, _, _, _, _, _, _, _, _, _, _, _, _, _, _, _, _, _, hf'⟩ := tighten_shape pol f f' w h
  rw [hf']

/-! ## C12.5 refusal -/

/-- It refuses when the ME and BIOS regions are not adjacent. -/
theorem c12_refuses_non_adjacent (pol : Nat) (f : Flash) (i j : Nat) (mer br : Region)
    (fpt : Option (List Entry)) (free blen : Nat) (elems : List Elem) (mfr bfr : FRegion)
    (hi : lastIdx (fun r => r.body.isME) f.regions = some i)
    (hj : lastIdx (fun r => r.body.isBIOS) f.regions = some j)
    (hmer : f.regions[i]? = some mer) (hbr : f.regions[j]? = some br)
    (hmb : mer.body = .me fpt free) (hbb : br.body = .bios blen elems)
    (hmfr : frOf f.desc.regs mer = .ok mfr) (hbfr : frOf f.desc.regs br = .ok bfr)
    (hnadj : mfr.endOff ≠ bfr.baseOff) :
    tighten pol f = .error .notContiguous := by
  obtain ⟨mref, mbody, mbuf⟩ := mer
  obtain ⟨bref, bbody, bbuf⟩ := br
  simp only at hmb hbb
  subst hmb hbb
  unfold tighten
  simp only [hi, hj, hmer, hbr, hmfr, hbfr, ne_eq, hnadj, not_false_eq_true, if_true]

/-- It refuses when the space after the new boundary is not erased. -/
theorem c12_refuses_non_erased (pol : Nat) (f : Flash) (i j : Nat) (mer br : Region)
    (fpt : Option (List Entry)) (free blen : Nat) (elems : List Elem) (mfr bfr : FRegion)
    (hi : lastIdx (fun r => r.body.isME) f.regions = some i)
    (hj : lastIdx (fun r => r.body.isBIOS) f.regions = some j)
    (hmer : f.regions[i]? = some mer) (hbr : f.regions[j]? = some br)
    (hmb : mer.body = .me fpt free) (hbb : br.body = .bios blen elems)
    (hmfr : frOf f.desc.regs mer = .ok mfr) (hbfr : frOf f.desc.regs br = .ok bfr)
    (hadj : mfr.endOff = bfr.baseOff)
    (hbo : bufOffset mfr.baseOff free ≤ mer.buf.length)
    (hdirty : isErased (mer.buf.drop (bufOffset mfr.baseOff free)) pol = false) :
    tighten pol f = .error .notErased := by
  obtain ⟨mref, mbody, mbuf⟩ := mer
  obtain ⟨bref, bbody, bbuf⟩ := br
  simp only at hmb hbb
  subst hmb hbb
  have : ¬ bufOffset mfr.baseOff free > mbuf.length := by simpa using hbo
  unfold tighten
  simp only [hi, hj, hmer, hbr, hmfr, hbfr, hadj, ne_eq, not_true_eq_false, if_false]
  simp only [this, if_false, hdirty, Bool.not_false, if_true]

/-- (Repair of DESIGN §8 #22.)  It refuses when the partitions end beyond the ME region; the
    unrepaired code slices past the buffer and panics here. -/
theorem c12_refuses_partition_beyond_region (pol : Nat) (f : Flash) (i j : Nat) (mer br : Region)
    (fpt : Option (List Entry)) (free blen : Nat) (elems : List Elem) (mfr bfr : FRegion)
    (hi : lastIdx (fun r => r.body.isME) f.regions = some i)
    (hj : lastIdx (fun r => r.body.isBIOS) f.regions = some j)
    (hmer : f.regions[i]? = some mer) (hbr : f.regions[j]? = some br)
    (hmb : mer.body = .me fpt free) (hbb : br.body = .bios blen elems)
    (hmfr : frOf f.desc.regs mer = .ok mfr) (hbfr : frOf f.desc.regs br = .ok bfr)
    (hadj : mfr.endOff = bfr.baseOff)
    (hbeyond : bufOffset mfr.baseOff free > mer.buf.length) :
    tighten pol f = .error .beyond := by
  obtain ⟨mref, mbody, mbuf⟩ := mer
  obtain ⟨bref, bbody, bbuf⟩ := br
  simp only at hmb hbb
  subst hmb hbb
  unfold tighten
  simp only [hi, hj, hmer, hbr, hmfr, hbfr, hadj, ne_eq, not_true_eq_false, if_false]
  simp only [show bufOffset mfr.baseOff free > mbuf.length from hbeyond, if_true]

/-- Success means none of the refusal conditions held: both nodes exist, the regions are adjacent,
    the partitions end inside the ME buffer, the space after the new boundary is erased. -/
theorem c12_success_conditions (pol : Nat) (f f' : Flash) (h : tighten pol f = .ok f') :
    ∃ (i j : Nat) (mer br : Region) (fpt : Option (List Entry)) (free blen : Nat) (elems : List Elem)
      (mfr bfr : FRegion),
      f.regions[i]? = some mer ∧ f.regions[j]? = some br ∧
      mer.body = .me fpt free ∧ br.body = .bios blen elems ∧
      frOf f.desc.regs mer = .ok mfr ∧ frOf f.desc.regs br = .ok bfr ∧
      mfr.endOff = bfr.baseOff ∧
      bufOffset mfr.baseOff free ≤ mer.buf.length ∧
      isErased (mer.buf.drop (bufOffset mfr.baseOff free)) pol = true := by
  obtain ⟨i, j, mer, br, fpt, free, blen, elems, mfr, bfr, _, _, h1, h2, h3, h4, h5, h6, h7, h8, h9, _⟩ :=
    tighten_ok_inv pol f f' h
  exact ⟨i, j, mer, br, fpt, free, blen, elems, mfr, bfr, h1, h2, h3, h4, h5, h6, h7, h8, h9⟩

/-! ## C12.6 applying it twice equals applying it once -/

/-- **Idempotent (no save in between).**  A second `tighten_me` on the result succeeds, and
    whatever the first result saves to, the second saves to the same bytes. -/
theorem c12_idempotent (pol p0 : Nat) (f f' g' : Flash) (p1 : Nat) (w : WF f)
    (h : tighten pol f = .ok f') (hs : asmFlash p0 f' = .ok (g', p1)) :
    ∃ f'' g'', tighten pol f' = .ok f'' ∧ asmFlash p0 f'' = .ok (g'', p1) ∧ g''.buf = g'.buf := by
  have w' := wf_tighten pol f f' w h
  obtain ⟨f'', h2⟩ := tighten_twice_ok pol f f' w h
  have w'' := wf_tighten pol f' f'' w' h2
  have hdesc := tighten_tight_desc pol f' f'' w' h2 (tighten_result_tight pol f f' w h)
  have hpay := payload_tighten pol f' f'' w' h2
  have hpol := polFold_tighten pol p0 f' f'' w' h2
  rw [asmFlash_wf p0 f' w'] at hs
  cases hpf : polFold p0 f'.regions with
  | error e => rw [hpf] at hs; cases hs
  | ok p =>
    rw [hpf] at hs
    simp only at hs
    cases hv : biosSlotValid f' with
    | false => rw [hv] at hs; simp at hs
    | true =>
      rw [hv] at hs
      simp only [if_true, Except.ok.injEq, Prod.mk.injEq] at hs
      obtain ⟨hg, hp1⟩ := hs
      subst hp1
      have hv'' : biosSlotValid f'' = true := by
        simp only [biosSlotValid, hdesc] at hv ⊢; exact hv
      refine ⟨f'', _, h2, by rw [asmFlash_wf p0 f'' w'', hpol, hpf]; simp only [hv'', if_true]; rfl, ?_⟩
      rw [← hg]
      simp only [hdesc, hpay]

/-- **Fixed point (what idempotence across save + re-parse rests on).**  On *any* well-formed tree
    whose ME Limit already is the computed boundary — such as a tree that represents the image
    saved after a first `tighten_me` — a successful `tighten_me` changes no byte of what `save`
    writes. -/
theorem c12_fixed_point (pol p0 : Nat) (t t' s : Flash) (p1 : Nat) (w : WF t)
    (h : tighten pol t = .ok t') (hs : asmFlash p0 t = .ok (s, p1))
    (htight : ∀ r0 r1 rest mer fpt free, t.desc.regs = r0 :: r1 :: rest → mer ∈ t.regions →
      mer.body = .me fpt free → r1.limit + 1 = newBoundary r1.base free) :
    ∃ s', asmFlash p0 t' = .ok (s', p1) ∧ s'.buf = s.buf := by
  have w' := wf_tighten pol t t' w h
  have hdesc := tighten_tight_desc pol t t' w h htight
  have hpay := payload_tighten pol t t' w h
  have hpol := polFold_tighten pol p0 t t' w h
  rw [asmFlash_wf p0 t w] at hs
  cases hpf : polFold p0 t.regions with
  | error e => rw [hpf] at hs; cases hs
  | ok p =>
    rw [hpf] at hs
    simp only at hs
    cases hv : biosSlotValid t with
    | false => rw [hv] at hs; simp at hs
    | true =>
      rw [hv] at hs
      simp only [if_true, Except.ok.injEq, Prod.mk.injEq] at hs
      obtain ⟨hg, hp1⟩ := hs
      subst hp1
      have hv' : biosSlotValid t' = true := by
        simp only [biosSlotValid, hdesc] at hv ⊢; exact hv
      refine ⟨_, by rw [asmFlash_wf p0 t' w', hpol, hpf]; simp only [hv', if_true]; rfl, ?_⟩
      rw [← hg]
      simp only [hdesc, hpay]

/-- the result of `tighten_me` satisfies the hypothesis of `c12_fixed_point` -/
theorem c12_result_is_tight (pol : Nat) (f f' : Flash) (w : WF f) (h : tighten pol f = .ok f') :
    ∀ r0 r1 rest mer fpt free, f'.desc.regs = r0 :: r1 :: rest → mer ∈ f'.regions →
      mer.body = .me fpt free → r1.limit + 1 = newBoundary r1.base free :=
  tighten_result_tight pol f f' w h

/-! ## C12.7 from the image: parsing builds a well-formed tree -/

/-- **Every parsed flash image is well-formed** (image size a multiple of 4 KiB and at most 2^28
    bytes), so all theorems above apply to every tree `uefi.Parse` builds from such an image; the
    payloads of its regions are the image's bytes from offset 4096 on. -/
theorem c12_parsed_is_wf (pol0 : Nat) (img : Bytes) (f : Flash) (pol : Nat)
    (hsz : img.length % 4096 = 0) (hlt : img.length ≤ 2 ^ 28)
    (hp : parseFlash pol0 img = .ok (f, pol)) :
    WF f ∧ f.size = img.length ∧ f.regions.flatMap payload = img.drop descLen := by
  obtain ⟨w, h1, _, h3, _⟩ := parse_WF pol0 img f pol hsz hlt hp
  exact ⟨w, h1, h3⟩

/-- **End to end: parse, `tighten_me`, save.**  The written image is the regenerated descriptor
    (4096 bytes, differing from the descriptor of an unedited save only in the two fields, see
    `c12_descriptor_diff`) followed by the *input image's own bytes* from offset 4096 on; its size
    is the input's size. -/
theorem c12_end_to_end (pol0 : Nat) (img : Bytes) (f f' g' : Flash) (pol p0 p1 : Nat)
    (hsz : img.length % 4096 = 0) (hlt : img.length ≤ 2 ^ 28)
    (hp : parseFlash pol0 img = .ok (f, pol)) (ht : tighten pol f = .ok f')
    (hs : asmFlash p0 f' = .ok (g', p1)) :
    g'.buf = asmDesc f'.desc ++ img.drop descLen ∧ (asmDesc f'.desc).length = descLen ∧
    g'.buf.length = img.length := by
  obtain ⟨w, hsize, _, hpay, _⟩ := parse_WF pol0 img f pol hsz hlt hp
  have w' := wf_tighten pol f f' w ht
  have hpay' := payload_tighten pol f f' w ht
  have hl' := asmDesc_length f'.desc w'.geom
  rw [asmFlash_wf p0 f' w'] at hs
  cases hpf : polFold p0 f'.regions with
  | error e => rw [hpf] at hs; cases hs
  | ok p =>
    rw [hpf] at hs
    simp only at hs
    cases hv : biosSlotValid f' with
    | false => rw [hv] at hs; simp at hs
    | true =>
      rw [hv] at hs
      simp only [if_true, Except.ok.injEq, Prod.mk.injEq] at hs
      obtain ⟨hg, _⟩ := hs
      rw [← hg]
      simp only [hpay', hpay, hl', List.length_append, List.length_drop, true_and]
      have := chain_le _ _ _ _ w.chain
      rw [hsize] at this
      omega

/-- **Idempotent across save + re-parse.**  Parse an image, `tighten_me`, save, parse the saved
    image again (any initial polarity state), `tighten_me` again, save: if the second
    `tighten_me` and save succeed, the second saved image equals the first.
    Hypotheses (each excluded point was run on the real code, see reports/C12.md):
    `Desc.Sane` — signature+map, region section and master section do not overlap (otherwise the
    rewritten fields may not survive the descriptor write); `hfit` — the partition table of the
    ME region still ends inside the shrunk ME buffer (otherwise fiano no longer parses the table
    after the first save, `free` becomes 0 and the second `tighten_me` refuses — the image is
    unchanged then, too). -/
theorem c12_idempotent_reparse (p0 : Nat) (img : Bytes) (f f' g' t t' s' : Flash)
    (pol pa pa' q0 q pb pb' : Nat)
    (hsz : img.length % 4096 = 0) (hlt : img.length ≤ 2 ^ 28)
    (hp : parseFlash p0 img = .ok (f, pol)) (sane : f.desc.Sane)
    (ht : tighten pol f = .ok f') (hs : asmFlash pa f' = .ok (g', pa'))
    (hfit : ∀ mer ∈ f.regions, ∀ mer' ∈ f'.regions, mer.body.isME = true → mer'.body.isME = true →
      ∀ i, indexOf fptSig mer.buf 0 = some i → tableEnd mer.buf i ≤ mer'.buf.length)
    (hr : parseFlash q0 g'.buf = .ok (t, q)) (ht2 : tighten q t = .ok t')
    (hs2 : asmFlash pb t' = .ok (s', pb')) :
    s'.buf = g'.buf :=
  reparse_idempotent p0 img f f' g' t t' s' pol pa pa' q0 q pb pb' hsz hlt hp sane ht hs hfit hr ht2 hs2

/-! ## C12.8 the second run (follow-up wp-c12b, task 1) -/

/-- **When the second `tighten_me` succeeds.**  parse, `tighten_me`, save, parse the saved image in a
    new process: `tighten_me` succeeds on the re-parsed tree **iff** `SecondOk f f'` — a decidable
    predicate on the trees before and after the first `tighten_me`: the ME node had partitions with
    storage (`FreeSpaceOffset > 0`, so the region was not shrunk to nothing) and its partition table
    still ends inside the shrunk ME buffer (`tableFits`).  Otherwise it refuses with "no ME region
    found" (shrunk to nothing) or "not erased" (table cut: fiano no longer parses the table, wants
    the whole region erased, and meets the `$FPT` signature).  Refusal leaves the tree as it is
    (`tighten` returns no tree). -/
theorem c12_second_tighten_iff (p0 : Nat) (img : Bytes) (f f' g' t : Flash) (pol pa pa' q0 q : Nat)
    (hsz : img.length % 4096 = 0) (hlt : img.length ≤ 2 ^ 28)
    (hp : parseFlash p0 img = .ok (f, pol)) (sane : f.desc.Sane)
    (ht : tighten pol f = .ok f') (hs : asmFlash pa f' = .ok (g', pa'))
    (hr : parseFlash q0 g'.buf = .ok (t, q)) :
    ((∃ t', tighten q t = .ok t') ↔ SecondOk f f') ∧
    (¬ SecondOk f f' → tighten q t = .error .noME ∨ tighten q t = .error .notErased) :=
  second_tighten_iff p0 img f f' g' t pol pa pa' q0 q hsz hlt hp sane ht hs hr

/-- **The second run succeeds iff …**  `secondRun q0 B` is `utk B tighten_me save` in a new process
    (parse, `tighten_me`, Assemble — the save only if `tighten_me` succeeded).  It succeeds iff the
    first saved image can be loaded and saved at all (`utk B save` works) and `SecondOk f f'`. -/
theorem c12_second_run_succeeds_iff (p0 : Nat) (img : Bytes) (f f' g' : Flash) (pol pa pa' q0 : Nat)
    (hsz : img.length % 4096 = 0) (hlt : img.length ≤ 2 ^ 28)
    (hp : parseFlash p0 img = .ok (f, pol)) (sane : f.desc.Sane)
    (ht : tighten pol f = .ok f') (hs : asmFlash pa f' = .ok (g', pa')) :
    (∃ s p, secondRun q0 g'.buf = .ok (s, p)) ↔
      ((∃ t q s p, parseFlash q0 g'.buf = .ok (t, q) ∧ asmFlash q t = .ok (s, p)) ∧ SecondOk f f') :=
  (second_run p0 img f f' g' pol pa pa' q0 hsz hlt hp sane ht hs).1

/-- **Idempotent across save + re-parse, both branches.**  If the second run succeeds it writes the
    first saved image again, byte for byte; if it does not, it writes nothing (`secondRun` returns an
    error and no image: `utk` stops at the first failing visitor, before `save`). -/
theorem c12_second_run_idempotent (p0 : Nat) (img : Bytes) (f f' g' : Flash) (pol pa pa' q0 : Nat)
    (hsz : img.length % 4096 = 0) (hlt : img.length ≤ 2 ^ 28)
    (hp : parseFlash p0 img = .ok (f, pol)) (sane : f.desc.Sane)
    (ht : tighten pol f = .ok f') (hs : asmFlash pa f' = .ok (g', pa')) :
    (∀ s p, secondRun q0 g'.buf = .ok (s, p) → s.buf = g'.buf) ∧
    ((∃ e, secondRun q0 g'.buf = .error e) ∨ ∃ s p, secondRun q0 g'.buf = .ok (s, p) ∧ s.buf = g'.buf) := by
  have h2 := (second_run p0 img f f' g' pol pa pa' q0 hsz hlt hp sane ht hs).2
  refine ⟨h2, ?_⟩
  cases hrun : secondRun q0 g'.buf with
  | error e => exact Or.inl ⟨e, rfl⟩
  | ok r => exact Or.inr ⟨r.1, r.2, rfl, h2 r.1 r.2 hrun⟩

/-- `SecondOk` is decidable and both outcomes occur: it holds for the example tree (one partition
    ending at 0x1040, table at the start of the region) and fails for the same tree without
    partitions with storage. -/
example : SecondOk exFlash { exFlash with regions := [⟨.idx 1, .me (some [⟨0x40, 0x1000⟩]) 0x1040, ffs 8192⟩] } := by
  intro mer hm mer' hm' a b
  simp only [exFlash, List.mem_cons, List.not_mem_nil, or_false] at hm hm'
  subst hm'
  rcases hm with rfl | rfl
  · refine ⟨by decide, ?_⟩
    have : indexOf fptSig (ffs 12288) 0 = none := by
      have key : ∀ n a, indexOf fptSig (ffs n) a = none := by
        intro n
        induction n with
        | zero => intro a; rfl
        | succ n ih => intro a; simp only [ffs, List.replicate_succ, indexOf] at ih ⊢; exact ih (a + 1)
      exact key _ _
    simp only [tableFits, this]
  · simp [Body.isME] at a

/-! ## C12.9 images of 2^28 bytes and more (follow-up wp-c12b, task 2) -/

/-- **An image larger than 2^28 bytes is never written**, with or without `tighten_me`.  Base and
    Limit are 16-bit block numbers, so every region — table slot or gap — ends at 2^28 at the latest
    and the last check of Assemble's FlashImage case (`offset != FlashSize`) cannot pass.  `uefi.Parse`
    accepts such an image (the Limit of its last gap region wraps) and `tighten_me` rewrites the tree,
    but no byte is ever saved: the property, which speaks about written images, holds vacuously there.
    (At exactly 2^28 bytes everything above applies: `c12_parsed_is_wf` … take `≤ 2^28`.) -/
theorem c12_large_image_never_saved (p0 : Nat) (img : Bytes) (f : Flash) (pol : Nat)
    (hp : parseFlash p0 img = .ok (f, pol)) (hbig : img.length > 2 ^ 28) :
    (∀ p, ∃ e, asmFlash p f = .error e) ∧
    (∀ f', tighten pol f = .ok f' → ∀ p, ∃ e, asmFlash p f' = .error e) := by
  obtain ⟨u, hsize⟩ := parse_u16 p0 img f pol hp
  refine ⟨fun p => asmFlash_fails_large p f u (by rw [hsize]; exact hbig), ?_⟩
  intro f' ht p
  obtain ⟨u', hsize'⟩ := tighten_keeps_u16 pol f f' u ht
  exact asmFlash_fails_large p f' u' (by rw [hsize', hsize]; exact hbig)

/-- the tree-level fact behind it, on a tree that is not vacuous: the example tree with a size beyond
    2^28 cannot be saved -/
example : ∃ e, asmFlash 0xFF { exFlash with size := 2 ^ 28 + 4096 } = .error e :=
  asmFlash_fails_large 0xFF _
    ⟨by
      intro fr hfr
      simp only [exFlash, List.mem_cons, exUnused, List.mem_replicate] at hfr
      rcases hfr with rfl | rfl | ⟨_, rfl⟩ <;> simp,
     by
      intro r hr fr hfr
      simp only [exFlash, List.mem_cons, List.not_mem_nil, or_false] at hr
      rcases hr with rfl | rfl <;> cases hfr⟩
    (by simp)

/-! ## C12.10 volumes with files: `tighten_me` on the shared UEFI tree (follow-up wp-c12b, task 3)

  `T.tightenFlash` is `TightenME.Run` on the tree model shared with C01–C05 (volumes, files,
  sections); `T.stepT` adds it to the command line of `Uefi.step` (insert*, remove*, replace_pe32,
  save, the read-only commands).  The correspondence harness compares the digest of the WHOLE tree
  after every visitor of command lines that mix `tighten_me` with those operations. -/

open T in
/-- **Frame: `tighten_me` commutes with every modelled visitor other than `save`.**  If from one
    state the visitor `op` (an insert, remove, replace_pe32 or read-only command whose predicate does
    not look at the reported offset of a volume — true of every predicate the command line builds)
    succeeds and `tighten_me` succeeds, then each also succeeds after the other and the two orders end
    in the same state: tree, process state, written files, FreeSpaceOffset. -/
theorem c12_tree_tighten_commutes (h : Uefi.Hooks) (op : Uefi.Op) (hns : isSaveOp op = false) (hinv : OpOffInv op)
    (s s1 s2 : TRun) (hop : stepT h (.op op) s = .ok s1) (ht : stepT h .tighten s = .ok s2) :
    ∃ s3, stepT h .tighten s1 = .ok s3 ∧ stepT h (.op op) s2 = .ok s3 :=
  step_tighten_comm h op hns hinv s s1 s2 hop ht

open T in
/-- the hypothesis `OpOffInv` holds for the predicates of the command line: literal selectors
    (`selFvPred`, `selFilePred`) and type predicates never read `fvOffset` -/
example (sel : List Nat) (w : Uefi.Where) (nf : Option Uefi.File) (body : Bytes) (pad : Bool) :
    OpOffInv (.insert (Uefi.selFvPred sel) w nf) ∧ OpOffInv (.remove (Uefi.selFilePred sel) pad) ∧
    OpOffInv (.replacePe32 (Uefi.selFilePred sel) body) ∧ OpOffInv (.ro (.dump (Uefi.selFilePred sel))) ∧
    OpOffInv (.insert (Uefi.typePred 5) .dxe nf) :=
  ⟨fun _ _ _ _ => rfl, trivial, fun _ _ _ _ => rfl, fun _ _ _ _ => rfl, fun _ _ _ _ => rfl⟩

open T in
/-- **`tighten_me` changes no file, section or volume.**  After a successful `tighten_me` the BIOS
    node holds the erased tail cut off the ME buffer as one new leading padding (`leadPadT tail`: none
    when nothing was cut off), followed by its old elements, each identical — header fields, buffer,
    files with all their sections — except for the reported offset (`sameButOffset`); its own buffer
    is untouched; the ME node keeps a prefix of its buffer; every other node, the root buffer and the
    flash size are untouched. -/
theorem c12_tree_content_untouched (free pol : Nat) (f f' : Uefi.Flash) (h : tightenFlash free pol f = .ok f') :
    ∃ (i j : Nat) (mbuf : Bytes) (mfr : Uefi.FlashRegion) (b : Uefi.BiosRegion) (bfr : Uefi.FlashRegion) (tail : Bytes)
      (b' : Uefi.BiosRegion) (mfr' : Uefi.FlashRegion),
      f.regions[i]? = some (.me mbuf mfr) ∧ f.regions[j]? = some (.bios b) ∧ b.fr = some bfr ∧
      f'.regions[i]? = some (.me (mbuf.take (mbuf.length - tail.length)) mfr') ∧
      f'.regions[j]? = some (.bios b') ∧
      mbuf = mbuf.take (mbuf.length - tail.length) ++ tail ∧ isErased tail pol = true ∧
      (∃ rest : List Uefi.BiosElem, b'.elems = leadPadT tail ++ rest ∧ rest.length = b.elems.length ∧
        ∀ (k : Nat) (e e' : Uefi.BiosElem), b.elems[k]? = some e → rest[k]? = some e' → sameButOffset e e') ∧
      b'.buf = b.buf ∧
      (∀ k, k ≠ i → k ≠ j → f'.regions[k]? = f.regions[k]?) ∧
      f'.regions.length = f.regions.length ∧ f'.buf = f.buf ∧ f'.flashSize = f.flashSize :=
  tighten_keeps_content free pol f f' h

open T in
/-- **The flash-level model is an abstraction of the tree model.**  On a tree whose ME / BIOS nodes
    carry the table slots their pointers alias (`Aliased`: every parsed, edited or assembled tree),
    `tightenFlash` is `tighten` on `absFlash` — the tree with the inside of the volumes forgotten.  So
    `c12_boundary`, `c12_descriptor_*`, `c12_partitions_inside`, `c12_regions_still_tile`, … speak
    about the very tree the harness compares. -/
theorem c12_tree_is_refined_by_flash_model (fpt : Option (List Entry)) (free pol : Nat) (f f' : Uefi.Flash)
    (al : Aliased f) (h : tightenFlash free pol f = .ok f') :
    tighten pol (absFlash fpt free f) = .ok (absFlash fpt free f') :=
  tighten_sim fpt free pol f f' al h

open T in
/-- **Frame at the level of the written image, volumes with files.**  On a well-formed shared tree
    (`TWF`: its flash-level abstraction is well-formed and its nodes carry the table slots their
    pointers alias — kept by every edit, `c12_tree_edit_keeps_wf`, and by `tighten_me`,
    `c12_tree_tighten_keeps_wf`): if the tree can be saved, it can be saved after `tighten_me`, with the
    same process state; the written image has the same length, is byte-identical from offset 4096 on —
    every volume, with its files, is re-laid exactly as without `tighten_me` — and differs inside the
    descriptor at most in the four bytes of BIOS Base / ME Limit.  `asmFlashT` is `visitors.Assemble`
    on the shared tree (all children included). -/
theorem c12_tree_save_frame (h : Uefi.Hooks) (fpt : Option (List Entry)) (free pol : Nat) (f f' g : Uefi.Flash)
    (st st1 : Uefi.St) (w : TWF fpt free f) (ht : tightenFlash free pol f = .ok f')
    (hs : asmFlashT h f st = .ok (g, st1)) :
    ∃ g', asmFlashT h f' st = .ok (g', st1) ∧ g'.buf.length = g.buf.length ∧
      g'.buf.drop 4096 = g.buf.drop 4096 ∧
      ∀ p, p ≠ f.ifd.regionStart + 4 → p ≠ f.ifd.regionStart + 5 → p ≠ f.ifd.regionStart + 10 →
        p ≠ f.ifd.regionStart + 11 → g'.buf[p]? = g.buf[p]? :=
  tree_save_frame h fpt free pol f f' g st st1 w ht hs

open T in
/-- an edit (the rewriting step of insert*, remove*, replace_pe32) keeps the shared tree well-formed:
    its flash-level abstraction does not change at all -/
theorem c12_tree_edit_keeps_wf (E : Uefi.Editor) (fpt : Option (List Entry)) (free : Nat) (f : Uefi.Flash)
    (rs1 : List Uefi.Region) (w : TWF fpt free f) (h : Uefi.rwRegions E f.regions = .ok rs1) :
    TWF fpt free { f with regions := rs1 } :=
  twf_rw E fpt free f rs1 w h

open T in
/-- `tighten_me` keeps the shared tree well-formed, pointer aliasing included -/
theorem c12_tree_tighten_keeps_wf (fpt : Option (List Entry)) (free pol : Nat) (f f' : Uefi.Flash)
    (w : TWF fpt free f) (h : tightenFlash free pol f = .ok f') : TWF fpt free f' :=
  twf_tighten fpt free pol f f' w h

open T in
/-- **Every flash tree the shared parser builds is well-formed** (`TWF`), with the partition table and
    FreeSpaceOffset NewMERegion computes (`fptOfRegions`, `freeOfRegions` — what `parseT` puts next to
    the tree), for images that are a whole number of 4 KiB blocks below 2^28 bytes.  Rests on the
    shared theorems `flash_faithful` (C04) and `parseFlash_sized` (C02). -/
theorem c12_tree_parsed_is_wf (fuel : Nat) (img : Bytes) (st st' : Uefi.St) (f : Uefi.Flash)
    (hp : Uefi.parseFlash Uefi.Hooks.none fuel img st = .ok (f, st'))
    (hsz : img.length % 4096 = 0) (hlt : img.length < 2 ^ 28) :
    TWF (fptOfRegions f.regions) (freeOfRegions f.regions) f :=
  twf_parse fuel img st st' f hp hsz hlt

open T in
/-- every modelled visitor other than `save` keeps the shared tree well-formed — so
    `c12_tree_save_frame` applies after any command line `parse; edit…; tighten_me; edit…` -/
theorem c12_tree_step_keeps_wf (h : Uefi.Hooks) (op : Uefi.Op) (hns : isSaveOp op = false)
    (fpt : Option (List Entry)) (free : Nat) (s s1 : Uefi.Run) (f : Uefi.Flash) (ht : s.tree = .flash f)
    (w : TWF fpt free f) (hop : Uefi.step h op s = .ok s1) : ∃ f1, s1.tree = .flash f1 ∧ TWF fpt free f1 :=
  twf_step h op hns fpt free s s1 f ht w hop

open T in
/-- **Whether `tighten_me` refuses does not depend on the edits before it**: for an editor blind to
    reported offsets (every editor of the command line), `tighten_me` succeeds on the edited tree iff
    it succeeds on the tree before the edit. -/
theorem c12_tree_refusal_independent_of_edits (E : Uefi.Editor) (hE : Editor.OffInv E) (free pol : Nat)
    (f : Uefi.Flash) (rs1 : List Uefi.Region) (hrw : Uefi.rwRegions E f.regions = .ok rs1) :
    (∃ f2, tightenFlash free pol { f with regions := rs1 } = .ok f2) ↔ (∃ f2, tightenFlash free pol f = .ok f2) :=
  tighten_ok_iff_rw E hE free pol f rs1 hrw

open T in
/-- **`asmFlashT` is the shared model's `Uefi.asmFlash`** on every well-formed tree in which no region is
    empty (every parsed or edited tree; after `tighten_me` unless it shrank the ME region to nothing):
    the two differ only in how `sort.Slice` treats equal keys.  A change of the shared FlashImage case
    breaks this proof instead of a T2 run. -/
theorem c12_tree_assemble_agrees_with_shared_model (h : Uefi.Hooks) (fpt : Option (List Entry)) (free : Nat)
    (f : Uefi.Flash) (st : Uefi.St) (w : TWF fpt free f)
    (hne : ∀ r ∈ f.regions, ∀ fr, r.fr = some fr → fr.baseOffset < fr.endOffset) :
    Uefi.asmFlash h f st = asmFlashT h f st :=
  asmFlashT_agrees_with_shared_model h fpt free f st w hne

open T in
/-- its hypothesis holds for the example tree -/
example : ∀ r ∈ exTree.regions, ∀ fr, r.fr = some fr → fr.baseOffset < fr.endOffset := by
  intro r hr fr hfr
  simp only [exTree, List.mem_cons, List.not_mem_nil, or_false] at hr
  rcases hr with rfl | rfl
  · simp only [Uefi.Region.fr, Option.some.injEq] at hfr; subst hfr; decide
  · simp only [Uefi.Region.fr, Option.some.injEq] at hfr; subst hfr; decide

open T in
/-- the hypotheses of `c12_tree_save_frame` are inhabited: the shared-tree counterpart of the example
    image is well-formed, `tighten_me` succeeds on it, and it can be saved -/
example : ∃ f' g st1, TWF (some [⟨0x40, 0x1000⟩]) 0x1040 exTree ∧ tightenFlash 0x1040 0xFF exTree = .ok f' ∧
    asmFlashT Uefi.Hooks.none exTree { pol := 0xFF } = .ok (g, st1) := by
  obtain ⟨f', h1⟩ := exTree_tightens
  obtain ⟨g, st1, h2⟩ := exTree_saves
  exact ⟨f', g, st1, exTree_twf, h1, h2⟩


/-! ## C12.11 the order of equal keys in Assemble's sort (follow-up wp-c12c, task 3)

  `Uefi.sortRegions` (shared model) reverses runs of equal `Base`; Go's insertion sort keeps them.
  `T.sortRegionsS` is the shared sort with `<` replaced by `≤` in `insertRegion` — the one-character
  diff proposed for Uefi/Parse.lean (reports/C12-sortRegions-stable.diff, builds with every Props
  module).  With it the shared FlashImage case IS `asmFlashT`; without it the two agree exactly on the
  trees without two equal keys — the only reachable counterexample is the empty ME extent. -/

open T in
/-- the proposed `≤` variant of the shared sort is the stable insertion sort Go runs (no hypothesis) -/
theorem c12_stable_sort_is_go_sort (l : List Uefi.Region) : sortRegionsS l = isort baseOf l :=
  sortRegionsS_eq_isort l

open T in
/-- the shared Assemble with the proposed sort equals `asmFlashT` on every tree and state (no `TWF`,
    no "no empty region") -/
theorem c12_tree_assemble_with_stable_sort (h : Uefi.Hooks) (f : Uefi.Flash) (st : Uefi.St) :
    asmFlashS h f st = asmFlashT h f st :=
  asmFlashS_eq_asmFlashT h f st

open T in
/-- where the two sorts differ: on two equal keys the shared sort swaps, Go's does not; on pairwise
    different keys they agree -/
theorem c12_sorts_differ_exactly_on_equal_keys :
    (∀ a b : Uefi.Region, baseOf a = baseOf b →
      Uefi.sortRegions [a, b] = [b, a] ∧ sortRegionsS [a, b] = [a, b]) ∧
    (∀ l : List Uefi.Region, l.Pairwise (fun a b => baseOf a < baseOf b) → Uefi.sortRegions l = sortRegionsS l) :=
  ⟨sortRegions_swaps_equal_keys, sortRegions_eq_sortRegionsS_of_strict⟩

open T in
/-- **the hypothesis "no region is empty" of `c12_tree_assemble_agrees_with_shared_model` is
    necessary**: `exEmpty` — what `tighten_me` makes of the example tree when the ME region holds no
    partition table (`tightenFlash 0 0xFF exTree`) — is well-formed (`TWF`), its ME node has the empty
    extent `[4096, 4096)` and the same Base as the BIOS node behind it; Go's Assemble (`asmFlashT`; T2:
    corpus/C12/11 and the generated `ok:shrunk-to-nothing` cases) saves it, the shared `Uefi.asmFlash`
    answers an error, the shared model with the stable sort saves it. -/
theorem c12_tree_assemble_disagrees_on_empty_region :
    tightenFlash 0 0xFF exTree = .ok exEmpty ∧ TWF none 0 exEmpty ∧
    (exEmpty.regions.map (fun r => (isME r, baseOf r, (r.fr.map (fun fr => (fr.baseOffset, fr.endOffset))),
      r.buf.length))) = [(true, 1, some (4096, 4096), 0), (false, 1, some (4096, 20480), 4096)] ∧
    okB (asmFlashT Uefi.Hooks.none exEmpty { pol := 0xFF }) = true ∧
    okB (Uefi.asmFlash Uefi.Hooks.none exEmpty { pol := 0xFF }) = false ∧
    okB (asmFlashS Uefi.Hooks.none exEmpty { pol := 0xFF }) = true :=
  ⟨exEmpty_eq, exEmpty_twf, exEmpty_has_empty_region, exEmpty_disagree.1, exEmpty_disagree.2.1, exEmpty_disagree.2.2⟩

/-! ## C12.12 the in-memory statements for images above 2^28 bytes (follow-up wp-c12c, task 4)

  The tree `uefi.Parse` builds for such an image is a well-formed tree `core` of `m ≤ 2^28` bytes plus
  ONE last gap region whose private FlashRegion has wrapped fields; `tighten_me` neither reads nor
  writes that region or the size.  So every theorem above that needs `WF` holds for `core`, and the
  tree Go holds after `tighten_me` is `core'` with the same gap region appended. -/

/-- **the parsed tree of a large image, wrapped Limit explicit**: `f = ext core gap size` with
    `WF core`, `core.size = m ≤ 2^28`, the payloads of `core` are the image bytes `[4096, m)`, the gap
    region is raw, holds `img.drop m`, owns the FlashRegion
    `{uint16(m/4096), uint16(uint16(size/4096) − 1)}`, whose `EndOffset()` is below the image size. -/
theorem c12_large_parsed_tree (p0 : Nat) (img : Bytes) (f : Flash) (pol : Nat)
    (hbig : 2 ^ 28 < img.length) (h63 : img.length < 2 ^ 63) (hp : parseFlash p0 img = .ok (f, pol)) :
    ∃ core m, f = ext core (gapRegion img m img.length) img.length ∧ core.size = m ∧ WF core ∧
      m % 4096 = 0 ∧ descLen ≤ m ∧ m ≤ 2 ^ 28 ∧
      core.regions.flatMap payload = slice img descLen (m - descLen) ∧
      (gapRegion img m img.length).ref =
        .own ⟨u16 (m / blockSize), u16 (u16 (img.length / blockSize) + 65535)⟩ ∧
      (gapRegion img m img.length).body = .raw ∧
      (gapRegion img m img.length).buf = img.drop m ∧
      (∀ fr, frOf core.desc.regs (gapRegion img m img.length) = .ok fr → fr.endOff < img.length) :=
  parse_large p0 img f pol hbig h63 hp

/-- **`tighten_me` on the large tree is `tighten_me` on its well-formed core**: it succeeds on one iff
    it succeeds on the other, and the results differ by the untouched gap region and the size. -/
theorem c12_large_tighten_is_core_tighten (pol : Nat) (core : Flash) (x : Region) (n : Nat) (hx : x.body = .raw)
    (F : Flash) :
    tighten pol (ext core x n) = .ok F ↔ ∃ core', tighten pol core = .ok core' ∧ F = ext core' x n :=
  tighten_ext pol core x n hx F

/-- **the boundary formula for images above 2^28 bytes** (`c12_boundary` without `WF`, which fails
    there): same statement about the tree Go holds before and after `tighten_me`. -/
theorem c12_large_boundary (p0 : Nat) (img : Bytes) (f F : Flash) (pol : Nat)
    (hbig : 2 ^ 28 < img.length) (h63 : img.length < 2 ^ 63) (hp : parseFlash p0 img = .ok (f, pol))
    (h : tighten pol f = .ok F) :
    ∃ r0 r1 rest mer fpt free,
      f.desc.regs = r0 :: r1 :: rest ∧ mer ∈ f.regions ∧ mer.body = .me fpt free ∧
      F.desc.regs = { r0 with base := newBoundary r1.base free } ::
                    { r1 with limit := newBoundary r1.base free - 1 } :: rest ∧
      1 ≤ r1.base ∧ r1.limit + 1 = r0.base ∧
      r1.base * 4096 + free ≤ newBoundary r1.base free * 4096 ∧
      newBoundary r1.base free * 4096 < r1.base * 4096 + free + 4096 ∧
      r1.base ≤ newBoundary r1.base free ∧ newBoundary r1.base free ≤ r1.limit + 1 ∧
      newBoundary r1.base free < 65536 ∧
      free = (match fpt with | some es => freeOf es | none => 0) ∧
      (∃ gap, f.regions.getLast? = some gap ∧ F.regions.getLast? = some gap ∧ gap.body = .raw) ∧
      F.size = f.size := by
  obtain ⟨core, m, hf, _, w, _, _, _, _, _, hraw, _, _⟩ := parse_large p0 img f pol hbig h63 hp
  subst hf
  obtain ⟨core', hc, hF⟩ := (tighten_ext pol core _ img.length hraw F).mp h
  subst hF
  obtain ⟨r0, r1, rest, mer, fpt, free, h1, h2, h3, h4, h5⟩ := c12_boundary pol core core' w hc
  refine ⟨r0, r1, rest, mer, fpt, free, h1, ?_, h3, h4, h5.1, h5.2.1, h5.2.2.1, h5.2.2.2.1, h5.2.2.2.2.1,
    h5.2.2.2.2.2.1, h5.2.2.2.2.2.2.1, h5.2.2.2.2.2.2.2, ⟨_, ?_, ?_, hraw⟩, rfl⟩
  · simp only [ext, List.mem_append]; exact Or.inl h2
  · simp only [ext, List.getLast?_append, List.getLast?_singleton, Option.some_or]
  · simp only [ext, List.getLast?_append, List.getLast?_singleton, Option.some_or]

/-- `tighten_ext` is not vacuous: the example tree with a raw region appended and a FlashSize above
    2^28 is tightened exactly like the example tree -/
example : ∃ F, tighten 0xFF (ext exFlash (gapRegion [] 20480 (2 ^ 28 + 8192)) (2 ^ 28 + 8192)) = .ok F := by
  obtain ⟨f', h⟩ := exFlash_tightens
  exact ⟨_, (tighten_ext 0xFF exFlash _ _ rfl _).mpr ⟨f', h, rfl⟩⟩

/-! ## C12.13 does the enlarged BIOS region parse to the expected elements? (follow-up wp-c12c, task 2)

  After `tighten_me` + save the BIOS region of the image is `E ++ X`: `E` the freed ME blocks (erased,
  a positive multiple of 4096 bytes), `X` the old BIOS region.  `FindFirmwareVolumeOffset` never probed
  X's offsets 0, 8, 16, 24 and treated a hit at 32 as "no volume"; in `E ++ X` all five are ordinary
  probes.  `Probe.probeClean X` (decidable: five 4-byte comparisons on the INPUT image) is necessary
  and sufficient for the enlarged region to parse to the expected elements — the F-C12-probe-start
  family, characterised. -/

open Probe in
/-- what is cut off the ME buffer is `Freed`: erased, whole blocks -/
theorem c12_freed_blocks_are_freed (E : Bytes) (pol : Nat) (her : isErased E pol = true)
    (h4 : E.length % 4096 = 0) (hne : E ≠ []) : Freed E :=
  freed_of_erased E pol her h4 (by
    cases E with
    | nil => exact absurd rfl hne
    | cons a t => simp)

open Probe in
/-- **Clean probes ⇒ expected elements; a dirty probe ⇒ a volume "found" inside the freed blocks.**
    On the shared parse model (volumes with files and sections included): if the old region `X`
    parses to `es`, then
    (1) `probeClean X` ⇒ `E ++ X` parses to `leadMerge E (es shifted by |E|)` — the freed blocks join
        or become the leading padding, every volume is the same volume `|E|` further on — with the same
        polarity state;
    (2) not `probeClean X` ⇒ whatever `E ++ X` parses to (it may also fail) starts with a padding
        SHORTER than `E` followed by a volume that begins inside the freed blocks (at most 40 bytes
        before their end);
    (3) hence `E ++ X` parses to the expected elements IFF `probeClean X`. -/
theorem c12_bios_reparse_expected_iff (h : Uefi.Hooks) (fuel : Nat) (E X : Bytes) (st st' : Uefi.St)
    (es : List Uefi.BiosElem) (hE : Freed E) (hp : Uefi.parseBiosElems h fuel X 0 st = .ok (es, st')) :
    (probeClean X = true →
      Uefi.parseBiosElems h fuel (E ++ X) 0 st = .ok (leadMerge E (es.map (shiftE E.length)), st')) ∧
    (probeClean X = false → ∀ es2 st2, Uefi.parseBiosElems h fuel (E ++ X) 0 st = .ok (es2, st2) →
      ∃ p v r, es2 = .pad p 0 :: .fv v :: r ∧ p.length < E.length ∧ E.length ≤ p.length + 40 ∧
        v.info.fvOffset = p.length) ∧
    (Uefi.parseBiosElems h fuel (E ++ X) 0 st = .ok (leadMerge E (es.map (shiftE E.length)), st') ↔
      probeClean X = true) :=
  ⟨fun hc => parseBiosElems_prefix_clean h fuel E X st st' es hE hc hp,
   fun hc es2 st2 h2 => parseBiosElems_prefix_dirty h fuel E X st st2 es2 hE hc h2,
   reparse_expected_iff h fuel E X st st' es hE hp⟩

open Probe in
/-- the same for the flash-level model's `parseBios` (the shared loop, flattened by `toElem`): the
    enlarged region parses to the flattened expected elements iff `probeClean X` -/
theorem c12_flash_bios_reparse_expected_iff (fuel pol : Nat) (E X : Bytes) (st' : Uefi.St)
    (es : List Uefi.BiosElem) (hE : Freed E)
    (hp : Uefi.parseBiosElems Uefi.Hooks.none fuel X 0 { pol := UInt8.ofNat pol } = .ok (es, st')) :
    parseBios fuel pol (E ++ X) = .ok ((leadMerge E (es.map (shiftE E.length))).map toElem, st'.pol.toNat) ↔
      probeClean X = true := by
  constructor
  · intro h2
    cases hc : probeClean X with
    | true => rfl
    | false =>
      exfalso
      unfold parseBios at h2
      cases hq : Uefi.parseBiosElems Uefi.Hooks.none fuel (E ++ X) 0 { pol := UInt8.ofNat pol } with
      | error e => rw [hq] at h2; cases h2
      | ok q =>
        obtain ⟨es2, st2⟩ := q
        rw [hq] at h2
        obtain ⟨p, v, r, he, hlt, _, _⟩ := parseBiosElems_prefix_dirty _ fuel E X _ st2 es2 hE hc hq
        subst he
        simp only [Except.ok.injEq, Prod.mk.injEq, List.map_cons] at h2
        have hlead : ∀ l : List Uefi.BiosElem, ∃ b r', leadMerge E l = .pad (E ++ b) 0 :: r' := by
          intro l
          match l with
          | [] => exact ⟨[], [], by simp [leadMerge]⟩
          | .pad b o :: r' => exact ⟨b, r', rfl⟩
          | .fv w :: r' => exact ⟨[], .fv w :: r', by simp [leadMerge]⟩
        obtain ⟨b, r', hb⟩ := hlead (es.map (shiftE E.length))
        rw [hb] at h2
        simp only [List.map_cons, toElem, List.cons.injEq, Elem.mk.injEq] at h2
        have := congrArg List.length h2.1.1.2.2.1
        simp only [List.length_append] at this
        omega
  · intro hc
    unfold parseBios
    rw [parseBiosElems_prefix_clean _ fuel E X _ st' es hE hc hp]

open Probe in
/-- **The predicate on the input image.**  parse, `tighten_me`, save, re-parse in a new process with the
    same initial polarity state.  `X` = the BIOS extent of the INPUT image, `E` = the input bytes between
    the new and the old boundary, `es0` = the elements the first parse found in `X`.  If at least one
    block was freed then `E` is `Freed` (erased whole blocks) and the re-parsed tree has a BIOS node with
    the expected elements — `leadMerge E (es0 shifted by |E|)`: freed blocks in / as the leading padding,
    every volume unchanged and `|E|` further on — IFF `biosProbeClean img f.desc`, i.e. iff none of the
    offsets 0, 8, 16, 24, 32 of the input's BIOS extent shows `_FVH`.  (When the probes are clean the
    enlarged region itself always parses: `c12_bios_reparse_expected_iff` (1).) -/
theorem c12_reparse_bios_expected_iff (p0 : Nat) (img : Bytes) (f f' g' t : Flash) (pol pa pa' q : Nat)
    (hsz : img.length % 4096 = 0) (hlt : img.length ≤ 2 ^ 28)
    (hp : parseFlash p0 img = .ok (f, pol)) (sane : f.desc.Sane)
    (ht : tighten pol f = .ok f') (hs : asmFlash pa f' = .ok (g', pa'))
    (hr : parseFlash p0 g'.buf = .ok (t, q)) :
    ∃ r0 r1 rest nb es0 st0,
      f.desc.regs = r0 :: r1 :: rest ∧
      t.desc.regs = { r0 with base := nb } :: { r1 with limit := nb - 1 } :: rest ∧ nb ≤ r0.base ∧
      Uefi.parseBiosElems Uefi.Hooks.none (Uefi.defaultFuel img) (slice img r0.baseOff (r0.endOff - r0.baseOff)) 0
        { pol := UInt8.ofNat p0 } = .ok (es0, st0) ∧
      (nb < r0.base →
        Freed (slice img (nb * 4096) (r0.baseOff - nb * 4096)) ∧
        (slice img (nb * 4096) (r0.baseOff - nb * 4096)).length = (r0.base - nb) * 4096 ∧
        ((∃ br ∈ t.regions, br.body =
            .bios ((slice img (nb * 4096) (r0.baseOff - nb * 4096)).length +
                   (slice img r0.baseOff (r0.endOff - r0.baseOff)).length)
              ((leadMerge (slice img (nb * 4096) (r0.baseOff - nb * 4096))
                (es0.map (shiftE (slice img (nb * 4096) (r0.baseOff - nb * 4096)).length))).map toElem)) ↔
          biosProbeClean img f.desc = true)) :=
  reparse_bios_expected_iff p0 img f f' g' t pol pa pa' q hsz hlt hp sane ht hs hr

/-- **The only thing that can fail when the saved image is loaded again is `NewBIOSRegion` on the
    enlarged BIOS extent.**  parse, `tighten_me`, save: if `parseBios` accepts the INPUT image's bytes at
    the new BIOS extent (slot 0 of the rewritten table), `uefi.Parse` accepts the saved image (same initial
    polarity state): the regenerated descriptor parses (`Desc.Sane`), the BIOS slot stays valid, no other
    slot of the region loop can fail, and `fillRegionGaps` succeeds because the extents selected from the
    rewritten table are still pairwise disjoint. -/
theorem c12_saved_image_parses (p0 : Nat) (img : Bytes) (f f' g' : Flash) (pol pa pa' : Nat)
    (hsz : img.length % 4096 = 0) (hlt : img.length ≤ 2 ^ 28)
    (hp : parseFlash p0 img = .ok (f, pol)) (sane : f.desc.Sane)
    (ht : tighten pol f = .ok f') (hs : asmFlash pa f' = .ok (g', pa'))
    (r0' : FRegion) (tl' : List FRegion) (hregs' : f'.desc.regs = r0' :: tl')
    (els : List Elem) (p' : Nat)
    (hb : parseBios (Uefi.defaultFuel img) p0 (slice img r0'.baseOff (r0'.endOff - r0'.baseOff)) = .ok (els, p')) :
    ∃ t q, parseFlash p0 g'.buf = .ok (t, q) :=
  saved_image_parses p0 img f f' g' pol pa pa' hsz hlt hp sane ht hs r0' tl' hregs' els p' hb

/-- **Clean probes ⇒ the image saved after `tighten_me` parses again** (whether blocks were freed or
    not; same initial polarity state as the first parse, i.e. a fresh process both times).  With
    `c12_reparse_bios_expected_iff` (whenever it parses: expected BIOS elements ⇔ clean) this is the
    characterisation asked for: when at least one block was freed, the saved image parses AND has the
    expected BIOS elements iff `biosProbeClean img f.desc`. -/
theorem c12_saved_image_parses_when_clean (p0 : Nat) (img : Bytes) (f f' g' : Flash) (pol pa pa' : Nat)
    (hsz : img.length % 4096 = 0) (hlt : img.length ≤ 2 ^ 28)
    (hp : parseFlash p0 img = .ok (f, pol)) (sane : f.desc.Sane)
    (ht : tighten pol f = .ok f') (hs : asmFlash pa f' = .ok (g', pa'))
    (hc : biosProbeClean img f.desc = true) :
    ∃ t q, parseFlash p0 g'.buf = .ok (t, q) :=
  saved_image_parses_clean p0 img f f' g' pol pa pa' hsz hlt hp sane ht hs hc

/-- **Clean probes: the re-parsed tree can be saved again** with the polarity the second parse left.
    (`biosPol` only looks at the (polarity, has-files) sequence of the volumes; the re-parsed volumes are
    the first run's, the first save shows that none has files and that there is a first volume, and the
    parser leaves the polarity of the volumes it found — shared lemma `Uefi.tp_bioselems`.) -/
theorem c12_reparsed_tree_saves_when_clean (p0 : Nat) (img : Bytes) (f f' g' t : Flash) (pol pa pa' q : Nat)
    (hsz : img.length % 4096 = 0) (hlt : img.length ≤ 2 ^ 28)
    (hp : parseFlash p0 img = .ok (f, pol)) (sane : f.desc.Sane)
    (ht : tighten pol f = .ok f') (hs : asmFlash pa f' = .ok (g', pa'))
    (hc : biosProbeClean img f.desc = true) (hr : parseFlash p0 g'.buf = .ok (t, q)) :
    ∃ s p, asmFlash q t = .ok (s, p) :=
  reparsed_saves_clean p0 img f f' g' t pol pa pa' q hsz hlt hp sane ht hs hc hr

/-- **The second run for clean images: it succeeds IFF `SecondOk f f'`** — "the saved image can be
    loaded and saved" is gone from the right-hand side of `c12_second_run_succeeds_iff`: for an input
    image whose BIOS extent is `biosProbeClean` (five 4-byte comparisons on the input) the image saved
    after `tighten_me` always loads and can be saved, so `utk SAVED tighten_me save` in a new process
    succeeds iff the ME region was not shrunk to nothing and its partition table still ends inside it;
    and if it succeeds it writes the first saved image again, byte for byte.  (Both parses start from
    the same polarity state `p0`: a fresh process both times.) -/
theorem c12_second_run_succeeds_iff_clean (p0 : Nat) (img : Bytes) (f f' g' : Flash) (pol pa pa' : Nat)
    (hsz : img.length % 4096 = 0) (hlt : img.length ≤ 2 ^ 28)
    (hp : parseFlash p0 img = .ok (f, pol)) (sane : f.desc.Sane)
    (ht : tighten pol f = .ok f') (hs : asmFlash pa f' = .ok (g', pa'))
    (hc : biosProbeClean img f.desc = true) :
    ((∃ s p, secondRun p0 g'.buf = .ok (s, p)) ↔ SecondOk f f') ∧
    (∀ s p, secondRun p0 g'.buf = .ok (s, p) → s.buf = g'.buf) :=
  second_run_clean p0 img f f' g' pol pa pa' hsz hlt hp sane ht hs hc

open Probe in
/-- for a region that holds a volume at all (Assemble saves no other) the probe at 32 is clean by
    itself: the predicate is about the never-probed offsets 0, 8, 16, 24 -/
theorem c12_probe_clean_of_volume (X : Bytes) (off : Nat) (h : Uefi.findFvOffset X = some off) :
    probeClean X = (Uefi.scanSig 4 0 X).isNone :=
  probeClean_of_volume X off h

/-- the predicate on the input image is inhabited: an image whose BIOS extent (block 4 of the example
    descriptor) is erased is `biosProbeClean` -/
example : biosProbeClean (ffs 20480) exFlash.desc = true := by decide +kernel

open Probe in
/-- both outcomes of `probeClean` occur: an erased region is clean, a region that starts with `_FVH`
    (offset 0 — never probed while the region starts there) is not -/
example : probeClean (List.replicate 64 0xFF) = true ∧
    probeClean ([0x5F, 0x46, 0x56, 0x48] ++ List.replicate 60 0xFF) = false := by decide


/-! ## C12.14 volumes with files: the enlarged BIOS region in C01's grammar (follow-up wp-c12c, task 1)

  For an image of C01's reference grammar the image saved after `tighten_me` is the regenerated
  descriptor followed by the input's own bytes (`c12_tree_save_frame` + C01 `asm_tree`), so its BIOS
  region is `E ++ serBios b`.  The grammar is closed under that enlargement exactly under
  `probeClean`, and the enlarged region is a fixed point of parse + save — files, sections, nested
  volumes and all.  (The flash wrapper of the second run for volumes with files — descriptor and
  region loop on the tree level — is not proved; see checks.d `unproved`.) -/

open Probe Uefi.Spec in
/-- **C01's grammar is closed under `tighten_me`'s enlargement of the BIOS region iff the probes are
    clean**: `enlarge E b` (freed blocks in front of the first padding) serialises to
    `E ++ serBios b` and is well-formed iff `probeClean (serBios b)`. -/
theorem c12_grammar_region_closed_iff (E : Bytes) (b : BiosI) (hE : Freed E) (hw : wfBios b = true) :
    serBios (enlarge E b) = E ++ serBios b ∧
    (wfBios (enlarge E b) = true ↔ probeClean (serBios b) = true) := by
  have hne : b.items ≠ [] := by
    intro h0
    simp [wfBios, h0] at hw
  refine ⟨serBios_enlarge E b hne, ?_, fun hc => wfBios_enlarge E b hE hw hc⟩
  intro h1
  cases hc : probeClean (serBios b) with
  | true => rfl
  | false => rw [wfBios_enlarge_dirty E b hE hne hc] at h1; cases h1

open Probe Uefi.Spec in
/-- **The saved enlarged region is a fixed point of parse + save, volumes with files included**:
    `NewBIOSRegion` on `E ++ serBios b` yields the grammar's tree of `enlarge E b` (every file and
    section as before, every volume `|E|` further on, the freed blocks merged into the leading
    padding), and Assemble on that tree writes `E ++ serBios b` again. -/
theorem c12_grammar_enlarged_region_roundtrip (E : Bytes) (b : BiosI) (fr : Option Uefi.FlashRegion)
    (fuel : Nat) (st : Uefi.St) (hE : Freed E) (hw : wfBios b = true) (hc : probeClean (serBios b) = true)
    (hf : (E ++ serBios b).length + 1 ≤ fuel) (hp : st.pol = 0xFF ∨ st.pol = 0xF0) :
    Uefi.parseBios Uefi.Hooks.none fuel (E ++ serBios b) fr st =
      .ok (treeBios (enlarge E b) fr, { st with pol := 0xFF }) ∧
    ∃ b' st', Uefi.asmBios Uefi.Hooks.none (treeBios (enlarge E b) fr) { st with pol := 0xFF, ffs3 := false } =
        .ok (b', st') ∧ b'.buf = E ++ serBios b ∧ b'.fr = fr ∧ st'.pol = 0xFF :=
  enlarged_region_roundtrip E b fr fuel st hE hw hc hf hp

open Probe Uefi.Spec in
set_option maxRecDepth 65536 in
/-- the hypotheses are inhabited: C01's sample region (a volume with sectioned files, a pad file, a RAW
    file, free space; a second volume of another file system; paddings) is well-formed and clean -/
example : wfBios ⟨[([], Uefi.C01.sampleFv), (List.replicate 16 0xFF, Uefi.C01.sampleOther)], [1, 2, 3]⟩ = true ∧
    probeClean (serBios ⟨[([], Uefi.C01.sampleFv), (List.replicate 16 0xFF, Uefi.C01.sampleOther)], [1, 2, 3]⟩) = true := by
  decide

/-- … and so is `Freed`: a block of erased bytes -/
example : Probe.Freed (ffs 4096) :=
  c12_freed_blocks_are_freed _ 0xFF (isErased_ffs _) (by rw [ffs_length])
    (by intro h; have := congrArg List.length h; rw [ffs_length] at this; cases this)

/-! ## non-vacuity -/

/-- the hypotheses of the C12 theorems are inhabited, and the boundary moves: ME Limit 3 → 2,
    BIOS Base 4 → 3 -/
example : ∃ f f', WF f ∧ tighten 0xFF f = .ok f' ∧
    f'.desc.regs.take 2 = [⟨3, 4⟩, ⟨1, 2⟩] := by
  obtain ⟨f', h⟩ := exFlash_tightens
  refine ⟨exFlash, f', exFlash_wf, h, ?_⟩
  obtain ⟨r0, r1, rest, mer, fpt, free, hr, hmem, hmb, hregs, _⟩ := c12_boundary 0xFF exFlash f' exFlash_wf h
  simp only [exFlash, List.cons.injEq] at hr
  obtain ⟨rfl, rfl, _⟩ := hr
  simp only [exFlash, List.mem_cons, List.not_mem_nil, or_false] at hmem
  rcases hmem with rfl | rfl
  · simp at hmb; obtain ⟨_, rfl⟩ := hmb
    rw [hregs]
    have : newBoundary 1 4160 = 3 := by decide
    simp [this]
  · simp at hmb

end Fiano.TightenMe
