/-
  Property C05 — UEFI image parsing and tree walking are total:
  "for every byte string, parsing a flash image, BIOS region, firmware volume, file, section, NVAR store or
   ME partition table returns either a tree or an error … it never panics, never loops without consuming
   input, and never allocates according to an unchecked length field.  The same holds for every
   tree-walking operation applied to a tree that parsing accepted."

  The theorems are about the Go-semantics models of FianoModel/Uefi/Total*.lean, in which every
  `b[lo:hi]`, `b[i]`, `make(n)` of the Go functions is a faulting primitive of Base/GoM.lean and every
  loop that is not structurally decreasing takes fuel.  `Safe r` says: `r` is a value or an ordinary
  error — not `panic`, not `fuel`.  Third-party decompressors are a parameter: any family of *total*
  functions `Bytes → Option Bytes` (their output is added to `Meter.decompressed`).

  Full statement of DESIGN §7-C05 (kept for reference; the proved part is below):
      parse_total (bs) : ∃ r m, (parse bs).run = (r, m) ∧ r ∉ {panic, fatal, fuel}
                         ∧ m.alloc ≤ k·|bs| + K + m.decompressed ∧ m.steps ≤ k'·(|bs| + m.decompressed) + K'
      walk_total (t)   : parse bs = ok t → validate / assemble / extract t do not panic
  Proved here, for every input:  the `r ∉ {panic, fuel}` part for all seven entry points
  (`*_total`), well-formedness of every returned tree (`parse_wf`), `validate` on any tree and `extract`
  on every parsed tree (`walk_total_partial`), and the allocation facts that do hold: every copy-out
  allocates `n ≤ |b|` (`copy_out_alloc_bounded`), the three places where a *count* field drives an allocation
  are bounded by the bytes in hand (`blockmap_alloc`, `nvar_guidstore_alloc`, `parseMeFpt_alloc`).  Not proved (checks.d `unproved`): the linear allocation bound for the
  volume / NVAR parsers — it is *false* of the code: every nested volume and nested NVAR store copies its
  buffer, so allocation is Θ(depth · |bs|) (known finding `nested-copy`, measured on the Go code);
  the step bound; `assemble`, `json`, `table` (T2 only).
-/
import FianoModel.Uefi.TotalWalkSafe
import FianoModel.Uefi.TotalAlloc
import FianoModel.Uefi.TotalTie
import FianoModel.Uefi.CodeTie   -- T1 code-as-code tie (wp-t1x): audited as a tie module of this check
import FianoModel.Uefi.CodeTieTotal   -- T1 code-as-code tie (wp-t1x): audited as a tie module of this check

namespace Fiano.Props.C05
open Fiano GoM Fiano.Uefi Fiano.Uefi.Total

/-- a family of total decompressors: for a section GUID, the codec's name, the number of header bytes its
    wrapper skips, and the decoder itself -/
abbrev Decoders := Guid → Option (String × Nat × (Bytes → Option Bytes))

/-- what a decoder returns is a Go slice (its length fits an `int`) -/
def DecBounded (d : Decoders) : Prop :=
  ∀ g n s dec b out, d g = some (n, s, dec) → dec b = some out → out.length < 2^63

/-- the parser's hooks for a family of total decoders, with the NVAR store parser of the model -/
def hooksOf (d : Decoders) (disableDecompression : Bool) : HooksG :=
  { codec := fun g => (d g).map (fun (n, s, dec) => CodecG.ofPure n s dec)
    disableDecompression := disableDecompression
    nvar := nvarHook }

theorem hooksOf_codec (d : Decoders) (dd : Bool) (hd : DecBounded d) : CodecBounded (hooksOf d dd) := by
  intro g c b m hc
  simp only [hooksOf, Option.map_eq_some_iff] at hc
  obtain ⟨⟨n, s, dec⟩, hg, hc⟩ := hc
  subst hc
  simp only [CodecG.ofPure]
  refine post_decodeG (fun r hr out ho => ?_)
  subst ho
  exact hd g n s dec b out hg hr.symm

theorem hooksOf_nvar (d : Decoders) (dd : Bool) : NvarOk (hooksOf d dd) := nvarHook_ok

/-! ### parse_total: the seven entry points -/

/-- **uefi.Parse** (flash image or bare BIOS region): a tree or an error for every byte string, every
    family of total decoders, either setting of DisableDecompression, every decompression budget. -/
theorem parse_total (d : Decoders) (hd : DecBounded d) (dd : Bool) (z : Nat) (bs : Bytes) (hb : bs.length < 2^63)
    (m : Meter) : Safe (parseG (hooksOf d dd) z bs m) :=
  post_safe (parseG_post _ (hooksOf_codec d dd hd) (hooksOf_nvar d dd) z bs m hb)

/-- **uefi.NewFirmwareVolume** -/
theorem parseFv_total (d : Decoders) (hd : DecBounded d) (dd : Bool) (z : Nat) (bs : Bytes) (hb : bs.length < 2^63)
    (off : Nat) (resizable : Bool) (st : St) (m : Meter) :
    Safe (newFvG (hooksOf d dd) z bs off resizable st m) :=
  post_safe (newFvG_post _ (hooksOf_codec d dd hd) (hooksOf_nvar d dd) z bs off resizable st m hb)

/-- **uefi.NewFile** -/
theorem parseFile_total (d : Decoders) (hd : DecBounded d) (dd : Bool) (z : Nat) (bs : Bytes) (hb : bs.length < 2^63)
    (st : St) (m : Meter) : Safe (newFileG (hooksOf d dd) z bs st m) :=
  post_safe (newFileG_post _ (hooksOf_codec d dd hd) (hooksOf_nvar d dd) z bs st m hb)

/-- **uefi.NewSection** -/
theorem parseSection_total (d : Decoders) (hd : DecBounded d) (dd : Bool) (z : Nat) (bs : Bytes)
    (hb : bs.length < 2^63) (order : Nat) (st : St) (m : Meter) :
    Safe (newSectionG (hooksOf d dd) z bs order st m) :=
  post_safe (newSectionG_post _ (hooksOf_codec d dd hd) (hooksOf_nvar d dd) z bs order st m hb)

/-- **uefi.NewBIOSRegion** -/
theorem parseBios_total (d : Decoders) (hd : DecBounded d) (dd : Bool) (z : Nat) (bs : Bytes) (hb : bs.length < 2^63)
    (fr : Option FlashRegion) (st : St) (m : Meter) : Safe (parseBiosG (hooksOf d dd) z bs fr st m) :=
  post_safe (parseBiosG_post _ (hooksOf_codec d dd hd) (hooksOf_nvar d dd) z bs fr st m hb)

/-- **uefi.NewNVarStore**: for every byte string and every erase polarity byte — no hypothesis at all -/
theorem parseNvarStore_total (pol : UInt8) (bs : Bytes) (m : Meter) : Safe (newNvarStoreG pol bs m) :=
  post_safe (newNvarStoreG_safe pol bs m)

/-- **uefi.NewMEFPT**: for every byte string — no hypothesis at all -/
theorem parseMeFpt_total (bs : Bytes) (m : Meter) : Safe (newMeFptG bs m) :=
  post_safe (newMeFptG_post bs m)

/-- allocation of the partition table parser: at most `2·|bs|` (the `make`s are checked against the input) -/
theorem parseMeFpt_alloc (bs : Bytes) (m m' : Meter) (f : MeFpt) (h : newMeFptG bs m = .ok (f, m')) :
    m'.alloc ≤ m.alloc + 2 * bs.length ∧ m'.decompressed = m.decompressed := by
  have := newMeFptG_alloc bs m
  unfold Post at this
  rw [h] at this
  exact this

/-! ### allocation (partial: see the header; the linear bound over a nested tree is false of the code) -/

/-- the copy-out idiom of NewFirmwareVolume / NewFile / NewSection / newNVar / NewMEFPT
    (`newBuf := b[:n]; x := make([]byte, n)`): a copy-out that returns allocated exactly `n ≤ |b|` bytes —
    an `n` beyond the buffer is a fault, which `*_total` exclude -/
theorem copy_out_alloc_bounded (site : String) (b : Bytes) (n : Nat) (m m' : Meter) (r : Bytes)
    (h : copyOutG site b n m = .ok (r, m')) : n ≤ b.length ∧ m'.alloc = m.alloc + n :=
  let ⟨h1, h2, _⟩ := copyOutG_alloc site b n m m' r h; ⟨h1, h2⟩

/-- the block map (`append` per entry): at most 8 bytes allocated per 8 bytes of header consumed, for any
    `Length` field and any fuel -/
theorem blockmap_alloc (length fuel : Nat) (r : Bytes) (pos : Nat) (m m' : Meter) (bs : List Block)
    (h : readBlocksG length fuel r pos m = .ok (bs, m')) :
    m'.alloc + 8 ≤ m.alloc + r.length ∧ 8 * bs.length + 8 ≤ r.length := by
  have := readBlocks_alloc length fuel r pos m
  unfold Post' at this
  rw [h] at this
  exact ⟨this.1, this.2.2⟩

/-- the NVAR GUID store (`make([]guid.GUID, i+1-len)`): at most the length of the store buffer, for any index byte -/
theorem nvar_guidstore_alloc (sbuf : Bytes) (guids : List Bytes) (i : Nat) (m m' : Meter) (r : Bytes × List Bytes)
    (h : getGuidFromStoreG sbuf guids i m = .ok (r, m')) : m'.alloc ≤ m.alloc + sbuf.length := by
  have := getGuidFromStore_alloc sbuf guids i m
  unfold Post' at this
  rw [h] at this
  exact this.1

/-- **FindFirmwareVolumeOffset** never faults and, when it answers, a whole 44-byte probe fits -/
theorem findFvOffset_total (bs : Bytes) (m : Meter) : Safe (findFvOffsetG bs m) :=
  post_safe (findFvOffset_post bs m)

/-! ### what a parse returns -/

/-- every tree the parser returns is well formed: each volume's buffer has the length of its header field,
    a volume with files has its data offset inside the buffer, every file and section buffer has the
    length of its size field and no file in a volume is empty (so `assemble`'s `log.Fatalf` on a
    zero-length file is unreachable from a parsed tree). -/
theorem parse_wf (d : Decoders) (hd : DecBounded d) (dd : Bool) (z : Nat) (bs : Bytes) (hb : bs.length < 2^63)
    (m m' : Meter) (t : Tree) (h : parseG (hooksOf d dd) z bs m = .ok (t, m')) : TreeWf t := by
  have := parseG_post _ (hooksOf_codec d dd hd) (hooksOf_nvar d dd) z bs m hb
  unfold Post at this
  rw [h] at this
  exact this

/-! ### walk_total (partial: validate and extract; assemble, json, table are covered by T2 only) -/

/-- **validate** does not fault on any tree whatsoever -/
theorem validate_total (t : Tree) (m : Meter) : Safe (validateG t m) := post_safe (validateG_safe t m)

/-- **walk_total_partial**: on every tree the parser accepted, `validate` and `extract` return -/
theorem walk_total_partial (d : Decoders) (hd : DecBounded d) (dd : Bool) (z : Nat) (bs : Bytes)
    (hb : bs.length < 2^63) (m m' : Meter) (t : Tree) (h : parseG (hooksOf d dd) z bs m = .ok (t, m')) (m1 : Meter) :
    Safe (validateG t m1) ∧ Safe (extractG t m1) :=
  ⟨validate_total t m1, post_safe (extractG_safe t (parse_wf d hd dd z bs hb m m' t h) m1)⟩

/-! ### non-vacuity -/

/-- a family of total decoders satisfying `DecBounded`: a "stored" codec for the LZMA GUID that returns
    (at most 64 KiB of) its input -/
def storedDecoders : Decoders := fun g =>
  if g = codecLZMA then some ("LZMA", 0, fun b => some (b.take 65536)) else none

example : DecBounded storedDecoders := by
  intro g n s dec b out hg hdec
  unfold storedDecoders at hg
  split at hg
  · cases hg
    cases hdec
    have : (List.take 65536 b).length ≤ 65536 := List.length_take_le _ _
    omega
  · cases hg

/-- a GUID-defined section (LZMA GUID, processing required) whose stored payload is one RAW section:
    the model decodes it and returns a section with one encapsulated child -/
def sampleSection : Bytes :=
  [0x20, 0, 0, 0x02] ++ codecLZMA ++ [24, 0, 1, 0] ++ [8, 0, 0, 0x19, 1, 2, 3, 4]

def faultIsErr {α} : Except Fault α → Bool
  | .error .err => true
  | _ => false

example : (match newSectionG (hooksOf storedDecoders false) 1 sampleSection 0 {} {} with
    | .ok ((s, _), m) => decide (s.encap.length = 1 ∧ m.decompressed = 8)
    | .error _ => false) = true := by decide

/-- the hostile inputs of DESIGN §8 are *errors* of the repaired model, not faults:
    GUID-defined section with `DataOffset = 0xFFFF` (row 4) -/
example : faultIsErr (newSectionG (hooksOf storedDecoders false) 1
    ([0x20, 0, 0, 0x02] ++ codecLZMA ++ [0xFF, 0xFF, 1, 0] ++ [8, 0, 0, 0x19, 1, 2, 3, 4]) 0 {} {}) = true := by
  decide

/-- NVAR entry with `Size = 5` (row 1) and `Size = 0` (row 2): `NewNVarStore` returns an error -/
example : (match newNvarStoreG 0xFF [0x4E, 0x56, 0x41, 0x52, 5, 0, 0xFF, 0xFF, 0xFF, 0x82, 0, 0] {} with
    | .ok (none, _) => true | _ => false) = true := by decide
example : (match newNvarStoreG 0xFF [0x4E, 0x56, 0x41, 0x52, 0, 0, 0xFF, 0xFF, 0xFF, 0x82, 0, 0] {} with
    | .ok (none, _) => true | _ => false) = true := by decide

end Fiano.Props.C05
