/-
  Property C05 — UEFI image parsing and tree walking are total:
  "for every byte string, parsing a flash image, BIOS region, firmware volume, file, section, NVAR store or
   ME partition table returns either a tree or an error … it never panics, never loops without consuming
   input, and never allocates according to an unchecked length field.  The same holds for every
   tree-walking operation applied to a tree that parsing accepted."

  The theorems are about the Go-semantics models of FianoModel/Uefi/Total*.lean, in which every
  `b[lo:hi]`, `b[i]`, `make(n)` of the Go functions is a faulting primitive of Base/GoM.lean and every
  loop that is not structurally decreasing takes fuel.  `Safe r` says: `r` is a value or an ordinary
  error — not `panic`, not `fuel`.  Third-party decompressors are a parameter: any family of *total*
  functions `Bytes → Option Bytes` (their output is added to `Meter.decompressed`).

  Full statement of DESIGN §7-C05 (kept for reference; the proved part is below):
      parse_total (bs) : ∃ r m, (parse bs).run = (r, m) ∧ r ∉ {panic, fatal, fuel}
                         ∧ m.alloc ≤ k·|bs| + K + m.decompressed ∧ m.steps ≤ k'·(|bs| + m.decompressed) + K'
      walk_total (t)   : parse bs = ok t → validate / assemble / extract t do not panic
  Proved here, for every input:  the `r ∉ {panic, fuel}` part for all seven entry points
  (`*_total`), well-formedness of every returned tree (`parse_wf`), `validate` on any tree and `extract`
  on every parsed tree (`walk_total_partial`), and the allocation facts that do hold: every copy-out
  allocates `n ≤ |b|` (`copy_out_alloc_bounded`), the three places where a *count* field drives an allocation
  are bounded by the bytes in hand (`blockmap_alloc`, `nvar_guidstore_alloc`, `parseMeFpt_alloc`).  Not proved (checks.d `unproved`): the linear allocation bound for the
  volume / NVAR parsers — it is *false* of the code: every nested volume and nested NVAR store copies its
  buffer, so allocation is Θ(depth · |bs|) (known finding `nested-copy`, measured on the Go code);
  the step bound; `assemble`, `json`, `table` (T2 only).
-/
import FianoModel.Uefi.TotalWalkSafe
import FianoModel.Uefi.TotalAlloc
import FianoModel.Uefi.TotalTie
import FianoModel.Uefi.CodeTie   -- T1 code-as-code tie (wp-t1x): audited as a tie module of this check
import FianoModel.Uefi.CodeTieTotal   -- T1 code-as-code tie (wp-t1x): audited as a tie module of this check
import FianoModel.Uefi.TotalAsmTree
import FianoModel.Uefi.TotalAsmTie
import FianoModel.Uefi.TotalAsmEditSafe
import FianoModel.Uefi.TotalAsmSamples
import FianoModel.Uefi.TotalAsmAlloc
import FianoModel.Uefi.TotalStepsTop

namespace Fiano.Props.C05
open Fiano GoM Fiano.Uefi Fiano.Uefi.Total

/-- a family of total decompressors: for a section GUID, the codec's name, the number of header bytes its
    wrapper skips, and the decoder itself -/
abbrev Decoders := Guid → Option (String × Nat × (Bytes → Option Bytes))

/-- what a decoder returns is a Go slice (its length fits an `int`) -/
def DecBounded (d : Decoders) : Prop :=
  ∀ g n s dec b out, d g = some (n, s, dec) → dec b = some out → out.length < 2^63

/-- the parser's hooks for a family of total decoders, with the NVAR store parser of the model -/
def hooksOf (d : Decoders) (disableDecompression : Bool) : HooksG :=
  { codec := fun g => (d g).map (fun (n, s, dec) => CodecG.ofPure n s dec)
    disableDecompression := disableDecompression
    nvar := nvarHook }

theorem hooksOf_codec (d : Decoders) (dd : Bool) (hd : DecBounded d) : CodecBounded (hooksOf d dd) := by
  intro g c b m hc
  simp only [hooksOf, Option.map_eq_some_iff] at hc
  obtain ⟨⟨n, s, dec⟩, hg, hc⟩ := hc
  subst hc
  simp only [CodecG.ofPure]
  refine post_decodeG (fun r hr out ho => ?_)
  subst ho
  exact hd g n s dec b out hg hr.symm

theorem hooksOf_nvar (d : Decoders) (dd : Bool) : NvarOk (hooksOf d dd) := nvarHook_ok

/-! ### parse_total: the seven entry points -/

/-- **uefi.Parse** (flash image or bare BIOS region): a tree or an error for every byte string, every
    family of total decoders, either setting of DisableDecompression, every decompression budget. -/
theorem parse_total (d : Decoders) (hd : DecBounded d) (dd : Bool) (z : Nat) (bs : Bytes) (hb : bs.length < 2^63)
    (m : Meter) : Safe (parseG (hooksOf d dd) z bs m) :=
  post_safe (parseG_post _ (hooksOf_codec d dd hd) (hooksOf_nvar d dd) z bs m hb)

/-- **uefi.NewFirmwareVolume** -/
theorem parseFv_total (d : Decoders) (hd : DecBounded d) (dd : Bool) (z : Nat) (bs : Bytes) (hb : bs.length < 2^63)
    (off : Nat) (resizable : Bool) (st : St) (m : Meter) :
    Safe (newFvG (hooksOf d dd) z bs off resizable st m) :=
  post_safe (newFvG_post _ (hooksOf_codec d dd hd) (hooksOf_nvar d dd) z bs off resizable st m hb)

/-- **uefi.NewFile** -/
theorem parseFile_total (d : Decoders) (hd : DecBounded d) (dd : Bool) (z : Nat) (bs : Bytes) (hb : bs.length < 2^63)
    (st : St) (m : Meter) : Safe (newFileG (hooksOf d dd) z bs st m) :=
  post_safe (newFileG_post _ (hooksOf_codec d dd hd) (hooksOf_nvar d dd) z bs st m hb)

/-- **uefi.NewSection** -/
theorem parseSection_total (d : Decoders) (hd : DecBounded d) (dd : Bool) (z : Nat) (bs : Bytes)
    (hb : bs.length < 2^63) (order : Nat) (st : St) (m : Meter) :
    Safe (newSectionG (hooksOf d dd) z bs order st m) :=
  post_safe (newSectionG_post _ (hooksOf_codec d dd hd) (hooksOf_nvar d dd) z bs order st m hb)

/-- **uefi.NewBIOSRegion** -/
theorem parseBios_total (d : Decoders) (hd : DecBounded d) (dd : Bool) (z : Nat) (bs : Bytes) (hb : bs.length < 2^63)
    (fr : Option FlashRegion) (st : St) (m : Meter) : Safe (parseBiosG (hooksOf d dd) z bs fr st m) :=
  post_safe (parseBiosG_post _ (hooksOf_codec d dd hd) (hooksOf_nvar d dd) z bs fr st m hb)

/-- **uefi.NewNVarStore**: for every byte string and every erase polarity byte — no hypothesis at all -/
theorem parseNvarStore_total (pol : UInt8) (bs : Bytes) (m : Meter) : Safe (newNvarStoreG pol bs m) :=
  post_safe (newNvarStoreG_safe pol bs m)

/-- **uefi.NewMEFPT**: for every byte string — no hypothesis at all -/
theorem parseMeFpt_total (bs : Bytes) (m : Meter) : Safe (newMeFptG bs m) :=
  post_safe (newMeFptG_post bs m)

/-- allocation of the partition table parser: at most `2·|bs|` (the `make`s are checked against the input) -/
theorem parseMeFpt_alloc (bs : Bytes) (m m' : Meter) (f : MeFpt) (h : newMeFptG bs m = .ok (f, m')) :
    m'.alloc ≤ m.alloc + 2 * bs.length ∧ m'.decompressed = m.decompressed := by
  have := newMeFptG_alloc bs m
  unfold Post at this
  rw [h] at this
  exact this

/-! ### allocation (partial: see the header; the linear bound over a nested tree is false of the code) -/

/-- the copy-out idiom of NewFirmwareVolume / NewFile / NewSection / newNVar / NewMEFPT
    (`newBuf := b[:n]; x := make([]byte, n)`): a copy-out that returns allocated exactly `n ≤ |b|` bytes —
    an `n` beyond the buffer is a fault, which `*_total` exclude -/
theorem copy_out_alloc_bounded (site : String) (b : Bytes) (n : Nat) (m m' : Meter) (r : Bytes)
    (h : copyOutG site b n m = .ok (r, m')) : n ≤ b.length ∧ m'.alloc = m.alloc + n :=
  let ⟨h1, h2, _⟩ := copyOutG_alloc site b n m m' r h; ⟨h1, h2⟩

/-- the block map (`append` per entry): at most 8 bytes allocated per 8 bytes of header consumed, for any
    `Length` field and any fuel -/
theorem blockmap_alloc (length fuel : Nat) (r : Bytes) (pos : Nat) (m m' : Meter) (bs : List Block)
    (h : readBlocksG length fuel r pos m = .ok (bs, m')) :
    m'.alloc + 8 ≤ m.alloc + r.length ∧ 8 * bs.length + 8 ≤ r.length := by
  have := readBlocks_alloc length fuel r pos m
  unfold Post' at this
  rw [h] at this
  exact ⟨this.1, this.2.2⟩

/-- the NVAR GUID store (`make([]guid.GUID, i+1-len)`): at most the length of the store buffer, for any index byte -/
theorem nvar_guidstore_alloc (sbuf : Bytes) (guids : List Bytes) (i : Nat) (m m' : Meter) (r : Bytes × List Bytes)
    (h : getGuidFromStoreG sbuf guids i m = .ok (r, m')) : m'.alloc ≤ m.alloc + sbuf.length := by
  have := getGuidFromStore_alloc sbuf guids i m
  unfold Post' at this
  rw [h] at this
  exact this.1

/-- **FindFirmwareVolumeOffset** never faults and, when it answers, a whole 44-byte probe fits -/
theorem findFvOffset_total (bs : Bytes) (m : Meter) : Safe (findFvOffsetG bs m) :=
  post_safe (findFvOffset_post bs m)

/-! ### what a parse returns -/

/-- every tree the parser returns is well formed: each volume's buffer has the length of its header field,
    a volume with files has its data offset inside the buffer, every file and section buffer has the
    length of its size field and no file in a volume is empty (so `assemble`'s `log.Fatalf` on a
    zero-length file is unreachable from a parsed tree). -/
theorem parse_wf (d : Decoders) (hd : DecBounded d) (dd : Bool) (z : Nat) (bs : Bytes) (hb : bs.length < 2^63)
    (m m' : Meter) (t : Tree) (h : parseG (hooksOf d dd) z bs m = .ok (t, m')) : TreeWf t := by
  have := parseG_post _ (hooksOf_codec d dd hd) (hooksOf_nvar d dd) z bs m hb
  unfold Post at this
  rw [h] at this
  exact this

/-! ### walk_total (partial: validate and extract; assemble, json, table are covered by T2 only) -/

/-- **validate** does not fault on any tree whatsoever -/
theorem validate_total (t : Tree) (m : Meter) : Safe (validateG t m) := post_safe (validateG_safe t m)

/-- **walk_total_partial**: on every tree the parser accepted, `validate` and `extract` return -/
theorem walk_total_partial (d : Decoders) (hd : DecBounded d) (dd : Bool) (z : Nat) (bs : Bytes)
    (hb : bs.length < 2^63) (m m' : Meter) (t : Tree) (h : parseG (hooksOf d dd) z bs m = .ok (t, m')) (m1 : Meter) :
    Safe (validateG t m1) ∧ Safe (extractG t m1) :=
  ⟨validate_total t m1, post_safe (extractG_safe t (parse_wf d hd dd z bs hb m m' t h) m1)⟩

/-! ### walk_total: assemble (follow-up wp-c05b)

  `assembleG` (TotalAsm.lean) is the Go-semantics model of `(&visitors.Assemble{}).Run(tree)`: every slice /
  index / make of `Assemble.Visit` and of the pkg/uefi functions it calls is a faulting primitive, a nil
  dereference and `log.Fatalf` are faults too.  Buffers are *built* here (`append`, `make`): a result of 2^63
  bytes or more does not fit a Go slice, the model then faults with the one site `hugeSite`.  `SafeA r` says:
  `r` is a value, an ordinary error, or that address-space fault — never any other panic, never
  `log.Fatalf`, never out of fuel.  Encoders are a parameter: any family of total functions. -/

/-- a family of total compressors (`compression.CompressorFromGUID(g).Encode`), `none` = error -/
abbrev Encoders := Guid → Option (Bytes → Option Bytes)

theorem asmHooks_enc (enc : Encoders) (pp : UInt8) : EncOk (AsmHooksG.ofPure enc pp) := by
  intro g f b m hf
  simp only [AsmHooksG.ofPure, Option.map_eq_some_iff] at hf
  obtain ⟨f0, _, hf⟩ := hf
  subst hf
  simp only []
  split
  · exact postA_of_post (post_bind (post_allocG (post_pure trivial)))
  · exact postA_pure trivial

theorem asmHooks_nvar (enc : Encoders) (pp : UInt8) : NvAsmOk (AsmHooksG.ofPure enc pp) :=
  fun nv pol m => nvAsmHookG_post pp nv pol m

/-- **assemble_total**: on every tree the parser returned — from any process state `st`, with any family of
    total encoders, whatever erase polarity `pp` the NVAR stores of RAW files were parsed under — `Assemble`
    returns a value or an ordinary error: never a slice / index panic, never a nil dereference, never
    `log.Fatalf`, never out of fuel (up to `hugeSite`: a buffer of 2^63 bytes).  The assembled tree is
    assemblable again. -/
theorem assemble_total (d : Decoders) (hd : DecBounded d) (dd : Bool) (z : Nat) (bs : Bytes) (hb : bs.length < 2^63)
    (m m' : Meter) (t : Tree) (h : parseG (hooksOf d dd) z bs m = .ok (t, m'))
    (enc : Encoders) (pp : UInt8) (st : St) (m1 : Meter) :
    SafeA (assembleG (AsmHooksG.ofPure enc pp) t st m1) :=
  postA_safe (assembleG_post false _ (asmHooks_enc enc pp) (asmHooks_nvar enc pp) t st m1
    (treeA_of_wf t (parse_wf d hd dd z bs hb m m' t h)))

/-- the same for any tree that satisfies the structural invariant `TreeWf` (what `parse_wf` establishes) -/
theorem assemble_total_wf (t : Tree) (hw : TreeWf t) (enc : Encoders) (pp : UInt8) (st : St) (m1 : Meter) :
    SafeA (assembleG (AsmHooksG.ofPure enc pp) t st m1) :=
  postA_safe (assembleG_post false _ (asmHooks_enc enc pp) (asmHooks_nvar enc pp) t st m1 (treeA_of_wf t hw))

/-- **walk_total** (DESIGN §7-C05): on every tree the parser accepted, `validate`, `extract` and `assemble`
    return (json / table have no slice / index / make at all: inventory theorems of TotalTie.lean) -/
theorem walk_total (d : Decoders) (hd : DecBounded d) (dd : Bool) (z : Nat) (bs : Bytes)
    (hb : bs.length < 2^63) (m m' : Meter) (t : Tree) (h : parseG (hooksOf d dd) z bs m = .ok (t, m'))
    (enc : Encoders) (pp : UInt8) (st : St) (m1 : Meter) :
    Safe (validateG t m1) ∧ Safe (extractG t m1) ∧ SafeA (assembleG (AsmHooksG.ofPure enc pp) t st m1) :=
  ⟨validate_total t m1, post_safe (extractG_safe t (parse_wf d hd dd z bs hb m m' t h) m1),
   assemble_total d hd dd z bs hb m m' t h enc pp st m1⟩

/-! ### the step meter (follow-up wp-c05b): "never loops without consuming input", stated positively

  `parseCost h nc z bs m : Cost` (TotalSteps*.lean) is defined by the same recursion on the fuel as the parser
  models: `steps` = parser calls + iterations of the structural loops (sections of a file / of a decoded
  payload, files of a volume, elements of a BIOS region, `_FVH` probes, NVAR entries, region-table entries),
  `dec` = bytes the decoders returned, `blk` = block-map entries read.  The counting bodies compute the very
  values of the models (`parse_steps_faithful`, proved by erasure), and the counter survives errors: the bounds
  hold on *every* run — a tree, an ordinary error, or a fault.  Not steps: byte-level bulk work inside one step
  (copy, checksum, IsErased, bytes.Index, name terminator search).  Not linear, and therefore kept apart in
  `blk`: the block map of a nested volume is read again by every volume nested in it, Θ(depth·|bs|) like the
  buffer copies of known finding C05-nested-copy (measured: reports/C05.md). -/

/-- **parse_steps_linear**: `uefi.Parse` takes at most `3·(|bs| + decoded) + 17` steps on every run -/
theorem parse_steps_linear (d : Decoders) (hd : DecBounded d) (dd : Bool) (z : Nat) (bs : Bytes) (hb : bs.length < 2^63)
    (m : Meter) :
    (parseCost (hooksOf d dd) nvarHookCost z bs m).steps ≤
      3 * (bs.length + (parseCost (hooksOf d dd) nvarHookCost z bs m).dec) + 17 := by
  have := parseCost_le (hooksOf d dd) nvarHookCost nvarHookCost_bd (hooksOf_codec d dd hd) (hooksOf_nvar d dd) z bs m hb
  omega

/-- the cost function counts the model's own run: erasing the counter from the counting body gives `parseWithG` -/
theorem parse_steps_faithful (d : Decoders) (dd : Bool) (z : Nat) (bs : Bytes) (m : Meter) (k : Cost) :
    (parseWithC (hooksOf d dd) nvarHookCost z bs {} m k).1 = parseWithG (hooksOf d dd) z bs {} m :=
  parseCost_faithful _ _ z bs m k

/-- **NewFirmwareVolume**: at most `2·(|bs| + decoded) + 2` steps -/
theorem parseFv_steps_linear (d : Decoders) (hd : DecBounded d) (dd : Bool) (z : Nat) (bs : Bytes) (hb : bs.length < 2^63)
    (off : Nat) (resizable : Bool) (st : St) (m : Meter) :
    (newFvCost (hooksOf d dd) nvarHookCost z bs off resizable st m).steps ≤
      2 * (bs.length + (newFvCost (hooksOf d dd) nvarHookCost z bs off resizable st m).dec) + 2 := by
  have := newFvCost_le (hooksOf d dd) nvarHookCost nvarHookCost_bd (hooksOf_codec d dd hd) z bs off resizable st m hb
  omega

/-- **NewFile** on a non-empty buffer: at most `2·(|bs| + decoded)` steps -/
theorem parseFile_steps_linear (d : Decoders) (hd : DecBounded d) (dd : Bool) (z : Nat) (bs : Bytes) (hb : bs.length < 2^63)
    (h1 : 1 ≤ bs.length) (st : St) (m : Meter) :
    (newFileCost (hooksOf d dd) nvarHookCost z bs st m).steps ≤
      2 * (bs.length + (newFileCost (hooksOf d dd) nvarHookCost z bs st m).dec) := by
  have := newFileCost_le (hooksOf d dd) nvarHookCost nvarHookCost_bd (hooksOf_codec d dd hd) z bs st m hb h1
  omega

/-- **NewSection** on a non-empty buffer: at most `2·(|bs| + decoded)` steps -/
theorem parseSection_steps_linear (d : Decoders) (hd : DecBounded d) (dd : Bool) (z : Nat) (bs : Bytes)
    (hb : bs.length < 2^63) (h1 : 1 ≤ bs.length) (order : Nat) (st : St) (m : Meter) :
    (newSectionCost (hooksOf d dd) nvarHookCost z bs order st m).steps ≤
      2 * (bs.length + (newSectionCost (hooksOf d dd) nvarHookCost z bs order st m).dec) := by
  have := newSectionCost_le (hooksOf d dd) nvarHookCost nvarHookCost_bd (hooksOf_codec d dd hd) z bs order st m hb h1
  omega

/-- **NewNVarStore**: at most `2·|bs| + 1` steps, for every byte string and polarity — no hypothesis -/
theorem parseNvarStore_steps_linear (pol : UInt8) (bs : Bytes) (m : Meter) :
    (nvarStoreCost pol bs m {}).steps ≤ 2 * bs.length + 1 := by
  have := (nvarStoreCost_le pol bs m {}).1
  simpa using this

/-! ### assemble after the edit operations (follow-up wp-c05b)

  `runEditG` (TotalAsmEdit.lean) is one `utk <image> <ops…>` run: the edit operations of the shared model
  Uefi/Visitors.lean (insert ×6, remove, remove_pad, replace_pe32, the read-only commands), every `save`
  assembled by `assembleG`.  `OpOk op`: an inserted file is a node with a non-empty buffer.
  `EmptyVolsOk t`: the volumes of `t` that hold no file have their data offset inside their buffer. -/

/-- **edits_assemble_total**: from a tree the parser returned whose file-less volumes have `DataOffset ≤
    len(buf)`, every sequence of modelled edit operations and saves — inserted files having non-empty buffers —
    returns a value or an ordinary error at every step: no panic, no `log.Fatalf` (up to `hugeSite`). -/
theorem edits_assemble_total (d : Decoders) (hd : DecBounded d) (dd : Bool) (z : Nat) (bs : Bytes)
    (hb : bs.length < 2^63) (m m' : Meter) (t : Tree) (h : parseG (hooksOf d dd) z bs m = .ok (t, m'))
    (hE : EmptyVolsOk t) (ops : List Op) (hops : ∀ op ∈ ops, OpOk op)
    (enc : Encoders) (pp : UInt8) (st : St) (m1 : Meter) :
    SafeA (runEditG (AsmHooksG.ofPure enc pp) ops { tree := t, st := st } m1) :=
  postA_safe (runEditG_post _ (asmHooks_enc enc pp) (asmHooks_nvar enc pp) ops _ m1
    ⟨treeA_strong t (parse_wf d hd dd z bs hb m m' t h) hE, rfl⟩ hops)

/-! ### allocation of assemble (follow-up wp-c05b): the bound that holds, and the two that do not

  On the model's meter (`make(n)` charges `n`, `append` the appended bytes).  The FirmwareVolume case is where
  lengths read from the image drive allocations; what holds is a bound in the bytes in hand *plus the data
  alignment each file header declares* (≤ 16 MiB) *plus the first block size of the block map* (a `uint32`):
  the known findings C05-alignment-pad and C05-assemble-block-size are exactly the two extra terms — the
  witnesses below show that neither can be replaced by a multiple of the bytes in hand. -/

/-- one file placed by the file loop: at most the file, 7 bytes of padding and 8 × the declared alignment -/
theorem asm_place_alloc (pol : UInt8) (buf : Bytes) (attrs : Nat) (fileBuf : Bytes) (m m' : Meter) (r : Bytes × Nat)
    (hlt : buf.length < 2^63) (h : placeFileG pol buf buf.length attrs fileBuf m = .ok (r, m')) :
    m'.alloc ≤ m.alloc + fileBuf.length + 7 + 8 * (if alignmentOf attrs = 1 then 0 else alignmentOf attrs) := by
  have := placeFileG_alloc pol buf buf.length attrs fileBuf m rfl hlt
  unfold Post' at this
  rw [h] at this
  exact this.2.2

/-- the declared alignment is an entry of `fileAlignments`: a power of two, at most 16 MiB -/
theorem alignment_le_16MiB (attrs : Nat) : alignmentOf attrs ≤ 16777216 := by
  unfold alignmentOf
  have hlt : (((attrs &&& 0x38) >>> 3) ||| ((attrs &&& 0x02) <<< 2)) < fileAlignments.length := by
    have := alignIdx_lt attrs
    have h16 : fileAlignments.length = 16 := by decide
    omega
  rw [List.getD_eq_getElem?_getD, List.getElem?_eq_getElem hlt]
  simp only [Option.getD_some]
  obtain ⟨k, hk, hak⟩ := fileAlignments_shape.2 _ (List.getElem_mem hlt)
  rw [hak]
  have : (2:Nat) ^ k ≤ 2 ^ 24 := Nat.pow_le_pow_right (by omega) (by omega)
  omega

/-- **the FirmwareVolume case** (`relayoutFvG`: file loop, out-of-space check, growth, fill, header patches) on a
    volume buffer shorter than 2^63 whose first block size is a `uint32`: at most
    `Σ_files (|file| + 7 + 8·alignment(file)) + 2·max(Length, Blocks[0].Size)` -/
theorem asm_volume_alloc (i : FvInfo) (buf : Bytes) (files : List File) (st : St) (m m' : Meter)
    (r : FvInfo × Bytes × St) (hb : buf.length < 2^63) (hbs : firstBlockSize i < 2^32)
    (h : relayoutFvG i buf files st m = .ok (r, m')) :
    m'.alloc ≤ m.alloc + placeCost (files.map (fun f => (f.info.attrs, f.buf))) + 2 * max i.length (firstBlockSize i) := by
  have := relayoutFvG_alloc i buf files st m hb hbs
  unfold Post' at this
  rw [h] at this
  exact this

/-! ### NVAR entries and the ME partition table under the walkers (follow-up wp-c05b) -/

/-- **NewNVarStore as a tree of nodes** (`*NVarStore` / `*NVar`, TotalNvarWalk.lean) is total: every byte
    string, every polarity byte — no hypothesis -/
theorem parseNvarTree_total (pol : UInt8) (bs : Bytes) (m : Meter) : Safe (newNvarTreeG pol bs m) :=
  post_safe (newNvarTreeG_post pol bs m)

/-- **validate / extract / assemble over NVAR nodes**: on every store `NewNVarStore` returned (under any
    polarity `pol`), `Validate.Visit` (no case: children only), `Extract.Visit` (`f.Buf()[f.DataOffset:]`) and
    `Assemble.Visit` (NVar: `f.Buf()[f.DataOffset:]`, `NVar.Assemble` with `*v.GUIDIndex`; NVarStore:
    `make(GUIDStoreOffset-FreeSpaceOffset)`) under any polarity `pol'` return a value or an ordinary error -/
theorem nvar_walk_total (pol : UInt8) (bs : Bytes) (m m' : Meter) (t : NvTree)
    (h : newNvarTreeG pol bs m = .ok (some t, m')) (pol' : UInt8) (m1 : Meter) :
    Safe (validateNvTreeG t m1) ∧ Safe (extractNvTreeG t m1) ∧ SafeA (asmNvTreeG pol' t m1) := by
  have hw : NvTreeWf t := by
    have := newNvarTreeG_post pol bs m
    unfold Post at this
    rw [h] at this
    exact this
  exact ⟨post_safe (validateNvTree_safe t m1), post_safe (extractNvTree_safe t hw m1),
    postA_safe (asmNvTree_safe pol' t hw m1)⟩

/-- the walkers have no case for `*uefi.MEFPT` and `MEFPT.ApplyChildren` returns nil (inventory theorems
    `sites_MEFPT_Apply`, `sites_MEFPT_ApplyChildren`, `sites_MERegion_ApplyChildren`, `guards_MERegion_ApplyChildren`
    of TotalAsmTie.lean): visiting the partition table `NewMEFPT` returned touches no buffer -/
theorem mefpt_walk_total (bs : Bytes) (m m' : Meter) (f : MeFpt) (_ : newMeFptG bs m = .ok (f, m')) (m1 : Meter) :
    Safe (validateMeFptG f m1) ∧ Safe (extractMeFptG f m1) ∧ Safe (asmMeFptG f m1) :=
  ⟨safe_pure _ _, safe_pure _ _, safe_pure _ _⟩

/-! ### non-vacuity -/

/-- a family of total decoders satisfying `DecBounded`: a "stored" codec for the LZMA GUID that returns
    (at most 64 KiB of) its input -/
def storedDecoders : Decoders := fun g =>
  if g = codecLZMA then some ("LZMA", 0, fun b => some (b.take 65536)) else none

example : DecBounded storedDecoders := by
  intro g n s dec b out hg hdec
  unfold storedDecoders at hg
  split at hg
  · cases hg
    cases hdec
    have : (List.take 65536 b).length ≤ 65536 := List.length_take_le _ _
    omega
  · cases hg

/-- a GUID-defined section (LZMA GUID, processing required) whose stored payload is one RAW section:
    the model decodes it and returns a section with one encapsulated child -/
def sampleSection : Bytes :=
  [0x20, 0, 0, 0x02] ++ codecLZMA ++ [24, 0, 1, 0] ++ [8, 0, 0, 0x19, 1, 2, 3, 4]

def faultIsErr {α} : Except Fault α → Bool
  | .error .err => true
  | _ => false

example : (match newSectionG (hooksOf storedDecoders false) 1 sampleSection 0 {} {} with
    | .ok ((s, _), m) => decide (s.encap.length = 1 ∧ m.decompressed = 8)
    | .error _ => false) = true := by decide

/-- the hostile inputs of DESIGN §8 are *errors* of the repaired model, not faults:
    GUID-defined section with `DataOffset = 0xFFFF` (row 4) -/
example : faultIsErr (newSectionG (hooksOf storedDecoders false) 1
    ([0x20, 0, 0, 0x02] ++ codecLZMA ++ [0xFF, 0xFF, 1, 0] ++ [8, 0, 0, 0x19, 1, 2, 3, 4]) 0 {} {}) = true := by
  decide

/-- NVAR entry with `Size = 5` (row 1) and `Size = 0` (row 2): `NewNVarStore` returns an error -/
example : (match newNvarStoreG 0xFF [0x4E, 0x56, 0x41, 0x52, 5, 0, 0xFF, 0xFF, 0xFF, 0x82, 0, 0] {} with
    | .ok (none, _) => true | _ => false) = true := by decide
example : (match newNvarStoreG 0xFF [0x4E, 0x56, 0x41, 0x52, 0, 0, 0xFF, 0xFF, 0xFF, 0x82, 0, 0] {} with
    | .ok (none, _) => true | _ => false) = true := by decide

/-! ### follow-up wp-c05b: assemble — non-vacuity, and the witnesses for the hypotheses of `edits_assemble_total`

  (`decide +kernel`: the kernel evaluates the models on 128-byte volumes; axioms propext, Quot.sound only) -/

open Fiano.Uefi.Total.Samples in
/-- `assembleG` on the parsed 128-byte volume returns a tree whose root buffer has 128 bytes again -/
example : (match parseWithG (hooksOf storedDecoders false) 1 vol128 {} {} with
    | .ok ((t, st), _) =>
      (match assembleG (AsmHooksG.ofPure (fun _ => none) 0xFF) t st {} with
       | .ok ((t', _), _) => decide (t'.buf.length = 128)
       | .error _ => false)
    | .error _ => false) = true := by decide +kernel

def isFatal {α} : Except Fault α → Bool
  | .error (.panic s) => s.startsWith "log.Fatalf"
  | _ => false

def isPanicAt {α} (site : String) : Except Fault α → Bool
  | .error (.panic s) => s == site
  | _ => false

def isOrdinaryErr {α} : Except Fault α → Bool
  | .error .err => true
  | _ => false

/-- any volume -/
def anyFv : Pred := { fv := fun _ => true }

open Fiano.Uefi.Total.Samples in
/-- what `OpOk` excludes: a 24-byte blob whose size field is 0 parses (`NewFile`) to a file with an **empty buffer**;
    inserted in front of `vol128`'s file, the next `Assemble` used to end in `log.Fatalf` on the real code
    (`utk vol insert_front <sel> blob save` exited); since fixes/C05-assemble-empty-file it is an ordinary error -/
example : (match parseWithG (hooksOf storedDecoders false) 1 vol128 {} {},
                 newFileG (hooksOf storedDecoders false) 1 (fileA.take 20 ++ [0, 0, 0, 0xF8]) {} {} with
    | .ok ((t, st), _), .ok ((some nf, _), _) =>
      (match insertOp anyFv .front nf t with
       | .ok t' => nf.buf.length == 0 && isOrdinaryErr (assembleG (AsmHooksG.ofPure (fun _ => none) 0xFF) t' st {})
       | .error _ => false)
    | _, _ => false) = true := by decide +kernel

open Fiano.Uefi.Total.Samples in
/-- what `EmptyVolsOk` excludes: `vol128NoFiles` parses (no file, `HeaderLen = 0xFFF8`, so `DataOffset` is beyond
    the 128-byte buffer) and assembles; after `fileA` is inserted into it, `Assemble` used to slice
    `fBuf[:f.DataOffset]` (real code: `slice bounds out of range [:65528] with capacity 4096`); since
    fixes/C05-assemble-dataoffset it is an ordinary error -/
example : (match parseWithG (hooksOf storedDecoders false) 1 vol128NoFiles {} {},
                 newFileG (hooksOf storedDecoders false) 1 fileA {} {} with
    | .ok ((t, st), _), .ok ((some nf, _), _) =>
      (match assembleG (AsmHooksG.ofPure (fun _ => none) 0xFF) t st {}, insertOp anyFv .front nf t with
       | .ok _, .ok t' =>
         isOrdinaryErr (assembleG (AsmHooksG.ofPure (fun _ => none) 0xFF) t' st {})
       | _, _ => false)
    | _, _ => false) = true := by decide +kernel

open Fiano.Uefi.Total.Samples in
/-- … and with the hypotheses an insertion is harmless: a second `fileA` in front of `vol128`'s file does not
    fit the 56 bytes of file space — `Assemble` answers with the ordinary error "out of space"; removing the
    file instead assembles to 128 bytes -/
example : (match parseWithG (hooksOf storedDecoders false) 1 vol128 {} {},
                 newFileG (hooksOf storedDecoders false) 1 fileA {} {} with
    | .ok ((t, st), _), .ok ((some nf, _), _) =>
      (match insertOp anyFv .front nf t, removeOp { file := fun _ => true } false st.pol t with
       | .ok t', .ok t'' =>
         faultIsErr (assembleG (AsmHooksG.ofPure (fun _ => none) 0xFF) t' st {}) &&
         (match assembleG (AsmHooksG.ofPure (fun _ => none) 0xFF) t'' st {} with
          | .ok ((t3, _), _) => decide (t3.buf.length = 128)
          | .error _ => false)
       | _, _ => false)
    | _, _ => false) = true := by decide +kernel

/-! ### follow-up wp-c05b: witnesses for the two allocation findings of assemble -/

def allocOf {α} : Except Fault (α × Meter) → Nat
  | .ok (_, m) => m.alloc
  | .error _ => 0

open Fiano.Uefi.Total.Samples in
/-- **witness for C05-alignment-pad**: placing the 32-byte `fileA` behind the 72-byte header of `vol128` costs 32
    bytes — and 11 984 bytes (115 × the 104 bytes in hand) when its attribute byte asks for a 4 KiB data
    alignment; the same volume, parsed, then makes `Assemble` answer "out of space" — after the pad file was built -/
example : allocOf (placeFileG 0xFF (vol128.take 72) 72 0x00 fileA {}) = 32 ∧
    allocOf (placeFileG 0xFF (vol128.take 72) 72 0x28 fileA {}) = 11984 ∧
    (match parseWithG (hooksOf storedDecoders false) 1 vol128Align4K {} {} with
     | .ok ((t, st), _) => isOrdinaryErr (assembleG (AsmHooksG.ofPure (fun _ => none) 0xFF) t st {})
     | .error _ => false) = true := by decide +kernel

/-- a resizable (nested) 128-byte volume whose re-laid files take 136 bytes, with first block size `bs` -/
def grownVolume (bs : Nat) : FvInfo :=
  { fsGuid := guidFFS2, length := 128, signature := 0x4856465F, attrs := 0x0004FEFF, headerLen := 72, checksum := 0,
    extHeaderOffset := 0, reserved := 0, revision := 2, blocks := [⟨1, bs⟩], fvName := guidZero, extHeaderSize := 0,
    dataOffset := 72, fvOffset := 0, resizable := true, freeSpace := 0 }

/-- **witness for C05-assemble-block-size**: the same 136 bytes, the same 128-byte volume — the allocation is twice
    the distance to the next multiple of the block size the block map claims: 112 bytes for 64-byte blocks,
    7 920 bytes for 4 KiB blocks -/
example : allocOf (finishFvG (grownVolume 64) (List.replicate 136 0) {} {}) = 112 ∧
    allocOf (finishFvG (grownVolume 4096) (List.replicate 136 0) {} {}) = 7920 := by decide +kernel

/-- the step meter on the 128-byte volume: 5 steps (element loop ×2, volume, file loop ×2 … ), 2 block-map reads -/
example : (let c := parseCost (hooksOf storedDecoders false) nvarHookCost 1 Fiano.Uefi.Total.Samples.vol128 {}
    decide (0 < c.steps ∧ c.steps ≤ 3 * 128 + 17 ∧ c.blk = 2 ∧ c.dec = 0)) = true := by decide +kernel

/-- an NVAR store with one valid entry (ASCII name "N", GUID index 0) and an erased tail: it parses to a tree
    of nodes, and `Assemble` over it rebuilds a buffer of the same 48 bytes -/
def sampleNvar : Bytes :=
  [0x4E, 0x56, 0x41, 0x52, 14, 0, 0xFF, 0xFF, 0xFF, 0x82, 0, 0x4E, 0, 7] ++ List.replicate 34 0xFF

example : (match newNvarTreeG 0xFF sampleNvar {} with
    | .ok (some t, _) =>
      (match asmNvTreeG 0xFF t {} with
       | .ok (t', _) => t.nodes.length == 1 && decide (t'.s.buf.length = 48)
       | .error _ => false)
    | _ => false) = true := by decide +kernel

end Fiano.Props.C05
