/-
  C06 — Compressed and nested content survives a save, and saving is a fixed point.
  Property theorems only; definitions and lemmas live in FianoModel/Uefi/Nested*.lean:

    NestedCodec   the codec hook per GUID (LZMA, LZMAX86 = x86 filter ∘ LZMA, ZLIB framing) over cores
    NestedLaws    the laws a compressor needs here (lossless *in front of a tail*), which instances have them
    NestedSpec    the reference grammar extended with compressed sections: CSec / CFile / CFv, `ser`,
                  `tree*`, `wf*` (WF), `HooksOK`
    NestedNorm    `normFv`: what a save turns a volume into; `okFv`: the rebuild goes through;
                  `canonFv`: what a save has written
    NestedDec     `decTree` / `decFv`: the fully decoded tree
    NestedWf      `sideFv`: the side conditions on a saved volume; `wf_norm`: under the codec laws a
                  saved volume is inside the grammar again
    NestedParse / NestedAsm / NestedDecLemmas / NestedCanon / NestedTop / NestedGrowth   the proofs
    NestedImgSpec the image grammar around the volumes (follow-up wp-c06c): BIOS region, flash image with
                  descriptor; `serImg`, `treeImg`, `WFI`, `normImg`, `okImg`, `saveImg`, `decImg`
    NestedImgBios / NestedImgFlash / NestedImgTop / NestedImgScan / NestedImgWf   the outer layers of C01
                  (volume scan, region table, tiling, descriptor) for any hooks; `wf_norm_img`

  The model is the shared UEFI core (Uefi/Parse.lean, Uefi/Assemble.lean) — the codec was already a
  parameter there (`Hooks.codec`); nothing of it is re-defined.  Every theorem is for *all* hooks that
  satisfy the stated hypotheses (any codec table, lawful or not — what decoding must deliver is part of
  `WF`), every nesting depth, every size below the 16 MiB switch to long headers (the grammar of
  NestedSpec.lean — the suffix `_small` of the theorem names), erase polarity 1.  The theorems with
  `_volume` in their names speak about one firmware volume (top-level: `rz = false`, or nested:
  `rz = true`): `uefi.NewFirmwareVolume` and the FirmwareVolume case of `Assemble`; the ones without
  it (`c06a_small`, `c06b_small`, … — section "whole images") about `uefi.Parse` / `Save` on a whole
  image: a BIOS region or a flash image with descriptor.
-/
import FianoModel.Uefi.NestedGrowth
import FianoModel.Uefi.NestedWf
import FianoModel.Uefi.NestedImgWf
import FianoModel.Uefi.NestedTie
import FianoModel.Uefi.Tie
import FianoModel.Uefi.EditTie
import FianoModel.Props.C08

namespace Fiano.Uefi.Nested
open Fiano Fiano.Uefi Fiano.Uefi.Spec

/-! ## C06.0 the compressors, as `compression.CompressorFromGUID` builds them -/

/-- LZMAX86 over any tail-tolerant lossless LZMA codec decodes what it encodes, whatever follows
    the stream (x86 filter inverse of C08 + the LZMA decoder stopping at the announced size) -/
theorem c06_lzmax86_law (lz : Compress.Codec) (h : lz.TailLawful) :
    CodecLaw (ofCodec "LZMAX86" (Compress.lzmax86 lz)) (fun _ => True) :=
  ofCodec_tail _ _ (Compress.lzmax86_tailLawful lz h)

/-- the observation of DESIGN §7-C06: a ZLIB section followed by anything at all is refused by
    `ZLIB.Decode`, whatever the zlib core does — the section stays opaque -/
theorem c06_zlib_refuses_tail (core : Compress.Codec) (z tail : Bytes) (ht : tail ≠ [])
    (hl : z.length + tail.length < 2 ^ 32) :
    Compress.zlibDecode core (Compress.zlibHeader z.length ++ z ++ tail) = none :=
  zlib_refuses_tail core z tail ht hl

/-- non-vacuity of the laws: the stored cores inside the real framing satisfy them -/
theorem c06_stored_laws :
    CodecLaw (ofCodec "LZMA" Cores.stored.lzma) (fun _ => True) ∧
    CodecLaw (ofCodec "LZMAX86" (Compress.lzmax86 Cores.stored.lzma)) (fun _ => True) ∧
    CodecLaw (ofCodec "ZLIB" (Compress.zlib Cores.stored.zlib)) (fun t => t = []) :=
  ⟨ofCodec_tail _ _ sized13_tailLawful, c06_lzmax86_law _ sized13_tailLawful,
   ofCodec_last _ _ (Compress.c08_zlib_frame_roundtrip _ Compress.stored_lawful)⟩

/-- **where the codec law enters**: the payload a save writes (`Encode` of the joined children,
    canonical 24-byte header) decodes back to those children in front of every tail the law admits —
    this is the decoding clause of `WF` for the re-encoded section.  For the LZMA family every tail is
    admitted; for ZLIB only the empty one: the section must end its file / payload. -/
theorem c06_reencoded_decodes (c : Codec) (ok : Bytes → Prop) (hl : CodecLaw c ok) (g : Guid) (attrs : Nat)
    (data p tail : Bytes) (hg : g.length = 16) (he : c.encode data = some p) (ht : ok tail) :
    c.decode (decoderInput false g 24 attrs p tail) = some data := by
  rw [decoderInput_canon g attrs p tail hg]
  exact hl data p tail he ht

/-! ## C06.1 parse ∘ ser = tree, asm ∘ tree = ser ∘ norm -/

/-- `uefi.NewFirmwareVolume` on a serialised volume of the extended grammar returns exactly the tree
    the grammar prescribes — decoded children included, at every depth -/
theorem c06_parse_volume_small (h : Hooks) (hk : HooksOK h) (v : CFv) (hw : WF h v) (fuel : Nat) (rest : Bytes)
    (off : Nat) (rz : Bool) (st : St) (hf : costFv v ≤ fuel) (hp : st.pol = 0xFF ∨ st.pol = 0xF0) :
    parseFv h fuel (ser v ++ rest) off rz st = .ok (treeFv v off rz, { st with pol := 0xFF }) :=
  parse_fv hk v hw fuel rest off rz st hf hp

/-- `visitors.Assemble` on that tree writes the normal form `normFv h v`: children re-joined and
    re-encoded, headers regenerated, files re-laid (pad files synthesised), nested volumes grown to
    whole blocks — whenever the rebuild goes through (`okFv`: no encoder error, room in non-resizable
    volumes, everything below 16 MiB) -/
theorem c06_asm_volume_small (h : Hooks) (hk : HooksOK h) (v : CFv) (hw : WF h v) (rz : Bool) (hok : okFv h rz v = true)
    (off : Nat) (st : St) (hp : st.pol = 0xFF) (hf : st.ffs3 = false) :
    ∃ v' st', asmFv h (treeFv v off rz) st = .ok (v', st') ∧ v'.buf = ser (normFv h v) ∧
      st'.pol = 0xFF ∧ st'.ffs3 = false := by
  obtain ⟨v', st', h1, h2, _, h3, h4⟩ := asm_fv hk v hw rz hok off st hp hf
  exact ⟨v', st', h1, h2, h3, h4⟩

/-- **parse_asm** (DESIGN §7-C06): re-parsing what Assemble wrote yields a tree whose decoded tree is
    the decoded tree of the tree that was assembled -/
theorem c06_parse_asm_volume_small (h : Hooks) (hk : HooksOK h) (v : CFv) (hw : WF h v) (rz : Bool)
    (hok : okFv h rz v = true) (hw' : WF h (normFv h v)) (fuel : Nat) (hf : costFv (normFv h v) ≤ fuel) :
    ∃ v' st', asmFv h (treeFv v 0 rz) { pol := 0xFF, ffs3 := false } = .ok (v', st') ∧
      ∃ t' st'', parseFv h fuel v'.buf 0 rz {} = .ok (t', st'') ∧ decFv t' = decFv (treeFv v 0 rz) := by
  obtain ⟨v', st', h1, h2, _, _, _⟩ := asm_fv hk v hw rz hok 0 { pol := 0xFF, ffs3 := false } rfl rfl
  refine ⟨v', st', h1, treeFv (normFv h v) 0 rz, { pol := 0xFF, ffs3 := false }, ?_, dec_fv v hw 0 rz 0 rz⟩
  rw [h2]
  exact parse_ser_vol hk (normFv h v) hw' fuel hf rz

/-! ## C06a / C06b -/

/-- **C06a**: the decoded tree of `Parse(Save(Parse(x)))` is the decoded tree of `Parse(x)` — same
    nested volumes, files, sections, bytes — for every volume `x = ser v` of the extended grammar -/
theorem c06a_volume_small (h : Hooks) (hk : HooksOK h) (v : CFv) (hw : WF h v) (rz : Bool) (hok : okFv h rz v = true)
    (hw' : WF h (normFv h v)) (fuel : Nat) (hf : costFv v ≤ fuel) (hf' : costFv (normFv h v) ≤ fuel) :
    ∃ y d, saveVol h fuel rz (ser v) = .ok y ∧ decVol h fuel rz y = .ok d ∧ decVol h fuel rz (ser v) = .ok d := by
  refine ⟨ser (normFv h v), decFv (treeFv v 0 rz), saveVol_ser hk v hw rz hok fuel hf, ?_,
    decVol_ser hk v hw rz fuel hf⟩
  rw [decVol_ser hk (normFv h v) hw' rz fuel hf', dec_fv v hw 0 rz 0 rz]

/-- **C06b**: saving is a fixed point — `Save(Parse(Save(Parse(x)))) = Save(Parse(x))`, byte for byte -/
theorem c06b_volume_small (h : Hooks) (hk : HooksOK h) (v : CFv) (hw : WF h v) (rz : Bool) (hok : okFv h rz v = true)
    (hw' : WF h (normFv h v)) (fuel : Nat) (hf : costFv v ≤ fuel) (hf' : costFv (normFv h v) ≤ fuel) :
    ∃ y, saveVol h fuel rz (ser v) = .ok y ∧ saveVol h fuel rz y = .ok y := by
  have hc := canon_fv v rz hok
  refine ⟨ser (normFv h v), saveVol_ser hk v hw rz hok fuel hf, ?_⟩
  have := saveVol_ser hk (normFv h v) hw' rz (ok_fv (normFv h v) hw' hc rz) fuel hf'
  rw [norm_fv (normFv h v) hw' hc] at this
  exact this

/-- the C01 statement with compressed content: a canonical volume (every compressed payload is what
    the encoder emits for its children — in particular every volume the tool has saved) is reproduced
    byte for byte, and always rebuildable -/
theorem c06_save_identity_canon_volume_small (h : Hooks) (hk : HooksOK h) (v : CFv) (hw : WF h v)
    (hc : canonFv h v = true) (rz : Bool) (fuel : Nat) (hf : costFv v ≤ fuel) :
    saveVol h fuel rz (ser v) = .ok (ser v) := by
  have := saveVol_ser hk v hw rz (ok_fv v hw hc rz) fuel hf
  rw [norm_fv v hw hc] at this
  exact this

/-- what a save writes is canonical -/
theorem c06_saved_is_canon (h : Hooks) (v : CFv) (rz : Bool) (hok : okFv h rz v = true) :
    canonFv h (normFv h v) = true :=
  canon_fv v rz hok

/-! ## C06a / C06b from the codec laws

  Above, that the saved volume can be read again is the hypothesis `WF h (normFv h v)`.  Below it is
  *derived* from the decode-after-encode law of the codecs (`LawsOK h ok`: `Decode(Encode x ++ tail) = x`
  for every tail `ok g` admits) and the side conditions `sideFv h ok (normFv h v)` — a decidable
  predicate that mentions only what neither the input nor the laws determine: sections that were not
  decodable are still not decodable where they now stand; every re-encoded section is followed by a
  tail its codec tolerates.  (Since follow-up wp-c06c nothing else: the grammar follows the repaired
  reader, /repo 8039e86 / cce350a, so a saved volume may end in an erased tail of 24..31 bytes or in
  a bare 24-byte file header; that the length of a saved volume is a multiple of 8 below 2^62 follows
  from the input when the volume keeps its length, and is part of `okFv` — asked of the grown length —
  when a nested volume grows: `c06_growth_side_pow2` shows it holds for power-of-two block sizes ≥ 8.)
  Everything else — the re-encoded payloads decode to the normalised children, every file (and every
  synthesised pad file) sits where the placement rule puts it and inside the volume, sizes, block maps
  and header fields are in range — is proved. -/

/-- **what a save writes is inside the grammar again** -/
theorem c06_saved_volume_wellformed_small (h : Hooks) (ok : Guid → Bytes → Bool) (hlaw : LawsOK h ok) (v : CFv)
    (rz : Bool) (hw : WF h v) (hok : okFv h rz v = true) (hs : sideFv h ok (normFv h v) = true) :
    WF h (normFv h v) :=
  wf_norm hlaw v rz hw hok hs

/-- the compressors of pkg/compression obey the laws as soon as the third-party cores do: LZMA and
    LZMAX86 in front of any tail, ZLIB in front of none -/
theorem c06_laws_of_cores (k : Cores) (hl : k.lzma.TailLawful) (hz : k.zlib.Lawful) :
    LawsOK (hooksOf k) okTails :=
  lawsOK_hooksOf k hl (Compress.c08_zlib_frame_roundtrip _ hz)

/-- **C06a from the codec laws** -/
theorem c06a_volume_small_laws (h : Hooks) (ok : Guid → Bytes → Bool) (hk : HooksOK h) (hlaw : LawsOK h ok)
    (v : CFv) (hw : WF h v) (rz : Bool) (hok : okFv h rz v = true) (hs : sideFv h ok (normFv h v) = true)
    (fuel : Nat) (hf : costFv v ≤ fuel) (hf' : costFv (normFv h v) ≤ fuel) :
    ∃ y d, saveVol h fuel rz (ser v) = .ok y ∧ decVol h fuel rz y = .ok d ∧ decVol h fuel rz (ser v) = .ok d :=
  c06a_volume_small h hk v hw rz hok (wf_norm hlaw v rz hw hok hs) fuel hf hf'

/-- **C06b from the codec laws** -/
theorem c06b_volume_small_laws (h : Hooks) (ok : Guid → Bytes → Bool) (hk : HooksOK h) (hlaw : LawsOK h ok)
    (v : CFv) (hw : WF h v) (rz : Bool) (hok : okFv h rz v = true) (hs : sideFv h ok (normFv h v) = true)
    (fuel : Nat) (hf : costFv v ≤ fuel) (hf' : costFv (normFv h v) ≤ fuel) :
    ∃ y, saveVol h fuel rz (ser v) = .ok y ∧ saveVol h fuel rz y = .ok y :=
  c06b_volume_small h hk v hw rz hok (wf_norm hlaw v rz hw hok hs) fuel hf hf'

/-! ## nested growth, FFSv3 switch -/

/-- **nested_growth**: when the re-laid files of a nested volume (first block size `2^k`) end at
    `e` bytes beyond its length `l`, the saved volume has length `L' = ⌈e / 2^k⌉·2^k` — a whole number
    of blocks, `l < L'`, less than one block beyond the files — its first block-map entry counts
    `L' / 2^k` blocks, and (`c06_asm_volume_small`) the bytes written are `ser (normFv h v)`: a
    serialisation of the reference grammar, whose volume header (length, block count, checksum), file
    headers (sizes, header and body checksums) and section headers are the ones the size functions of
    Spec.lean prescribe for the new content, at every enclosing level. -/
theorem c06_nested_growth (l e k cnt : Nat) (bs : List Block) (hk : k ≤ 63) (he : e + 2 ^ k ≤ 2 ^ 64) (hlt : l < e) :
    let r := finishLen l e (⟨cnt, 2 ^ k⟩ :: bs)
    r.1 % 2 ^ k = 0 ∧ l < r.1 ∧ e ≤ r.1 ∧ r.1 < e + 2 ^ k ∧
      r.2 = ⟨(r.1 / 2 ^ k) % 4294967296, 2 ^ k⟩ :: bs ∧ r.1 / 2 ^ k * 2 ^ k = r.1 := by
  intro r
  have hg := grow_pow2 e k hk he
  have hr : r = (alignGo e (2 ^ k), setCount ⟨cnt, 2 ^ k⟩ ((alignGo e (2 ^ k) / 2 ^ k) % 4294967296) :: bs) :=
    finishLen_grow l e ⟨cnt, 2 ^ k⟩ bs hlt
  rw [hr]
  exact ⟨hg.1, by omega, hg.2.1, hg.2.2.1, rfl, hg.2.2.2⟩

/-- the two conditions `okFv` puts on the grown length of a nested volume (a multiple of 8, below
    2^62) hold whenever the first block size is a power of two ≥ 8 and one more block fits below 2^62 -/
theorem c06_growth_side_pow2 (e k : Nat) (hk3 : 3 ≤ k) (hk : k ≤ 63) (he : e + 2 ^ k ≤ 2 ^ 62) :
    alignGo e (2 ^ k) % 8 = 0 ∧ alignGo e (2 ^ k) < 0x4000000000000000 := by
  have hg := grow_pow2 e k hk (by omega)
  refine ⟨?_, by omega⟩
  have hd : 8 ∣ 2 ^ k := by
    have : (2 : Nat) ^ k = 2 ^ 3 * 2 ^ (k - 3) := by rw [← Nat.pow_add]; congr 1; omega
    exact ⟨2 ^ (k - 3), by rw [this]⟩
  have := Nat.mod_mod_of_dvd (alignGo e (2 ^ k)) hd
  rw [hg.1] at this
  simpa using this.symm

/-- a volume whose files still fit keeps its length and its block map -/
theorem c06_no_growth (l e : Nat) (blocks : List Block) (hle : e ≤ l) : finishLen l e blocks = (l, blocks) :=
  finishLen_keep l e blocks hle

/-- **ffs3_switch**, as the model (and the code, see its TODO) does it: the volume that is finished
    next consumes the visitor's `useFFS3` flag — its file-system GUID becomes FFSv3 iff the flag is set
    and the GUID was FFSv2 — and resets it, so that a volume further out switches only if one of its
    own files or sections exceeds 16 MiB again.  (That the PI specification would want every enclosing
    volume to switch is *not* claimed.) -/
theorem c06_ffs3_switch (i : FvInfo) (fbuf : Bytes) (st : St) (i' : FvInfo) (out : Bytes) (st' : St)
    (hfin : finishFv i fbuf st = .ok (i', out, st')) :
    st'.ffs3 = false ∧
      i'.fsGuid = (if (st.ffs3 && i.fsGuid == guidFFS2) = true then guidFFS3 else i.fsGuid) :=
  ⟨(finishFv_flag i fbuf st i' out st' hfin).1, (finishFv_flag i fbuf st i' out st' hfin).2.2⟩

/-- **the switch is stable** (flag level; what the FFSv3 switch does to C06b): once a save has
    switched a volume from FFSv2 to FFSv3, every later save of it — whatever the visitor's flag says
    then — leaves the file-system GUID at FFSv3 and resets the flag: the second save of
    `Save(Parse(Save(Parse x)))` cannot flip the GUID of a volume that holds a file or section of
    16 MiB or more.  (No byte-level statement: the grammar of the round trip is below 16 MiB.) -/
theorem c06_ffs3_switch_stable (i : FvInfo) (fbuf : Bytes) (st : St) (i' : FvInfo) (out : Bytes) (st' : St)
    (hfin : finishFv i fbuf st = .ok (i', out, st')) (hsw : st.ffs3 = true) (hg : i.fsGuid = guidFFS2) :
    i'.fsGuid = guidFFS3 ∧ st'.ffs3 = false ∧
      ∀ (fbuf2 : Bytes) (st2 : St) (i2 : FvInfo) (out2 : Bytes) (st2' : St),
        finishFv i' fbuf2 st2 = .ok (i2, out2, st2') → i2.fsGuid = guidFFS3 ∧ st2'.ffs3 = false := by
  have h1 := c06_ffs3_switch i fbuf st i' out st' hfin
  have e1 : i'.fsGuid = guidFFS3 := by
    rw [h1.2, hsw, hg]
    simp
  refine ⟨e1, h1.1, ?_⟩
  intro fbuf2 st2 i2 out2 st2' h2
  have h3 := c06_ffs3_switch i' fbuf2 st2 i2 out2 st2' h2
  refine ⟨?_, h3.1⟩
  rw [h3.2, e1]
  have hne : (guidFFS3 == guidFFS2) = false := by decide
  simp [hne]

/-- the flag is raised by exactly the rebuilt files and sections above 16 MiB -/
theorem c06_ffs3_raised (n : Nat) (st : St) :
    (noteLarge n st).ffs3 = (st.ffs3 || decide (n > 0xFFFFFF)) ∧ (noteLarge n st).pol = st.pol := by
  unfold noteLarge
  split
  · simp_all
  · rename_i hc
    refine ⟨?_, rfl⟩
    have : decide (n > 0xFFFFFF) = false := by simp only [decide_eq_false_iff_not]; omega
    rw [this, Bool.or_false]

/-! ## non-vacuity: a concrete volume that satisfies every hypothesis above

  An FFSv2 volume holding a volume-image file whose first section is an LZMA section (stored core in
  the real 13-byte framing, written with the 8-byte extended header and three bytes of junk behind
  the stream: *not* canonical) that decodes to a UI section and a nested volume with one RAW file,
  followed by a RAW section (the decoder is handed that tail).  All by kernel evaluation. -/

def sampleHooks : Hooks := hooksOf Cores.stored

def sampleInner : CFv :=
  .ffs (List.replicate 16 0) false 0x0004FEFF 2 0 [⟨18, 8⟩] none
    [.leaf (.leaf [1,2,3,4,5,6,7,8,9,10,11,12,13,14,15,16] 0 0xAA 1 0 0xF8 false (List.replicate 16 0x5A))] 32

def sampleKids : List CSec := [.plain (.ui [65, 66]), .fvimg sampleInner]

def samplePayload : Bytes :=
  Compress.lzmaHeader (serSecs 0 (flatSecs sampleKids)).length ++ serSecs 0 (flatSecs sampleKids) ++ [0xEE, 0xEE, 0xEE]

def sampleVolume : CFv :=
  .ffs (List.replicate 16 0) false 0x0004FEFF 2 0 [⟨47, 8⟩] none
    [.sect [0x21,2,3,4,5,6,7,8,9,10,11,12,13,14,15,16] 0x0B 0x40 0xF8
      [.comp true guidLZMA 28 1 "LZMA" samplePayload sampleKids, .plain (.leaf 0x19 false [1, 2, 3])]] 69

theorem c06_sample_hooks_ok : HooksOK sampleHooks := by
  refine ⟨rfl, ?_⟩
  intro g hg
  simp only [sampleHooks, hooksOf, codecOf]
  have h1 : g ≠ guidLZMA := by intro hc; rw [hc] at hg; revert hg; decide
  have h2 : g ≠ guidLZMAX86 := by intro hc; rw [hc] at hg; revert hg; decide
  have h3 : g ≠ guidZLIB := by intro hc; rw [hc] at hg; revert hg; decide
  have h4 : g ≠ guidBROTLI := by intro hc; rw [hc] at hg; revert hg; decide
  simp [h1, h2, h3, h4]

set_option maxRecDepth 100000 in
theorem c06_sample_hypotheses :
    WF sampleHooks sampleVolume ∧ okFv sampleHooks false sampleVolume = true ∧
      WF sampleHooks (normFv sampleHooks sampleVolume) ∧ canonFv sampleHooks sampleVolume = false ∧
      costFv sampleVolume ≤ 64 ∧ costFv (normFv sampleHooks sampleVolume) ≤ 64 ∧
      ser (normFv sampleHooks sampleVolume) ≠ ser sampleVolume := by
  unfold WF
  decide

set_option maxRecDepth 100000 in
/-- the side conditions hold of the saved sample -/
theorem c06_sample_side : sideFv sampleHooks okTails (normFv sampleHooks sampleVolume) = true := by
  decide

/-- C06b from the laws, applied to the sample (stored cores inside the real framing) -/
example : ∃ y, saveVol sampleHooks 64 false (ser sampleVolume) = .ok y ∧ saveVol sampleHooks 64 false y = .ok y := by
  obtain ⟨hw, hok, _, _, hf, hf', _⟩ := c06_sample_hypotheses
  exact c06b_volume_small_laws sampleHooks okTails c06_sample_hooks_ok
    (c06_laws_of_cores Cores.stored sized13_tailLawful Compress.stored_lawful) sampleVolume hw false hok
    c06_sample_side 64 hf hf'

/-- the theorems applied to the sample: one save rewrites it (other bytes), the decoded tree is kept,
    the second save is identical -/
example : ∃ y, saveVol sampleHooks 64 false (ser sampleVolume) = .ok y ∧ saveVol sampleHooks 64 false y = .ok y ∧
    y ≠ ser sampleVolume := by
  obtain ⟨hw, hok, hw', _, hf, hf', hne⟩ := c06_sample_hypotheses
  obtain ⟨y, h1, h2⟩ := c06b_volume_small sampleHooks c06_sample_hooks_ok sampleVolume hw false hok hw' 64 hf hf'
  have hy : y = ser (normFv sampleHooks sampleVolume) := by
    have := saveVol_ser c06_sample_hooks_ok sampleVolume hw false hok 64 hf
    rw [h1] at this
    exact (Except.ok.inj this)
  exact ⟨y, h1, h2, by rw [hy]; exact hne⟩

/-! ### the boundaries the grammar gained with the repaired reader (follow-up wp-c06c)

  Since /repo 8039e86 / cce350a the reader takes an erased tail of 24..31 bytes for free space and
  finds a file header that starts exactly at Length-24; `NestedSpec.wfFv` has no clause on what follows
  the last file any more and `wfFiles` lets a header end exactly at the length; the extended header of
  a volume may end exactly at Length (/repo eaa94dc).  Volumes at these boundaries satisfy every
  hypothesis of the theorems above (T2: corpus cases barehdr-last-*, tail24-input-*, exthdr-flush-nested). -/

/-- last file = a bare 24-byte header flush with the end of the volume (no free space) -/
def bareHdrVolume : CFv :=
  .ffs (List.replicate 16 0) false 0x0004FEFF 2 0 [⟨17, 8⟩] none
    [.leaf (.leaf [1,2,3,4,5,6,7,8,9,10,11,12,13,14,15,16] 0 0xAA 1 0 0xF8 false (List.replicate 16 0x5A)),
     .leaf (.leaf [2,2,3,4,5,6,7,8,9,10,11,12,13,14,15,16] 0 0xAA 1 0 0xF8 false [])] 0

/-- an erased tail of exactly 24 bytes behind the last file -/
def tail24Volume : CFv :=
  .ffs (List.replicate 16 0) false 0x0004FEFF 2 0 [⟨17, 8⟩] none
    [.leaf (.leaf [1,2,3,4,5,6,7,8,9,10,11,12,13,14,15,16] 0 0xAA 1 0 0xF8 false (List.replicate 16 0x5A))] 24

/-- no files, the extended header ends exactly at Length (76 + 20 = 96; the parser accepts it since
    /repo eaa94dc, `Spec.wfFv` since a3abd9c of this framework — `NestedSpec.wfFv` now as well) -/
def extFlushVolume : CFv :=
  .ffs (List.replicate 16 0) false 0x0004FEFF 2 0 [⟨12, 8⟩] (some ⟨[0, 0, 0, 0], List.replicate 16 7, []⟩) [] 0

theorem c06_boundary_ext_wellformed :
    WF sampleHooks extFlushVolume ∧ okFv sampleHooks true extFlushVolume = true ∧ (ser extFlushVolume).length = 96 ∧
      ehoOf [⟨12, 8⟩] (some ⟨[0, 0, 0, 0], List.replicate 16 7, []⟩) + 20 = 96 := by
  unfold WF
  decide

set_option maxRecDepth 100000 in
theorem c06_boundary_volumes_wellformed :
    WF sampleHooks bareHdrVolume ∧ okFv sampleHooks true bareHdrVolume = true ∧
      sideFv sampleHooks okTails (normFv sampleHooks bareHdrVolume) = true ∧ (ser bareHdrVolume).length = 136 ∧
    WF sampleHooks tail24Volume ∧ okFv sampleHooks true tail24Volume = true ∧
      sideFv sampleHooks okTails (normFv sampleHooks tail24Volume) = true ∧ (ser tail24Volume).length = 136 := by
  unfold WF
  decide

/-! ## C06a / C06b for whole images (follow-up wp-c06c)

  The theorems above speak about one firmware volume.  Below they are composed with the outer layers
  of C01's grammar — the volume scan of the BIOS region (paddings, volumes, tail) and the flash image
  with its descriptor (regions before / after the BIOS region kept verbatim) — for images `CImg` whose
  BIOS region holds volumes of the *extended* grammar (NestedImgSpec.lean).  `serImg i` are the bytes,
  `saveImg h fuel x` = `uefi.Parse(x)` in a fresh process followed by `visitors.Save` in the same
  process (`Uefi.save` with an explicit recursion budget — `c06_saveImg_is_save`), `decImg` = the fully
  decoded tree `decTree` of the whole parsed image (descriptor, regions, paddings included),
  `normImg h i` = the image with every top-level volume in normal form (same length, paddings / tail /
  descriptor / other regions untouched), `okImg h i` = `okFv h false` of every top-level volume (a
  top-level volume cannot grow).  Still below 16 MiB (`_small`: the volumes are those of NestedSpec.lean). -/

/-- `Uefi.save` is `saveImg` with the default budget (input length + 8) -/
theorem c06_saveImg_is_save (h : Hooks) (x : Bytes) : saveImg h (defaultFuel x) x = save h x := rfl

/-- `uefi.Parse` on a serialised image of the extended grammar returns exactly the tree the grammar
    prescribes: descriptor and region nodes as in C01, volumes with their decoded children -/
theorem c06_parse_image_small (h : Hooks) (hk : HooksOK h) (i : CImg) (hw : WFI h i) (fuel : Nat)
    (hf : costImg i ≤ fuel) :
    ∃ st', parseWith h fuel (serImg i) {} = .ok (treeImg i, st') ∧ st'.pol = 0xFF ∧ st'.ffs3 = false :=
  parse_img hk i hw fuel hf

/-- `visitors.Assemble` + `Save` on that tree write the normal form of the image: every top-level
    volume rebuilt (`normFv`), everything else byte for byte -/
theorem c06_asm_image_small (h : Hooks) (hk : HooksOK h) (i : CImg) (hw : WFI h i) (hok : okImg h i = true)
    (st : St) (hp : st.pol = 0xFF) : asmWith h (treeImg i) st = .ok (serImg (normImg h i)) :=
  asm_img hk i hw hok st hp

/-- a save keeps the length of the image -/
theorem c06_saved_image_length (h : Hooks) (hk : HooksOK h) (i : CImg) (hw : WFI h i) (hok : okImg h i = true) :
    (serImg (normImg h i)).length = (serImg i).length :=
  serImg_norm_length hk i hw hok

/-- **C06a, whole image**: the decoded tree of `Parse(Save(Parse(x)))` is the decoded tree of `Parse(x)`
    for every image `x = serImg i` (BIOS region or flash image with descriptor) of the extended grammar -/
theorem c06a_small (h : Hooks) (hk : HooksOK h) (i : CImg) (hw : WFI h i) (hok : okImg h i = true)
    (hw' : WFI h (normImg h i)) (fuel : Nat) (hf : costImg i ≤ fuel) (hf' : costImg (normImg h i) ≤ fuel) :
    ∃ y d, saveImg h fuel (serImg i) = .ok y ∧ decImg h fuel y = .ok d ∧ decImg h fuel (serImg i) = .ok d := by
  refine ⟨serImg (normImg h i), decTree (treeImg i), saveImg_ser hk i hw hok fuel hf, ?_, decImg_ser hk i hw fuel hf⟩
  rw [decImg_ser hk (normImg h i) hw' fuel hf', dec_img i hw hok]

/-- **C06b, whole image**: `Save(Parse(Save(Parse(x)))) = Save(Parse(x))`, byte for byte -/
theorem c06b_small (h : Hooks) (hk : HooksOK h) (i : CImg) (hw : WFI h i) (hok : okImg h i = true)
    (hw' : WFI h (normImg h i)) (fuel : Nat) (hf : costImg i ≤ fuel) (hf' : costImg (normImg h i) ≤ fuel) :
    ∃ y, saveImg h fuel (serImg i) = .ok y ∧ saveImg h fuel y = .ok y := by
  have hc := canon_img i hok
  refine ⟨serImg (normImg h i), saveImg_ser hk i hw hok fuel hf, ?_⟩
  have := saveImg_ser hk (normImg h i) hw' (ok_img (normImg h i) hw' hc) fuel hf'
  rw [norm_img (normImg h i) hw' hc] at this
  exact this

/-- the C01 statement for whole images with compressed content: a canonical image (every compressed
    payload is what the encoder emits for its children) is reproduced byte for byte -/
theorem c06_save_identity_canon_small (h : Hooks) (hk : HooksOK h) (i : CImg) (hw : WFI h i)
    (hc : canonImg h i = true) (fuel : Nat) (hf : costImg i ≤ fuel) :
    saveImg h fuel (serImg i) = .ok (serImg i) := by
  have := saveImg_ser hk i hw (ok_img i hw hc) fuel hf
  rw [norm_img i hw hc] at this
  exact this

/-- **what a save writes is inside the image grammar again**: from the codec laws and the side
    conditions `sideFv` on each saved top-level volume (`sideImg`) alone — that the volume scan finds
    every saved volume behind its padding again, that a saved bare BIOS region still does not look
    like a flash image, and that descriptor, region table and tiling still fit are *consequences* -/
theorem c06_saved_image_wellformed_small (h : Hooks) (ok : Guid → Bytes → Bool) (hk : HooksOK h)
    (hlaw : LawsOK h ok) (i : CImg) (hw : WFI h i) (hok : okImg h i = true)
    (hs : sideImg h ok (normImg h i) = true) : WFI h (normImg h i) :=
  wf_norm_img hk hlaw i hw hok hs

/-- **C06a, whole image, from the codec laws** -/
theorem c06a_small_laws (h : Hooks) (ok : Guid → Bytes → Bool) (hk : HooksOK h) (hlaw : LawsOK h ok)
    (i : CImg) (hw : WFI h i) (hok : okImg h i = true) (hs : sideImg h ok (normImg h i) = true)
    (fuel : Nat) (hf : costImg i ≤ fuel) (hf' : costImg (normImg h i) ≤ fuel) :
    ∃ y d, saveImg h fuel (serImg i) = .ok y ∧ decImg h fuel y = .ok d ∧ decImg h fuel (serImg i) = .ok d :=
  c06a_small h hk i hw hok (wf_norm_img hk hlaw i hw hok hs) fuel hf hf'

/-- **C06b, whole image, from the codec laws** -/
theorem c06b_small_laws (h : Hooks) (ok : Guid → Bytes → Bool) (hk : HooksOK h) (hlaw : LawsOK h ok)
    (i : CImg) (hw : WFI h i) (hok : okImg h i = true) (hs : sideImg h ok (normImg h i) = true)
    (fuel : Nat) (hf : costImg i ≤ fuel) (hf' : costImg (normImg h i) ≤ fuel) :
    ∃ y, saveImg h fuel (serImg i) = .ok y ∧ saveImg h fuel y = .ok y :=
  c06b_small h hk i hw hok (wf_norm_img hk hlaw i hw hok hs) fuel hf hf'

/-- the hooks built from any pair of cores know exactly the four codec GUIDs, decompression on -/
theorem c06_hooks_of_cores_ok (k : Cores) : HooksOK (hooksOf k) := by
  refine ⟨rfl, ?_⟩
  intro g hg
  simp only [hooksOf, codecOf]
  have h1 : g ≠ guidLZMA := by intro hc; rw [hc] at hg; revert hg; decide
  have h2 : g ≠ guidLZMAX86 := by intro hc; rw [hc] at hg; revert hg; decide
  have h3 : g ≠ guidZLIB := by intro hc; rw [hc] at hg; revert hg; decide
  have h4 : g ≠ guidBROTLI := by intro hc; rw [hc] at hg; revert hg; decide
  simp [h1, h2, h3, h4]

/-- **C06a and C06b for the compressors of pkg/compression over any lawful third-party cores**: the
    framing of `compression.CompressorFromGUID` (size fields, x86 branch filter, ZLIB section header)
    is the model's own (`hooksOf`); of the LZMA core only "decodes what it encoded, whatever follows
    the stream" is assumed, of the zlib core only losslessness.  Whole images; the remaining
    hypotheses are the decidable ones: the image is well formed and can be rebuilt, the two side
    conditions on each saved volume, the recursion budget. -/
theorem c06ab_small_cores (k : Cores) (hl : k.lzma.TailLawful) (hz : k.zlib.Lawful) (i : CImg)
    (hw : WFI (hooksOf k) i) (hok : okImg (hooksOf k) i = true)
    (hs : sideImg (hooksOf k) okTails (normImg (hooksOf k) i) = true)
    (fuel : Nat) (hf : costImg i ≤ fuel) (hf' : costImg (normImg (hooksOf k) i) ≤ fuel) :
    (∃ y d, saveImg (hooksOf k) fuel (serImg i) = .ok y ∧ decImg (hooksOf k) fuel y = .ok d ∧
        decImg (hooksOf k) fuel (serImg i) = .ok d) ∧
      (∃ y, saveImg (hooksOf k) fuel (serImg i) = .ok y ∧ saveImg (hooksOf k) fuel y = .ok y) :=
  ⟨c06a_small_laws (hooksOf k) okTails (c06_hooks_of_cores_ok k) (c06_laws_of_cores k hl hz) i hw hok hs fuel hf hf',
   c06b_small_laws (hooksOf k) okTails (c06_hooks_of_cores_ok k) (c06_laws_of_cores k hl hz) i hw hok hs fuel hf hf'⟩

/-! ### non-vacuity: a BIOS region and a flash image that satisfy every hypothesis

  BIOS region: the non-canonical sample volume above, 16 bytes of padding, a volume of a file system
  the tool does not parse, an erased tail.  Flash image: C01's sample descriptor (BIOS = block 3,
  ME = block 1), an ME region, a gap the table does not describe, and that BIOS region (4 KiB). -/

def sampleOtherFv : CFv :=
  .other (.other (List.replicate 16 0xFF) guidNVAR 0x0004FEFF 2 0 [⟨9, 8⟩] (List.replicate 8 0x5A))

def sampleBiosRegion : CBios :=
  ⟨[([], sampleVolume), (List.replicate 16 0xFF, sampleOtherFv)], List.replicate 3624 0xFF⟩

def sampleBiosImage : CImg := .bios ⟨[([], sampleVolume), (List.replicate 16 0xFF, sampleOtherFv)], [1, 2, 3]⟩

/-- C01's sample descriptor (Props/C01.lean `sampleDesc`) -/
def sampleDescC : Bytes :=
  List.replicate 16 0xFF ++ [0x5a, 0xa5, 0xf0, 0x0f] ++
  [0, 0, 4, 0, 8, 0, 0, 0, 0, 0, 0, 0, 0, 0, 0, 0] ++ List.replicate 28 0x5A ++
  [0x34, 0x12, 0x00, 0x10, 3, 0, 3, 0, 1, 0, 1, 0] ++ (List.replicate 13 [0xFF, 0x7F, 0, 0]).flatten ++
  [0, 0, 0xFF, 0xFF, 0, 0, 0xFF, 0xFF, 0x18, 0x01, 0x08, 0x08] ++ List.replicate 3956 0x5A

def sampleFlashImage : CImg :=
  .flash ⟨sampleDescC, [.me (List.replicate 4096 0xA5), .gap (List.replicate 4096 0x77)], sampleBiosRegion, []⟩

set_option maxRecDepth 1000000 in
set_option maxHeartbeats 4000000 in
theorem c06_sample_bios_image :
    WFI sampleHooks sampleBiosImage ∧ okImg sampleHooks sampleBiosImage = true ∧
      sideImg sampleHooks okTails (normImg sampleHooks sampleBiosImage) = true ∧
      costImg sampleBiosImage ≤ 80 ∧ costImg (normImg sampleHooks sampleBiosImage) ≤ 80 ∧
      canonImg sampleHooks sampleBiosImage = false := by
  unfold WFI
  decide

set_option maxRecDepth 1000000 in
set_option maxHeartbeats 4000000 in
theorem c06_sample_flash_image :
    WFI sampleHooks sampleFlashImage ∧ okImg sampleHooks sampleFlashImage = true ∧
      sideImg sampleHooks okTails (normImg sampleHooks sampleFlashImage) = true ∧
      costImg sampleFlashImage ≤ 80 ∧ costImg (normImg sampleHooks sampleFlashImage) ≤ 80 := by
  unfold WFI
  decide

/-- C06a and C06b from the laws, applied to the sample flash image -/
example : (∃ y d, saveImg sampleHooks 80 (serImg sampleFlashImage) = .ok y ∧ decImg sampleHooks 80 y = .ok d ∧
      decImg sampleHooks 80 (serImg sampleFlashImage) = .ok d) ∧
    (∃ y, saveImg sampleHooks 80 (serImg sampleFlashImage) = .ok y ∧ saveImg sampleHooks 80 y = .ok y) := by
  obtain ⟨hw, hok, hs, hf, hf'⟩ := c06_sample_flash_image
  have hl := c06_laws_of_cores Cores.stored sized13_tailLawful Compress.stored_lawful
  exact ⟨c06a_small_laws sampleHooks okTails c06_sample_hooks_ok hl sampleFlashImage hw hok hs 80 hf hf',
    c06b_small_laws sampleHooks okTails c06_sample_hooks_ok hl sampleFlashImage hw hok hs 80 hf hf'⟩

/-- … and to the sample BIOS region -/
example : ∃ y, saveImg sampleHooks 80 (serImg sampleBiosImage) = .ok y ∧ saveImg sampleHooks 80 y = .ok y := by
  obtain ⟨hw, hok, hs, hf, hf', _⟩ := c06_sample_bios_image
  exact c06b_small_laws sampleHooks okTails c06_sample_hooks_ok
    (c06_laws_of_cores Cores.stored sized13_tailLawful Compress.stored_lawful) sampleBiosImage hw hok hs 80 hf hf'

end Fiano.Uefi.Nested
