/-
  Property C01 — saving an unedited image reproduces it byte for byte.
  (stage A placeholder: the layer theorems of stage B are added to this file)
-/
import FianoModel.Uefi.Tie

namespace Fiano.Uefi.C01
open Fiano Fiano.Uefi Fiano.Uefi.Spec

def g (n : Nat) : Guid := (List.range 16).map (fun i => UInt8.ofNat (n + i))

/-- a hand-written volume: a checksummed driver with a UI and a raw section, and a pad file -/
def sampleFv : FvI :=
  .ffs (List.replicate 16 0) false 0x0004FEFF 2 0 [⟨23, 8⟩] none
    [ .sect (g 1) 7 0x40 0xF8 [.ui [0x41, 0x42], .leaf 0x19 false [1, 2, 3, 4, 5]],
      .leaf guidFF 0 0xAA 0xF0 0 0xF8 false (List.replicate 8 0xFF) ] 32

def sampleImg : Img := .bios ⟨[([], sampleFv)], []⟩

theorem sample_wf : WF sampleImg := by decide

end Fiano.Uefi.C01
