/-
  C08 — Every compression codec is lossless and emits the documented framing.
  Property theorems only; helper lemmas live in Compress/X86Word.lean (arithmetic of one converted
  instruction), Compress/X86Loop.lean (the loop) and Compress/FramingLemmas.lean.

  All statements are unbounded: every byte string, every start address and start state of the
  filter, every compression core.  The third-party cores (ulikunitz/xz LZMA, xz(1), compress/zlib,
  pierrec/lz4) are `Codec` parameters; their losslessness is the explicit hypothesis
  `Codec.Lawful` / `PatchCompatible` (never an axiom) and is *not* proved here — it is sampled by
  the correspondence harness only.
-/
import FianoModel.Compress.FramingLemmas
import FianoModel.Compress.Tie
import FianoModel.Compress.CodeTie   -- T1 code-as-code tie (wp-t1x): audited as a tie module of this check

namespace Fiano.Compress
open X86

/-! ## C08.1 the x86 branch (BCJ) filter: decode is the exact inverse of encode -/

/-- **Central theorem.** As fiano uses the filter (`LZMAX86.Encode` / `Decode`: whole buffer,
    `ip = 0`, fresh state), decoding the encoded buffer gives back every byte of every input. -/
theorem c08_x86_decode_encode (d : Bytes) :
    (x86Convert (x86Convert d 0 0 true).data 0 0 false).data = d := by
  rw [x86Convert_inverse]

/-- The same for every start address `ip` and every start state (any 32-bit value; the routine
    uses `state & 7`): the decoder also returns the same position and leaves the same final
    state as the encoder did, so block-wise use with carried `(ip, state)` inverts as well. -/
theorem c08_x86_decode_encode_general (d : Bytes) (ip state : UInt32) :
    x86Convert (x86Convert d ip state true).data ip state false =
      ⟨d, (x86Convert d ip state true).pos, (x86Convert d ip state true).state⟩ :=
  x86Convert_inverse d ip state

/-- the filter works in place: the length never changes (both directions) -/
theorem c08_x86_length (d : Bytes) (ip state : UInt32) (e : Bool) :
    (x86Convert d ip state e).data.length = d.length :=
  x86Convert_length d ip state e

/-- inputs shorter than 5 bytes are returned untouched, position 0, state untouched -/
theorem c08_x86_short (d : Bytes) (ip state : UInt32) (e : Bool) (h : d.length < 5) :
    x86Convert d ip state e = ⟨d, 0, state⟩ := by
  unfold x86Convert
  simp only [h, if_true]

/-- The loop terminates by consuming input: the fuel `|rest| + 1` given to the Go-shaped loop is
    never exhausted — any larger amount of fuel computes the same result. -/
theorem c08_x86_fuel_sufficient (e : Bool) (ip : UInt32) (fuel pos : Nat) (mask : UInt32) (rest : Bytes)
    (hf : rest.length < fuel) (hm : mask < 8) :
    loopF e ip fuel pos mask rest = loop e ip pos mask rest := by
  rw [loopF_eq_loopB e ip fuel pos mask rest hf hm, loop_eq_loopB e ip pos mask rest hm]

/-! ## C08.2 ZLIB: 256-byte section header, compressed size (LE32) at offset 20 -/

/-- the frame `ZLIB.Encode` emits: header of 256 bytes, zero except the little-endian 32-bit
    length of the compressed payload at offset 20, followed by the payload -/
theorem c08_zlib_frame_layout (core : Codec) (x y : Bytes) (h : zlibEncode core x = .ok y) :
    ∃ z, core.enc x = .ok z ∧ y = zlibHeader z.length ++ z ∧ y.length = 256 + z.length ∧
      slice y 20 4 = leN 4 z.length ∧ fromLE (slice y 20 4) = z.length % 2 ^ 32 ∧
      (∀ i, i < 256 → (i < 20 ∨ 24 ≤ i) → y[i]? = some 0) ∧ y.drop 256 = z := by
  obtain ⟨z, hz, rfl⟩ := zlibEncode_ok core x y h
  refine ⟨z, hz, rfl, ?_, zlibHeader_size _ _, ?_, ?_, ?_⟩
  · rw [List.length_append, zlibHeader_length]
  · rw [zlibHeader_size, fromLE_leN]
  · intro i hi hr
    rw [List.getElem?_append_left (by rw [zlibHeader_length]; exact hi)]
    exact zlibHeader_zero _ i hi hr
  · exact drop_prefix _ _ 256 (zlibHeader_length _)

/-- framing round trip: for any lossless core, `ZLIB.Decode (ZLIB.Encode x) = x` -/
theorem c08_zlib_frame_roundtrip (core : Codec) (hc : core.Lawful) : (zlib core).Lawful := by
  intro x y h
  obtain ⟨z, hz, rfl⟩ := zlibEncode_ok core x y h
  show zlibDecode core (zlibHeader z.length ++ z) = some x
  rw [zlibDecode_frame]
  exact hc x z hz

/-- `ZLIB.Decode` hands a payload to the core only if the frame is at least a header long and
    the size field equals the payload length (mod 2^32); then the payload is everything after
    the header -/
theorem c08_zlib_decode_checks_frame (core : Codec) (e x : Bytes) (h : zlibDecode core e = some x) :
    256 ≤ e.length ∧ fromLE (slice e 20 4) = (e.length - 256) % 2 ^ 32 ∧ core.dec (e.drop 256) = some x := by
  unfold zlibDecode at h
  split at h
  · cases h
  · split at h
    · cases h
    · rename_i h1 h2
      refine ⟨by omega, ?_, h⟩
      exact Classical.not_not.1 h2

/-! ## C08.3 LZMA: the true uncompressed size in the 13-byte header -/

/-- `SystemLZMA.Encode` (and the repaired `LZMA.Encode`): under the Go code's precondition
    `13 ≤ |core output|`, the result is the core's output with bytes 5..12 replaced by the
    little-endian 64-bit input length; same length, all other bytes untouched -/
theorem c08_lzma_header (core : Codec) (x out : Bytes) (ho : core.enc x = .ok out) (hl : 13 ≤ out.length) :
    ∃ y, lzmaSizedEncode core x = .ok y ∧ y.length = out.length ∧ slice y 5 8 = leN 8 x.length ∧
      fromLE (slice y 5 8) = x.length % 2 ^ 64 ∧ (∀ i, (i < 5 ∨ 13 ≤ i) → y[i]? = out[i]?) := by
  have hfit : 5 + (leN 8 x.length).length ≤ out.length := by rw [leN_length]; omega
  refine ⟨splice out 5 (leN 8 x.length), ?_, splice_length _ _ _ hfit, ?_, ?_, ?_⟩
  · unfold lzmaSizedEncode
    rw [ho]
    exact patchSize_ok out _ hl
  · have := slice_splice_same out 5 (leN 8 x.length) hfit
    rw [leN_length] at this
    exact this
  · have := slice_splice_same out 5 (leN 8 x.length) hfit
    rw [leN_length] at this
    rw [this, fromLE_leN]
  · intro i hi
    rcases hi with hi | hi
    · exact splice_getElem?_lt out 5 _ i hi hfit
    · exact splice_getElem?_ge out 5 _ i (by rw [leN_length]; omega) hfit

/-- whenever the encoder succeeds, the header carries the true size (so the precondition held) -/
theorem c08_lzma_header_of_ok (core : Codec) (x y : Bytes) (h : lzmaSizedEncode core x = .ok y) :
    13 ≤ y.length ∧ fromLE (slice y 5 8) = x.length % 2 ^ 64 := by
  obtain ⟨out, ho, hl, rfl⟩ := lzmaSizedEncode_ok core x y h
  obtain ⟨y', hy', hlen, _, hsz, _⟩ := c08_lzma_header core x out ho hl
  rw [h] at hy'
  simp only [Res.ok.injEq] at hy'
  subst hy'
  exact ⟨by omega, hsz⟩

/-- round trip of the size-patched LZMA codec, under the stated law about the third-party pair
    (the decoder accepts the encoder's stream with the true size patched in) -/
theorem c08_lzma_sized_roundtrip (core : Codec) (hp : PatchCompatible core) : (lzmaSized core).Lawful := by
  intro x y h
  obtain ⟨out, ho, _, rfl⟩ := lzmaSizedEncode_ok core x y h
  exact (hp x out ho).2

/-! ## C08.4 LZMAX86 = x86 filter ∘ LZMA -/

/-- for any lossless LZMA codec, `LZMAX86.Decode (LZMAX86.Encode x) = x` (uses C08.1) -/
theorem c08_lzmax86_roundtrip (lz : Codec) (hl : lz.Lawful) : (lzmax86 lz).Lawful := by
  intro x y h
  have hd : lz.dec y = some (x86Convert x 0 0 true).data := hl _ y h
  show lzmax86Decode lz y = some x
  unfold lzmax86Decode
  rw [hd]
  simp only [c08_x86_decode_encode]

/-- the two layers together, as `CompressorFromGUID(LZMAX86GUID)` builds them -/
theorem c08_lzmax86_sized_roundtrip (core : Codec) (hp : PatchCompatible core) :
    (lzmax86 (lzmaSized core)).Lawful :=
  c08_lzmax86_roundtrip _ (c08_lzma_sized_roundtrip core hp)

/-! ## non-vacuity: concrete lawful instances and concrete runs -/

example : stored.Lawful := stored_lawful
example : (zlib stored).Lawful := c08_zlib_frame_roundtrip stored stored_lawful
example : (zlib (zlib stored)).Lawful := c08_zlib_frame_roundtrip _ (c08_zlib_frame_roundtrip stored stored_lawful)
example : hdr13.Lawful := hdr13_lawful
example : PatchCompatible hdr13 := hdr13_patchCompatible
example : (lzmax86 (lzmaSized hdr13)).Lawful := c08_lzmax86_sized_roundtrip hdr13 hdr13_patchCompatible
example : (lzmax86 stored).Lawful := c08_lzmax86_roundtrip stored stored_lawful

/-- the hypotheses of `c08_lzma_header` are satisfiable: `hdr13` emits 13 + |x| bytes -/
example : ∃ out, hdr13.enc [1, 2, 3] = .ok out ∧ 13 ≤ out.length := ⟨_, rfl, by decide⟩

/-- a run in which two calls are converted (plain add of `cur`) … -/
example : (x86Convert [0xE8, 0, 0, 0, 0, 0xE8, 0, 0, 0, 0xFF] 0 0 true).data =
    [0xE8, 5, 0, 0, 0, 0xE8, 0x0A, 0, 0, 0xFF] := by decide

/-- … one with a pending mask where the fix-up (`v ^= …; v += cur`) fires: the `E8` at offset 1
    (mask = 4 from the unconverted `E8` at offset 0) has look-ahead byte 0xFE, `v + cur`
    (0x00FEFFFA + 6) makes it 0xFF, the fix-up turns it into 0x01 … -/
example : (x86Convert [0xE8, 0xE8, 0xFA, 0xFF, 0xFE, 0x00] 0 0 true).data =
    [0xE8, 0xE8, 0x05, 0x00, 0x01, 0x00] := by decide

/-- … and its inverse -/
example : (x86Convert [0xE8, 0xE8, 0x05, 0x00, 0x01, 0x00] 0 0 false).data =
    [0xE8, 0xE8, 0xFA, 0xFF, 0xFE, 0x00] := by decide

end Fiano.Compress
