/-
  C13 — Flash-map reads and writes are exact and confined.
  Property theorems only; helper lemmas live in Fmap/Lemmas.lean and Fmap/ReadLemmas.lean.
  All statements are unbounded: every image, every map, every offset.
-/
import FianoModel.Fmap.ReadLemmas
import FianoModel.Fmap.Tie

namespace Fiano.Fmap

/-! ## C13.1 binary codecs are mutually inverse -/

theorem c13_header_decode_encode (h : Header) (w : h.WT) : decodeHeader (encodeHeader h) = h :=
  decodeHeader_encodeHeader h w

theorem c13_header_encode_decode (b : Bytes) (hb : b.length = headerSize) :
    encodeHeader (decodeHeader b) = b := encodeHeader_decodeHeader b hb

theorem c13_areas_decode_encode (as : List Area) (w : ∀ a ∈ as, a.WT) (r : Bytes) :
    decodeAreas as.length (encodeAreas as ++ r) = as := decodeAreas_encodeAreas as w r

theorem c13_areas_encode_decode (n : Nat) (b : Bytes) (hb : b.length = areaSize * n) :
    encodeAreas (decodeAreas n b) = b := encodeAreas_decodeAreas n b hb

/-! ## C13.2 what a successful Read means (inversion): never a partial map -/

/-- If `read` succeeds then every candidate the scan visited was fully readable (no truncated
    header or area table anywhere), exactly one candidate had a valid header, and the result
    is precisely the decoding of the bytes at that position. -/
theorem c13_read_ok_inv (data : Bytes) (fm : FMap) (s : Nat) (h : read data = .ok (fm, s)) :
    (∀ p ∈ hits data, Readable data p) ∧
    (hits data).countP (validAt data) = 1 ∧
    s ∈ hits data ∧ validAt data s = true ∧ fm = mapAt data s := by
  unfold read at h
  split at h
  · cases h
  · rename_i acc hacc
    obtain ⟨h1, h2, h3⟩ := fold_inv data (hits data) _ acc hacc
    simp only [Nat.zero_add] at h2
    unfold finish at h
    split at h
    · cases h
    · split at h
      · rename_i r hv hl
        injection h with h; subst h
        refine ⟨h1, by omega, ?_⟩
        rcases h3 with ⟨a, _⟩ | ⟨s', hs', hv', hl'⟩
        · simp [hl] at a
        · rw [hl] at hl'; injection hl' with hl'; injection hl' with e1 e2
          subst e2; exact ⟨hs', hv', e1⟩
      · cases h

/-- A map that Read returns lies entirely inside the image, has as many areas as its header
    says, and every field is representable. -/
theorem c13_read_complete (data : Bytes) (fm : FMap) (s : Nat) (h : read data = .ok (fm, s)) :
    s + headerSize + areaSize * fm.hdr.nAreas ≤ data.length ∧
    fm.areas.length = fm.hdr.nAreas ∧ fm.WT ∧ headerValid fm.hdr = true := by
  obtain ⟨h1, _, hs, hv, rfl⟩ := c13_read_ok_inv data fm s h
  have hr := (h1 s hs).2 hv
  refine ⟨hr, by simp [mapAt, decodeAreas_length], ⟨?_, ?_⟩, hv⟩
  · exact decodeHeader_WT _ (slice_length _ _ _ (h1 s hs).1)
  · exact decodeAreas_WT _ _ (by
      rw [slice_length _ _ _ (by omega)]; rfl)

/-- absent signature ⇒ error -/
theorem c13_read_absent (data : Bytes)
    (h : ∀ p, p + 8 ≤ data.length → slice data p 8 ≠ signature) :
    read data = .error .sigNotFound := by
  unfold read; rw [hits_nil_of_absent data h]; rfl

/-- a truncated candidate (header or area table running past the end) ⇒ error -/
theorem c13_read_truncated (data : Bytes) (p : Nat) (hp : p ∈ hits data) (ht : ¬ Readable data p) :
    ∀ r, read data ≠ .ok r := by
  intro ⟨fm, s⟩ h
  exact ht ((c13_read_ok_inv data fm s h).1 p hp)

/-- two (or more) valid maps ⇒ error -/
theorem c13_read_duplicated (data : Bytes) (h : 2 ≤ (hits data).countP (validAt data)) :
    ∀ r, read data ≠ .ok r := by
  intro ⟨fm, s⟩ hr
  have := (c13_read_ok_inv data fm s hr).2.1
  omega

/-! ## C13.3 write∘read = id on the image, read∘write = id on the map -/

theorem encode_mapAt (data : Bytes) (s : Nat)
    (hr : s + headerSize + areaSize * (hdrAt data s).nAreas ≤ data.length) :
    encode (mapAt data s) = slice data s (headerSize + areaSize * (hdrAt data s).nAreas) := by
  simp only [encode, mapAt]
  simp only [headerSize, areaSize] at *
  rw [encodeAreas_decodeAreas _ _ (slice_length _ _ _ (by omega))]
  unfold hdrAt
  simp only [headerSize]
  rw [encodeHeader_decodeHeader _ (slice_length _ _ _ (by omega))]
  rw [slice_add]

/-- Writing back the map just read leaves the image unchanged. -/
theorem c13_write_read_id (img : Bytes) (fm : FMap) (s : Nat) (h : read img = .ok (fm, s)) :
    write img fm s = .ok img := by
  obtain ⟨h1, _, hs, hv, rfl⟩ := c13_read_ok_inv img fm s h
  have hr := (h1 s hs).2 hv
  have he := encode_mapAt img s hr
  unfold write
  simp only
  have hl : (encode (mapAt img s)).length = headerSize + areaSize * (hdrAt img s).nAreas := by
    rw [he, slice_length _ _ _ (by omega)]
  rw [if_neg (by omega), he, splice_slice_self _ _ _ (by omega)]

/-- The scan hypothesis of `read_write`: the written map is visited, and every other visited
    candidate is readable and not a valid header. (A *hypothesis that is real*: an area name or
    payload may contain `__FMAP__` followed by header-valid bytes; then Read reports
    `multipleFound`, see `c13_read_duplicated`.) -/
def UniqueValidSig (data : Bytes) (s : Nat) : Prop :=
  ∃ pre post, hits data = pre ++ s :: post ∧
    (∀ p ∈ pre, p + headerSize ≤ data.length ∧ validAt data p = false) ∧
    (∀ p ∈ post, p + headerSize ≤ data.length ∧ validAt data p = false)

theorem read_unique (data : Bytes) (s : Nat) (hu : UniqueValidSig data s)
    (hv : validAt data s = true)
    (hr : s + headerSize + areaSize * (hdrAt data s).nAreas ≤ data.length) :
    read data = .ok (mapAt data s, s) := by
  obtain ⟨pre, post, hh, hpre, hpost⟩ := hu
  unfold read
  rw [hh, fold_append, fold_invalid data pre _ hpre]
  simp only [foldVisit]
  rw [visit_valid data _ s hr hv]
  simp only
  rw [fold_invalid data post _ hpost]
  rfl

/-- Writing a map and reading it back returns the same header, areas and position. -/
theorem c13_read_write (img img' : Bytes) (fm : FMap) (s : Nat)
    (wt : fm.WT) (hn : fm.areas.length = fm.hdr.nAreas) (hv : headerValid fm.hdr = true)
    (hw : write img fm s = .ok img') (hu : UniqueValidSig img' s) :
    read img' = .ok (fm, s) := by
  unfold write at hw
  simp only at hw
  split at hw
  · cases hw
  · rename_i hfit
    injection hw with hw
    have hel : (encode fm).length = headerSize + areaSize * fm.hdr.nAreas := by
      simp only [encode, List.length_append, encodeHeader_length _ wt.hdr,
        encodeAreas_length _ wt.areas, hn, headerSize, areaSize]
    have hs : slice img' s (headerSize + areaSize * fm.hdr.nAreas) = encode fm := by
      rw [← hw, ← hel]; exact slice_splice_same img s _ (by omega)
    have hlen : img'.length = img.length := by rw [← hw]; exact splice_length _ _ _ (by omega)
    have hh : hdrAt img' s = fm.hdr := by
      unfold hdrAt
      have : slice img' s headerSize = encodeHeader fm.hdr := by
        have : slice (slice img' s (headerSize + areaSize * fm.hdr.nAreas)) 0 headerSize
            = slice (encode fm) 0 headerSize := by rw [hs]
        rw [slice_slice _ _ _ _ _ (by omega)] at this
        rw [Nat.add_zero] at this
        rw [this, encode]
        have := slice_mid' [] (encodeHeader fm.hdr) 0 headerSize rfl (encodeHeader_length _ wt.hdr)
        have h2 := slice_mid [] (encodeHeader fm.hdr) (encodeAreas fm.areas) 0 headerSize rfl (encodeHeader_length _ wt.hdr)
        simpa using h2
      rw [this, decodeHeader_encodeHeader _ wt.hdr]
    have hm : mapAt img' s = fm := by
      have ha : slice img' (s + headerSize) (areaSize * fm.hdr.nAreas) = encodeAreas fm.areas := by
        have : slice (slice img' s (headerSize + areaSize * fm.hdr.nAreas)) headerSize (areaSize * fm.hdr.nAreas)
            = slice (encode fm) headerSize (areaSize * fm.hdr.nAreas) := by rw [hs]
        rw [slice_slice _ _ _ _ _ (by omega)] at this
        rw [this, encode]
        exact slice_mid' _ _ _ _ (encodeHeader_length _ wt.hdr) (by
          rw [encodeAreas_length _ wt.areas, hn]; rfl)
      cases fm with
      | mk hdr areas =>
        simp only [mapAt, FMap.mk.injEq]
        simp only at hh ha hn
        refine ⟨hh, ?_⟩
        rw [hh, ha, ← hn]
        have := decodeAreas_encodeAreas areas wt.areas []
        simpa using this
    have := read_unique img' s hu (by simp [validAt, hh, hv]) (by rw [hh]; omega)
    rw [hm] at this; exact this

/-! ## C13.4 areas -/

/-- Reading area `i` returns exactly the image bytes `[offset, offset+size)`. -/
theorem c13_readArea_exact (fm : FMap) (img : Bytes) (i : Nat) (a : Area)
    (hi : i < fm.hdr.nAreas) (ha : fm.areas[i]? = some a) (hfit : a.offset + a.size ≤ img.length)
    (hpos : a.offset < img.length) :
    readArea fm img i = .ok (slice img a.offset a.size, false) := by
  unfold readArea
  have h1 : ¬ ((i : Int) < 0 || (fm.hdr.nAreas : Int) ≤ (i : Int)) = true := by
    simp; omega
  rw [if_neg h1]
  simp only [Int.toNat_natCast, ha]
  have hl := slice_length img a.offset a.size hfit
  simp [hl]

theorem c13_readArea_range (fm : FMap) (img : Bytes) (i : Int)
    (hi : i < 0 ∨ (fm.hdr.nAreas : Int) ≤ i) : readArea fm img i = .error .range := by
  unfold readArea
  rw [if_pos (by simp; omega)]

/-- WriteArea refuses every index outside `[0, NAreas)`.  The index is an unbounded integer (Go `int`): there is no
    reduction modulo the width of `NAreas` (2^16) or of any other fixed-width type, so `65536 + k`, `2·65536 + k`,
    `2^31 - 1`, `2^32 + k` and every negative index are refused like `NAreas` itself; nothing is returned, so nothing
    is written.  (`c13_readArea_range` above is the same statement for ReadArea.) -/
theorem c13_writeArea_range (fm : FMap) (img : Bytes) (i : Int) (data : Bytes)
    (hi : i < 0 ∨ (fm.hdr.nAreas : Int) ≤ i) : writeArea fm img i data = .error .range := by
  unfold writeArea
  rw [if_pos (by simp; omega)]

/-- Conversely an index that is accepted lies in `[0, NAreas)` — for ReadArea and WriteArea, over all integers. -/
theorem c13_area_ok_index (fm : FMap) (img : Bytes) (i : Int) :
    (∀ r, readArea fm img i = .ok r → 0 ≤ i ∧ i < (fm.hdr.nAreas : Int)) ∧
    (∀ data img', writeArea fm img i data = .ok img' → 0 ≤ i ∧ i < (fm.hdr.nAreas : Int)) := by
  refine ⟨fun r h => ?_, fun data img' h => ?_⟩
  · by_cases hi : i < 0 ∨ (fm.hdr.nAreas : Int) ≤ i
    · rw [c13_readArea_range fm img i hi] at h; cases h
    · omega
  · by_cases hi : i < 0 ∨ (fm.hdr.nAreas : Int) ≤ i
    · rw [c13_writeArea_range fm img i data hi] at h; cases h
    · omega

/-- Writing to an area changes only bytes inside `[offset, offset+|data|)` ⊆ the area,
    and keeps the image length. -/
theorem c13_writeArea_confined (fm : FMap) (img img' : Bytes) (i : Int) (data : Bytes)
    (h : writeArea fm img i data = .ok img') :
    ∃ a, fm.areas[i.toNat]? = some a ∧ data.length % 256 ^ 4 ≤ a.size ∧
      img'.length = img.length ∧
      ∀ j, (j < a.offset ∨ a.offset + data.length ≤ j) → img'[j]? = img[j]? := by
  unfold writeArea at h
  split at h
  · cases h
  · split at h
    · cases h
    · rename_i a ha
      split at h
      · cases h
      · split at h
        · cases h
        · rename_i h1 h2
          injection h with h; subst h
          refine ⟨a, ha, by omega, splice_length _ _ _ (by omega), ?_⟩
          intro j hj
          rcases hj with hj | hj
          · exact splice_getElem?_lt _ _ _ _ hj (by omega)
          · exact splice_getElem?_ge _ _ _ _ hj (by omega)

/-- and the written window then holds the data -/
theorem c13_writeArea_stores (fm : FMap) (img img' : Bytes) (i : Int) (data : Bytes) (a : Area)
    (ha : fm.areas[i.toNat]? = some a) (h : writeArea fm img i data = .ok img') :
    slice img' a.offset data.length = data := by
  unfold writeArea at h
  split at h
  · cases h
  · rw [ha] at h
    simp only at h
    split at h
    · cases h
    · split at h
      · cases h
      · injection h with h; subst h
        exact slice_splice_same _ _ _ (by omega)

/-- Data larger than the area is refused (and nothing is returned, so nothing is written). -/
theorem c13_writeArea_too_large (fm : FMap) (img : Bytes) (i : Nat) (a : Area) (data : Bytes)
    (hi : i < fm.hdr.nAreas) (ha : fm.areas[i]? = some a)
    (hbig : a.size < data.length) (h32 : data.length < 256 ^ 4) :
    writeArea fm img i data = .error .tooLarge := by
  unfold writeArea
  rw [if_neg (by simp; omega)]
  simp only [Int.toNat_natCast, ha]
  rw [Nat.mod_eq_of_lt h32, if_pos hbig]

/-! ## C13.5 the checksum covers exactly the static areas, in table order -/

def staticConcat (img : Bytes) (as : List Area) : Bytes :=
  (as.filter (fun a => a.flags % 2 = 1)).flatMap (fun a => slice img a.offset a.size)

theorem checksumLoop_spec (fm : FMap) (img : Bytes) (k : Nat) (as : List Area) (acc : Bytes)
    (hk : k + as.length ≤ fm.hdr.nAreas)
    (hidx : ∀ j (h : j < as.length), fm.areas[k + j]? = some as[j])
    (hfit : ∀ a ∈ as, a.flags % 2 = 1 → a.offset + a.size ≤ img.length ∧ a.offset < img.length) :
    checksumLoop fm img k as acc = .ok (acc ++ staticConcat img as) := by
  induction as generalizing k acc with
  | nil => simp [checksumLoop, staticConcat]
  | cons a as ih =>
    simp only [checksumLoop]
    have hrest := fun acc' => ih (k + 1) acc' (by simp at hk; omega)
      (fun j h => by
        have := hidx (j + 1) (by simp; omega)
        simp only [List.getElem_cons_succ] at this
        rw [show k + 1 + j = k + (j + 1) by omega]; exact this)
      (fun x hx => hfit x (by simp [hx]))
    by_cases hs : a.flags % 2 = 0
    · rw [if_pos hs, hrest]
      simp [staticConcat, List.filter_cons, hs]
    · rw [if_neg hs]
      have hs1 : a.flags % 2 = 1 := by omega
      have ha0 := hidx 0 (by simp)
      simp only [Nat.add_zero, List.getElem_cons_zero] at ha0
      obtain ⟨f1, f2⟩ := hfit a (by simp) hs1
      rw [c13_readArea_exact fm img k a (by simp at hk; omega) ha0 f1 f2]
      simp only [Bool.false_eq_true, ↓reduceIte]
      rw [hrest]
      simp [staticConcat, List.filter_cons, hs1, List.append_assoc]

/-- The checksum is the hash of the static areas' bytes, concatenated in table order. -/
theorem c13_checksum_static (fm : FMap) (img : Bytes) (h : Bytes → Bytes)
    (hn : fm.areas.length = fm.hdr.nAreas)
    (hfit : ∀ a ∈ fm.areas, a.flags % 2 = 1 → a.offset + a.size ≤ img.length ∧ a.offset < img.length) :
    checksum fm img h = .ok (h (staticConcat img fm.areas)) := by
  unfold checksum
  have := checksumLoop_spec fm img 0 fm.areas [] (by omega)
    (fun j hj => by simp) hfit
  simp only [List.nil_append] at this
  rw [this]

/-! ## non-vacuity: the hypotheses are met by a concrete non-trivial map -/

def sampleName (s : Bytes) : Bytes := s ++ List.replicate (32 - s.length) 0

def sampleMap : FMap :=
  { hdr := { sig := signature, verMajor := 1, verMinor := 1, base := 0xff000000, size := 0x400,
             name := sampleName [0x46, 0x4c], nAreas := 2 }
    areas := [ { offset := 0, size := 0x10, name := sampleName [0x52, 0x4f], flags := 1 },
               { offset := 0x10, size := 0x20, name := sampleName [0x52, 0x57], flags := 0 } ] }

def sampleImg : Bytes := List.replicate 0xC0 0xAA

/-- the range theorems at indices whose low 16 / 32 bits are a valid index of the 2-area sample map -/
example : ∀ i ∈ ([65536, 65537, 2 * 65536 + 1, 2 ^ 31 - 1, 2 ^ 32, 2 ^ 32 + 1, 2 ^ 63 - 1, 2, 3, 65535,
      -1, -65535, -65536, -(2 ^ 32) + 1, -(2 ^ 63)] : List Int),
    readArea sampleMap sampleImg i = .error .range ∧ writeArea sampleMap sampleImg i [1, 2] = .error .range := by
  intro i hi
  have : i < 0 ∨ ((sampleMap.hdr.nAreas : Nat) : Int) ≤ i := by
    simp only [List.mem_cons, List.not_mem_nil, or_false] at hi
    simp only [sampleMap]
    omega
  exact ⟨c13_readArea_range _ _ _ this, c13_writeArea_range _ _ _ _ this⟩

example : sampleMap.WT ∧ sampleMap.areas.length = sampleMap.hdr.nAreas ∧
    headerValid sampleMap.hdr = true := by
  refine ⟨⟨⟨?_, ?_, ?_, ?_, ?_, ?_, ?_⟩, ?_⟩, rfl, by simp [headerValid, sampleMap, sampleName]⟩
  all_goals try (simp [sampleMap, sampleName, signature]; done)
  intro a ha
  simp only [sampleMap, List.mem_cons, List.not_mem_nil, or_false] at ha
  rcases ha with rfl | rfl <;> constructor <;> simp [sampleName]

end Fiano.Fmap
