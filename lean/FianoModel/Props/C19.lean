/-
  C19 — CBFS listing and extraction return exactly what the archive holds.
  Property theorems only; helper lemmas live in Cbfs/Lemmas.lean (well-formed archives) and
  Cbfs/Inv.lean (inversion on arbitrary input). All statements are unbounded: every archive
  (any number of records, any name / attribute / data / gap lengths), every image.

  The model (Cbfs/Model.lean) is the code as repaired by fixes/C19-*.diff and
  fixes/C20-cbfs-bounds.diff; on the unrepaired code `c19_list_exact` and `c19_files_exact` are
  false (§8 rows 15, 16 and the new rows of reports/C19.md; inputs in corpus/C19).

  Follow-up wp-c19b: the re-serialising write-back `Image.Update` with the `Write` methods
  (Cbfs/Write.lean; C19.5b), the text / JSON presentation (Cbfs/Present.lean; C19.1b) and the attribute
  walk as a function of the attribute list (C19.1c); code as repaired by fixes/C19-update-in-place.diff
  and fixes/C19-list-compression-const.diff.
-/
import FianoModel.Cbfs.ImageLemmas
import FianoModel.Cbfs.UpdateLemmas
import FianoModel.Cbfs.PresentLemmas
import FianoModel.Cbfs.PresentInj
import FianoModel.Cbfs.AttrLemmas
import FianoModel.Cbfs.UpdateHead
import FianoModel.Cbfs.Tie
import FianoModel.Cbfs.CodeTie   -- T1 code-as-code tie (wp-t1x): audited as a tie module of this check

namespace Fiano.Cbfs
open Spec

/-! ## C19.1 the listing is exact -/

/-- **list_exact.** For a well-formed archive the listing contains every record in archive order
    exactly once, with its name, type, record offset, size and compression attribute as stored. -/
theorem c19_list_exact (a : Archive) (w : a.WF) :
    (newImage (ser a)).map listing = .ok (entries 0 a.recs) := by
  obtain ⟨i, hi, hfiles, _⟩ := newImage_ser a w
  rw [hi]
  simp only [Except.map, listing]
  rw [entries_of_files a.recs i.segs 0 w.recs hfiles]

/-- and the reader locates the archive where the flash map says (offset and size of the area). -/
theorem c19_area_exact (a : Archive) (w : a.WF) :
    (newImage (ser a)).map (fun i => (i.areaOff, i.areaSize)) =
      .ok (a.pre.length, (serRecs a.fill a.recs).length) := by
  obtain ⟨i, hi, _, h1, h2, _⟩ := newImage_ser a w
  rw [hi]; simp [Except.map, h1, h2]

/-- **files_exact.** What the reader holds for each record — header fields, name, attribute
    bytes and data — is what the archive stores (`Spec.files`; an empty-space record is represented
    by 16 zero attribute bytes and `size` bytes of 0xFF). In particular the data of every file
    (any registered or unregistered type) is the stored data. -/
theorem c19_files_exact (a : Archive) (w : a.WF) :
    (newImage (ser a)).map (fun i => i.segs.map (·.file)) = .ok (files 0 a.recs) := by
  obtain ⟨i, hi, hfiles, _⟩ := newImage_ser a w
  rw [hi]; simp [Except.map, hfiles]

/-! ## C19.2 records lie inside the area and do not overlap — for EVERY accepted image -/

/-- **records_inside_disjoint.** Whatever image the reader accepts (well formed or not): every
    listed record, header through data, lies inside the COREBOOT area (and inside the image), the
    data offset is behind the 24-byte header, and the records are listed in strictly increasing,
    non-overlapping order. -/
theorem c19_records_inside_disjoint (img : Bytes) (i : Image) (h : newImage img = .ok i) :
    (∀ s ∈ i.segs, 24 ≤ s.file.subOff ∧
        s.file.recordStart + s.file.subOff + s.file.size ≤ i.areaSize ∧
        i.areaOff + s.file.recordStart + s.file.subOff + s.file.size ≤ img.length) ∧
    i.segs.Pairwise (fun x y => x.file.recordStart + x.file.subOff + x.file.size ≤ y.file.recordStart) := by
  obtain ⟨_, fm, s, ar, _, _, ho, hs, hc⟩ := newImage_inv img i h
  refine ⟨?_, chain_pairwise _ _ _ hc⟩
  intro x hx
  obtain ⟨_, sa⟩ := chain_lo _ _ _ hc x hx
  have hlen : (areaBytes img ar).length ≤ ar.size ∧ ar.offset + (areaBytes img ar).length ≤ img.length ∨
      (areaBytes img ar).length = 0 := by
    unfold areaBytes slice
    simp only [List.length_take, List.length_drop]
    omega
  have h1 := sa.hdr
  have h2 := sa.attrLe
  have h3 := sa.inside
  rw [ho, hs]
  omega

/-! ## C19.3 data returned = stored bytes at the data offset — for EVERY accepted image -/

/-- **data_exact.** For every file the reader lists (empty-space records excepted, whose content
    is represented, not read): the data it returns is the image bytes at
    `area offset + record offset + data offset`, `size` of them; the header fields, the name and
    the attribute bytes are likewise the stored ones. -/
theorem c19_data_exact (img : Bytes) (i : Image) (h : newImage img = .ok i) :
    ∀ s ∈ i.segs, isEmptyType s.file.type = false →
      s.file.fdata = slice img (i.areaOff + (s.file.recordStart + s.file.subOff)) s.file.size ∧
      s.file.fdata.length = s.file.size ∧
      slice img (i.areaOff + s.file.recordStart) 8 = magic ∧
      s.file.size = fromBE (slice img (i.areaOff + (s.file.recordStart + 8)) 4) ∧
      s.file.type = fromBE (slice img (i.areaOff + (s.file.recordStart + 12)) 4) := by
  obtain ⟨_, fm, st, ar, _, _, ho, hs, hc⟩ := newImage_inv img i h
  intro s hs' hne
  obtain ⟨_, sa⟩ := chain_lo _ _ _ hc s hs'
  have hin := sa.inside
  have hh := sa.hdr
  have hle := sa.attrLe
  have hal : (areaBytes img ar).length = min ar.size (img.length - ar.offset) ∨ (areaBytes img ar).length = 0 := by
    unfold areaBytes slice
    simp only [List.length_take, List.length_drop]
    omega
  have key : ∀ o l, o + l ≤ (areaBytes img ar).length →
      slice (areaBytes img ar) o l = slice img (ar.offset + o) l := by
    intro o l hol
    unfold areaBytes
    rw [slice_slice _ _ _ _ _ (by
      unfold areaBytes slice at hol
      simp only [List.length_take, List.length_drop] at hol
      omega)]
  rw [ho]
  refine ⟨?_, ?_, ?_, ?_, ?_⟩
  · rw [sa.data hne, key _ _ (by omega)]
  · rw [sa.data hne, slice_length _ _ _ (by omega)]
  · rw [← key _ _ (by omega)]; exact sa.magicAt
  · rw [← key _ _ (by omega)]; exact sa.size
  · rw [← key _ _ (by omega)]; exact sa.type

/-! ## C19.4 decompression returns the original content (conditional on the codec law) -/

/-- **decompress_original.** In a well-formed archive, for the `k`-th record `r` (a file, not empty
    space): if its compression attribute says LZMA (resp. LZ4) and its stored data is the encoding
    of `x` under a lawful LZMA (resp. LZ4) codec, then `Decompress` on the `k`-th listed record returns
    `x`; without compression it returns the stored data. The codec cores (ulikunitz/xz, pierrec/lz4)
    are third party: they enter as parameters with the law `dec (enc x) = some x`. -/
theorem c19_decompress_original (lzma lz4 : Codec) (a : Archive) (w : a.WF) (i : Image)
    (hi : newImage (ser a) = .ok i) (k : Nat) (r : Rec) (hr : a.recs[k]? = some r)
    (hne : isEmptyType r.type = false) :
    ∃ s, i.segs[k]? = some s ∧
      (compOf r.attrs = compNone → decompress lzma lz4 s.file = some r.data) ∧
      (∀ x, LawfulCodec lzma → compOf r.attrs = compLZMA → r.data = lzma.enc x →
        decompress lzma lz4 s.file = some x) ∧
      (∀ x, LawfulCodec lz4 → compOf r.attrs = compLZ4 → r.data = lz4.enc x →
        decompress lzma lz4 s.file = some x) := by
  obtain ⟨i', hi', hfiles, _⟩ := newImage_ser a w
  rw [hi] at hi'
  injection hi' with hi'
  subst hi'
  obtain ⟨o, ho⟩ := files_get a.recs 0 k r hr
  rw [← hfiles, List.getElem?_map] at ho
  cases hs : i.segs[k]? with
  | none => rw [hs] at ho; simp at ho
  | some s =>
    rw [hs] at ho
    simp only [Option.map_some, Option.some.injEq] at ho
    refine ⟨s, rfl, ?_⟩
    rw [ho]
    exact decompress_fileAt lzma lz4 r (w.recs r (List.mem_of_getElem? hr)) o hne

/-! ## C19.5 an image whose archive is not modified is written back byte-identical -/

/-- **write_back_id.** `WriteFile` after `NewImage` writes exactly the bytes that were read
    (for every accepted image). The write-back path that re-serializes the records
    (`Image.Update`) is the subject of C19.5b below. -/
theorem c19_write_back_id (img : Bytes) (i : Image) (h : newImage img = .ok i) : writeFile i = img :=
  (newImage_inv img i h).1

/-! ## C19.5b the re-serialising write-back `Image.Update` (follow-up wp-c19b)

  `update` is the code as repaired by fixes/C19-update-in-place.diff. On the code before the repair
  (`updateHead`) none of the identity statements holds; Cbfs/UpdateHead.lean proves what does hold there
  and gives a `decide`d witness for each way it changes an unmodified archive. -/

/-- **update_unmodified_id, on images with clean empty space.** The full statement — `Update` on any
    image as read leaves it byte-identical — is FALSE for the code even as repaired
    (`update_stale_empty_witness`); what is proved is the fragment `EmptyClean`. For EVERY image the reader accepts (well formed or not): `Update` on the
    image as read returns no error and leaves `Image.Data` byte-identical — provided the empty-space
    records are clean (`EmptyClean`: no attribute block, stored content all 0xFF). The reader does not keep
    the bytes of an empty-space record (it represents them by 0xFF / 16 zero bytes), so this hypothesis
    cannot be dropped (`update_stale_empty_witness` below); that residue stays in the known finding. -/
theorem c19_update_unmodified_id_clean (img : Bytes) (i : Image) (h : newImage img = .ok i) (hc : EmptyClean img i) :
    update i = (img, none) :=
  update_id_of_clean img i h hc

/-- **update_wf_id.** For a well-formed archive whose empty-space records hold only 0xFF (what cbfstool
    writes): read, `Update`, and the image is byte-identical — records of every type (raw and the other
    plain types, unregistered types, bootblock, master header, legacy stage, type-0x11 stage, SELF payload,
    empty space), any name / padding / attribute block / alignment gap. -/
theorem c19_update_wf_id_clean (a : Archive) (w : a.WF)
    (hff : ∀ r ∈ a.recs, isEmptyType r.type = true → r.data = List.replicate r.data.length 0xFF)
    (i : Image) (hi : newImage (ser a) = .ok i) : update i = (ser a, none) :=
  update_id_of_clean (ser a) i hi (emptyClean_ser a w hff i hi)

/-- **update_never_fails.** `Update` on an image that was just read never returns its
    `region … outside of CBFS` error (and has no slice expression that can fault) — every accepted image. -/
theorem c19_update_never_fails (img : Bytes) (i : Image) (h : newImage img = .ok i) : (update i).2 = none :=
  update_ok img i h

/-- `Update` never changes the length of `Image.Data` (any image value, any outcome). -/
theorem c19_update_length (i : Image) : (update i).1.length = i.data.length := update_length i

/-- what a record's `Write` emits is a prefix of the data the record holds — for every listed record of
    every accepted image (so a partial `Write`, like the type-0x11 stage's, leaves the rest in place). -/
theorem c19_write_prefix (img : Bytes) (i : Image) (h : newImage img = .ok i) :
    ∀ s ∈ i.segs, writeSeg s = s.file.fdata.take (writeSeg s).length := by
  obtain ⟨_, fm, st, ar, _, _, _, _, hch⟩ := newImage_inv img i h
  intro s hs
  exact writeSeg_prefix s (chain_lo _ _ _ hch s hs).2.legacy

/-! ## C19.1b the text and the JSON listing (follow-up wp-c19b) -/

/-- **text_exact.** `Image.String()` of a well-formed archive is the two header lines followed by
    `Spec.text`: for every record in archive order exactly one line `recString(name, offset, type name,
    size, compression name)` with the values as stored (empty space shows the name `(empty)`), a SELF
    payload followed by one line per segment header. Byte for byte, column padding included. -/
theorem c19_text_exact (a : Archive) (w : a.WF) :
    (newImage (ser a)).map textListing = .ok (textHeader ++ Spec.text 0 a.recs) := by
  obtain ⟨i, hi, hfiles, _⟩ := newImage_ser a w
  rw [hi]
  simp only [Except.map, textListing]
  rw [hfiles, textLines_files a.recs 0 w.recs]

/-- **json_exact.** The structure `Image.MarshalJSON` hands to encoding/json for a well-formed archive:
    the area offset and, for every record in archive order, name / start / size / type name /
    (segment table) / compression name as stored. -/
theorem c19_json_exact (a : Archive) (w : a.WF) :
    (newImage (ser a)).map jsonListing = .ok { offset := a.pre.length, segments := Spec.json 0 a.recs } := by
  obtain ⟨i, hi, hfiles, hao, _⟩ := newImage_ser a w
  rw [hi]
  simp only [Except.map, jsonListing, hao]
  have : i.segs.map (fun s => jrecOf s.file) = (i.segs.map (·.file)).map jrecOf := by
    rw [List.map_map]; rfl
  rw [this, hfiles, json_files a.recs 0 w.recs]

/-- **text_columns_identify.** The columns of a listing line determine the stored values: `%x` (offset
    and size columns) is injective on all naturals, the type column (`FileType.String`: one of 23 names, or
    `0x…` for any other value) identifies the stored type, and the compression column identifies the stored
    algorithm up to "anything that is not none / lzma / lz4" (all of which print as `unknown`). -/
theorem c19_text_columns_identify :
    (∀ a b, hex a = hex b → a = b) ∧ (∀ a b, typeName a = typeName b → a = b) ∧
    (∀ a b, compName a = compName b → a = b ∨ (2 < a ∧ 2 < b)) :=
  ⟨hex_inj, typeName_inj, compName_inj⟩

/-! ## C19.1c the attribute walk (follow-up wp-c19b) -/

/-- **compression_anywhere.** The compression a file is listed with is the `compression` field of its
    first `Compressed` attribute wherever that attribute stands: behind any number of attributes with
    other tags (known or unknown — they are skipped by their size field), in front of anything, and
    whatever bytes follow the attribute list inside the attribute block. -/
theorem c19_compression_anywhere (f : File) (pre post : List Attr) (c : Attr) (tail : Bytes)
    (hw : ∀ a ∈ pre ++ c :: post, a.WF) (hc : c.tag = tagCompressed)
    (hpre : ∀ a ∈ pre, a.tag ≠ tagCompressed) (h : f.attr = serAttrs (pre ++ c :: post) ++ tail) :
    compression f = if c.body.length < 8 then compNone else fromBE (c.body.take 4) := by
  rw [compression_attrs_tail f _ tail hw h ⟨c, by simp, hc⟩, compOf_anywhere pre post c hc hpre]

/-- **compression_absent.** Without a `Compressed` attribute — the attribute list followed by the end
    of the block, an end tag or unused 0xFF space — the file is listed as not compressed. -/
theorem c19_compression_absent (f : File) (as : List Attr) (tail : Bytes) (hw : ∀ a ∈ as, a.WF)
    (hc : ∀ a ∈ as, a.tag ≠ tagCompressed) (ht : AttrEnd tail) (h : f.attr = serAttrs as ++ tail) :
    compression f = compNone :=
  compression_attrs_none f as tail hw h hc ht

/-! ## C19.6 the reader terminates on every input -/

/-- The record walk always moves forward, so the fuel of the model is never exhausted:
    `NewImage` returns (a listing or an error) on every byte string. -/
theorem c19_walk_total (img : Bytes) : newImage img ≠ .error .fuel := by
  unfold newImage
  intro h
  split at h
  · cases h
  · split at h
    · cases h
    · simp only at h
      split at h
      · rename_i e hw
        injection h with h
        subst h
        exact walk_fuel_ok _ _ 0 (by omega) hw
      · cases h


/-! ## non-vacuity: the hypotheses are met by concrete, non-trivial values -/

/-- a concrete lawful codec (one marker byte in front of the stored content) -/
def storedCodec : Codec :=
  { enc := fun x => 0x53 :: x
    dec := fun y => match y with | 0x53 :: x => some x | _ => none }

theorem storedCodec_lawful : LawfulCodec storedCodec := fun _ => rfl

def sampleName (s : Bytes) : Bytes := s ++ List.replicate (32 - s.length) 0

def sampleMap : Fmap.FMap :=
  { hdr := { sig := Fmap.signature, verMajor := 1, verMinor := 1, base := 0xff000000, size := 258,
             name := sampleName [0x46, 0x4c], nAreas := 1 }
    areas := [{ offset := 98, size := 160, name := sampleName corebootName, flags := 0 }] }

/-- flash map (98 bytes) followed by a 160-byte archive of three records: an LZMA-marked raw file
    with an attribute block, an empty-space record, a file of an unregistered type followed by a
    gap of fill bytes -/
def sampleArchive : Archive :=
  { pre := Fmap.encode sampleMap, fill := 0xff, post := []
    recs := [
      { name := [0x61, 0x62], namePad := 14, type := 0x50
        attrs := [{ tag := tagCompressed, body := beN 4 compLZMA ++ beN 4 4 }]
        data := storedCodec.enc [2, 3, 4, 5], gap := 3 },
      { name := [], namePad := 16, type := typeDeleted2, attrs := [], data := List.replicate 8 0xff, gap := 0 },
      { name := [0x75], namePad := 15, type := 0x777, attrs := [], data := [0x44, 0x41, 0x54, 0x41], gap := 4 }] }

set_option maxRecDepth 1000000 in
theorem sample_read : Fmap.read (ser sampleArchive) = .ok (sampleMap, 0) := by rfl

theorem sample_wf : sampleArchive.WF := by
  constructor
  · intro r hr
    simp only [sampleArchive, List.mem_cons, List.not_mem_nil, or_false] at hr
    rcases hr with rfl | rfl | rfl
    · exact ⟨by decide, by decide, by decide, by decide, by
        intro a ha
        simp only [List.mem_cons, List.not_mem_nil, or_false] at ha
        subst ha; exact ⟨by decide, by decide, by decide⟩, by decide, fun h => absurd h (by decide),
        fun h => absurd h (by decide)⟩
    · exact ⟨by decide, by decide, by decide, by decide, by intro a ha; simp at ha, by decide,
        fun h => absurd h (by decide), fun h => absurd h (by decide)⟩
    · exact ⟨by decide, by decide, by decide, by decide, by intro a ha; simp at ha, by decide,
        fun h => absurd h (by decide), fun h => absurd h (by decide)⟩
  · exact ⟨sampleMap, 0, { offset := 98, size := 160, name := sampleName corebootName, flags := 0 },
      sample_read, by rfl, by rfl, by rfl⟩

/-- the conclusion of `c19_list_exact` on the sample, spelled out -/
example : (newImage (ser sampleArchive)).map listing = .ok
    [{ name := [0x61, 0x62], type := 0x50, offset := 0, size := 5, comp := compLZMA },
     { name := [], type := typeDeleted2, offset := 64, size := 8, comp := compNone },
     { name := [0x75], type := 0x777, offset := 112, size := 4, comp := compNone }] := by
  rw [c19_list_exact sampleArchive sample_wf]; rfl

/-- `c19_decompress_original` applies to record 0 of the sample with the concrete codec -/
example (i : Image) (hi : newImage (ser sampleArchive) = .ok i) :
    ∃ s, i.segs[0]? = some s ∧ decompress storedCodec storedCodec s.file = some [2, 3, 4, 5] := by
  obtain ⟨s, h1, _, h2, _⟩ := c19_decompress_original storedCodec storedCodec sampleArchive sample_wf i hi 0
    _ rfl (by decide)
  exact ⟨s, h1, h2 _ storedCodec_lawful (by decide) rfl⟩

/-- the type-specific hypotheses are inhabited: a SELF payload (one CODE and one ENTRY segment
    header plus a body) and a legacy stage (28-byte little-endian header, inner size 2, body 3) -/
example : payloadWF (beN 4 0x434F4445 ++ List.replicate 24 0 ++ (beN 4 segEntry ++ List.replicate 24 0) ++ [1, 2, 3]) :=
  ⟨1, by decide, by decide⟩

example : stageWF (List.replicate 20 0 ++ leN 4 2 ++ List.replicate 4 0 ++ [7, 8, 9]) :=
  ⟨by decide, by decide⟩

/-- `c19_update_wf_id_clean` applies to the sample archive (its empty-space record holds 8 × 0xFF) -/
example (i : Image) (hi : newImage (ser sampleArchive) = .ok i) : update i = (ser sampleArchive, none) :=
  c19_update_wf_id_clean sampleArchive sample_wf (by decide) i hi

/-- … and so does `c19_update_unmodified_id_clean`: `EmptyClean` is met -/
example (i : Image) (hi : newImage (ser sampleArchive) = .ok i) : EmptyClean (ser sampleArchive) i :=
  emptyClean_ser sampleArchive sample_wf (by decide) i hi

/-- the hypotheses of `c19_compression_anywhere` are met by a block of three attributes (a hash
    attribute, an LZ4 compression attribute, an unknown tag) followed by unused 0xFF space -/
def sampleAttrFile : File :=
  { size := 0, type := 0x50, attrOff := 40, subOff := 96, recordStart := 0, name := [0x61],
    attr := serAttrs ([{ tag := 0x68736148, body := [0, 0, 0, 1, 0xAA, 0xBB] }] ++
              { tag := tagCompressed, body := beN 4 compLZ4 ++ beN 4 100 } ::
              [{ tag := 0x12345678, body := [] }]) ++ List.replicate 10 0xFF,
    fdata := [] }

example : compression sampleAttrFile = compLZ4 := by
  rw [c19_compression_anywhere sampleAttrFile [{ tag := 0x68736148, body := [0, 0, 0, 1, 0xAA, 0xBB] }]
    [{ tag := 0x12345678, body := [] }] { tag := tagCompressed, body := beN 4 compLZ4 ++ beN 4 100 }
    (List.replicate 10 0xFF) (by
      intro a ha
      simp only [List.cons_append, List.nil_append, List.mem_cons, List.not_mem_nil, or_false] at ha
      rcases ha with rfl | rfl | rfl <;> exact ⟨by decide, by decide, by decide⟩) rfl (by decide) rfl]
  decide

example : AttrEnd (List.replicate 10 0xFF) := Or.inr (Or.inr (by decide))

end Fiano.Cbfs
