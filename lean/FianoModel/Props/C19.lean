/-
  C19 — CBFS listing and extraction return exactly what the archive holds.
  Property theorems only; helper lemmas live in Cbfs/Lemmas.lean (well-formed archives) and
  Cbfs/Inv.lean (inversion on arbitrary input). All statements are unbounded: every archive
  (any number of records, any name / attribute / data / gap lengths), every image.

  The model (Cbfs/Model.lean) is the code as repaired by fixes/C19-*.diff and
  fixes/C20-cbfs-bounds.diff; on the unrepaired code `c19_list_exact` and `c19_files_exact` are
  false (§8 rows 15, 16 and the new rows of reports/C19.md; inputs in corpus/C19).

  Follow-up wp-c19b: the re-serialising write-back `Image.Update` with the `Write` methods
  (Cbfs/Write.lean; C19.5b), the text / JSON presentation (Cbfs/Present.lean; C19.1b) and the attribute
  walk as a function of the attribute list (C19.1c); code as repaired by fixes/C19-update-in-place.diff
  and fixes/C19-list-compression-const.diff.
-/
import FianoModel.Cbfs.ImageLemmas
import FianoModel.Cbfs.UpdateLemmas
import FianoModel.Cbfs.PresentLemmas
import FianoModel.Cbfs.PresentInj
import FianoModel.Cbfs.AttrLemmas
import FianoModel.Cbfs.UpdateHead
import FianoModel.Cbfs.Tie
import FianoModel.Cbfs.CodeTie   -- T1 code-as-code tie (wp-t1x): audited as a tie module of this check
import FianoModel.Cbfs.KeepWf    -- follow-up wp-c19c: NewEmptyRecord as repaired (C19.7)
import FianoModel.Cbfs.RemoveUpdate  -- follow-up wp-c19c: Image.Remove (C19.8)
import FianoModel.Cbfs.Utf8Spec      -- follow-up wp-c19c: the UTF-8 scanner against RFC 3629 (C19.1d)

namespace Fiano.Cbfs
open Spec

/-! ## C19.1 the listing is exact -/

/-- **list_exact.** For a well-formed archive the listing contains every record in archive order
    exactly once, with its name, type, record offset, size and compression attribute as stored. -/
theorem c19_list_exact (a : Archive) (w : a.WF) :
    (newImage (ser a)).map listing = .ok (entries 0 a.recs) := by
  obtain ⟨i, hi, hfiles, _⟩ := newImage_ser a w
  rw [hi]
  simp only [Except.map, listing]
  rw [entries_of_files a.recs i.segs 0 w.recs hfiles]

/-- and the reader locates the archive where the flash map says (offset and size of the area). -/
theorem c19_area_exact (a : Archive) (w : a.WF) :
    (newImage (ser a)).map (fun i => (i.areaOff, i.areaSize)) =
      .ok (a.pre.length, (serRecs a.fill a.recs).length) := by
  obtain ⟨i, hi, _, h1, h2, _⟩ := newImage_ser a w
  rw [hi]; simp [Except.map, h1, h2]

/-- **files_exact.** What the reader holds for each record — header fields, name, attribute
    bytes and data — is what the archive stores (`Spec.files`; an empty-space record is represented
    by 16 zero attribute bytes and `size` bytes of 0xFF). In particular the data of every file
    (any registered or unregistered type) is the stored data. -/
theorem c19_files_exact (a : Archive) (w : a.WF) :
    (newImage (ser a)).map (fun i => i.segs.map (·.file)) = .ok (files 0 a.recs) := by
  obtain ⟨i, hi, hfiles, _⟩ := newImage_ser a w
  rw [hi]; simp [Except.map, hfiles]

/-! ## C19.2 records lie inside the area and do not overlap — for EVERY accepted image -/

/-- **records_inside_disjoint.** Whatever image the reader accepts (well formed or not): every
    listed record, header through data, lies inside the COREBOOT area (and inside the image), the
    data offset is behind the 24-byte header, and the records are listed in strictly increasing,
    non-overlapping order. -/
theorem c19_records_inside_disjoint (img : Bytes) (i : Image) (h : newImage img = .ok i) :
    (∀ s ∈ i.segs, 24 ≤ s.file.subOff ∧
        s.file.recordStart + s.file.subOff + s.file.size ≤ i.areaSize ∧
        i.areaOff + s.file.recordStart + s.file.subOff + s.file.size ≤ img.length) ∧
    i.segs.Pairwise (fun x y => x.file.recordStart + x.file.subOff + x.file.size ≤ y.file.recordStart) := by
  obtain ⟨_, fm, s, ar, _, _, ho, hs, hc⟩ := newImage_inv img i h
  refine ⟨?_, chain_pairwise _ _ _ hc⟩
  intro x hx
  obtain ⟨_, sa⟩ := chain_lo _ _ _ hc x hx
  have hlen : (areaBytes img ar).length ≤ ar.size ∧ ar.offset + (areaBytes img ar).length ≤ img.length ∨
      (areaBytes img ar).length = 0 := by
    unfold areaBytes slice
    simp only [List.length_take, List.length_drop]
    omega
  have h1 := sa.hdr
  have h2 := sa.attrLe
  have h3 := sa.inside
  rw [ho, hs]
  omega

/-! ## C19.3 data returned = stored bytes at the data offset — for EVERY accepted image -/

/-- **data_exact.** For every file the reader lists (empty-space records excepted, whose content
    is represented, not read): the data it returns is the image bytes at
    `area offset + record offset + data offset`, `size` of them; the header fields, the name and
    the attribute bytes are likewise the stored ones. -/
theorem c19_data_exact (img : Bytes) (i : Image) (h : newImage img = .ok i) :
    ∀ s ∈ i.segs, isEmptyType s.file.type = false →
      s.file.fdata = slice img (i.areaOff + (s.file.recordStart + s.file.subOff)) s.file.size ∧
      s.file.fdata.length = s.file.size ∧
      slice img (i.areaOff + s.file.recordStart) 8 = magic ∧
      s.file.size = fromBE (slice img (i.areaOff + (s.file.recordStart + 8)) 4) ∧
      s.file.type = fromBE (slice img (i.areaOff + (s.file.recordStart + 12)) 4) := by
  obtain ⟨_, fm, st, ar, _, _, ho, hs, hc⟩ := newImage_inv img i h
  intro s hs' hne
  obtain ⟨_, sa⟩ := chain_lo _ _ _ hc s hs'
  have hin := sa.inside
  have hh := sa.hdr
  have hle := sa.attrLe
  have hal : (areaBytes img ar).length = min ar.size (img.length - ar.offset) ∨ (areaBytes img ar).length = 0 := by
    unfold areaBytes slice
    simp only [List.length_take, List.length_drop]
    omega
  have key : ∀ o l, o + l ≤ (areaBytes img ar).length →
      slice (areaBytes img ar) o l = slice img (ar.offset + o) l := by
    intro o l hol
    unfold areaBytes
    rw [slice_slice _ _ _ _ _ (by
      unfold areaBytes slice at hol
      simp only [List.length_take, List.length_drop] at hol
      omega)]
  rw [ho]
  refine ⟨?_, ?_, ?_, ?_, ?_⟩
  · rw [sa.data hne, key _ _ (by omega)]
  · rw [sa.data hne, slice_length _ _ _ (by omega)]
  · rw [← key _ _ (by omega)]; exact sa.magicAt
  · rw [← key _ _ (by omega)]; exact sa.size
  · rw [← key _ _ (by omega)]; exact sa.type

/-! ## C19.4 decompression returns the original content (conditional on the codec law) -/

/-- **decompress_original.** In a well-formed archive, for the `k`-th record `r` (a file, not empty
    space): if its compression attribute says LZMA (resp. LZ4) and its stored data is the encoding
    of `x` under a lawful LZMA (resp. LZ4) codec, then `Decompress` on the `k`-th listed record returns
    `x`; without compression it returns the stored data. The codec cores (ulikunitz/xz, pierrec/lz4)
    are third party: they enter as parameters with the law `dec (enc x) = some x`. -/
theorem c19_decompress_original (lzma lz4 : Codec) (a : Archive) (w : a.WF) (i : Image)
    (hi : newImage (ser a) = .ok i) (k : Nat) (r : Rec) (hr : a.recs[k]? = some r)
    (hne : isEmptyType r.type = false) :
    ∃ s, i.segs[k]? = some s ∧
      (compOf r.attrs = compNone → decompress lzma lz4 s.file = some r.data) ∧
      (∀ x, LawfulCodec lzma → compOf r.attrs = compLZMA → r.data = lzma.enc x →
        decompress lzma lz4 s.file = some x) ∧
      (∀ x, LawfulCodec lz4 → compOf r.attrs = compLZ4 → r.data = lz4.enc x →
        decompress lzma lz4 s.file = some x) := by
  obtain ⟨i', hi', hfiles, _⟩ := newImage_ser a w
  rw [hi] at hi'
  injection hi' with hi'
  subst hi'
  obtain ⟨o, ho⟩ := files_get a.recs 0 k r hr
  rw [← hfiles, List.getElem?_map] at ho
  cases hs : i.segs[k]? with
  | none => rw [hs] at ho; simp at ho
  | some s =>
    rw [hs] at ho
    simp only [Option.map_some, Option.some.injEq] at ho
    refine ⟨s, rfl, ?_⟩
    rw [ho]
    exact decompress_fileAt lzma lz4 r (w.recs r (List.mem_of_getElem? hr)) o hne

/-! ## C19.5 an image whose archive is not modified is written back byte-identical -/

/-- **write_back_id.** `WriteFile` after `NewImage` writes exactly the bytes that were read
    (for every accepted image). The write-back path that re-serializes the records
    (`Image.Update`) is the subject of C19.5b below. -/
theorem c19_write_back_id (img : Bytes) (i : Image) (h : newImage img = .ok i) : writeFile i = img :=
  (newImage_inv img i h).1

/-! ## C19.5b the re-serialising write-back `Image.Update` (follow-up wp-c19b)

  `update` is the code as repaired by fixes/C19-update-in-place.diff. On the code before the repair
  (`updateHead`) none of the identity statements holds; Cbfs/UpdateHead.lean proves what does hold there
  and gives a `decide`d witness for each way it changes an unmodified archive. -/

/-- **update_unmodified_id, on images with clean empty space.** The full statement — `Update` on any
    image as read leaves it byte-identical — is FALSE for the code even as repaired
    (`update_stale_empty_witness`); what is proved is the fragment `EmptyClean`. For EVERY image the reader accepts (well formed or not): `Update` on the
    image as read returns no error and leaves `Image.Data` byte-identical — provided the empty-space
    records are clean (`EmptyClean`: no attribute block, stored content all 0xFF). The reader does not keep
    the bytes of an empty-space record (it represents them by 0xFF / 16 zero bytes), so this hypothesis
    cannot be dropped (`update_stale_empty_witness` below); that residue stays in the known finding. -/
theorem c19_update_unmodified_id_clean (img : Bytes) (i : Image) (h : newImage img = .ok i) (hc : EmptyClean img i) :
    update i = (img, none) :=
  update_id_of_clean img i h hc

/-- **update_wf_id.** For a well-formed archive whose empty-space records hold only 0xFF (what cbfstool
    writes): read, `Update`, and the image is byte-identical — records of every type (raw and the other
    plain types, unregistered types, bootblock, master header, legacy stage, type-0x11 stage, SELF payload,
    empty space), any name / padding / attribute block / alignment gap. -/
theorem c19_update_wf_id_clean (a : Archive) (w : a.WF)
    (hff : ∀ r ∈ a.recs, isEmptyType r.type = true → r.data = List.replicate r.data.length 0xFF)
    (i : Image) (hi : newImage (ser a) = .ok i) : update i = (ser a, none) :=
  update_id_of_clean (ser a) i hi (emptyClean_ser a w hff i hi)

/-- **update_never_fails.** `Update` on an image that was just read never returns its
    `region … outside of CBFS` error (and has no slice expression that can fault) — every accepted image. -/
theorem c19_update_never_fails (img : Bytes) (i : Image) (h : newImage img = .ok i) : (update i).2 = none :=
  update_ok img i h

/-- `Update` never changes the length of `Image.Data` (any image value, any outcome). -/
theorem c19_update_length (i : Image) : (update i).1.length = i.data.length := update_length i

/-- what a record's `Write` emits is a prefix of the data the record holds — for every listed record of
    every accepted image (so a partial `Write`, like the type-0x11 stage's, leaves the rest in place). -/
theorem c19_write_prefix (img : Bytes) (i : Image) (h : newImage img = .ok i) :
    ∀ s ∈ i.segs, writeSeg s = s.file.fdata.take (writeSeg s).length := by
  obtain ⟨_, fm, st, ar, _, _, _, _, hch⟩ := newImage_inv img i h
  intro s hs
  exact writeSeg_prefix s (chain_lo _ _ _ hch s hs).2.legacy

/-! ## C19.1b the text and the JSON listing (follow-up wp-c19b) -/

/-- **text_exact.** `Image.String()` of a well-formed archive is the two header lines followed by
    `Spec.text`: for every record in archive order exactly one line `recString(name, offset, type name,
    size, compression name)` with the values as stored (empty space shows the name `(empty)`), a SELF
    payload followed by one line per segment header. Byte for byte, column padding included. -/
theorem c19_text_exact (a : Archive) (w : a.WF) :
    (newImage (ser a)).map textListing = .ok (textHeader ++ Spec.text 0 a.recs) := by
  obtain ⟨i, hi, hfiles, _⟩ := newImage_ser a w
  rw [hi]
  simp only [Except.map, textListing]
  rw [hfiles, textLines_files a.recs 0 w.recs]

/-- **json_exact.** The structure `Image.MarshalJSON` hands to encoding/json for a well-formed archive:
    the area offset and, for every record in archive order, name / start / size / type name /
    (segment table) / compression name as stored. -/
theorem c19_json_exact (a : Archive) (w : a.WF) :
    (newImage (ser a)).map jsonListing = .ok { offset := a.pre.length, segments := Spec.json 0 a.recs } := by
  obtain ⟨i, hi, hfiles, hao, _⟩ := newImage_ser a w
  rw [hi]
  simp only [Except.map, jsonListing, hao]
  have : i.segs.map (fun s => jrecOf s.file) = (i.segs.map (·.file)).map jrecOf := by
    rw [List.map_map]; rfl
  rw [this, hfiles, json_files a.recs 0 w.recs]

/-- **text_columns_identify.** The columns of a listing line determine the stored values: `%x` (offset
    and size columns) is injective on all naturals, the type column (`FileType.String`: one of 23 names, or
    `0x…` for any other value) identifies the stored type, and the compression column identifies the stored
    algorithm up to "anything that is not none / lzma / lz4" (all of which print as `unknown`). -/
theorem c19_text_columns_identify :
    (∀ a b, hex a = hex b → a = b) ∧ (∀ a b, typeName a = typeName b → a = b) ∧
    (∀ a b, compName a = compName b → a = b ∨ (2 < a ∧ 2 < b)) :=
  ⟨hex_inj, typeName_inj, compName_inj⟩

/-! ## C19.1c the attribute walk (follow-up wp-c19b) -/

/-- **compression_anywhere.** The compression a file is listed with is the `compression` field of its
    first `Compressed` attribute wherever that attribute stands: behind any number of attributes with
    other tags (known or unknown — they are skipped by their size field), in front of anything, and
    whatever bytes follow the attribute list inside the attribute block. -/
theorem c19_compression_anywhere (f : File) (pre post : List Attr) (c : Attr) (tail : Bytes)
    (hw : ∀ a ∈ pre ++ c :: post, a.WF) (hc : c.tag = tagCompressed)
    (hpre : ∀ a ∈ pre, a.tag ≠ tagCompressed) (h : f.attr = serAttrs (pre ++ c :: post) ++ tail) :
    compression f = if c.body.length < 8 then compNone else fromBE (c.body.take 4) := by
  rw [compression_attrs_tail f _ tail hw h ⟨c, by simp, hc⟩, compOf_anywhere pre post c hc hpre]

/-- **compression_absent.** Without a `Compressed` attribute — the attribute list followed by the end
    of the block, an end tag or unused 0xFF space — the file is listed as not compressed. -/
theorem c19_compression_absent (f : File) (as : List Attr) (tail : Bytes) (hw : ∀ a ∈ as, a.WF)
    (hc : ∀ a ∈ as, a.tag ≠ tagCompressed) (ht : AttrEnd tail) (h : f.attr = serAttrs as ++ tail) :
    compression f = compNone :=
  compression_attrs_none f as tail hw h hc ht

/-! ## C19.6 the reader terminates on every input -/

/-- The record walk always moves forward, so the fuel of the model is never exhausted:
    `NewImage` returns (a listing or an error) on every byte string. -/
theorem c19_walk_total (img : Bytes) : newImage img ≠ .error .fuel := by
  unfold newImage
  intro h
  split at h
  · cases h
  · split at h
    · cases h
    · simp only at h
      split at h
      · rename_i e hw
        injection h with h
        subst h
        exact walk_fuel_ok _ _ 0 (by omega) hw
      · cases h


/-! ## C19.1d the UTF-8 scanner of the listing against a specification of UTF-8 (follow-up wp-c19c)

  `%-32s` pads the name column by RUNES (`runeCount` = utf8.RuneCountInString) and encoding/json replaces
  what is not valid UTF-8 by U+FFFD (`coerceUTF8`). Specification (Cbfs/Utf8Spec.lean, written from RFC 3629):
  `Scalar` = code points ≤ U+10FFFF without the surrogates, `encodeRune` = the 1–4 byte encoding. -/

/-- **utf8_wellformed.** On the UTF-8 encoding of any string of Unicode scalar values the scanner counts
    exactly one rune per scalar value and the JSON coercion is the identity. -/
theorem c19_utf8_wellformed (cps : List Nat) (h : ∀ cp ∈ cps, Scalar cp) :
    runeCount (encodeAll cps) = cps.length ∧ coerceUTF8 (encodeAll cps) = encodeAll cps :=
  utf8_wellformed cps h

/-- **utf8_scanner_sound.** Wherever the scanner takes MORE than one byte as a rune, these bytes are the
    encoding of a scalar value ≥ U+0080 (shortest form, no surrogate, ≤ U+10FFFF): nothing ill-formed —
    overlong forms, surrogates, truncated sequences, stray continuation bytes, 0xF5..0xFF — is ever
    accepted as a multi-byte rune; it is taken one byte at a time. -/
theorem c19_utf8_scanner_sound (c : UInt8) (t : Bytes) (hk : runeLen (c :: t) ≠ 1) :
    ∃ cp, Scalar cp ∧ 0x80 ≤ cp ∧ (c :: t).take (runeLen (c :: t)) = encodeRune cp :=
  runeLen_sound c t hk

/-- **utf8_positions.** One step of the scan, both cases: at the encoding of a scalar value — one rune,
    kept by JSON, the scan continues behind it; at a byte ≥ 0x80 that the scanner takes alone (ill formed) —
    one rune (width 1), replaced by the encoding of U+FFFD in JSON, the scan continues at the next byte. -/
theorem c19_utf8_positions (fuel : Nat) (t : Bytes) :
    (∀ cp, Scalar cp → runeCountF (fuel + 1) (encodeRune cp ++ t) = 1 + runeCountF fuel t ∧
      coerceF (fuel + 1) (encodeRune cp ++ t) = encodeRune cp ++ coerceF fuel t) ∧
    (∀ c : UInt8, runeLen (c :: t) = 1 → 0x80 ≤ c.toNat →
      runeCountF (fuel + 1) (c :: t) = 1 + runeCountF fuel t ∧
      coerceF (fuel + 1) (c :: t) = encodeRune 0xFFFD ++ coerceF fuel t) := by
  refine ⟨fun cp h => ?_, fun c h1 h2 => scan_illformed fuel c t h1 h2⟩
  obtain ⟨_, _, _, h1, h2⟩ := scan_wellformed fuel cp h t
  exact ⟨h1, h2⟩

/-- on an ASCII name the rune count is the byte count and the JSON coercion is the identity -/
theorem c19_runes_ascii (b : Bytes) (h : ∀ c ∈ b, c.toNat < 0x80) : runeCount b = b.length ∧ coerceUTF8 b = b :=
  runes_ascii b h


/-! ## C19.7 the reader as repaired by fixes/C19-update-empty-identity.diff (follow-up wp-c19c)

  `NewEmptyRecord` keeps the file as it was read, like every other record constructor (`newImageK`,
  Cbfs/Keep.lean); `newImage` above is the reader before that repair, which represents an empty-space
  record by 16 zero attribute bytes and `Size` × 0xFF. The harness observes which of the two the tree under
  test contains and ties that one (T2); T1: `tie_overwrites`. With the repair the last clause of the
  property holds at full strength: `c19_update_unmodified_id` has no hypothesis about empty space. -/

/-- the two readers accept the same images and return the same listing structure; they differ only in
    the attribute / data bytes held for empty-space records (`reprImage` = represent those) -/
theorem c19_readers_agree (img : Bytes) : newImage img = (newImageK img).map reprImage :=
  newImage_eq_newImageK img

/-- **update_unmodified_id** (full strength). For EVERY image the repaired reader accepts (well formed or
    not; empty space clean, stale or with an attribute block): `Update` on the image as read returns no
    error and leaves `Image.Data` byte-identical. -/
theorem c19_update_unmodified_id (img : Bytes) (i : Image) (h : newImageK img = .ok i) :
    update i = (img, none) :=
  updateK_id img i h

/-- **update_relist.** Re-reading the bytes `Update` left behind gives the very same image value — so the
    listing, the text and the JSON structure of an unmodified archive are unchanged after `Update`
    (every accepted image). -/
theorem c19_update_relist (img : Bytes) (i : Image) (h : newImageK img = .ok i) :
    newImageK (update i).1 = .ok i ∧
    (newImageK (update i).1).map listing = .ok (listing i) ∧
    (newImageK (update i).1).map textListing = .ok (textListing i) ∧
    (newImageK (update i).1).map jsonListing = .ok (jsonListing i) := by
  rw [updateK_id img i h]
  simp only [h, Except.map, and_self]

/-- the same for the reader before the repair, on the fragment it is the identity on (`EmptyClean`); on
    an image with stale empty space the statement is FALSE for that code when the stale bytes are what makes
    the image readable (an empty-space record that covers the flash map: the harness excludes such layouts
    from its re-list oracle) -/
theorem c19_update_relist_clean (img : Bytes) (i : Image) (h : newImage img = .ok i) (hc : EmptyClean img i) :
    newImage (update i).1 = .ok i := by
  rw [update_id_of_clean img i h hc]; exact h

/-- **list_exact** for the repaired reader -/
theorem c19_keep_list_exact (a : Archive) (w : a.WF) :
    (newImageK (ser a)).map listing = .ok (entries 0 a.recs) := by
  obtain ⟨i, hi, hfiles, _⟩ := newImageK_ser a w
  rw [hi]
  simp only [Except.map, listing]
  rw [entries_of_rawFiles a.recs i.segs 0 w.recs hfiles]

theorem c19_keep_area_exact (a : Archive) (w : a.WF) :
    (newImageK (ser a)).map (fun i => (i.areaOff, i.areaSize)) =
      .ok (a.pre.length, (serRecs a.fill a.recs).length) := by
  obtain ⟨i, hi, _, h1, h2, _⟩ := newImageK_ser a w
  rw [hi]; simp [Except.map, h1, h2]

/-- **files_exact** for the repaired reader, stronger than before: what it holds for EVERY record —
    empty space included — is the stored header fields, name, attribute bytes and data (`rawFiles`) -/
theorem c19_keep_files_exact (a : Archive) (w : a.WF) :
    (newImageK (ser a)).map (fun i => i.segs.map (·.file)) = .ok (rawFiles 0 a.recs) := by
  obtain ⟨i, hi, hfiles, _⟩ := newImageK_ser a w
  rw [hi]; simp [Except.map, hfiles]

/-- **update_wf_id** (full strength): read a well-formed archive, `Update`, byte-identical — whatever its
    empty-space records hold -/
theorem c19_update_wf_id (a : Archive) (w : a.WF) :
    ∃ i, newImageK (ser a) = .ok i ∧ update i = (ser a, none) := by
  obtain ⟨i, hi, _⟩ := newImageK_ser a w
  exact ⟨i, hi, updateK_id _ i hi⟩

/-- **records_inside_disjoint** for the repaired reader (every accepted image) -/
theorem c19_keep_records_inside_disjoint (img : Bytes) (i : Image) (h : newImageK img = .ok i) :
    (∀ s ∈ i.segs, 24 ≤ s.file.subOff ∧
        s.file.recordStart + s.file.subOff + s.file.size ≤ i.areaSize ∧
        i.areaOff + s.file.recordStart + s.file.subOff + s.file.size ≤ img.length) ∧
    i.segs.Pairwise (fun x y => x.file.recordStart + x.file.subOff + x.file.size ≤ y.file.recordStart) := by
  obtain ⟨_, fm, s, ar, _, _, ho, hs, hc⟩ := newImageK_inv img i h
  refine ⟨?_, chainK_pairwise _ _ _ hc⟩
  intro x hx
  obtain ⟨_, sa⟩ := chainK_lo _ _ _ hc x hx
  obtain ⟨l1, l2⟩ := areaBytes_len img ar
  have h1 := sa.hdr
  have h2 := sa.attrLe
  have h3 := sa.inside
  rw [ho, hs]
  omega

/-- **data_exact** for the repaired reader: for EVERY listed record (no exception for empty space) the
    data held is the image bytes at `area offset + record offset + data offset`, the attribute bytes are
    the stored attribute block, and the header fields are the stored ones (every accepted image) -/
theorem c19_keep_data_exact (img : Bytes) (i : Image) (h : newImageK img = .ok i) :
    ∀ s ∈ i.segs,
      s.file.fdata = slice img (i.areaOff + (s.file.recordStart + s.file.subOff)) s.file.size ∧
      s.file.fdata.length = s.file.size ∧
      (s.file.attrOff ≠ 0 → s.file.attr =
        slice img (i.areaOff + (s.file.recordStart + s.file.attrOff)) (s.file.subOff - s.file.attrOff)) ∧
      slice img (i.areaOff + s.file.recordStart) 8 = magic ∧
      s.file.size = fromBE (slice img (i.areaOff + (s.file.recordStart + 8)) 4) ∧
      s.file.type = fromBE (slice img (i.areaOff + (s.file.recordStart + 12)) 4) := by
  obtain ⟨_, fm, st, ar, _, _, ho, hs, hc⟩ := newImageK_inv img i h
  intro s hs'
  obtain ⟨_, sa⟩ := chainK_lo _ _ _ hc s hs'
  have hin := sa.inside
  have hh := sa.hdr
  have hle := sa.attrLe
  obtain ⟨l1, l2⟩ := areaBytes_len img ar
  rw [ho]
  refine ⟨?_, ?_, ?_, ?_, ?_, ?_⟩
  · rw [sa.data, areaBytes_slice _ _ _ _ (by omega)]
  · rw [sa.data, slice_length _ _ _ (by omega)]
  · intro ha
    have hat := sa.attr
    rw [if_neg ha] at hat hle
    rw [hat, areaBytes_slice _ _ _ _ (by omega)]
  · rw [← areaBytes_slice _ _ _ _ (by omega)]; exact sa.magicAt
  · rw [← areaBytes_slice _ _ _ _ (by omega)]; exact sa.size
  · rw [← areaBytes_slice _ _ _ _ (by omega)]; exact sa.type

/-- **decompress_original** for the repaired reader -/
theorem c19_keep_decompress_original (lzma lz4 : Codec) (a : Archive) (w : a.WF) (i : Image)
    (hi : newImageK (ser a) = .ok i) (k : Nat) (r : Rec) (hr : a.recs[k]? = some r)
    (hne : isEmptyType r.type = false) :
    ∃ s, i.segs[k]? = some s ∧
      (compOf r.attrs = compNone → decompress lzma lz4 s.file = some r.data) ∧
      (∀ x, LawfulCodec lzma → compOf r.attrs = compLZMA → r.data = lzma.enc x →
        decompress lzma lz4 s.file = some x) ∧
      (∀ x, LawfulCodec lz4 → compOf r.attrs = compLZ4 → r.data = lz4.enc x →
        decompress lzma lz4 s.file = some x) := by
  obtain ⟨i', hi', hfiles, _⟩ := newImageK_ser a w
  rw [hi] at hi'
  injection hi' with hi'
  subst hi'
  obtain ⟨o, ho⟩ := rawFiles_get a.recs 0 k r hr
  rw [← hfiles, List.getElem?_map] at ho
  cases hs : i.segs[k]? with
  | none => rw [hs] at ho; simp at ho
  | some s =>
    rw [hs] at ho
    simp only [Option.map_some, Option.some.injEq] at ho
    refine ⟨s, rfl, ?_⟩
    rw [ho, rawFileAt_eq_fileAt r o hne]
    exact decompress_fileAt lzma lz4 r (w.recs r (List.mem_of_getElem? hr)) o hne

theorem c19_keep_write_back_id (img : Bytes) (i : Image) (h : newImageK img = .ok i) : writeFile i = img :=
  (newImageK_inv img i h).1

theorem c19_keep_write_prefix (img : Bytes) (i : Image) (h : newImageK img = .ok i) :
    ∀ s ∈ i.segs, writeSeg s = s.file.fdata.take (writeSeg s).length := by
  obtain ⟨_, fm, st, ar, _, _, _, _, hch⟩ := newImageK_inv img i h
  intro s hs
  exact writeSeg_prefix s (chainK_lo _ _ _ hch s hs).2.legacy

/-- **text_exact** / **json_exact** for the repaired reader: the same text and the same JSON structure -/
theorem c19_keep_text_exact (a : Archive) (w : a.WF) :
    (newImageK (ser a)).map textListing = .ok (textHeader ++ Spec.text 0 a.recs) := by
  obtain ⟨i, hi, hfiles, _⟩ := newImageK_ser a w
  rw [hi]
  simp only [Except.map, textListing]
  rw [hfiles, textLines_rawFiles a.recs 0 w.recs, textLines_files a.recs 0 w.recs]

theorem c19_keep_json_exact (a : Archive) (w : a.WF) :
    (newImageK (ser a)).map jsonListing = .ok { offset := a.pre.length, segments := Spec.json 0 a.recs } := by
  obtain ⟨i, hi, hfiles, hao, _⟩ := newImageK_ser a w
  rw [hi]
  simp only [Except.map, jsonListing, hao]
  have : i.segs.map (fun s => jrecOf s.file) = (i.segs.map (·.file)).map jrecOf := by
    rw [List.map_map]; rfl
  rw [this, hfiles, json_rawFiles a.recs 0 w.recs, json_files a.recs 0 w.recs]

/-- the repaired reader terminates on every input -/
theorem c19_keep_walk_total (img : Bytes) : newImageK img ≠ .error .fuel := by
  unfold newImageK
  intro h
  split at h
  · cases h
  · split at h
    · cases h
    · simp only at h
      split at h
      · rename_i e hw
        injection h with h
        subst h
        exact walkK_fuel_ok _ _ 0 (by omega) hw
      · cases h


/-! ## C19.8 `Image.Remove` (follow-up wp-c19c)

  `Remove` is the one modification pkg/cbfs offers; the property speaks about the unmodified archive only,
  so these theorems are about the model `removeSegs keep fix` (Cbfs/Keep.lean; `fix` = as repaired by
  fixes/C19-remove-merge-start.diff, `keep` = NewEmptyRecord as repaired), tied to the code by the M check
  `remove` (record list after `Remove`, bytes after the `Update` that follows) for the variant the tree
  contains. What the code before the repair gets wrong is recorded by `decide`d witnesses in
  Cbfs/RemoveLemmas.lean (`remove_head_witness_merge_before`, `_last`, `_wrap`). -/

/-- **remove_others_unchanged** (both variants). `Remove(n)` replaces a range of at most three
    consecutive records — the LAST record named `n` (never the first record) and the empty-space record
    directly in front of / behind it, if any — by ONE empty-space record; every other record is kept as it
    is and in order, and so is its listing entry. -/
theorem c19_remove_others_unchanged (keep fix : Bool) (segs segs' : List Seg) (n : Bytes)
    (h : removeSegs keep fix segs n = .ok segs') :
    ∃ found start end_ del, findLast n segs 0 none = some found ∧ 1 ≤ found ∧ found < segs.length ∧
      start ≤ found ∧ found < end_ ∧ found ≤ start + 1 ∧ end_ ≤ found + 2 ∧
      (∀ k s, start ≤ k → k < end_ → k ≠ found → segs[k]? = some s → deleted s = true) ∧
      segs'.take start = segs.take start ∧ segs'[start]? = some del ∧ segs'.drop (start + 1) = segs.drop end_ ∧
      segs'.map entryOf = (segs.take start).map entryOf ++ entryOf del :: (segs.drop end_).map entryOf ∧
      isEmptyType del.file.type = true ∧ del.file.name = [] ∧ del.file.attrOff = 0 ∧
      del.file.fdata = List.replicate del.file.size 0xFF :=
  removeSegs_others keep fix segs segs' n h

/-- **remove_extent** (as repaired). The record `Remove` creates begins where the merged range begins and
    ends exactly where the next record begins — behind the last record: where the last merged record ends —
    (offsets below 4 GiB), with at least the 0x28 bytes of its header and name field. FALSE before the
    repair: `remove_head_witness_merge_before`. -/
theorem c19_remove_extent (keep : Bool) (segs segs' : List Seg) (n : Bytes)
    (h : removeSegs keep true segs n = .ok segs') :
    ∃ (start end_ : Nat) (del sb : Seg) (top : Nat), segs'[start]? = some del ∧ segs[start]? = some sb ∧
      del.file.recordStart = sb.file.recordStart ∧ del.file.subOff = 0x28 ∧ sb.file.recordStart + 0x28 ≤ top ∧
      ((∃ st, segs[end_]? = some st ∧ top = st.file.recordStart) ∨
       (segs[end_]? = none ∧ ∃ sl, segs[end_ - 1]? = some sl ∧
          top = (sl.file.recordStart + sl.file.subOff + sl.file.size) % 2 ^ 32)) ∧
      (top < 2 ^ 32 → del.file.recordStart + del.file.subOff + del.file.size = top) :=
  removeSegs_fix_extent keep segs segs' n h

/-- **remove_update_outside** (both repairs). Read any image (< 4 GiB) the reader accepts, `Remove` a
    file, `Update`: no error, same length, and every byte outside `[area + base, area + top)` — `base` the
    start of the first merged record, `top` the start of the next record / the end of the last merged
    record — is left as it was: removing a file changes only that record (and the empty space it is
    merged with) into empty space. -/
theorem c19_remove_update_outside (img : Bytes) (i : Image) (h : newImageK img = .ok i)
    (hlen : img.length < 2 ^ 32) (n : Bytes) (segs' : List Seg) (hr : removeSegs true true i.segs n = .ok segs') :
    ∃ (start end_ : Nat) (sb : Seg) (top : Nat), i.segs[start]? = some sb ∧ start < end_ ∧
      ((∃ st, i.segs[end_]? = some st ∧ top = st.file.recordStart) ∨
       (i.segs[end_]? = none ∧ ∃ sl, i.segs[end_ - 1]? = some sl ∧
          top = sl.file.recordStart + sl.file.subOff + sl.file.size)) ∧
      sb.file.recordStart + 40 ≤ top ∧ top ≤ i.areaSize ∧ i.areaOff + top ≤ img.length ∧
      (update { i with segs := segs' }).2 = none ∧
      AgreeOut (i.areaOff + sb.file.recordStart) (i.areaOff + top) (update { i with segs := segs' }).1 img :=
  remove_update_outside img i h hlen n segs' hr


/-! ## non-vacuity: the hypotheses are met by concrete, non-trivial values -/

/-- a concrete lawful codec (one marker byte in front of the stored content) -/
def storedCodec : Codec :=
  { enc := fun x => 0x53 :: x
    dec := fun y => match y with | 0x53 :: x => some x | _ => none }

theorem storedCodec_lawful : LawfulCodec storedCodec := fun _ => rfl

def sampleName (s : Bytes) : Bytes := s ++ List.replicate (32 - s.length) 0

def sampleMap : Fmap.FMap :=
  { hdr := { sig := Fmap.signature, verMajor := 1, verMinor := 1, base := 0xff000000, size := 258,
             name := sampleName [0x46, 0x4c], nAreas := 1 }
    areas := [{ offset := 98, size := 160, name := sampleName corebootName, flags := 0 }] }

/-- flash map (98 bytes) followed by a 160-byte archive of three records: an LZMA-marked raw file
    with an attribute block, an empty-space record, a file of an unregistered type followed by a
    gap of fill bytes -/
def sampleArchive : Archive :=
  { pre := Fmap.encode sampleMap, fill := 0xff, post := []
    recs := [
      { name := [0x61, 0x62], namePad := 14, type := 0x50
        attrs := [{ tag := tagCompressed, body := beN 4 compLZMA ++ beN 4 4 }]
        data := storedCodec.enc [2, 3, 4, 5], gap := 3 },
      { name := [], namePad := 16, type := typeDeleted2, attrs := [], data := List.replicate 8 0xff, gap := 0 },
      { name := [0x75], namePad := 15, type := 0x777, attrs := [], data := [0x44, 0x41, 0x54, 0x41], gap := 4 }] }

set_option maxRecDepth 1000000 in
theorem sample_read : Fmap.read (ser sampleArchive) = .ok (sampleMap, 0) := by rfl

theorem sample_wf : sampleArchive.WF := by
  constructor
  · intro r hr
    simp only [sampleArchive, List.mem_cons, List.not_mem_nil, or_false] at hr
    rcases hr with rfl | rfl | rfl
    · exact ⟨by decide, by decide, by decide, by decide, by
        intro a ha
        simp only [List.mem_cons, List.not_mem_nil, or_false] at ha
        subst ha; exact ⟨by decide, by decide, by decide⟩, by decide, fun h => absurd h (by decide),
        fun h => absurd h (by decide)⟩
    · exact ⟨by decide, by decide, by decide, by decide, by intro a ha; simp at ha, by decide,
        fun h => absurd h (by decide), fun h => absurd h (by decide)⟩
    · exact ⟨by decide, by decide, by decide, by decide, by intro a ha; simp at ha, by decide,
        fun h => absurd h (by decide), fun h => absurd h (by decide)⟩
  · exact ⟨sampleMap, 0, { offset := 98, size := 160, name := sampleName corebootName, flags := 0 },
      sample_read, by rfl, by rfl, by rfl⟩

/-- the conclusion of `c19_list_exact` on the sample, spelled out -/
example : (newImage (ser sampleArchive)).map listing = .ok
    [{ name := [0x61, 0x62], type := 0x50, offset := 0, size := 5, comp := compLZMA },
     { name := [], type := typeDeleted2, offset := 64, size := 8, comp := compNone },
     { name := [0x75], type := 0x777, offset := 112, size := 4, comp := compNone }] := by
  rw [c19_list_exact sampleArchive sample_wf]; rfl

/-- `c19_decompress_original` applies to record 0 of the sample with the concrete codec -/
example (i : Image) (hi : newImage (ser sampleArchive) = .ok i) :
    ∃ s, i.segs[0]? = some s ∧ decompress storedCodec storedCodec s.file = some [2, 3, 4, 5] := by
  obtain ⟨s, h1, _, h2, _⟩ := c19_decompress_original storedCodec storedCodec sampleArchive sample_wf i hi 0
    _ rfl (by decide)
  exact ⟨s, h1, h2 _ storedCodec_lawful (by decide) rfl⟩

/-- the type-specific hypotheses are inhabited: a SELF payload (one CODE and one ENTRY segment
    header plus a body) and a legacy stage (28-byte little-endian header, inner size 2, body 3) -/
example : payloadWF (beN 4 0x434F4445 ++ List.replicate 24 0 ++ (beN 4 segEntry ++ List.replicate 24 0) ++ [1, 2, 3]) :=
  ⟨1, by decide, by decide⟩

example : stageWF (List.replicate 20 0 ++ leN 4 2 ++ List.replicate 4 0 ++ [7, 8, 9]) :=
  ⟨by decide, by decide⟩

/-- `c19_update_wf_id_clean` applies to the sample archive (its empty-space record holds 8 × 0xFF) -/
example (i : Image) (hi : newImage (ser sampleArchive) = .ok i) : update i = (ser sampleArchive, none) :=
  c19_update_wf_id_clean sampleArchive sample_wf (by decide) i hi

/-- … and so does `c19_update_unmodified_id_clean`: `EmptyClean` is met -/
example (i : Image) (hi : newImage (ser sampleArchive) = .ok i) : EmptyClean (ser sampleArchive) i :=
  emptyClean_ser sampleArchive sample_wf (by decide) i hi


/-! non-vacuity of C19.7 (follow-up wp-c19c) -/

/-- the sample archive with STALE content in its empty-space record (not 0xFF) -/
def sampleStale : Archive :=
  { sampleArchive with
    recs := [
      { name := [0x61, 0x62], namePad := 14, type := 0x50
        attrs := [{ tag := tagCompressed, body := beN 4 compLZMA ++ beN 4 4 }]
        data := storedCodec.enc [2, 3, 4, 5], gap := 3 },
      { name := [], namePad := 16, type := typeDeleted2, attrs := [], data := [1, 2, 3, 4, 5, 6, 7, 8], gap := 0 },
      { name := [0x75], namePad := 15, type := 0x777, attrs := [], data := [0x44, 0x41, 0x54, 0x41], gap := 4 }] }

set_option maxRecDepth 1000000 in
theorem sampleStale_read : Fmap.read (ser sampleStale) = .ok (sampleMap, 0) := by rfl

theorem sampleStale_wf : sampleStale.WF := by
  constructor
  · intro r hr
    simp only [sampleStale, List.mem_cons, List.not_mem_nil, or_false] at hr
    rcases hr with rfl | rfl | rfl
    · exact ⟨by decide, by decide, by decide, by decide, by
        intro a ha
        simp only [List.mem_cons, List.not_mem_nil, or_false] at ha
        subst ha; exact ⟨by decide, by decide, by decide⟩, by decide, fun h => absurd h (by decide),
        fun h => absurd h (by decide)⟩
    · exact ⟨by decide, by decide, by decide, by decide, by intro a ha; simp at ha, by decide,
        fun h => absurd h (by decide), fun h => absurd h (by decide)⟩
    · exact ⟨by decide, by decide, by decide, by decide, by intro a ha; simp at ha, by decide,
        fun h => absurd h (by decide), fun h => absurd h (by decide)⟩
  · exact ⟨sampleMap, 0, { offset := 98, size := 160, name := sampleName corebootName, flags := 0 },
      sampleStale_read, by rfl, by rfl, by rfl⟩

/-- `c19_update_wf_id` applies to it, and the repaired reader holds the stale bytes (record 1) -/
example : ∃ i, newImageK (ser sampleStale) = .ok i ∧ update i = (ser sampleStale, none) :=
  c19_update_wf_id sampleStale sampleStale_wf

example : (newImageK (ser sampleStale)).map (fun i => (i.segs.map (·.file.fdata))[1]?) =
    .ok (some [1, 2, 3, 4, 5, 6, 7, 8]) := by
  have h := c19_keep_files_exact sampleStale sampleStale_wf
  cases hi : newImageK (ser sampleStale) with
  | error e => rw [hi] at h; cases h
  | ok i =>
    rw [hi] at h
    simp only [Except.map, Except.ok.injEq] at h ⊢
    have e : i.segs.map (·.file.fdata) = (i.segs.map (·.file)).map (·.fdata) := by rw [List.map_map]; rfl
    rw [e, h]
    rfl

/-- W7 — an image that is NOT well formed in the sense of `Archive.WF`: empty space with stale content
    AND an attribute block (both residual shapes of the former known finding). The repaired reader holds
    the stored bytes and `Update` is the identity (`c19_update_unmodified_id`); the reader before the repair
    zeroes the attribute block and writes 0xFF over the content. -/
def w7 : Bytes := wImg (wRec [] 16 typeDeleted2 (beN 4 0x12345678 ++ beN 4 16 ++ d16.take 8) d16 ++ ff 8)

set_option maxRecDepth 1000000 in
theorem update_stale_attr_empty_witness :
    (match newImageK w7 with
     | .ok i => decide (i.segs.map (·.file.fdata) = [d16] ∧ update i = (w7, none))
     | .error _ => false) = true ∧
    (afterFix w7).map (fun r => (r.2, slice r.1 (98 + 40) 16, slice r.1 (98 + 56) 16)) =
      some (none, List.replicate 16 0, ff 16) ∧
    slice w7 (98 + 40) 32 = beN 4 0x12345678 ++ beN 4 16 ++ d16.take 8 ++ d16 := by decide


/-- the hypotheses of C19.8 are met: an image of three records (`m`, `a`, `z`), `Remove("a")` as repaired
    succeeds and leaves three records; the `Update` that follows returns no error -/
def wR : Bytes := wImg (wRec [0x6d] 15 typeMaster [] d16 ++ ff 8 ++ wRec [0x61] 15 0x50 [] d16 ++ ff 8 ++
  wRec [0x7a] 15 0x50 [] d16 ++ ff 8)

set_option maxRecDepth 1000000 in
theorem remove_example :
    (match newImageK wR with
     | .ok i =>
       (match removeSegs true true i.segs [0x61] with
        | .ok segs' => decide (wR.length < 2 ^ 32 ∧ segs'.length = 3 ∧ (update { i with segs := segs' }).2 = none ∧
            (segs'.map (fun s => (s.file.recordStart, s.file.type))) = [(0, typeMaster), (64, typeDeleted2), (128, 0x50)])
        | .error _ => false)
     | .error _ => false) = true := by decide


/-- C19.1d is not vacuous: `€` (U+20AC), `😀` (U+1F600) are scalar values with the encodings of RFC 3629;
    an overlong form (C0 80), a surrogate (ED A0 80) and a truncated sequence are taken byte by byte -/
example : Scalar 0x20AC ∧ Scalar 0x1F600 := ⟨by unfold Scalar; decide, by unfold Scalar; decide⟩

example : encodeRune 0x20AC = [0xE2, 0x82, 0xAC] ∧
    encodeRune 0x1F600 = [0xF0, 0x9F, 0x98, 0x80] ∧ encodeRune 0xFFFD = [0xEF, 0xBF, 0xBD] := by decide

example : runeCount [0x61, 0xE2, 0x82, 0xAC, 0xF0, 0x9F, 0x98, 0x80] = 3 ∧ runeCount [0xC0, 0x80] = 2 ∧
    runeCount [0xED, 0xA0, 0x80] = 3 ∧ runeCount [0xE2, 0x82] = 2 ∧
    coerceUTF8 [0x61, 0xC0, 0x80] = [0x61, 0xEF, 0xBF, 0xBD, 0xEF, 0xBF, 0xBD] := by decide

/-- the hypotheses of `c19_compression_anywhere` are met by a block of three attributes (a hash
    attribute, an LZ4 compression attribute, an unknown tag) followed by unused 0xFF space -/
def sampleAttrFile : File :=
  { size := 0, type := 0x50, attrOff := 40, subOff := 96, recordStart := 0, name := [0x61],
    attr := serAttrs ([{ tag := 0x68736148, body := [0, 0, 0, 1, 0xAA, 0xBB] }] ++
              { tag := tagCompressed, body := beN 4 compLZ4 ++ beN 4 100 } ::
              [{ tag := 0x12345678, body := [] }]) ++ List.replicate 10 0xFF,
    fdata := [] }

example : compression sampleAttrFile = compLZ4 := by
  rw [c19_compression_anywhere sampleAttrFile [{ tag := 0x68736148, body := [0, 0, 0, 1, 0xAA, 0xBB] }]
    [{ tag := 0x12345678, body := [] }] { tag := tagCompressed, body := beN 4 compLZ4 ++ beN 4 100 }
    (List.replicate 10 0xFF) (by
      intro a ha
      simp only [List.cons_append, List.nil_append, List.mem_cons, List.not_mem_nil, or_false] at ha
      rcases ha with rfl | rfl | rfl <;> exact ⟨by decide, by decide, by decide⟩) rfl (by decide) rfl]
  decide

example : AttrEnd (List.replicate 10 0xFF) := Or.inr (Or.inr (by decide))

end Fiano.Cbfs
