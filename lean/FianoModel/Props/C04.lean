/-
  Property C04 — "the parsed tree accounts for every input byte, once".

  Model: FianoModel/Uefi/Parse.lean (shared UEFI core: uefi.Parse → NewFlashImage | NewBIOSRegion →
  NewFirmwareVolume → NewFile → NewSection, as repaired by fixes/C04-file-clipped-to-volume.diff).
  Predicate: FianoModel/Uefi/Faithful.lean.  Proofs: Uefi/FaithfulLemmas.lean, Uefi/FaithfulCor.lean.

  Everything below is about **every byte string** (no grammar, no size bound) and every parser
  configuration `h : Hooks` (codec table, DisableDecompression, NVAR hook).  The two hypotheses are
  facts of the Go runtime, not of the input format:
    GoLen bs             |bs| < 2^63                        (`len` of a Go slice is an `int`)
    h.BoundedCodecs      a decompressor's output is a Go slice too
  They are needed because the parser's offset arithmetic is 64-bit (`alignGo` wraps) while
  `Faithful` is stated with plain round-up.

  Not expressible in a pure model (carried by the correspondence harness only, see checks.d/C04.json
  `unproved`): independence of `uefi.ReadOnly`, and "parsing never modifies the caller's buffer".
-/
import FianoModel.Uefi.FaithfulCor
import FianoModel.Uefi.UnfixedC04
import FianoModel.Uefi.SampleC04
import FianoModel.Uefi.TieC04
import FianoModel.Uefi.CodeTie   -- T1 code-as-code tie (wp-t1x): audited as a tie module of this check

namespace Fiano.Uefi.C04
open FaithfulAux
open Fiano Fiano.Uefi

/-! ### the central theorem -/

/-- **C04** `parse_faithful`: whenever `uefi.Parse` returns a tree, that tree is a faithful account of
    the input — descriptor + regions tile the flash, a BIOS region's elements concatenate to it with
    truthful offsets, every volume / file / section holds exactly the bytes at its offset and size and
    lies inside its parent, and every reported header field is the bytes it was decoded from. -/
theorem parse_faithful (h : Hooks) (bs : Bytes) (t : Tree) (hlen : GoLen bs) (hcodec : h.BoundedCodecs)
    (hp : parse h bs = .ok t) : Faithful h t bs :=
  parse_faithful' h hcodec bs t hlen hp

/-- the same from any process state (an earlier parse may have fixed the erase polarity) and any budget -/
theorem parseWith_faithful (h : Hooks) (fuel : Nat) (bs : Bytes) (st st' : St) (t : Tree) (hlen : GoLen bs)
    (hcodec : h.BoundedCodecs) (hp : parseWith h fuel bs st = .ok (t, st')) : Faithful h t bs :=
  Fiano.Uefi.parseWith_faithful h hcodec fuel bs st t st' hlen hp

/-! ### the layers (each for every budget and process state) -/

/-- `NewSection(buf, order)` : the section is faithful to `buf` and reports `order` -/
theorem section_faithful (h : Hooks) (hcodec : h.BoundedCodecs) (fuel : Nat) (buf : Bytes) (order : Nat) (st st' : St)
    (s : Section) (hlen : GoLen buf) (hp : parseSection h fuel buf order st = .ok (s, st')) :
    SecF h s buf ∧ s.info.fileOrder = order :=
  (layers h hcodec fuel).1 buf order st s st' hlen hp

/-- `NewFile(buf)` : the file is faithful to `buf`, its sections tile it from `DataOffset` to the end -/
theorem file_faithful (h : Hooks) (hcodec : h.BoundedCodecs) (fuel : Nat) (buf : Bytes) (st st' : St) (f : File)
    (hlen : GoLen buf) (hp : parseFile h fuel buf st = .ok (some f, st')) : FileF h f buf :=
  (layers h hcodec fuel).2.2.2.1 buf st f st' hlen hp

/-- `NewFirmwareVolume(data, off, resizable)` : the volume is faithful to `data`; in particular every
    file lies inside `data[0,Length)` -/
theorem volume_faithful (h : Hooks) (hcodec : h.BoundedCodecs) (fuel : Nat) (data : Bytes) (off : Nat) (rsz : Bool)
    (st st' : St) (v : Fv) (hlen : GoLen data) (hp : parseFv h fuel data off rsz st = .ok (v, st')) :
    FvF h v data ∧ v.info.fvOffset = off ∧ v.info.resizable = rsz :=
  (layers h hcodec fuel).2.2.2.2.2 data off rsz st v st' hlen hp

/-- `NewBIOSRegion(buf, fr)` -/
theorem biosRegion_faithful (h : Hooks) (hcodec : h.BoundedCodecs) (fuel : Nat) (buf : Bytes)
    (fr : Option FlashRegion) (st st' : St) (b : BiosRegion) (hlen : GoLen buf)
    (hp : parseBios h fuel buf fr st = .ok (b, st')) : BiosF h b buf ∧ b.fr = fr :=
  let ⟨h1, h2, _⟩ := bios_faithful h hcodec fuel buf fr st b st' hlen hp
  ⟨h1, h2⟩

/-- `NewFlashImage(buf)` -/
theorem flashImage_faithful (h : Hooks) (hcodec : h.BoundedCodecs) (fuel : Nat) (bs : Bytes) (st st' : St) (f : Flash)
    (hlen : GoLen bs) (hp : parseFlash h fuel bs st = .ok (f, st')) : FlashF h f bs :=
  flash_faithful h hcodec fuel bs st f st' hlen hp

/-- `ParseFlashDescriptor` : every descriptor field is the bytes at its layout offset -/
theorem descriptor_faithful (dbuf : Bytes) (d : Descriptor) (hp : parseDescriptor dbuf = .ok d) : DescF d dbuf :=
  desc_faithful dbuf d hp

/-! ### what `Faithful` gives, in the words of the property -/

/-- descriptor plus regions tile the flash without gap or overlap: their buffers, in tree order,
    concatenate to the input -/
theorem flash_partition (h : Hooks) (bs : Bytes) (f : Flash) (hlen : GoLen bs) (hcodec : h.BoundedCodecs)
    (hp : parse h bs = .ok (.flash f)) :
    f.ifd.buf ++ (f.regions.map Region.buf).flatten = bs :=
  flash_tiles h f bs (parse_faithful h bs _ hlen hcodec hp)

/-- a bare BIOS region's volumes and paddings concatenate to the input, and each reported offset
    is the sum of the sizes before it -/
theorem bios_partition (h : Hooks) (bs : Bytes) (b : BiosRegion) (hlen : GoLen bs) (hcodec : h.BoundedCodecs)
    (hp : parse h bs = .ok (.bios b)) :
    (b.elems.map BiosElem.buf).flatten = bs ∧ b.elems.map BiosElem.reported = elemOffsets b.elems 0 := by
  obtain ⟨_, _, _, he⟩ := parse_faithful h bs _ hlen hcodec hp
  exact ⟨elems_concat h _ _ _ he, elems_offsets h _ _ _ he⟩

/-- the same inside a flash image, for every BIOS region of the tree -/
theorem region_partition (h : Hooks) (b : BiosRegion) (hb : BiosF h b b.buf) :
    (b.elems.map BiosElem.buf).flatten = b.buf ∧ b.elems.map BiosElem.reported = elemOffsets b.elems 0 :=
  ⟨elems_concat h _ _ _ hb.2.2, elems_offsets h _ _ _ hb.2.2⟩

/-- every file of a faithful volume lies inside the volume's buffer at an 8-aligned offset, is not
    empty, holds exactly the volume's bytes there; the files are in increasing order without overlap -/
theorem files_in_volume (h : Hooks) (i : FvInfo) (buf : Bytes) (files : List File) (data : Bytes)
    (hv : FvF h (.mk i buf files) data) :
    (∀ p ∈ files.zip (fileSpans files i.dataOffset), p.2.1 % 8 = 0 ∧ p.2.1 < p.2.2 ∧ p.2.2 ≤ buf.length ∧
        p.1.buf = slice buf p.2.1 (p.2.2 - p.2.1)) ∧
    (fileSpans files i.dataOffset).Pairwise (fun a b => a.2 ≤ b.1) := by
  unfold FvF at hv
  obtain ⟨_, _, _, hfiles⟩ := hv
  split at hfiles
  · obtain ⟨h1, _, h2, _⟩ := files_spans h _ _ _ _ hfiles
    exact ⟨h1, h2⟩
  · rw [hfiles.1]; exact ⟨fun _ hm => by simp [fileSpans] at hm, List.Pairwise.nil⟩

/-- every section of a faithful file lies inside the file's buffer at its 4-aligned running offset, is
    not empty, holds exactly the file's bytes there; the sections are in increasing order without overlap -/
theorem sections_in_file (h : Hooks) (i : FileInfo) (buf : Bytes) (secs : List Section) (ctx : Bytes)
    (hf : FileF h (.mk i buf secs) ctx) :
    (∀ p ∈ secs.zip (secSpans secs i.dataOffset), p.2.1 < p.2.2 ∧ p.2.2 ≤ buf.length ∧
        p.1.buf = slice buf p.2.1 (p.2.2 - p.2.1)) ∧
    (secSpans secs i.dataOffset).Pairwise (fun a b => a.2 ≤ b.1) := by
  unfold FileF at hf
  obtain ⟨_, _, _, hsecs⟩ := hf
  split at hsecs
  · obtain ⟨h1, h2, _⟩ := secs_spans h _ _ _ _ hsecs
    exact ⟨h1, h2⟩
  · rw [hsecs]; exact ⟨fun _ hm => by simp [secSpans] at hm, List.Pairwise.nil⟩

/-! ### the unrepaired rule is refuted (DESIGN.md §8 row 18) -/

/-- before fixes/C04-file-clipped-to-volume.diff the volume rule accepted an input on which the
    returned volume is **not** faithful (a file ending 24 bytes past its volume); the repaired rule
    refuses that input -/
theorem unrepaired_rule_refuted :
    (∃ v st', Unfixed.unfixedResult = .ok (v, st') ∧ ¬ FvF Hooks.none v Unfixed.witness) ∧
    (match parseFv Hooks.none 65 Unfixed.witness 0 false {} with
     | .ok _ => false
     | .error e => decide (e = Err.err)) = true :=
  ⟨Unfixed.unfixed_not_faithful, Unfixed.fixed_refuses⟩

/-- … and that rule differs from the repaired one (the shared model's `parseFv`) in nothing but the clip
    of the file walk to `data[0,Length)` -/
theorem unrepaired_differs_only_in_the_clip (h : Hooks) (fuel : Nat) (data : Bytes) (fvo : Nat) (rsz : Bool) (st : St) :
    Unfixed.parseFvUnfixedWith (fun d => parseFiles h fuel (d.take (rd data 32 8))) data fvo rsz st =
      parseFv h (fuel + 1) data fvo rsz st :=
  Unfixed.differs_only_in_the_clip h fuel data fvo rsz st

/-! ### non-vacuity -/

open SampleC04

/-- the hypotheses are inhabited -/
example : GoLen sampleBios ∧ GoLen sampleFlash ∧ hooks.BoundedCodecs ∧ Hooks.none.BoundedCodecs :=
  ⟨by decide +kernel, by decide +kernel, hooks_bounded, none_bounded⟩

/-- the 264-byte sample parses into: a volume with three files — two sections; one GUID-defined
    section with two decoded children; a pad file — followed by a padding node -/
theorem sampleBios_parses :
    (match parse hooks sampleBios with
     | .ok t => shape t
     | .error _ => []) = [(0, 264, [some [[0, 0], [2], []], none])] := by
  rw [parse_eval]; decide +kernel

/-- **a concrete parsed image satisfies `Faithful`** (so `parse_faithful` is not vacuous, and neither
    is the clause about decoded GUID-defined content) -/
theorem sampleBios_faithful : ∃ t, parse hooks sampleBios = .ok t ∧ Faithful hooks t sampleBios := by
  have hs := sampleBios_parses
  match hp : parse hooks sampleBios with
  | .ok t => exact ⟨t, rfl, parse_faithful hooks sampleBios t (by decide +kernel) hooks_bounded hp⟩
  | .error _ => rw [hp] at hs; cases hs

/-- the 16 KiB flash sample parses into BIOS region (volume + padding), ME region, gap region -/
theorem sampleFlash_parses :
    (match parse hooks sampleFlash with
     | .ok t => shape t
     | .error _ => []) =
      [(0, 4096, [some [[0, 0], [2], []], none]), (1, 4096, []), (-1, 4096, [])] := by
  rw [parse_eval]; decide +kernel

/-- … and satisfies `Faithful` (flash clause: descriptor fields, region tiling, gap region) -/
theorem sampleFlash_faithful : ∃ t, parse hooks sampleFlash = .ok t ∧ Faithful hooks t sampleFlash := by
  have hs := sampleFlash_parses
  match hp : parse hooks sampleFlash with
  | .ok t => exact ⟨t, rfl, parse_faithful hooks sampleFlash t (by decide +kernel) hooks_bounded hp⟩
  | .error _ => rw [hp] at hs; cases hs

end Fiano.Uefi.C04
