/-
  Property C04 — "the parsed tree accounts for every input byte, once".

  Model: FianoModel/Uefi/Parse.lean (shared UEFI core: uefi.Parse → NewFlashImage | NewBIOSRegion →
  NewFirmwareVolume → NewFile → NewSection, as repaired by fixes/C04-file-clipped-to-volume.diff).
  Predicate: FianoModel/Uefi/Faithful.lean.  Proofs: Uefi/FaithfulLemmas.lean, Uefi/FaithfulCor.lean.

  Everything below is about **every byte string** (no grammar, no size bound) and every parser
  configuration `h : Hooks` (codec table, DisableDecompression, NVAR hook).  The two hypotheses are
  facts of the Go runtime, not of the input format:
    GoLen bs             |bs| < 2^63                        (`len` of a Go slice is an `int`)
    h.BoundedCodecs      a decompressor's output is a Go slice too
  They are needed because the parser's offset arithmetic is 64-bit (`alignGo` wraps) while
  `Faithful` is stated with plain round-up.

  Follow-up wp-c04b: nothing in the tree is opaque any more —
    * NVAR stores (`File.NVarStore`): `parse_faithful_nvar` / `parse_c10_faithful` (the store the tree reports
      for a RAW/NVAR file is C10's `NewNVarStore` on the file's bytes under the erase polarity of its volume,
      which is uniform over the tree; the second one is about the concrete function `parseC10` the driver
      runs and has no hypothesis on the hook) + `nvar_store_faithful` (that store is faithful to the bytes: entries tile it, every
      reported field is the bytes at its offset, GUID table = the last 16·n bytes reversed, free space
      erased, nested stores recursively) + corollaries;
    * ME partition table (`MERegion.FPT`): `parse_faithful_me`;
    * completeness of the file walk: `volume_covered` (+ `unrepaired_walk_refuted`: the `decide`d witness on
      which the walk before commit cce350a — known finding F52 — drops a 24-byte file).
  Predicates: Uefi/Faithful.lean (`WalkEnd`, `NvFileOk`, `RegionInner` are clauses of `Faithful` itself),
  Uefi/FaithfulNvar.lean (`NvF`), Uefi/FaithfulMe.lean (`FptF`), Uefi/FaithfulNvarTree.lean (`TreeD`).

  Not expressible in a pure model (carried by the correspondence harness only, see checks.d/C04.json
  `unproved`): independence of `uefi.ReadOnly`, and "parsing never modifies the caller's buffer" — T1 now
  pins the inventory of byte-slice writes and their `ReadOnly` guards (Uefi/TieC04.lean `tie_writes_*`).
-/
import FianoModel.Uefi.FaithfulCor
import FianoModel.Uefi.FaithfulCover
import FianoModel.Uefi.FaithfulNvarTree
import FianoModel.Uefi.UnfixedC04
import FianoModel.Uefi.SampleC04
import FianoModel.Uefi.TieC04
import FianoModel.Uefi.CodeTie   -- T1 code-as-code tie (wp-t1x): audited as a tie module of this check
import FianoModel.Nvram.Tie      -- T1 of the NVAR model (C10's): the model is inside this property's theorem now,
import FianoModel.Nvram.TieLogic --   so its ties are rebuilt and audited by this check as well
import FianoModel.Nvram.CodeTie

namespace Fiano.Uefi.C04
open FaithfulAux
open Fiano Fiano.Uefi Fiano.Uefi.Cover Fiano.Uefi.Deep

/-! ### the central theorem -/

/-- **C04** `parse_faithful`: whenever `uefi.Parse` returns a tree, that tree is a faithful account of
    the input — descriptor + regions tile the flash, a BIOS region's elements concatenate to it with
    truthful offsets, every volume / file / section holds exactly the bytes at its offset and size and
    lies inside its parent, and every reported header field is the bytes it was decoded from. -/
theorem parse_faithful (h : Hooks) (bs : Bytes) (t : Tree) (hlen : GoLen bs) (hcodec : h.BoundedCodecs)
    (hp : parse h bs = .ok t) : Faithful h t bs :=
  parse_faithful' h hcodec bs t hlen hp

/-- the same from any process state (an earlier parse may have fixed the erase polarity) and any budget -/
theorem parseWith_faithful (h : Hooks) (fuel : Nat) (bs : Bytes) (st st' : St) (t : Tree) (hlen : GoLen bs)
    (hcodec : h.BoundedCodecs) (hp : parseWith h fuel bs st = .ok (t, st')) : Faithful h t bs :=
  Fiano.Uefi.parseWith_faithful h hcodec fuel bs st t st' hlen hp

/-! ### the layers (each for every budget and process state) -/

/-- `NewSection(buf, order)` : the section is faithful to `buf` and reports `order` -/
theorem section_faithful (h : Hooks) (hcodec : h.BoundedCodecs) (fuel : Nat) (buf : Bytes) (order : Nat) (st st' : St)
    (s : Section) (hlen : GoLen buf) (hp : parseSection h fuel buf order st = .ok (s, st')) :
    SecF h s buf ∧ s.info.fileOrder = order :=
  (layers h hcodec fuel).1 buf order st s st' hlen hp

/-- `NewFile(buf)` : the file is faithful to `buf`, its sections tile it from `DataOffset` to the end -/
theorem file_faithful (h : Hooks) (hcodec : h.BoundedCodecs) (fuel : Nat) (buf : Bytes) (st st' : St) (f : File)
    (hlen : GoLen buf) (hp : parseFile h fuel buf st = .ok (some f, st')) : FileF h f buf :=
  (layers h hcodec fuel).2.2.2.1 buf st f st' hlen hp

/-- `NewFirmwareVolume(data, off, resizable)` : the volume is faithful to `data`; in particular every
    file lies inside `data[0,Length)` -/
theorem volume_faithful (h : Hooks) (hcodec : h.BoundedCodecs) (fuel : Nat) (data : Bytes) (off : Nat) (rsz : Bool)
    (st st' : St) (v : Fv) (hlen : GoLen data) (hp : parseFv h fuel data off rsz st = .ok (v, st')) :
    FvF h v data ∧ v.info.fvOffset = off ∧ v.info.resizable = rsz :=
  (layers h hcodec fuel).2.2.2.2.2 data off rsz st v st' hlen hp

/-- `NewBIOSRegion(buf, fr)` -/
theorem biosRegion_faithful (h : Hooks) (hcodec : h.BoundedCodecs) (fuel : Nat) (buf : Bytes)
    (fr : Option FlashRegion) (st st' : St) (b : BiosRegion) (hlen : GoLen buf)
    (hp : parseBios h fuel buf fr st = .ok (b, st')) : BiosF h b buf ∧ b.fr = fr :=
  let ⟨h1, h2, _⟩ := bios_faithful h hcodec fuel buf fr st b st' hlen hp
  ⟨h1, h2⟩

/-- `NewFlashImage(buf)` -/
theorem flashImage_faithful (h : Hooks) (hcodec : h.BoundedCodecs) (fuel : Nat) (bs : Bytes) (st st' : St) (f : Flash)
    (hlen : GoLen bs) (hp : parseFlash h fuel bs st = .ok (f, st')) : FlashF h f bs :=
  flash_faithful h hcodec fuel bs st f st' hlen hp

/-- `ParseFlashDescriptor` : every descriptor field is the bytes at its layout offset -/
theorem descriptor_faithful (dbuf : Bytes) (d : Descriptor) (hp : parseDescriptor dbuf = .ok d) : DescF d dbuf :=
  desc_faithful dbuf d hp

/-! ### what `Faithful` gives, in the words of the property -/

/-- descriptor plus regions tile the flash without gap or overlap: their buffers, in tree order,
    concatenate to the input -/
theorem flash_partition (h : Hooks) (bs : Bytes) (f : Flash) (hlen : GoLen bs) (hcodec : h.BoundedCodecs)
    (hp : parse h bs = .ok (.flash f)) :
    f.ifd.buf ++ (f.regions.map Region.buf).flatten = bs :=
  flash_tiles h f bs (parse_faithful h bs _ hlen hcodec hp)

/-- a bare BIOS region's volumes and paddings concatenate to the input, and each reported offset
    is the sum of the sizes before it -/
theorem bios_partition (h : Hooks) (bs : Bytes) (b : BiosRegion) (hlen : GoLen bs) (hcodec : h.BoundedCodecs)
    (hp : parse h bs = .ok (.bios b)) :
    (b.elems.map BiosElem.buf).flatten = bs ∧ b.elems.map BiosElem.reported = elemOffsets b.elems 0 := by
  obtain ⟨_, _, _, he⟩ := parse_faithful h bs _ hlen hcodec hp
  exact ⟨elems_concat h _ _ _ he, elems_offsets h _ _ _ he⟩

/-- the same inside a flash image, for every BIOS region of the tree -/
theorem region_partition (h : Hooks) (b : BiosRegion) (hb : BiosF h b b.buf) :
    (b.elems.map BiosElem.buf).flatten = b.buf ∧ b.elems.map BiosElem.reported = elemOffsets b.elems 0 :=
  ⟨elems_concat h _ _ _ hb.2.2, elems_offsets h _ _ _ hb.2.2⟩

/-- every file of a faithful volume lies inside the volume's buffer at an 8-aligned offset, is not
    empty, holds exactly the volume's bytes there; the files are in increasing order without overlap -/
theorem files_in_volume (h : Hooks) (i : FvInfo) (buf : Bytes) (files : List File) (data : Bytes)
    (hv : FvF h (.mk i buf files) data) :
    (∀ p ∈ files.zip (fileSpans files i.dataOffset), p.2.1 % 8 = 0 ∧ p.2.1 < p.2.2 ∧ p.2.2 ≤ buf.length ∧
        p.1.buf = slice buf p.2.1 (p.2.2 - p.2.1)) ∧
    (fileSpans files i.dataOffset).Pairwise (fun a b => a.2 ≤ b.1) := by
  unfold FvF at hv
  obtain ⟨_, _, _, hfiles⟩ := hv
  split at hfiles
  · obtain ⟨h1, _, h2, _⟩ := files_spans h _ _ _ _ hfiles
    exact ⟨h1, h2⟩
  · rw [hfiles.1]; exact ⟨fun _ hm => by simp [fileSpans] at hm, List.Pairwise.nil⟩

/-- every section of a faithful file lies inside the file's buffer at its 4-aligned running offset, is
    not empty, holds exactly the file's bytes there; the sections are in increasing order without overlap -/
theorem sections_in_file (h : Hooks) (i : FileInfo) (buf : Bytes) (secs : List Section) (ctx : Bytes)
    (hf : FileF h (.mk i buf secs) ctx) :
    (∀ p ∈ secs.zip (secSpans secs i.dataOffset), p.2.1 < p.2.2 ∧ p.2.2 ≤ buf.length ∧
        p.1.buf = slice buf p.2.1 (p.2.2 - p.2.1)) ∧
    (secSpans secs i.dataOffset).Pairwise (fun a b => a.2 ≤ b.1) := by
  unfold FileF at hf
  obtain ⟨_, _, _, _, hsecs⟩ := hf
  split at hsecs
  · obtain ⟨h1, h2, _⟩ := secs_spans h _ _ _ _ hsecs
    exact ⟨h1, h2⟩
  · rw [hsecs]; exact ⟨fun _ hm => by simp [secSpans] at hm, List.Pairwise.nil⟩

/-! ### follow-up wp-c04b: NVAR stores -/

/-- **C04, NVAR part** `parse_faithful_nvar`: whenever `uefi.Parse` returns `(t, st')` under hooks whose
    NVAR parser is C10's `NewNVarStore` at the final erase polarity `st'.pol`, then `t` is faithful
    (`Faithful`, which says: a store is reported exactly for a RAW file with the NVAR GUID and is the hook's
    answer on `buf[DataOffset:]`), every volume of the tree has erase polarity `st'.pol`, and every file
    node's reported store is (the `(buf, Length)` projection of) `NewNVarStore` under that polarity on the
    node's own bytes (`TreeD`).  What that store looks like: `nvar_store_faithful`. -/
theorem parse_faithful_nvar (h : Hooks) (fuel : Nat) (bs : Bytes) (st st' : St) (t : Tree) (hlen : GoLen bs)
    (hcodec : h.BoundedCodecs) (hp : parseWith h fuel bs st = .ok (t, st')) (hnv : h.NvIsC10 st'.pol) :
    Faithful h t bs ∧ TreeD st'.pol t :=
  ⟨Fiano.Uefi.parseWith_faithful h hcodec fuel bs st t st' hlen hp, parseWith_deep h fuel bs st st' t hp hnv⟩

/-- **C04 with the real NVAR parser, no hook left to assume** `parse_c10_faithful`: `parseC10` is
    `uefi.Parse` with C10's `NewNVarStore` plugged in (it finds the erase polarity the stores are parsed
    under by running the parse and checks it by a second run) — the very function the driver `drv_c04`
    answers with, so it is what T2 compares with the Go code.  Whatever it returns — from any process state,
    for any budget — is a faithful tree under the hooks it actually used, every volume has the polarity `p`
    it reports, and every file node's reported store is `NewNVarStore` under `p` on the node's own bytes.
    (The codec table `h0` stays a parameter: decompressors are outside the model.) -/
theorem parse_c10_faithful (h0 : Hooks) (fuel : Nat) (bs : Bytes) (st : St) (t : Tree) (p : UInt8) (hlen : GoLen bs)
    (hcodec : h0.BoundedCodecs) (hp : parseC10 h0 fuel bs st = .ok (t, p)) :
    Faithful (nvHooks h0 p) t bs ∧ TreeD p t :=
  parseC10_spec h0 hcodec fuel bs st t p hlen hp

/-- one file node of such a tree: either no store is reported and `NewNVarStore` yields none, or the file
    is RAW with the NVAR GUID, `NewNVarStore` succeeds on `buf[DataOffset:]` with a store `s`, the tree
    reports `(s.buf, s.Length)`, and `s` — with its nested stores, to every depth — is faithful to those bytes -/
theorem nvar_file_faithful (p : UInt8) (f : File) (hd : FileD p f) :
    (f.info.nvar = none ∧ f.nvStore p = none) ∨
    ∃ s, f.nvStore p = some s ∧ f.info.nvar = some (nvProj s) ∧ f.info.type = 1 ∧ f.info.guid = guidNVAR ∧
      Nvram.parseStore p.toNat (f.buf.drop f.info.dataOffset) = .ok s ∧
      ∀ d, NvFaithful.NvFDeep p.toNat d s (f.buf.drop f.info.dataOffset) :=
  nvar_node p f hd

/-- **`NewNVarStore` returns a faithful store** — for every byte string, every polarity, every nesting
    depth `d`: buf = the bytes; the entries tile the store from 0 to `FreeSpaceOffset`, each header field
    (`Size`, `Next`, `Attributes`) and decoded field (GUID / GUID index, name, `DataOffset`, `NextOffset`,
    type) is the bytes at its documented offset; the GUID table is the last 16·n bytes reversed; the walk
    ended on erased bytes or on the table; nested stores likewise (`NvF`, `NvFDeep`). -/
theorem nvar_store_faithful (pol : Nat) (d : Nat) (b : Bytes) (s : Nvram.Store)
    (hp : Nvram.parseStore pol b = .ok s) : NvFaithful.NvFDeep pol d s b :=
  NvFaithful.nv_faithful_deep pol d b s hp

/-- the entries' buffers concatenate to `b[0, FreeSpaceOffset)`, the reported `Offset`s are the running
    sums of the sizes, `FreeSpaceOffset ≤ |b|`, and the walk ended on erased bytes or on the GUID table -/
theorem nvar_entries_tile (pol : Nat) (s : Nvram.Store) (b : Bytes) (hf : NvFaithful.NvF pol s b) :
    (s.entries.map (·.buf)).flatten = b.take s.fso ∧
    s.entries.map (·.offset) = NvFaithful.entryOffsets s.entries 0 ∧ (s.entries ≠ [] → s.fso ≤ b.length) ∧
    (s.gso ≤ s.fso ∨ Nvram.isErased pol (slice b s.fso (s.gso - s.fso)) = true) := by
  obtain ⟨_, _, _, hgso, hE, _⟩ := hf
  obtain ⟨_, h2, h3, h4, _, h6⟩ := NvFaithful.entries_tile pol b _ _ _ _ _ _ hE
  rw [← hgso] at h6
  refine ⟨?_, h4, h2, h6⟩
  rw [h3]; simp [slice]

/-- the GUID table, reversed, is `b[GUIDStoreOffset, |b|)`: at most 255 GUIDs, the last 16·n bytes;
    and it holds exactly as many GUIDs as the entries' indexes ask for -/
theorem nvar_table (pol : Nat) (s : Nvram.Store) (b : Bytes) (hf : NvFaithful.NvF pol s b) :
    s.guidStore.reverse.flatten = b.drop s.gso ∧ s.gso + 16 * s.guidStore.length = b.length ∧
    s.guidStore.length ≤ 255 ∧
    (s.guidStore.length = 0 ∨ ∃ v ∈ s.entries, ∃ i, v.guidIndex = some i ∧ s.guidStore.length = i + 1) := by
  obtain ⟨_, _, hT, hgso, hE, _⟩ := hf
  refine ⟨by rw [hgso]; exact NvFaithful.table_bytes b _ hT, by have := hT.1; omega, hT.2.1, ?_⟩
  exact NvFaithful.table_minimal pol b _ _ _ _ _ _ hE

/-- an entry that reports GUID index `i` reports entry `i` of the final GUID table, i.e. the 16 bytes
    `b[|b| − 16(i+1), |b| − 16i)`, or the zero GUID — the latter only for index 255 or a table that would
    not fit into the store -/
theorem nvar_guid_index (pol : Nat) (s : Nvram.Store) (b : Bytes) (hf : NvFaithful.NvF pol s b) :
    ∀ v ∈ s.entries, ∀ i, v.guidIndex = some i →
      (s.guidStore[i]? = some v.guid ∧ v.guid = Nvram.guidAt b i) ∨
      (v.guid = Nvram.zeroGuid ∧ (i = 255 ∨ b.length < 16 * (i + 1))) := by
  obtain ⟨_, _, hT, _, hE, _⟩ := hf
  intro v hv i hi
  cases NvFaithful.guid_index_resolves pol b _ _ _ _ _ _ hE hT.2.1 v hv i hi with
  | inl h => exact Or.inl ⟨by rw [hT.2.2 i h.1, h.2], h.2⟩
  | inr h => exact Or.inr h

/-- the store is entries ++ free space (the polarity byte) ++ reversed table and nothing else — the
    layout C10's `Assemble` writes.  The former hypothesis `s.fso ≤ s.gso` is a clause of `NvF` since
    fixes/C04-nvar-table-overlap.diff (proved for every store `NewNVarStore` returns:
    `Nvram.parseStore_fso_le_gso`, used by `nv_faithful`). -/
theorem nvar_store_partition (pol : Nat) (s : Nvram.Store) (b : Bytes) (hf : NvFaithful.NvF pol s b) :
    s.fso ≤ s.gso ∧
    b = (s.entries.map (·.buf)).flatten ++ List.replicate (s.gso - s.fso) (UInt8.ofNat pol) ++
        s.guidStore.reverse.flatten :=
  ⟨hf.2.2.2.2.2, (NvFaithful.store_partition pol s b hf hf.2.2.2.2.2).1⟩

/-- after fixes/C04-nvar-table-overlap.diff `fso ≤ gso` is no hypothesis any more: EVERY store
    `NewNVarStore` returns is entries ++ free space ++ reversed table and nothing else -/
theorem nvar_store_partition_parsed (pol : Nat) (b : Bytes) (s : Nvram.Store)
    (hp : Nvram.parseStore pol b = .ok s) :
    s.fso ≤ s.gso ∧
    b = (s.entries.map (·.buf)).flatten ++ List.replicate (s.gso - s.fso) (UInt8.ofNat pol) ++
        s.guidStore.reverse.flatten :=
  ⟨Nvram.parseStore_fso_le_gso pol b s hp, NvFaithful.store_partition_parsed pol b s hp⟩

/-- the former quirk (finding 51): a 29-byte store whose only entry fills it and whose GUID index 0 turns
    the entry's own last 16 bytes into the GUID table (`FreeSpaceOffset` 29 > `GUIDStoreOffset` 13) was
    accepted by `NewNVarStore`; the repaired code refuses it -/
theorem nvar_overlap_refused :
    (match Nvram.parseStore 0xFF NvFaithful.overlapStore with
     | .ok _ => false
     | .error e => decide (e = Nvram.Err.parse)) = true :=
  NvFaithful.overlap_refused

/-- the extended header of an entry (`ExtOffset`, `ExtAttributes`, `Checksum`, `TimeStamp`, `Hash`): the
    model `extFields` of `parseExtendedHeader` succeeds exactly when C10's `extOk` says so, and the fields
    it reports are the bytes at their documented offsets -/
theorem nvar_ext_fields (attrs size : Nat) (buf : Bytes) (hlen : buf.length = size) (h10 : 10 ≤ size) :
    (NvFaithful.extFields attrs size buf).2 = Nvram.extOk attrs size buf ∧
    (Nvram.hasBit attrs Nvram.aExtHdr = true → NvFaithful.rdAt buf (size - 2) 2 ≤ size - 10 →
      NvFaithful.ExtF size buf (NvFaithful.extFields attrs size buf).1) :=
  ⟨NvFaithful.extFields_ok attrs size buf hlen, NvFaithful.extFields_at attrs size buf hlen h10⟩

/-! ### follow-up wp-c04b: ME partition table -/

/-- **C04, ME part** `parse_faithful_me`: in every flash image `uefi.Parse` accepts, an ME region's
    buffer is the input slice named by entry 1 of the descriptor's region table, and whenever `NewMEFPT`
    finds a table in it (`MERegion.FPT ≠ nil`): `$FPT` is the first occurrence of the signature,
    `PartitionCount` the 4 bytes behind it, `PartitionMapStart` = signature + 32, there are exactly
    `PartitionCount` entries, entry k is the 32-byte record at `PartitionMapStart + 32·k` field by field,
    the table buffer is region[0, PartitionMapStart + 32·count) inside the region, and
    `FreeSpaceOffset` is the largest end of a partition with a valid offset. -/
theorem parse_faithful_me (h : Hooks) (bs : Bytes) (f : Flash) (hlen : GoLen bs) (hcodec : h.BoundedCodecs)
    (hp : parse h bs = .ok (.flash f)) :
    ∀ r ∈ f.regions, ∀ b fr, r = .me b fr →
      b = slice bs fr.baseOffset b.length ∧ fr.baseOffset + b.length ≤ bs.length ∧
      fr.endOffset = fr.baseOffset + b.length ∧ f.ifd.region.regions[1]? = some fr ∧ Me.MeBufF b :=
  me_region h f bs (parse_faithful h bs _ hlen hcodec hp)

/-- `NewMEFPT` on any byte string -/
theorem mefpt_faithful (rbuf : Bytes) (fp : Me.FPT) (hp : Me.newFPT rbuf = some fp) : Me.FptF fp rbuf :=
  Me.fpt_faithful rbuf fp hp

/-! ### follow-up wp-c04b: completeness of the file walk ("nothing dropped") -/

/-- **C04, covering** `volume_covered`: in a volume of a parsed file system (FFSv2/v3), with `e` the end
    of the last file: `DataOffset + Σ gaps + Σ sizes = e`, every gap an alignment gap (< 8); and either
    an erased file header sits at the next 8-aligned offset and `e + gap + FreeSpace = Length` (files,
    gaps and free space cover `[DataOffset, Length)`), or `FreeSpace = 0` and fewer than 24 bytes are
    left behind `e`.  (Model as repaired by fixes/C03-header-only-last-file.diff, commit cce350a.) -/
theorem volume_covered (h : Hooks) (i : FvInfo) (buf : Bytes) (files : List File) (data : Bytes)
    (hv : FvF h (.mk i buf files) data) (hfs : i.fsGuid = guidFFS2 ∨ i.fsGuid = guidFFS3) :
    let e := fileEnd files i.dataOffset
    e = i.dataOffset + (fileGaps files i.dataOffset).sum + (files.map (·.info.extSize)).sum ∧
    (∀ g ∈ fileGaps files i.dataOffset, g < 8) ∧
    ((up8 e < i.length ∧ FreeHeader (buf.drop (up8 e)) ∧ up8 e - e < 8 ∧ e + (up8 e - e) + i.freeSpace = i.length) ∨
     (i.freeSpace = 0 ∧ i.length < e + 24)) :=
  Fiano.Uefi.Cover.volume_covered h i buf files data hv hfs

set_option maxRecDepth 8192 in
/-- the file walk BEFORE commit cce350a (`offset < Length − 24`, strict; known finding F52) violates the
    covering clause: on a 128-byte witness it returns one file [72,104) and `FreeSpace = 0`, which is not a
    `WalkEnd` (24 bytes are left, and they are a complete header-only file); the repaired rule returns
    both files, [72,104) and [104,128) -/
theorem unrepaired_walk_refuted :
    (match F52.parseFilesStrict Hooks.none 64 F52.witness 72 104 128 {} with
     | .ok (fs, free, _) => (fileSpans fs 72, fileEnd fs 72, free)
     | .error _ => ([], 0, 1)) = ([(72, 104)], 104, 0) ∧
    ¬ WalkEnd F52.witness 104 0 ∧
    (match fileHeader (F52.witness.drop 104) with
     | .ok (some i) => (i.type, i.extSize, i.dataOffset)
     | _ => (0, 0, 0)) = (0xF0, 24, 24) ∧
    (match parseFv Hooks.none 65 F52.witness 0 false {} with
     | .ok (v, _) => (v.info.length, v.info.freeSpace, fileSpans v.files v.info.dataOffset, fileEnd v.files v.info.dataOffset)
     | .error _ => (0, 0, [], 0)) = (128, 0, [(72, 104), (104, 128)], 128) :=
  ⟨F52.strict_result, F52.strict_not_covered, F52.tail_is_a_file.1, F52.repaired_result⟩

/-! ### the unrepaired rule is refuted (DESIGN.md §8 row 18) -/

/-- before fixes/C04-file-clipped-to-volume.diff the volume rule accepted an input on which the
    returned volume is **not** faithful (a file ending 24 bytes past its volume); the repaired rule
    refuses that input -/
theorem unrepaired_rule_refuted :
    (∃ v st', Unfixed.unfixedResult = .ok (v, st') ∧ ¬ FvF Hooks.none v Unfixed.witness) ∧
    (match parseFv Hooks.none 65 Unfixed.witness 0 false {} with
     | .ok _ => false
     | .error e => decide (e = Err.err)) = true :=
  ⟨Unfixed.unfixed_not_faithful, Unfixed.fixed_refuses⟩

/-- … and that rule differs from the repaired one (the shared model's `parseFv`) in nothing but the clip
    of the file walk to `data[0,Length)` -/
theorem unrepaired_differs_only_in_the_clip (h : Hooks) (fuel : Nat) (data : Bytes) (fvo : Nat) (rsz : Bool) (st : St) :
    Unfixed.parseFvUnfixedWith (fun d => parseFiles h fuel (d.take (rd data 32 8))) data fvo rsz st =
      parseFv h (fuel + 1) data fvo rsz st :=
  Unfixed.differs_only_in_the_clip h fuel data fvo rsz st

/-! ### non-vacuity -/

open SampleC04

/-- the hypotheses are inhabited -/
example : GoLen sampleBios ∧ GoLen sampleFlash ∧ hooks.BoundedCodecs ∧ Hooks.none.BoundedCodecs :=
  ⟨by decide +kernel, by decide +kernel, hooks_bounded, none_bounded⟩

/-- the 264-byte sample parses into: a volume with three files — two sections; one GUID-defined
    section with two decoded children; a pad file — followed by a padding node -/
theorem sampleBios_parses :
    (match parse hooks sampleBios with
     | .ok t => shape t
     | .error _ => []) = [(0, 264, [some [[0, 0], [2], []], none])] := by
  rw [parse_eval]; decide +kernel

/-- **a concrete parsed image satisfies `Faithful`** (so `parse_faithful` is not vacuous, and neither
    is the clause about decoded GUID-defined content) -/
theorem sampleBios_faithful : ∃ t, parse hooks sampleBios = .ok t ∧ Faithful hooks t sampleBios := by
  have hs := sampleBios_parses
  match hp : parse hooks sampleBios with
  | .ok t => exact ⟨t, rfl, parse_faithful hooks sampleBios t (by decide +kernel) hooks_bounded hp⟩
  | .error _ => rw [hp] at hs; cases hs

/-- the 16 KiB flash sample parses into BIOS region (volume + padding), ME region, gap region -/
theorem sampleFlash_parses :
    (match parse hooks sampleFlash with
     | .ok t => shape t
     | .error _ => []) =
      [(0, 4096, [some [[0, 0], [2], []], none]), (1, 4096, []), (-1, 4096, [])] := by
  rw [parse_eval]; decide +kernel

/-- … and satisfies `Faithful` (flash clause: descriptor fields, region tiling, gap region) -/
theorem sampleFlash_faithful : ∃ t, parse hooks sampleFlash = .ok t ∧ Faithful hooks t sampleFlash := by
  have hs := sampleFlash_parses
  match hp : parse hooks sampleFlash with
  | .ok t => exact ⟨t, rfl, parse_faithful hooks sampleFlash t (by decide +kernel) hooks_bounded hp⟩
  | .error _ => rw [hp] at hs; cases hs

/-! ### non-vacuity of the follow-up theorems -/

set_option maxRecDepth 16384 in
/-- the 320-byte NVAR sample parses (with C10's parser as the hook) into a RAW file whose store has six
    entries — full (GUID index), full (inline GUID, UCS-2 name, extended header), link, data, invalid,
    full with a nested one-entry store — `FreeSpaceOffset` 143, `GUIDStoreOffset` 152, two GUIDs -/
theorem sampleNv_parses :
    (match parse hooksNv sampleNv with
     | .ok t => nvShape t
     | .error _ => []) =
      [[[143, 152, 2], [4, 0, 16, 13, 0], [4, 16, 43, 30, 0], [2, 59, 14, 13, 0], [3, 73, 12, 10, 0],
        [0, 85, 13, 10, 0], [4, 98, 45, 13, 2]]] := by
  rw [parse_eval]; decide +kernel

set_option maxRecDepth 16384 in
theorem sampleNv_pol :
    (match parseWith hooksNv (defaultFuel sampleNv) sampleNv {} with
     | .ok (_, st) => st.pol
     | .error _ => 0) = 0xFF := by
  rw [← parseWith_eval]; decide +kernel

/-- the hypotheses of `parse_faithful_nvar` are inhabited by that sample (the hook is C10's parser at
    the polarity the parse ends with), so its conclusion holds for a tree that does carry a store -/
theorem sampleNv_faithful :
    ∃ t st', parseWith hooksNv (defaultFuel sampleNv) sampleNv {} = .ok (t, st') ∧ hooksNv.NvIsC10 st'.pol ∧
      Faithful hooksNv t sampleNv ∧ TreeD st'.pol t := by
  have hs := sampleNv_pol
  match hp : parseWith hooksNv (defaultFuel sampleNv) sampleNv {} with
  | .ok (t, st') =>
    rw [hp] at hs
    have hpol : st'.pol = 0xFF := hs
    have hnv : hooksNv.NvIsC10 st'.pol := by rw [hpol]; exact nvHooks_isC10 hooks 0xFF
    obtain ⟨h1, h2⟩ := parse_faithful_nvar hooksNv _ sampleNv {} st' t (by decide +kernel) hooksNv_bounded hp hnv
    exact ⟨t, st', rfl, hnv, h1, h2⟩
  | .error _ => rw [hp] at hs; cases hs

set_option maxRecDepth 16384 in
/-- `parseC10` accepts the NVAR sample and reports polarity 0xFF: `parse_c10_faithful` is not vacuous -/
theorem sampleNv_c10 :
    (match parseC10 hooks (defaultFuel sampleNv) sampleNv {} with
     | .ok (t, p) => (p, nvShape t)
     | .error _ => (0, [])) =
      (0xFF, [[[143, 152, 2], [4, 0, 16, 13, 0], [4, 16, 43, 30, 0], [2, 59, 14, 13, 0], [3, 73, 12, 10, 0],
        [0, 85, 13, 10, 0], [4, 98, 45, 13, 2]]]) := by
  unfold parseC10
  simp only [← parseWith_eval]
  decide +kernel

/-- `NewMEFPT` finds the table of the 112-byte ME sample: count 2, map start 48, buffer 112 bytes, free
    space offset 0x600; entries FTPR (0x400 + 0x200) and MFS (offset FFFFFFFF = not valid) -/
theorem sampleMe_parses :
    meShape sampleMe = [[2, 48, 112, 1536], [0x52505446, 0x314e574f, 1024, 512, 128, 1, 2, 3],
      [0x0053464d, 0xFFFFFFFF, 4294967295, 256, 1, 0, 0, 0]] := by
  decide +kernel

set_option maxRecDepth 16384 in
/-- … also as the ME region of an accepted 16 KiB flash image, so `parse_faithful_me` is not vacuous -/
theorem sampleFlashMe_parses :
    (match parse hooks sampleFlashMe with
     | .ok (.flash f) => f.regions.map (fun r => match r with | .me b _ => meShape b | _ => [])
     | _ => []) = [[], [[2, 48, 112, 1536], [0x52505446, 0x314e574f, 1024, 512, 128, 1, 2, 3],
      [0x0053464d, 0xFFFFFFFF, 4294967295, 256, 1, 0, 0, 0]], []] := by
  rw [parse_eval]; decide +kernel

/-- the first clause of `volume_covered` (free space reached) is inhabited by the sample volume, the
    second (no room) by the witness of `unrepaired_walk_refuted` under the repaired rule -/
example : ∃ t, parse hooks sampleBios = .ok t ∧ Faithful hooks t sampleBios := sampleBios_faithful

end Fiano.Uefi.C04
