/-
  C14 — FIT location, table and data segments round-trip through an image.
  Property theorems only; helper lemmas live in FianoModel/Fit/*Lemmas.lean, the hypotheses
  (`ValidLayout`, `Disjoint`, `layout`, `Entry.WF`, `FitHeaderOK`) in FianoModel/Fit/Layout.lean.
  All statements are unbounded: every image, every table offset, every entry list.
-/
import FianoModel.Fit.InjectLemmas
import FianoModel.Fit.ReadLemmas
import FianoModel.Fit.RecalcLemmas
import FianoModel.Fit.Tie
import FianoModel.Fit.CodeTie   -- T1 code-as-code tie (wp-t1x): audited as a tie module of this check

namespace Fiano.Fit

/-! ## C14.1 physical address ↔ image offset -/

/-- For every image size ≤ 4 GiB and every offset inside the image: the address of the offset
    lies in the window `[4 GiB − size, 4 GiB)`, converts back to the offset, and its distance from
    4 GiB (`CalculateTailOffsetFromPhysAddr`) is the distance of the offset from the image end. -/
theorem c14_addr_off_inverse (size off : Nat) (hs : size ≤ 2 ^ 32) (ho : off < size) :
    offsetOfPhys (physOfOffset off size) size = off ∧
    2 ^ 32 - size ≤ physOfOffset off size ∧ physOfOffset off size < 2 ^ 32 ∧
    size - tailOffsetOfPhys (physOfOffset off size) = off := by
  have hs' : size ≤ two32 := hs
  obtain ⟨h1, h2, h3⟩ := physOfOffset_inside off size hs' ho
  refine ⟨offsetOfPhys_physOfOffset off size (by simp only [two32, two64] at *; omega), h2, h3, ?_⟩
  rw [h1]
  unfold tailOffsetOfPhys sub64
  simp only [two32, two64, basePhysAddr] at *
  omega

/-- Conversely, every address in the window converts to an offset inside the image and back. -/
theorem c14_off_addr_inverse (size addr : Nat) (hs : size ≤ 2 ^ 32)
    (h1 : 2 ^ 32 - size ≤ addr) (h2 : addr < 2 ^ 32) :
    physOfOffset (offsetOfPhys addr size) size = addr ∧ offsetOfPhys addr size < size := by
  have hs' : size ≤ two32 := hs
  exact ⟨physOfOffset_offsetOfPhys addr size (by simp only [two64] at *; omega),
    (offsetOfPhys_inside addr size hs' h1 h2).2⟩

/-- The two conversions are mutually inverse on all of `uint64` (any image size, wrap-around
    included), not only inside the window. -/
theorem c14_addr_off_inverse_uint64 (size x : Nat) (hx : x < 2 ^ 64) :
    offsetOfPhys (physOfOffset x size) size = x ∧ physOfOffset (offsetOfPhys x size) size = x :=
  ⟨offsetOfPhys_physOfOffset x size hx, physOfOffset_offsetOfPhys x size hx⟩

/-! ## C14.2 entry headers survive binary and JSON encode / decode -/

/-- binary: `ParseEntryHeadersFrom (WriteTo h) = h` for every representable header -/
theorem c14_hdr_bin_roundtrip (h : Hdr) (w : h.WT) :
    (encodeHdr h).length = 16 ∧ decodeHdr (encodeHdr h) = h :=
  ⟨encodeHdr_length h, decodeHdr_encodeHdr h w⟩

/-- binary, other direction: any 16 bytes decode to a representable header that re-encodes to
    the same bytes -/
theorem c14_hdr_bin_roundtrip_bytes (b : Bytes) (hb : b.length = 16) :
    (decodeHdr b).WT ∧ encodeHdr (decodeHdr b) = b :=
  ⟨decodeHdr_WT b hb, encodeHdr_decodeHdr b hb⟩

/-- a whole table: `ParseTable (Table.WriteTo hs) = hs`, and a parsed table re-encodes to its bytes -/
theorem c14_table_bin_roundtrip (hs : List Hdr) (w : ∀ h ∈ hs, h.WT) :
    parseTable (encodeTable hs) = some hs := parseTable_encodeTable hs w

theorem c14_table_bin_roundtrip_bytes (b : Bytes) (hs : List Hdr) (h : parseTable b = some hs) :
    encodeTable hs = b := encodeTable_parseTable b hs h

/-- the `[]byte` flavour of the encoder (`EntryHeaders.Write`, as repaired): a buffer of at
    least 16 bytes receives the header at its start, the rest is untouched; a shorter one is
    refused -/
theorem c14_hdr_write_roundtrip (b b' : Bytes) (h : Hdr) (w : h.WT) (hw : hdrWrite b h = some b') :
    b'.length = b.length ∧ decodeHdr (slice b' 0 16) = h ∧ b'.drop 16 = b.drop 16 :=
  hdrWrite_roundtrip b b' h w hw

theorem c14_hdr_write_refuses (b : Bytes) (h : Hdr) : hdrWrite b h = none ↔ b.length < 16 :=
  hdrWrite_none b h

/-- JSON (structured value; the text layer of encoding/json is assumed):
    `UnmarshalJSON (MarshalJSON h) = h` for every representable header -/
theorem c14_hdr_json_roundtrip (h : Hdr) (w : h.WT) : fromJSON (toJSON h) = .ok h :=
  toJSON_fromJSON h w

/-! ## C14.3 Inject modifies only the pointer, the table and the data ranges -/

/-- **frame** — for every image, entry list and table offset, whether `Inject` succeeds, is
    refused or fails midway: the image keeps its size and every byte outside the 8-byte FIT
    pointer window at `size − 0x40`, the table window `[tbl, tbl + 16·|es|)` and the data windows
    `[offset(address), + |data|)` of the entries that carry data is unchanged. -/
theorem c14_inject_frame (img : Bytes) (es : List Entry) (tbl : Nat) :
    (inject img es tbl).1.length = img.length ∧
    ∀ j, (∀ r ∈ layout es tbl img.length, j < r.1 ∨ r.1 + r.2 ≤ j) →
      (inject img es tbl).1[j]? = img[j]? := by
  refine ⟨inject_length img es tbl, fun j hj => ?_⟩
  apply inject_frame
  · exact hj (img.length - fitPointerOffset, 8) (by simp [layout])
  · exact hj (tbl, 16 * es.length) (by simp [layout])
  · intro e he hne
    exact hj (dataOff img.length e, e.data.length)
      (by simp only [layout, List.mem_cons]; exact Or.inr (Or.inr (mem_dataRanges _ _ _ he hne)))

/-! ## C14.4 Inject, then read back -/

/-- under `ValidLayout`, `GetTable` on the injected image returns exactly the injected headers,
    in order -/
theorem c14_inject_get_table (img : Bytes) (es : List Entry) (tbl : Nat)
    (hv : ValidLayout img.length tbl es) :
    getTable (inject img es tbl).1 = some (es.map Entry.hdr) := by
  obtain ⟨_, hlen, hptr, htab, _⟩ := inject_valid img es tbl hv
  obtain ⟨hn, hn63, h0, hwt, _, hin, _⟩ := hv
  generalize (inject img es tbl).1 = img' at hlen hptr htab ⊢
  cases es with
  | nil => exact absurd h0 (by simp [FitHeaderOK])
  | cons e0 rest =>
    obtain ⟨hmagic, hcount⟩ := h0
    have htbl : tbl + 16 * (e0 :: rest).length ≤ img.length :=
      hin (tbl, 16 * (e0 :: rest).length) (by simp [layout])
    exact getTable_of_slices img' tbl e0.hdr (rest.map Entry.hdr) (by rw [hlen]; exact hn)
      (by rw [hlen]; exact hn63)
      (by simp only [List.length_cons, List.length_map] at htbl ⊢; rw [hlen]; exact htbl)
      (by
        intro h hh
        simp only [List.mem_cons, List.mem_map] at hh
        rcases hh with rfl | ⟨e, he, rfl⟩
        · exact hwt e0 (by simp)
        · exact hwt e (by simp [he]))
      hmagic (by simpa using hcount)
      (by rw [hlen]; exact hptr)
      (by simpa using htab)

/-- **C14 (inject, then get)** — for every image, table offset and entry list laid out without
    overlap (`ValidLayout`: image of at least 0x40 bytes; entry 0 carries the magic and the count;
    every entry self-consistent; pointer, table and data windows inside the image and pairwise
    disjoint): `Inject` succeeds and `GetEntries` on the result returns the same entries — same
    order, same headers, same Go types, same data bytes. -/
theorem c14_inject_get (img : Bytes) (es : List Entry) (tbl : Nat) (hv : ValidLayout img.length tbl es) :
    (inject img es tbl).2 = true ∧
    (getEntries (inject img es tbl).1).map (List.map Prod.fst) = some es := by
  have hgt := c14_inject_get_table img es tbl hv
  obtain ⟨hok, hlen, _, _, hdata⟩ := inject_valid img es tbl hv
  obtain ⟨_, hn63, _, hwt, hwf, _, _⟩ := hv
  refine ⟨hok, ?_⟩
  generalize (inject img es tbl).1 = img' at hlen hdata hgt ⊢
  have key : ∀ l : List Entry, (∀ e ∈ l, (readEntry img' e.hdr).1 = e) →
      List.map Prod.fst (List.map (readEntry img') (List.map Entry.hdr l)) = l := by
    intro l hl
    induction l with
    | nil => rfl
    | cons x xs ih =>
      simp only [List.map_cons]
      rw [hl x (by simp), ih (fun e he => hl e (by simp [he]))]
  unfold getEntries
  rw [hgt]
  simp only [Option.map_some, Option.some.injEq]
  apply key
  intro e he
  have hwfe := hwf e he
  rw [← hlen] at hwfe hn63
  exact readEntry_of_slice img' e hn63 (hwt e he) hwfe
    (fun hne => by rw [hlen]; exact (hdata e he hne).1)
    (fun hne => by rw [hlen]; exact (hdata e he hne).2)

/-- **the FIT pointer designates the table**: the 8 bytes at `size − 0x40` hold the physical
    address of `tbl`, and `GetHeadersTableRangeFrom` locates the table at `[tbl, tbl + 16·|es|)` -/
theorem c14_pointer_designates (img : Bytes) (es : List Entry) (tbl : Nat)
    (hv : ValidLayout img.length tbl es) :
    fromLE (slice (inject img es tbl).1 (img.length - fitPointerOffset) 8) = physOfOffset tbl img.length ∧
    offsetOfPhys (physOfOffset tbl img.length) img.length = tbl ∧
    tableRange (inject img es tbl).1 = some (tbl, tbl + 16 * es.length) := by
  obtain ⟨_, hlen, hptr, htab, _⟩ := inject_valid img es tbl hv
  obtain ⟨hn, hn63, h0, hwt, _, hin, _⟩ := hv
  have htbl : tbl + 16 * es.length ≤ img.length := hin (tbl, 16 * es.length) (by simp [layout])
  have hp64 := physOfOffset_lt tbl img.length
  refine ⟨by rw [hptr, fromLE_leN_of_lt 8 _ (by simp only [two64] at hp64; omega)],
    offsetOfPhys_physOfOffset tbl img.length (by simp only [two63, two64] at *; omega), ?_⟩
  cases es with
  | nil => exact absurd h0 (by simp [FitHeaderOK])
  | cons e0 rest =>
    obtain ⟨hmagic, hcount⟩ := h0
    have := tableRange_of_slices (inject img (e0 :: rest) tbl).1 tbl e0.hdr (rest.map Entry.hdr)
      (by rw [hlen]; exact hn) (by rw [hlen]; exact hn63)
      (by simp only [List.length_cons, List.length_map] at htbl ⊢; rw [hlen]; exact htbl)
      (hwt e0 (by simp)) hmagic (by simpa using hcount) (by rw [hlen]; exact hptr) (by simpa using htab)
    simpa using this

/-- **entry 0 carries the magic and the count**: the first 8 bytes of the table are `_FIT_   `,
    the next 3 (little endian) the number of entries -/
theorem c14_entry0_magic_count (img : Bytes) (es : List Entry) (tbl : Nat)
    (hv : ValidLayout img.length tbl es) :
    slice (inject img es tbl).1 tbl 8 = magic ∧
    fromLE (slice (inject img es tbl).1 (tbl + 8) 3) = es.length := by
  obtain ⟨_, _, _, htab, _⟩ := inject_valid img es tbl hv
  obtain ⟨_, _, h0, hwt, _, _, _⟩ := hv
  cases es with
  | nil => exact absurd h0 (by simp [FitHeaderOK])
  | cons e0 rest =>
    obtain ⟨hmagic, hcount⟩ := h0
    have hsz := (hwt e0 (by simp)).size
    generalize (inject img (e0 :: rest) tbl).1 = img' at htab ⊢
    have h8 : slice img' tbl 8 = slice (encodeTable ((e0 :: rest).map Entry.hdr)) 0 8 := by
      rw [← htab, slice_slice _ _ _ _ _ (by simp only [List.length_cons]; omega), Nat.add_zero]
    have h3 : slice img' (tbl + 8) 3 = slice (encodeTable ((e0 :: rest).map Entry.hdr)) 8 3 := by
      rw [← htab, slice_slice _ _ _ _ _ (by simp only [List.length_cons]; omega)]
    rw [h8, h3]
    simp only [List.map_cons, encodeTable_cons, encodeHdr, List.append_assoc]
    constructor
    · have := slice_mid [] (leN 8 e0.hdr.address) (leN 3 e0.hdr.size ++ ([UInt8.ofNat e0.hdr.reserved] ++
        (leN 2 e0.hdr.version ++ ([UInt8.ofNat e0.hdr.tcv, UInt8.ofNat e0.hdr.checksum] ++
        encodeTable (List.map Entry.hdr rest))))) 0 8 rfl (by simp)
      simp only [List.nil_append, List.append_assoc] at this
      rw [this, hmagic, magic_leN]
    · have := slice_mid (leN 8 e0.hdr.address) (leN 3 e0.hdr.size) ([UInt8.ofNat e0.hdr.reserved] ++
        (leN 2 e0.hdr.version ++ ([UInt8.ofNat e0.hdr.tcv, UInt8.ofNat e0.hdr.checksum] ++
        encodeTable (List.map Entry.hdr rest)))) 8 3 (by simp) (by simp)
      simp only [List.append_assoc] at this
      rw [this, fromLE_leN_of_lt 3 _ hsz, hcount]

/-! ## C14.5 RecalculateHeaders establishes the hypotheses about entry 0 -/

/-- After a successful `RecalculateHeaders` on a non-empty list (fewer than 2³² entries: the count
    goes through `uint32`), entry 0 carries the magic `_FIT_   ` and the entry count; the list keeps
    its length and the Go types their order. -/
theorem c14_recalc_entry0 (es es' : List Entry) (hne : es ≠ []) (h32 : es.length < 2 ^ 32)
    (h : recalc es = .ok es') :
    FitHeaderOK es' ∧ es'.length = es.length ∧ es'.map Entry.kind = es.map Entry.kind :=
  recalc_entry0 es es' hne h32 h

/-- A recomputed header describes its data whenever it can (`RecalcDescribes`: a multiple of 16
    bytes for the ×16 types, any length below 4 GiB for KM / BPM / BIOS policy): the TYPE field is
    the one registered for the Go type and the announced length is the data length — i.e. the
    data half of `Entry.WF`. -/
theorem c14_recalc_consistent (e e' : Entry) (h : recalcEntry e = .ok e') (hd : RecalcDescribes e) :
    e'.kind = kindOfType e'.hdr.type ∧ e'.data = e.data ∧
    announced e'.hdr e'.data = some e'.data.length :=
  recalcEntry_consistent e e' h hd

/-- The documented pipeline: `RecalculateHeaders`, then `Inject`, then `GetEntries` returns the
    recomputed entries. -/
theorem c14_recalc_inject_get (img : Bytes) (es es' : List Entry) (tbl : Nat)
    (hr : recalc es = .ok es') (hv : ValidLayout img.length tbl es') :
    (inject img es' tbl).2 = true ∧
    (getEntries (inject img es' tbl).1).map (List.map Prod.fst) = some es' ∧
    slice (inject img es' tbl).1 tbl 8 = magic ∧
    fromLE (slice (inject img es' tbl).1 (tbl + 8) 3) = es.length := by
  have hne : es ≠ [] := by
    intro h0; subst h0
    have : es' = [] := by
      have := hr; unfold recalc at this; injection this with this; exact this.symm
    subst this
    exact absurd hv.2.2.1 (by simp [FitHeaderOK])
  obtain ⟨h1, h2⟩ := c14_inject_get img es' tbl hv
  obtain ⟨h3, h4⟩ := c14_entry0_magic_count img es' tbl hv
  refine ⟨h1, h2, h3, ?_⟩
  rw [h4]
  -- the count: |es'| = |es| (no 2³² bound needed here: entry 0 of a valid layout carries |es'|)
  have hl : ∀ (a b : List Entry), recalcList a = .ok b → b.length = a.length :=
    fun a b hab => forall₂_length (recalcList_ok a b hab)
  unfold recalc at hr
  cases es with
  | nil => exact absurd rfl hne
  | cons x xs =>
    simp only at hr
    cases h5 : recalcList (x :: xs) with
    | error f => rw [h5] at hr; cases hr
    | ok es1 =>
      rw [h5] at hr
      have hlen := hl _ _ h5
      simp only [bind, Except.bind] at hr
      cases es1 with
      | nil => simp at hlen
      | cons e0 rest =>
        simp only at hr
        split at hr
        · cases hr
        · cases hs : setU24 (x :: xs).length with
          | error f => rw [hs] at hr; cases hr
          | ok sz =>
            rw [hs] at hr
            simp only [pure, Except.pure] at hr
            injection hr with hr; subst hr
            simpa using hlen

/-! ## non-vacuity: a concrete layout with four entries of different types -/

/-- 192-byte image; table of 4 entries at 0; KM data (5 bytes) at 64; microcode data (16 bytes)
    at 80; a startup ACM (32 bytes, self-described: size field 8 × 4) at 96; pointer at 128. -/
def sampleEntries : List Entry :=
  [ { kind := .fitHeader, hdr := { address := magicAddr, size := 4, reserved := 0, version := 0x0100, tcv := 0x80, checksum := 0 }, data := [] },
    { kind := .keyManifest, hdr := { address := 4294967296 - 192 + 64, size := 5, reserved := 0, version := 0x0100, tcv := 0x0B, checksum := 0 },
      data := [1, 2, 3, 4, 5] },
    { kind := .microcode, hdr := { address := 4294967296 - 192 + 80, size := 1, reserved := 0, version := 0x0100, tcv := 0x01, checksum := 0 },
      data := List.replicate 16 0xAB },
    { kind := .sacm, hdr := { address := 4294967296 - 192 + 96, size := 0, reserved := 0, version := 0x0100, tcv := 0x02, checksum := 0 },
      data := List.replicate 24 0x11 ++ [8, 0, 0, 0] ++ List.replicate 4 0x22 } ]

def sampleImage : Bytes := List.replicate 192 0xFF

set_option maxRecDepth 16384 in
theorem c14_sample_layout_valid : ValidLayout sampleImage.length 0 sampleEntries := by decide

example : (getEntries (inject sampleImage sampleEntries 0).1).map (List.map Prod.fst) = some sampleEntries :=
  (c14_inject_get sampleImage sampleEntries 0 c14_sample_layout_valid).2

/-- an entry without data whose header points outside the image is inside the quantifier too -/
example : ValidLayout 192 0
    [ { kind := .fitHeader, hdr := { address := magicAddr, size := 2, reserved := 0, version := 0x0100, tcv := 0, checksum := 0 }, data := [] },
      { kind := .biosStartup, hdr := { address := 0, size := 0xFFFFFF, reserved := 0, version := 0x0100, tcv := 0x07, checksum := 0 }, data := [] } ] := by
  decide

/-! ## hypotheses that are real (excluded points, executed on the implementation by T2) -/

/-- `RecalculateHeaders` on 17 bytes of microcode data announces 16: the entry is not
    self-consistent afterwards (read-back would return 16 bytes). -/
example : ∃ e', recalcEntry { kind := .microcode, hdr := default, data := List.replicate 17 0 } = .ok e' ∧
    announced e'.hdr e'.data = some 16 ∧ e'.data.length = 17 := ⟨_, rfl, by decide, by decide⟩

/-- `RecalculateHeaders` on a startup ACM only clears Size: with a blank header the TYPE field
    stays 0 (= FIT header), so the Go type and the TYPE field disagree. -/
example : ∃ e', recalcEntry { kind := .sacm, hdr := default, data := List.replicate 32 0 } = .ok e' ∧
    e'.kind = .sacm ∧ kindOfType e'.hdr.type = .fitHeader := ⟨_, rfl, rfl, by decide⟩

/-- overlapping windows are outside the quantifier: a data window on top of the table -/
example : ¬ ValidLayout 192 0
    [ { kind := .fitHeader, hdr := { address := magicAddr, size := 2, reserved := 0, version := 0x0100, tcv := 0, checksum := 0 }, data := [] },
      { kind := .keyManifest, hdr := { address := 4294967296 - 192 + 8, size := 2, reserved := 0, version := 0, tcv := 0x0B, checksum := 0 }, data := [1, 2] } ] := by
  decide

end Fiano.Fit
