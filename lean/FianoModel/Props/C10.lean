/-
  C10 — NVAR stores round-trip, and compaction keeps every live variable.
  Property theorems only; the lemmas live in FianoModel/Nvram/*.lean.

  All statements are unbounded: they hold for every store `s` of the reference grammar
  `Spec.NvStore` — any number of entries, chains of any length and interleaving, inline / indexed
  GUIDs, ASCII / UCS-2 names (every Unicode scalar value), extended headers, dead and orphan
  entries, any GUID table and free space, both erase polarities — that satisfies the decidable
  well-formedness predicates of `Nvram/Spec.lean`:

    WF s   = `wf s`: field ranges, names without terminator inside, extended headers that hold what
             the attribute bits promise, no nested store, a GUID table of ≤ 255 16-byte GUIDs that
             holds exactly the referenced indices
    WFC s  = WF s ∧ `linksOk s` (no link of a variable's chain points at another variable's entry;
             no two such links point at the same offset) ∧ `fitsOk s` (head header + current content
             of every variable fit the 16-bit Size field) ∧ `uniqueKeys s` (the current variables
             have pairwise different (GUID, name))

  The model functions are those of `Nvram/Model.lean` (parseStore = uefi.NewNVarStore, asmStore =
  visitors.Assemble, compact = visitors.NVRamCompact, invalidate = visitors.NVarInvalidate).
-/
import FianoModel.Nvram.LiveLemmas
import FianoModel.Nvram.FuelLemmas
import FianoModel.Nvram.Tie

namespace Fiano.Nvram
open Spec

/-! ## C10.1 parse ∘ assemble is the identity on well-formed stores -/

/-- The parser's result on a well-formed store, field by field: `expectStore s` lists for every
    entry its type (Full / Link / Data / Invalid link / Invalid), GUID, GUID index, name, offset,
    next offset, data offset and buffer, and the GUID store, free-space offset and GUID-store offset. -/
theorem c10_parse_ser (s : NvStore) (h : WF s) : parseStore s.pol s.ser = .ok (expectStore s) :=
  parseStore_ser s h

/-- **nv_roundtrip**: a well-formed store parses, the parsed tree assembles without error, and the
    assembled bytes are the original bytes (Assemble leaves the whole in-memory store unchanged). -/
theorem nv_roundtrip (s : NvStore) (h : WF s) :
    ∃ st, parseStore s.pol s.ser = .ok st ∧ asmStore s.pol (depthFuel st) st = .ok st ∧ st.buf = s.ser := by
  refine ⟨expectStore s, parseStore_ser s h, ?_, rfl⟩
  exact asmStore_expect s h _

/-- the model's abstract view of the parsed store is the specification's list of current variables -/
theorem c10_live_parse (s : NvStore) (h : WF s) :
    ∃ st, parseStore s.pol s.ser = .ok st ∧ live st = Spec.live s := by
  refine ⟨expectStore s, parseStore_ser s h, ?_⟩
  have hp := wf_parts s h
  apply live_expect
  intro d hd r hr
  have hok := hp.ok d.entry (row_entry_mem s d hd)
  cases he : d.entry with
  | var f g n v x nx =>
    rw [he] at hok hr
    simp only [Entry.ok, Bool.and_eq_true] at hok
    simp only [Entry.next] at hr
    subst hr
    have := hok.2.2
    simp only [okNext, Bool.and_eq_true, decide_eq_true_eq] at this
    exact this.1
  | data f v x nx =>
    rw [he] at hok hr
    simp only [Entry.ok, Bool.and_eq_true] at hok
    simp only [Entry.next] at hr
    subst hr
    have := hok.2.2
    simp only [okNext, Bool.and_eq_true, decide_eq_true_eq] at this
    exact this.1
  | dead a nx b => rw [he] at hr; simp [Entry.next] at hr

/-- The entry walk of `NewNVarStore` (repaired code) terminates on EVERY byte string and every
    polarity, well-formed or hostile: every parsed entry consumes `Header.Size ≥ 10` bytes, so the
    fuel `|buf| + 1` of the model's loop is never exhausted.  (On the unrepaired code an entry with
    Size = 0 makes the loop spin forever — DESIGN §8 row 2, fixes/C05-nvar-bounds.diff.) -/
theorem c10_parse_terminates (pol : Nat) (b : Bytes) : parseStore pol b ≠ .error .fuel :=
  parseStore_not_fuel pol b

/-! ## C10.2 compaction -/

/-- compaction after invalidating the names selected by `K` (general form of the two theorems below) -/
theorem c10_compact_general (K : Bytes → Bool) (s : NvStore) (h : WFC s) :
    ∃ st', compact s.pol (depthFuel (expectStore s)) (invalK K (expectStore s)) = .ok st' ∧
      st'.buf.length = s.ser.length ∧
      (∀ v ∈ st'.entries, v.type = .full) ∧
      st'.entries.map (fun v => ((v.guid, v.name), content v)) = (Spec.live s).filter (fun kv => !K kv.1.2) ∧
      live st' = (Spec.live s).filter (fun kv => !K kv.1.2) ∧
      ((live st').map (·.1)).Nodup ∧
      parseStore s.pol st'.buf = .ok st' := by
  obtain ⟨hwf, hlk, hfit, huniq⟩ := h
  have hp := wf_parts s hwf
  have hl := links_of_wf s hwf hlk
  obtain ⟨hparts, hlen, _⟩ := compactG_wf K s hp hl hfit
  obtain ⟨hlive, hvars, hfull⟩ := live_compactG K s hp
  refine ⟨expectStore (compactG K s), compact_expect K s hp hl hfit _, hlen, hfull, ?_, ?_, ?_, ?_⟩
  · rw [hvars, liveK_filter]
  · rw [hlive, liveK_filter]
  · rw [hlive, liveK_filter]
    have hnd := nodupB_nodup _ huniq
    exact (List.Sublist.map _ (List.filter_sublist)).nodup hnd
  · exact parseStore_ser_parts (compactG K s) hparts

/-- **compact_spec** (C10): for a well-formed store, nvram-compact succeeds and the compacted store
    * has the same length,
    * consists of Full entries only (no link, data-only, invalid or superseded entry is left),
    * its entries, read as (GUID, name) ↦ content, are exactly the current variables of the
      original store — one entry per variable, carrying the most recent value and the name and
      GUID of the head of its chain —, and no two of them share (GUID, name),
    * has the same abstract view `live` as the parsed original,
    * and parsing its bytes again yields exactly the in-memory compacted store. -/
theorem compact_spec (s : NvStore) (h : WFC s) :
    ∃ st st', parseStore s.pol s.ser = .ok st ∧ compact s.pol (depthFuel st) st = .ok st' ∧
      st'.buf.length = s.ser.length ∧
      (∀ v ∈ st'.entries, v.type = .full) ∧
      st'.entries.map (fun v => ((v.guid, v.name), content v)) = Spec.live s ∧
      ((live st').map (·.1)).Nodup ∧
      live st' = live st ∧
      parseStore s.pol st'.buf = .ok st' := by
  obtain ⟨st', hc, hlen, hfull, hvars, hlive, hnd, hparse⟩ := c10_compact_general (fun _ => false) s h
  obtain ⟨st, hps, hls⟩ := c10_live_parse s h.1
  have hst : st = expectStore s := by
    have := parseStore_ser s h.1
    rw [this] at hps; injection hps with hps; exact hps.symm
  subst hst
  rw [invalK_none] at hc
  have hid : (Spec.live s).filter (fun kv => !(fun _ => false) kv.1.2) = Spec.live s := by simp
  rw [hid] at hvars hlive
  exact ⟨expectStore s, st', parseStore_ser s h.1, hc, hlen, hfull, hvars, hnd, by rw [hlive, hls], hparse⟩

/-- **invalidate_compact**: invalidating the variable named `n` (every entry of that name, as
    `invalidate_nvar n` does) and then compacting removes exactly the variables of that name — all
    their versions — and nothing else: the compacted store holds the other current variables
    unchanged, one Full entry each, has the same length, and re-parses to itself. -/
theorem invalidate_compact (s : NvStore) (h : WFC s) (n : Bytes) :
    ∃ st st', parseStore s.pol s.ser = .ok st ∧ compact s.pol (depthFuel st) (invalidate n st) = .ok st' ∧
      st'.buf.length = s.ser.length ∧
      (∀ v ∈ st'.entries, v.type = .full) ∧
      st'.entries.map (fun v => ((v.guid, v.name), content v)) = (live st).filter (fun kv => kv.1.2 ≠ n) ∧
      live st' = (live st).filter (fun kv => kv.1.2 ≠ n) ∧
      ((live st').map (·.1)).Nodup ∧
      parseStore s.pol st'.buf = .ok st' := by
  obtain ⟨st', hc, hlen, hfull, hvars, hlive, hnd, hparse⟩ := c10_compact_general (fun x => decide (x = n)) s h
  obtain ⟨st, hps, hls⟩ := c10_live_parse s h.1
  have hst : st = expectStore s := by
    have := parseStore_ser s h.1
    rw [this] at hps; injection hps with hps; exact hps.symm
  subst hst
  rw [← invalidate_eq] at hc
  have hf : (Spec.live s).filter (fun kv => !(fun x => decide (x = n)) kv.1.2)
      = (live (expectStore s)).filter (fun kv => kv.1.2 ≠ n) := by
    rw [hls]; congr 1; funext kv; simp
  rw [hf] at hvars hlive
  exact ⟨expectStore s, st', parseStore_ser s h.1, hc, hlen, hfull, hvars, hlive, hnd, hparse⟩

/-! ## the hypotheses are satisfiable (non-vacuity), and the functions compute -/

/-- an indexed-GUID ASCII variable superseded twice (chain interleaved with other entries), a UCS-2
    variable (BMP and astral characters) with an inline GUID and an extended header, a second
    indexed variable, a dead entry, an orphan data-only entry, free space and a two-GUID table -/
def sampleStore : NvStore :=
  { pol := 0xFF
    entries :=
      [ .var 1 (.index 0) (.ascii [86, 97, 114]) [1, 2, 3] none (some 82),           -- "Var", next version at 82
        .dead 0x06 0xFFFFFF [1, 2, 3, 4],
        .var 0 (.inline (List.replicate 16 0xAB)) (.ucs2 [79, 0x4E2D, 0x1F600, 114]) [9]
          (some { attrs := 0, body := List.replicate 8 7 }) none,
        .data 1 [4, 5] none (some 23),                                               -- at 82, next at 105
        .data 0 [6] none none,                                                       -- at 94: orphan
        .data 65 [0xFF, 0xFF] (some { attrs := 1, body := [0x5A] }) none,            -- at 105: current "Var"
        .var 32 (.index 1) (.ascii [75]) [] none none ]
    free := 21
    guids := [List.replicate 16 0x11, List.replicate 16 0x22] }

example : WFC sampleStore := by decide

/-- its current variables: "Var" (GUID 0) with the value of the last data-only entry, the UCS-2
    variable, and "K" (GUID 1) -/
example : (Spec.live sampleStore).map (fun kv => (kv.1.2, kv.2))
    = [ ([79, 228, 184, 173, 240, 159, 152, 128, 114], [9, 0, 7, 7, 7, 7, 7, 7, 7, 7, 11, 0]),
        ([86, 97, 114], [0xFF, 0xFF, 1, 0x5A, 4, 0]),
        ([75], []) ] := by decide

end Fiano.Nvram
