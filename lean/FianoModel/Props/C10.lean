/-
  C10 — NVAR stores round-trip, and compaction keeps every live variable.
  Property theorems only; the lemmas live in FianoModel/Nvram/*.lean.

  All statements are unbounded: they hold for every store `S` of the RECURSIVE reference grammar
  `Spec.NStore` (Nvram/SpecNested.lean) — any number of entries, chains of any length and
  interleaving, inline / indexed GUIDs, ASCII / UCS-2 names (every Unicode scalar value), extended
  headers, dead and orphan entries, any GUID table and free space, both erase polarities, and
  VALUES THAT ARE THEMSELVES STORES, to any nesting depth — that satisfies the decidable
  well-formedness predicates:

    WFN S   = `wfN S`: at every nesting level the one-level predicate `wf1` (field ranges, names
              without terminator inside, extended headers that hold what the attribute bits promise, a
              GUID table of ≤ 255 16-byte GUIDs that holds exactly the referenced indices), and per
              value: a raw value (with its extended header) does not begin with the NVAR signature, or
              it does and `NewNVarStore` refuses it (`notStore`: fiano then keeps it as plain bytes —
              the case of a store that sits in an entry WITH an extended header, which fiano reads as
              part of the store); a store value sits in an entry without extended header and has the
              erase polarity of its parent
    WFCN S  = `wfcN S`: WFN and, at every level, `linksOk` (no link of a variable's chain points at
              another variable's entry; no two such links point at the same offset), `fitsOk` (head
              header + current content of every variable fit the 16-bit Size field), `uniqueKeys`
              (the current variables have pairwise different (GUID, name))

  `S.ser` serializes nested values first; `S.flat` is the one-level view (values as bytes) in the
  grammar of Nvram/Spec.lean, for which the earlier one-level theorems (`…_flat`, hypotheses `WF`,
  `WFC`: no value begins with the NVAR signature) are kept below.

  The model functions are those of `Nvram/Model.lean` (parseStore = uefi.NewNVarStore, asmStore =
  visitors.Assemble, compact = visitors.NVRamCompact, invalidate = visitors.NVarInvalidate; the
  nested store of an entry is `nestedOf`, re-derived from the entry's content as Go does at parse
  time).  The proofs for nested stores go by induction on the fuel of the nesting recursion, which
  the byte length bounds: a nested store is at least 10 bytes shorter than the store holding it.
-/
import FianoModel.Nvram.NestedFinal
import FianoModel.Nvram.FuelNested
import FianoModel.Nvram.FuelOps
import FianoModel.Nvram.FuelLemmas
import FianoModel.Nvram.Tie
import FianoModel.Nvram.TieLogic
import FianoModel.Nvram.CodeTie   -- T1 code-as-code tie (wp-t1x): audited as a tie module of this check
import FianoModel.Nvram.CodeTieGuid   -- T1 code-as-code tie of getGUIDFromStore (wp-c10c, kind nvlistfn): audited as a tie module
import FianoModel.Uefi.CodeTie   -- T1 code-as-code tie (wp-t1x): audited as a tie module of this check

namespace Fiano.Nvram
open Spec

/-! ## C10.1 parse ∘ assemble is the identity on well-formed stores -/

/-- The parser's result on a well-formed store, field by field: `expectStore S.flat` lists for every
    entry its type (Full / Link / Data / Invalid link / Invalid), GUID, GUID index, name, offset,
    next offset, data offset and buffer, and the GUID store, free-space offset and GUID-store offset. -/
theorem c10_parse_ser (S : NStore) (h : WFN S) : parseStore S.pol S.ser = .ok (expectStore S.flat) := by
  have := parseStore_ser_parts S.flat (wfN_level S h).parts
  rw [flat_pol] at this
  exact this

/-- The nested store fiano attaches to a parsed entry (`NVar.NVarStore`): for the entry of a value
    that is a store `n` of the grammar it is the parsed form of `n` (none when `n` has no entry: its
    bytes are erased space); for every other entry there is none.  Since fixes/C10-nested-ext-header.diff
    (wp-nvfix) an entry WITH an extended header never carries a nested store, whatever its content is:
    the second clause says so for an entry whose content (value + header) happens to coincide with the
    bytes of a sub-store (no new hypothesis: the conclusion distinguishes the case; for `ext = none` it is
    the former statement, and under the former, narrower grammar the other case could not occur). -/
theorem c10_parse_nested (S : NStore) (h : WFN S) (r : Row) (hr : r ∈ table S.flat) :
    (∀ ns, nestedOf S.pol (expectNVar S.pol S.guids r) = some ns →
      ∃ n ∈ S.subs, ns = expectStore n.flat ∧ r.entry.content = n.ser) ∧
    (∀ n ∈ S.subs, r.entry.content = n.ser → (∀ a nx b, r.entry ≠ .dead a nx b) →
      nestedOf S.pol (expectNVar S.pol S.guids r) =
        if n.entries = [] ∨ r.entry.ext.isSome = true then none else some (expectStore n.flat)) :=
  nested_of_rows S h r hr

/-- **nv_roundtrip**: a well-formed store — values that are stores included, to any depth — parses,
    the parsed tree assembles without error (the Assemble visitor descends into every nested store
    first), and the assembled bytes are the original bytes (Assemble leaves the whole in-memory
    store unchanged). -/
theorem nv_roundtrip (S : NStore) (h : WFN S) :
    ∃ st, parseStore S.pol S.ser = .ok st ∧ asmStore S.pol (depthFuel st) st = .ok st ∧ st.buf = S.ser := by
  refine ⟨expectStore S.flat, c10_parse_ser S h, ?_, rfl⟩
  exact asmStoreN _ S h (by simp [depthFuel, expectStore, NStore.ser])

/-- the model's abstract view of the parsed store is the specification's list of current variables -/
theorem c10_live_parse (S : NStore) (h : WFN S) :
    ∃ st, parseStore S.pol S.ser = .ok st ∧ live st = Spec.live S.flat := by
  refine ⟨expectStore S.flat, c10_parse_ser S h, ?_⟩
  exact live_expect S.flat (pos_of_parts S.flat (wfN_level S h).parts)

/-! ## C10.1b termination: neither recursion ever runs out of fuel, on ANY byte string -/

/-- The entry walk of `NewNVarStore` (repaired code) terminates on EVERY byte string and every
    polarity, well-formed or hostile: every parsed entry consumes `Header.Size ≥ 10` bytes, so the
    fuel `|buf| + 1` of the model's loop is never exhausted.  (On the unrepaired code an entry with
    Size = 0 makes the loop spin forever — DESIGN §8 row 2, fixes/C05-nvar-bounds.diff.) -/
theorem c10_parse_terminates (pol : Nat) (b : Bytes) : parseStore pol b ≠ .error .fuel :=
  parseStore_not_fuel pol b

/-- The nesting recursion of the Assemble visitor never exhausts its fuel `depthFuel = |store| + 1`
    on the store parsed from ANY byte string (hostile included): the content of a parsed entry is at
    least 10 bytes shorter than the buffer it was parsed from, and a nested store is parsed from the
    content. -/
theorem c10_asm_terminates (pol : Nat) (b : Bytes) (st : Store) (h : parseStore pol b = .ok st) :
    asmStore pol (depthFuel st) st ≠ .error .fuel :=
  asmStore_not_fuel pol _ st (by simp [depthFuel]) (parsed_small pol b st h)

/-- The same for `nvram-compact`, also after invalidating any set of names. -/
theorem c10_compact_terminates (pol : Nat) (b : Bytes) (st : Store) (K : Bytes → Bool)
    (h : parseStore pol b = .ok st) : compact pol (depthFuel st) (invalK K st) ≠ .error .fuel := by
  apply compact_not_fuel pol _ _ (by simp [depthFuel])
  intro v hv
  simp only [invalK, List.mem_map] at hv
  obtain ⟨w, hw, rfl⟩ := hv
  rw [markK_content]
  exact parsed_small pol b st h w hw

/-- general form: any in-memory store, any fuel above the length of every entry content -/
theorem c10_fuel_general (pol d : Nat) (st : Store) (hd : 0 < d) (h : ∀ v ∈ st.entries, (content v).length < d) :
    asmStore pol d st ≠ .error .fuel ∧ compact pol d st ≠ .error .fuel :=
  ⟨asmStore_not_fuel pol d st hd h, compact_not_fuel pol d st hd h⟩

/-- **compaction (and Assemble) keep the fuel bound, on ANY in-memory store** — hostile ones included,
    no well-formedness, any fuel `d`: the result has the declared length of the input, and every entry
    BUFFER of the result is at most that long (the last step of both visitors, `case *uefi.NVarStore`
    of the Assemble visitor, refuses entries that reach into the GUID table), so every entry content
    is shorter than `depthFuel` of the result again. -/
theorem c10_compact_keeps_bound (pol d : Nat) (st st' : Store) :
    (compact pol d st = .ok st' ∨ asmStore pol d st = .ok st') →
    st'.length = st.length ∧ depthFuel st' = depthFuel st ∧
    (∀ v ∈ st'.entries, v.buf.length ≤ st'.length) ∧
    (∀ v ∈ st'.entries, (content v).length < depthFuel st') := by
  intro h
  have key : st'.length = st.length ∧ BufFit st' := by
    rcases h with h | h
    · exact compact_fit pol d st st' h
    · exact asmStore_fit pol d st st' h
  exact ⟨key.1, by simp [depthFuel, key.1], key.2, bufFit_fuelOk st' key.2⟩

/-- **op sequences on hostile input** (`compact; compact`, `compact; inv; asm; reparse; compact` …):
    start from the store parsed from ANY byte string and apply ANY list of operations (Assemble,
    compact, invalidate a name, parse the current bytes again — `Nvram.runOps`, the function the T2
    driver runs; every step takes the fuel `depthFuel` of the store it is applied to): no step ever
    reports `fuel`, and every store on the way satisfies the bound of `c10_fuel_general`. -/
theorem c10_ops_terminate (pol : Nat) (b : Bytes) (st : Store) (h : parseStore pol b = .ok st)
    (ops : List StOp) :
    (∀ r ∈ runOps pol st ops, r ≠ .error .fuel) ∧
    runOpsEnd pol st ops ≠ .error .fuel ∧
    (∀ s', .ok s' ∈ runOps pol st ops → ∀ v ∈ s'.entries, (content v).length < depthFuel s') := by
  have h0 : FuelOk st := parsed_small pol b st h
  refine ⟨runOps_not_fuel pol ops st h0, ?_, runOps_fuelOk pol ops st h0⟩
  intro hc
  exact runOps_not_fuel pol ops st h0 _ (runOpsEnd_mem pol ops st _ hc) rfl

/-- non-vacuity: a 48-byte store OUTSIDE WFCN (two current variables with the same key) parses, and
    the six operations compact; compact; invalidate "A"; asm; reparse; compact all succeed -/
example : (match parseStore 255 hostileDup with
    | Except.ok st => allOkOps (runOps 255 st opsSample) && (runOps 255 st opsSample).length == 6
    | Except.error _ => false) = true := by decide +kernel

/-- the same from any in-memory store within the bound (induction over the list of operations) -/
theorem c10_ops_terminate_general (pol : Nat) (st : Store)
    (h : ∀ v ∈ st.entries, (content v).length < depthFuel st) (ops : List StOp) :
    (∀ r ∈ runOps pol st ops, r ≠ .error .fuel) ∧
    (∀ s', .ok s' ∈ runOps pol st ops → ∀ v ∈ s'.entries, (content v).length < depthFuel s') :=
  ⟨runOps_not_fuel pol ops st h, runOps_fuelOk pol ops st h⟩

/-! ## C10.2 compaction -/

/-- compaction after invalidating the names selected by `K` (general form of the two theorems
    below).  `compactN K S` is the compaction carried out on the grammar (Nvram/CompactNDefs.lean),
    `liveC K S` the current variables of `S` that were not invalidated, as (GUID, name) ↦ content with
    nested stores in compacted form, `deepLive` the tree of current variables. -/
theorem c10_compact_general (K : Bytes → Bool) (S : NStore) (h : WFCN S) :
    ∃ st', compact S.pol (depthFuel (expectStore S.flat)) (invalK K (expectStore S.flat)) = .ok st' ∧
      st'.buf = (compactN K S).ser ∧
      st'.buf.length = S.ser.length ∧
      (∀ v ∈ st'.entries, v.type = .full) ∧
      st'.entries.map (fun v => ((v.guid, v.name), content v)) = liveC K S ∧
      live st' = liveC K S ∧
      (liveC K S).map (·.1) = ((Spec.live S.flat).filter (fun kv => !K kv.1.2)).map (·.1) ∧
      ((live st').map (·.1)).Nodup ∧
      parseStore S.pol st'.buf = .ok st' ∧
      WFN (compactN K S) ∧ allTerminal (compactN K S) = true ∧
      (compactN K S).deepLive = S.deepLive.filter (fun kv => !K kv.1.2) := by
  obtain ⟨hcomp, hwfC, hlen, hpolC, _, _⟩ := compactN_main (depthFuel (expectStore S.flat)) K S h
    (by simp [depthFuel, expectStore, NStore.ser])
  have hc := wfcN_level S h
  obtain ⟨hfull, hents, hlive⟩ := expect_allvar (compactN K S).flat (compactN_flat_allvar K S)
  have hvars := compactN_vars K S h
  have hkeys := liveC_keys K S
  refine ⟨expectStore (compactN K S).flat, hcomp, rfl, hlen, hfull, by rw [hents, hvars], by rw [hlive, hvars],
    hkeys, ?_, ?_, hwfC, allTerminal_compactN _ K S (Nat.lt_succ_self _),
    deepLive_compactN _ K S h (Nat.lt_succ_self _)⟩
  · rw [hlive, hvars, hkeys]
    have hnd := nodupB_nodup _ hc.uniq
    exact (List.Sublist.map _ (List.filter_sublist)).nodup hnd
  · have := c10_parse_ser (compactN K S) hwfC
    rw [hpolC] at this
    exact this

/-- **compact_spec** (C10): for a well-formed store — nested stores included, to any depth —
    nvram-compact succeeds and the compacted store
    * has the same length, and its bytes are the serialization of the grammar-level compaction,
    * consists of Full entries only (no link, data-only, invalid or superseded entry is left), and the
      same holds inside every nested store at any depth (`allTerminal`),
    * its entries, read as (GUID, name) ↦ content, are exactly the current variables of the original
      store — one entry per variable, carrying the most recent value (a nested store: in compacted
      form) and the name and GUID of the head of its chain —, and no two of them share (GUID, name),
    * has the same abstract meaning: the TREE of current variables `deepLive` is unchanged,
    * is well formed again, and parsing its bytes yields exactly the in-memory compacted store. -/
theorem compact_spec (S : NStore) (h : WFCN S) :
    ∃ st st', parseStore S.pol S.ser = .ok st ∧ compact S.pol (depthFuel st) st = .ok st' ∧
      st'.buf = (compactN (fun _ => false) S).ser ∧
      st'.buf.length = S.ser.length ∧
      (∀ v ∈ st'.entries, v.type = .full) ∧ allTerminal (compactN (fun _ => false) S) = true ∧
      st'.entries.map (fun v => ((v.guid, v.name), content v)) = liveC (fun _ => false) S ∧
      (liveC (fun _ => false) S).map (·.1) = (live st).map (·.1) ∧
      ((live st').map (·.1)).Nodup ∧
      (compactN (fun _ => false) S).deepLive = S.deepLive ∧
      WFN (compactN (fun _ => false) S) ∧
      parseStore S.pol st'.buf = .ok st' := by
  obtain ⟨st', hc, hbuf, hlen, hfull, hvars, _, hkeys, hnd, hparse, hwf, hterm, hdeep⟩ :=
    c10_compact_general (fun _ => false) S h
  obtain ⟨st, hps, hls⟩ := c10_live_parse S (wfcN_wfN S h)
  have hst : st = expectStore S.flat := by
    have := c10_parse_ser S (wfcN_wfN S h)
    rw [this] at hps; injection hps with hps; exact hps.symm
  subst hst
  rw [invalK_none] at hc
  have hid : (Spec.live S.flat).filter (fun kv => !(fun _ => false) kv.1.2) = Spec.live S.flat := by simp
  rw [hid] at hkeys
  have hid2 : S.deepLive.filter (fun kv => !(fun _ => false) kv.1.2) = S.deepLive := by simp
  rw [hid2] at hdeep
  exact ⟨expectStore S.flat, st', c10_parse_ser S (wfcN_wfN S h), hc, hbuf, hlen, hfull, hterm, hvars,
    by rw [hkeys, hls], hnd, hdeep, hwf, hparse⟩

/-- **invalidate_compact**: invalidating the variable named `n` (every top-level entry of that name,
    as `invalidate_nvar n` does — it does not descend into nested stores) and then compacting removes
    exactly the variables of that name — all their versions — and nothing else: the compacted store
    holds the other current variables (nested stores compacted), one Full entry each, has the same
    length, the tree of current variables is the original's minus the variables named `n`, and it
    re-parses to itself. -/
theorem invalidate_compact (S : NStore) (h : WFCN S) (n : Bytes) :
    ∃ st st', parseStore S.pol S.ser = .ok st ∧ compact S.pol (depthFuel st) (invalidate n st) = .ok st' ∧
      st'.buf.length = S.ser.length ∧
      (∀ v ∈ st'.entries, v.type = .full) ∧
      st'.entries.map (fun v => ((v.guid, v.name), content v)) = liveC (fun x => decide (x = n)) S ∧
      (liveC (fun x => decide (x = n)) S).map (·.1) = ((live st).filter (fun kv => kv.1.2 ≠ n)).map (·.1) ∧
      ((live st').map (·.1)).Nodup ∧
      (compactN (fun x => decide (x = n)) S).deepLive = S.deepLive.filter (fun kv => kv.1.2 ≠ n) ∧
      st'.buf = (compactN (fun x => decide (x = n)) S).ser ∧ WFN (compactN (fun x => decide (x = n)) S) ∧
      parseStore S.pol st'.buf = .ok st' := by
  obtain ⟨st', hc, hbuf, hlen, hfull, hvars, _, hkeys, hnd, hparse, hwf, _, hdeep⟩ :=
    c10_compact_general (fun x => decide (x = n)) S h
  obtain ⟨st, hps, hls⟩ := c10_live_parse S (wfcN_wfN S h)
  have hst : st = expectStore S.flat := by
    have := c10_parse_ser S (wfcN_wfN S h)
    rw [this] at hps; injection hps with hps; exact hps.symm
  subst hst
  rw [← invalidate_eq] at hc
  have hf : (Spec.live S.flat).filter (fun kv => !(fun x => decide (x = n)) kv.1.2)
      = (live (expectStore S.flat)).filter (fun kv => kv.1.2 ≠ n) := by
    rw [hls]; congr 1; funext kv; simp
  rw [hf] at hkeys
  have hd : S.deepLive.filter (fun kv => !(fun x => decide (x = n)) kv.1.2)
      = S.deepLive.filter (fun kv => kv.1.2 ≠ n) := by
    congr 1; funext kv; simp
  rw [hd] at hdeep
  exact ⟨expectStore S.flat, st', c10_parse_ser S (wfcN_wfN S h), hc, hlen, hfull, hvars, hkeys, hnd, hdeep,
    hbuf, hwf, hparse⟩

/-! ## the one-level theorems (stores without nested stores, grammar of Nvram/Spec.lean) -/

theorem c10_parse_ser_flat (s : NvStore) (h : WF s) : parseStore s.pol s.ser = .ok (expectStore s) :=
  parseStore_ser s h

theorem c10_live_parse_flat (s : NvStore) (h : WF s) :
    ∃ st, parseStore s.pol s.ser = .ok st ∧ live st = Spec.live s :=
  ⟨expectStore s, parseStore_ser s h, live_expect s (pos_of_parts s (wf_parts s h))⟩

theorem nv_roundtrip_flat (s : NvStore) (h : WF s) :
    ∃ st, parseStore s.pol s.ser = .ok st ∧ asmStore s.pol (depthFuel st) st = .ok st ∧ st.buf = s.ser := by
  refine ⟨expectStore s, parseStore_ser s h, ?_, rfl⟩
  exact asmStore_expect s h _

/-- one-level form of `c10_compact_general` -/
theorem c10_compact_general_flat (K : Bytes → Bool) (s : NvStore) (h : WFC s) :
    ∃ st', compact s.pol (depthFuel (expectStore s)) (invalK K (expectStore s)) = .ok st' ∧
      st'.buf.length = s.ser.length ∧
      (∀ v ∈ st'.entries, v.type = .full) ∧
      st'.entries.map (fun v => ((v.guid, v.name), content v)) = (Spec.live s).filter (fun kv => !K kv.1.2) ∧
      live st' = (Spec.live s).filter (fun kv => !K kv.1.2) ∧
      ((live st').map (·.1)).Nodup ∧
      parseStore s.pol st'.buf = .ok st' := by
  obtain ⟨hwf, hlk, hfit, huniq⟩ := h
  have hp := wf_parts s hwf
  have hl := links_of_wf s hwf hlk
  obtain ⟨hparts, hlen, _⟩ := compactG_wf K s hp hl hfit
  obtain ⟨hlive, hvars, hfull⟩ := live_compactG K s hp
  refine ⟨expectStore (compactG K s), compact_expect K s hp hl hfit (wf_plain s hwf) _, hlen, hfull, ?_, ?_, ?_, ?_⟩
  · rw [hvars, liveK_filter]
  · rw [hlive, liveK_filter]
  · rw [hlive, liveK_filter]
    have hnd := nodupB_nodup _ huniq
    exact (List.Sublist.map _ (List.filter_sublist)).nodup hnd
  · exact parseStore_ser_parts (compactG K s) hparts

/-- **compact_spec** (C10): for a well-formed store, nvram-compact succeeds and the compacted store
    * has the same length,
    * consists of Full entries only (no link, data-only, invalid or superseded entry is left),
    * its entries, read as (GUID, name) ↦ content, are exactly the current variables of the
      original store — one entry per variable, carrying the most recent value and the name and
      GUID of the head of its chain —, and no two of them share (GUID, name),
    * has the same abstract view `live` as the parsed original,
    * and parsing its bytes again yields exactly the in-memory compacted store. -/
theorem compact_spec_flat (s : NvStore) (h : WFC s) :
    ∃ st st', parseStore s.pol s.ser = .ok st ∧ compact s.pol (depthFuel st) st = .ok st' ∧
      st'.buf.length = s.ser.length ∧
      (∀ v ∈ st'.entries, v.type = .full) ∧
      st'.entries.map (fun v => ((v.guid, v.name), content v)) = Spec.live s ∧
      ((live st').map (·.1)).Nodup ∧
      live st' = live st ∧
      parseStore s.pol st'.buf = .ok st' := by
  obtain ⟨st', hc, hlen, hfull, hvars, hlive, hnd, hparse⟩ := c10_compact_general_flat (fun _ => false) s h
  obtain ⟨st, hps, hls⟩ := c10_live_parse_flat s h.1
  have hst : st = expectStore s := by
    have := parseStore_ser s h.1
    rw [this] at hps; injection hps with hps; exact hps.symm
  subst hst
  rw [invalK_none] at hc
  have hid : (Spec.live s).filter (fun kv => !(fun _ => false) kv.1.2) = Spec.live s := by simp
  rw [hid] at hvars hlive
  exact ⟨expectStore s, st', parseStore_ser s h.1, hc, hlen, hfull, hvars, hnd, by rw [hlive, hls], hparse⟩

/-- **invalidate_compact**: invalidating the variable named `n` (every entry of that name, as
    `invalidate_nvar n` does) and then compacting removes exactly the variables of that name — all
    their versions — and nothing else: the compacted store holds the other current variables
    unchanged, one Full entry each, has the same length, and re-parses to itself. -/
theorem invalidate_compact_flat (s : NvStore) (h : WFC s) (n : Bytes) :
    ∃ st st', parseStore s.pol s.ser = .ok st ∧ compact s.pol (depthFuel st) (invalidate n st) = .ok st' ∧
      st'.buf.length = s.ser.length ∧
      (∀ v ∈ st'.entries, v.type = .full) ∧
      st'.entries.map (fun v => ((v.guid, v.name), content v)) = (live st).filter (fun kv => kv.1.2 ≠ n) ∧
      live st' = (live st).filter (fun kv => kv.1.2 ≠ n) ∧
      ((live st').map (·.1)).Nodup ∧
      parseStore s.pol st'.buf = .ok st' := by
  obtain ⟨st', hc, hlen, hfull, hvars, hlive, hnd, hparse⟩ := c10_compact_general_flat (fun x => decide (x = n)) s h
  obtain ⟨st, hps, hls⟩ := c10_live_parse_flat s h.1
  have hst : st = expectStore s := by
    have := parseStore_ser s h.1
    rw [this] at hps; injection hps with hps; exact hps.symm
  subst hst
  rw [← invalidate_eq] at hc
  have hf : (Spec.live s).filter (fun kv => !(fun x => decide (x = n)) kv.1.2)
      = (live (expectStore s)).filter (fun kv => kv.1.2 ≠ n) := by
    rw [hls]; congr 1; funext kv; simp
  rw [hf] at hvars hlive
  exact ⟨expectStore s, st', parseStore_ser s h.1, hc, hlen, hfull, hvars, hlive, hnd, hparse⟩

/-! ## the hypotheses are satisfiable (non-vacuity), and the functions compute -/

/-- an indexed-GUID ASCII variable superseded twice (chain interleaved with other entries), a UCS-2
    variable (BMP and astral characters) with an inline GUID and an extended header, a second
    indexed variable, a dead entry, an orphan data-only entry, free space and a two-GUID table -/
def sampleStore : NvStore :=
  { pol := 0xFF
    entries :=
      [ .var 1 (.index 0) (.ascii [86, 97, 114]) [1, 2, 3] none (some 82),           -- "Var", next version at 82
        .dead 0x06 0xFFFFFF [1, 2, 3, 4],
        .var 0 (.inline (List.replicate 16 0xAB)) (.ucs2 [79, 0x4E2D, 0x1F600, 114]) [9]
          (some { attrs := 0, body := List.replicate 8 7 }) none,
        .data 1 [4, 5] none (some 23),                                               -- at 82, next at 105
        .data 0 [6] none none,                                                       -- at 94: orphan
        .data 65 [0xFF, 0xFF] (some { attrs := 1, body := [0x5A] }) none,            -- at 105: current "Var"
        .var 32 (.index 1) (.ascii [75]) [] none none ]
    free := 21
    guids := [List.replicate 16 0x11, List.replicate 16 0x22] }

example : WFC sampleStore := by decide

/-- its current variables: "Var" (GUID 0) with the value of the last data-only entry, the UCS-2
    variable, and "K" (GUID 1) -/
example : (Spec.live sampleStore).map (fun kv => (kv.1.2, kv.2))
    = [ ([79, 228, 184, 173, 240, 159, 152, 128, 114], [9, 0, 7, 7, 7, 7, 7, 7, 7, 7, 11, 0]),
        ([86, 97, 114], [0xFF, 0xFF, 1, 0x5A, 4, 0]),
        ([75], []) ] := by decide

/-! ### nested stores: a store of depth 3 with link chains at every level -/

set_option maxRecDepth 8000

/-- level 3 -/
def nestedInner2 : NStore := .mk 0xFF
  [ .var 0 (.inline (List.replicate 16 0x33)) (.ascii [90]) (.raw [7, 7]) none none ] 2 []   -- "Z"

/-- level 2: "In" superseded by a data-only entry whose value is the level-3 store, "W" superseded
    by a plain data-only entry (a link inside the nested store), a dead and an orphan entry, one
    indexed GUID -/
def nestedInner1 : NStore := .mk 0xFF
  [ .var 1 (.index 0) (.ascii [73, 110]) (.raw [1]) none (some 15),            -- "In" at 0, next version at 15
    .data 0 (.store nestedInner2) none none,                                    -- at 15: current "In" = a store
    .var 0 (.inline (List.replicate 16 0x55)) (.ascii [87]) (.raw [5]) none (some 29),   -- "W" at 57, next at 86
    .data 1 (.raw [6]) none none,                                               -- at 86: current "W"
    .dead 0x06 0xFFFFFF [1, 2],
    .data 0 (.raw [8]) none none ]                                              -- orphan
  4 [List.replicate 16 0x44]

/-- level 1: "V" superseded by a data-only entry whose value is the level-2 store (245 bytes in all) -/
def nestedSample : NStore := .mk 0xFF
  [ .var 1 (.index 0) (.ascii [86]) (.raw [0xAA]) none (some 56),               -- "V" at 0, next version at 56
    .var 0 (.inline (List.replicate 16 0xAB)) (.ucs2 [79]) (.raw [9])
      (some { attrs := 0, body := List.replicate 8 7 }) none,                    -- "O"
    .data 0 (.store nestedInner1) none none,                                    -- at 56: current "V" = a store
    .dead 0x06 0xFFFFFF [1, 2, 3, 4] ]
  9 [List.replicate 16 0x11]

example : WFCN nestedSample := by decide

/-- its tree of current variables, as (path of names, value): O, V/In/Z, V/W -/
example : leavesL [] nestedSample.deepLive
    = [ ([[79]], [9, 0, 7, 7, 7, 7, 7, 7, 7, 7, 11, 0]), ([[86], [73, 110], [90]], [7, 7]), ([[86], [87]], [6]) ] := by
  decide

/-- the same after compaction on the grammar; after invalidating "O" first it is gone, alone -/
example : leavesL [] (compactN (fun _ => false) nestedSample).deepLive = leavesL [] nestedSample.deepLive := by
  decide

example : leavesL [] (compactN (fun x => decide (x = [79])) nestedSample).deepLive
    = [ ([[86], [73, 110], [90]], [7, 7]), ([[86], [87]], [6]) ] := by decide

/-- top level after compaction: "O" with its 12 content bytes, "V" with a 140-byte (compacted) store -/
example : (liveC (fun _ => false) nestedSample).map (fun kv => (kv.1.2, kv.2.length)) = [([79], 12), ([86], 140)] := by
  decide

/-! ### a store inside an entry that ALSO has an extended header (round 3, wp-c10c)

fiano hands content + extended header to `NewNVarStore`; the trailing header bytes sit where the
nested store's free space / GUID table would be, the parse fails, `NVar.NVarStore` stays nil and the
entry is an ordinary variable whose value happens to begin with "NVAR".  In the grammar that is a
`raw` value accepted by the `notStore` clause of `valueOk`; all theorems above cover it. -/

def innerSample : NStore :=
  .mk 0xFF [.var 1 (.index 0) (.ascii [65]) (.raw [7]) none none] 2 [(List.range 16).map (fun i => UInt8.ofNat (i + 1))]

/-- 102 bytes: "W" superseded by a data-only entry; "V" whose value is the 32 bytes of the well-formed
    store `innerSample` FOLLOWED BY an 11-byte extended header -/
def extNestedSample : NStore :=
  .mk 0xFF [ .var 1 (.index 0) (.ascii [87]) (.raw [5]) none (some 14),
             .data 1 (.raw [9, 9]) none none,
             .var 1 (.index 0) (.ascii [86]) (.raw innerSample.ser)
               (some { attrs := 0, body := [1, 2, 3, 4, 5, 6, 7, 8] }) none ]
    4 [(List.range 16).map (fun i => UInt8.ofNat (i + 1))]

example : WFN innerSample := by decide
example : WFCN extNestedSample := by decide +kernel
/-- the value does begin with the signature, and it is `NewNVarStore` that refuses it -/
example : ((innerSample.ser ++ extSer (some { attrs := 0, body := [1, 2, 3, 4, 5, 6, 7, 8] })).take 4 == Spec.sig
    && notStore 0xFF (innerSample.ser ++ extSer (some { attrs := 0, body := [1, 2, 3, 4, 5, 6, 7, 8] }))) = true := by
  decide +kernel
/-- without the extended header the same bytes ARE taken for a store -/
example : notStore 0xFF innerSample.ser = false := by decide +kernel
/-- compaction keeps "V" with all its 43 content bytes (store bytes + extended header) and "W" = 09 09 -/
example : (leavesL [] (compactN (fun _ => false) extNestedSample).deepLive).map (fun p => (p.1, p.2.length))
    = [([[87]], 2), ([[86]], 43)] := by decide +kernel

end Fiano.Nvram
