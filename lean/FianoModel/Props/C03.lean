/-
  Property C03 — an edit changes exactly what it names and nothing else; read-only operations never
  change what a later save writes.

  Model: Uefi/Visitors.lean.  Abstraction: a volume is the ordered list of its files as
  (GUID, type, attributes, body) with pad files dropped (`absFiles`, Uefi/AbsLemmas.lean).

  Proved here, for every tree, every predicate and every position (no bound):
    * Find reports exactly the matches, each once (`find_reports_matches`) — the match-once rule with
      the `currentFile` bookkeeping collapses to a local property of the file (`fileHit`);
    * each edit refines to plain list surgery on the abstract volume (`insert_refines`,
      `remove_refines`), at exactly the matched position (`insert_position`);
    * the frame: an edit touches no descriptor, no region other than the BIOS region, no padding, no
      volume header or buffer, and returns every subtree in which nothing matched identical
      (`frame`, `frame_quiet`) — the bytes of those parts are what `save` copies (C01);
    * `replace_pe32_exact`: only PE32 sections change, to header ++ new body;
    * `remove_pad_offsets`: a same-size pad file leaves every start offset of the volume unchanged;
    * `readonly_noop`; the GUID text form parses back to the same bytes (`guid_text_roundtrip`).
  Not proved (checks.d `unproved`; carried by T2 and the oracles on the saved bytes):
    `reparse_abs` (a reader of the *saved file* sees the abstract result — needs parse ∘ asm, i.e. the
    C01/C06 round-trip theorems of the shared core) and the byte-level form of the frame.
  Forced hypothesis met on the way: a volume whose list an edit leaves *empty* is not re-assembled
  (`asmFv` returns the old buffer) — on the real code this is finding F26 (known_findings.json).
-/
import FianoModel.Uefi.EditLemmas
import FianoModel.Uefi.GuidLemmas
import FianoModel.Uefi.EditTie

namespace Fiano.Uefi.C03
open EditArith
open Fiano Fiano.Uefi

/-- **Find reports exactly the matches, each once**: as many volume entries as volumes that satisfy
    the predicate, as many file entries as files that match in the local sense — the file itself
    satisfies the predicate, or a section of it that is not inside another file does -/
theorem find_reports_matches (p : Pred) (t : Tree) :
    tally (find p t) = cntTree p t ∧ (find p t).length = (cntTree p t).1 + (cntTree p t).2 :=
  ⟨find_tally p t, find_length p t⟩

/-- a file is reported once even if it matches by GUID *and* through several UI sections -/
theorem find_file_once (p : Pred) (i : FileInfo) (buf : Bytes) (secs : List Section) (hn : i.nvar = none)
    (hnested : cntSections p secs = (0, 0)) :
    tally (findFile p (.mk i buf secs)) = (0, if fileHit p (.mk i buf secs) then 1 else 0) := by
  rw [findFile_spec, cntFile]
  simp [hn, hnested, b2n]

/-- **Insert lands at the matched file**: the index the surgery uses is the first (with a unique
    match: the) file of the volume that is a match -/
theorem insert_position (p : Pred) (fs : List File) (i : Nat) (h : hitIndex p fs = some i) :
    (∃ f, fs[i]? = some f ∧ fileHit p f = true) ∧ ∀ j f, j < i → fs[j]? = some f → fileHit p f = false :=
  hitIndex_spec p fs i h

/-- **refinement of Insert / replace_ffs** to list surgery on the abstract volume: same files, same
    order, same bodies, plus exactly the new file at the named place (minus exactly the matched file
    for replace_ffs); pad files are transparent -/
theorem insert_refines (w : Where) (nf : File) (fs : List File) (i : Nat) (hi : i < fs.length) :
    absFiles (insertAt w nf fs i) =
      match w with
      | .front => absFiles [nf] ++ absFiles fs
      | .end_ => absFiles fs ++ absFiles [nf]
      | .dxe => absFiles fs ++ absFiles [nf]
      | .after => absFiles (fs.take (i + 1)) ++ absFiles [nf] ++ absFiles (fs.drop (i + 1))
      | .before => absFiles (fs.take i) ++ absFiles [nf] ++ absFiles (fs.drop i)
      | .replace => absFiles (fs.take i) ++ absFiles [nf] ++ absFiles (fs.drop (i + 1)) :=
  insert_abs w nf fs i hi

/-- **refinement of Remove / remove_pad**: the abstract volume loses exactly the matched files,
    whether they are dropped or (remove_pad, PEIM) replaced by pad files; the rest keeps its order -/
theorem remove_refines (p : Pred) (pad : Bool) (pol : UInt8) (fs fs' : List File)
    (h : rwFiles (removeEditor p pad pol) fs = .ok fs') :
    absFiles fs' = absFiles (fs.filter (fun f => !fileHit p f)) :=
  remove_abs p pad pol fs fs' h

/-- **frame**: an edit leaves the descriptor, the flash size, every region that is not the BIOS
    region, the BIOS region's length / buffer / position, every padding, and the header fields and
    buffer of every volume exactly as they were -/
theorem frame (E : Editor) (t t' : Tree) (h : rwTree E t = .ok t') : TreeFrame E t t' :=
  rwTree_frame E t t' h

/-- **frame, untouched subtrees**: a volume (a file, a section) below which the editor does not fire
    is returned identical — so `save` assembles it from the same tree as an unedited save would -/
theorem frame_quiet (E : Editor) :
    (∀ v, quietFv E v = true → rwFv E v = .ok v) ∧ (∀ f, quietFile E f = true → rwFile E f = .ok (some f)) ∧
    (∀ s, quietSection E s = true → rwSection E s = .ok s) :=
  ⟨rwFv_quiet E, rwFile_quiet E, rwSection_quiet E⟩

/-- **`replace_pe32_exact`**: a section that is not a PE32 section keeps its header fields and its
    buffer; a PE32 section becomes a 4- or 8-byte header followed by exactly the new body -/
theorem replace_pe32_exact (body : Bytes) (s s' : Section) (h : pe32Section body s = .ok s') :
    (s.info.type ≠ secTypePE32 → s'.info = s.info ∧ s'.buf = s.buf) ∧
    (s.info.type = secTypePE32 → ∃ hdr, s'.buf = hdr ++ body ∧ (hdr.length = 4 ∨ hdr.length = 8) ∧ s'.encap = []) := by
  have := pe32Section_exact body s s' h
  refine ⟨this.1, fun ht => ?_⟩
  obtain ⟨i', buf', hg, rfl⟩ := this.2 ht
  obtain ⟨hdr, hb, hl, _⟩ := genSecHeader_body s.info i' body buf' (by rw [ht]; decide) hg
  exact ⟨hdr, hb, hl, rfl⟩

/-- **`remove_pad_offsets`**: replacing a file that sat at its 8-byte boundary by a same-size file
    without data alignment (the pad file of `remove_pad`) leaves every start offset unchanged -/
theorem remove_pad_keeps_offsets (pre post : List (Nat × Bytes)) (x x' : Nat × Bytes) (off : Nat)
    (hsize : x'.2.length = x.2.length) (hal : alignmentOf x'.1 = 1)
    (hsat : fileStart (layEnd pre off) x.1 = roundUp (layEnd pre off) 8) :
    starts (pre ++ x' :: post) off = starts (pre ++ x :: post) off :=
  remove_pad_offsets pre post x x' off hsize hal hsat

/-- the pad file `remove_pad` creates has the size of the file it replaces and no data alignment -/
theorem remove_pad_same_size (pol : UInt8) (size : Nat) (h24 : 24 ≤ size) (h64 : size < 2 ^ 64) (hp : pol = 0xFF ∨ pol = 0) :
    ∃ f, mkPadFile pol size = .ok f ∧ f.buf.length = size ∧ Valid.dataAlign f.info.attrs = 1 := by
  obtain ⟨f, h1, h2, _, _, h5, _⟩ := mkPadFile_valid pol size h24 h64 hp
  exact ⟨f, h1, h2, h5⟩

/-- **`readonly_noop`**: find, json, table, count, validate, cat, dump, comment return the run state
    they were given — tree, process state and written files (in the model they cannot do otherwise;
    the code side is `EditTie.readonly_inventory` plus the T2 oracle `read-only-ops-change-nothing`) -/
theorem readonly_noop (h : Hooks) (r : ReadOnly) (s s' : Run) (hs : step h (.ro r) s = .ok s') : s' = s := by
  unfold step at hs
  split at hs
  · cases r <;> simp [stepNil] at hs <;> exact hs.symm
  · simp only at hs
    split at hs
    · cases hs
    · cases hs; rfl

/-- **GUID text form**: `guid.Parse (g.String()) = g`, hence selecting a file by the text of its GUID
    selects by its 16 bytes -/
theorem guid_text_roundtrip (g g' : Bytes) (h : g.length = 16) (h' : g'.length = 16) :
    guidParse (guidText g) = some g ∧ (guidText g = guidText g' → g = g') :=
  ⟨guidParse_guidText g h, guidText_injective g g' h h'⟩

/-! ### non-vacuity -/
def fileA : File := .mk { guid := List.replicate 16 1, ckHeader := 0, ckFile := 0, type := 7, attrs := 0, size3 := 28,
                          state := 0xF8, extSize := 28, dataOffset := 24 } (List.replicate 28 7) []
def fileB : File := .mk { guid := List.replicate 16 2, ckHeader := 0, ckFile := 0, type := 0xF0, attrs := 0, size3 := 24,
                          state := 0xF8, extSize := 24, dataOffset := 24 } (List.replicate 24 0xFF) []
def byGuid1 : Pred := { file := fun f => f.info.guid == List.replicate 16 1 }

example : hitIndex byGuid1 [fileB, fileA] = some 1 := by decide
example : absFiles [fileB, fileA] = [absFile fileA] := by decide
example : (match rwFiles (removeEditor byGuid1 false 0xFF) [fileB, fileA] with
    | .ok fs => absFiles fs == [] | .error _ => false) = true := by decide

end Fiano.Uefi.C03
