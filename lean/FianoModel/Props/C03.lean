/-
  Property C03 — an edit changes exactly what it names and nothing else; read-only operations never
  change what a later save writes.

  Model: Uefi/Visitors.lean on the shared UEFI core (Uefi/Parse.lean, Uefi/Assemble.lean).
  Abstraction: a volume is the ordered list of its files as (GUID, type, attributes, body) with pad
  files dropped (`absFiles`, Uefi/AbsLemmas.lean); `avTree` lists the abstract volumes of a whole
  tree, nested ones included, in the order a reader meets them.

  Proved here, for every tree, predicate, position, hook set (no bound on sizes, counts, depth):
   A  the operations on the tree
    * Find reports exactly the matches, each once (`find_reports_matches`, `find_file_once`);
    * each edit refines to list surgery on the abstract volume (`insert_position`, `insert_refines`,
      `remove_refines`); `replace_pe32_exact`; `remove_pad_keeps_offsets`, `remove_pad_same_size`;
    * the tree-level frame (`frame`, `frame_quiet`); `readonly_noop`; `guid_text_roundtrip`;
   B  what a reader of the SAVED bytes sees (follow-up wp-c03b; lemmas in Uefi/Exact*.lean, on the
      round-trip theorems of C01)
    * `asm_closure`: Assemble maps the invariant of edited trees into the reference grammar;
    * `reparse_abs`: for every tree reachable from a parsed (well-formed, tidy) image of the reference
      grammar — flash image with descriptor, bare BIOS region, single volume — by edits and saves,
      fiano's reader takes the saved bytes back into a tree with the abstract volumes of the written tree;
    * end to end at the volume: `insert_saved`, `remove_saved`, `replace_pe32_saved`, `remove_pad_saved`;
    * end to end at the tree (round 3, wp-c03c; image without descriptor, target = a top-level volume):
      `edit_saved_tree`, `insert_end_to_end`, `insert_by_volume_end_to_end`, `remove_end_to_end`,
      `replace_pe32_end_to_end` — the re-parsed saved image shows the
      edited list at the target volume and, for every other volume (nested ones included), the list of
      the input tree; `edit_saved_tree_nested` / `nested_edit_end_to_end`: the same when the target volume
      is nested in a file of another volume (any depth / one level spelled out): the enclosing file keeps
      GUID and type, every other file of the enclosing volume keeps GUID, type, attributes and body;
      `edit_saved_flash`: the same for a flash image with descriptor and one BIOS region;
      `saved_tree_reparsed`: any number of edits in any number of top-level volumes before the save;
   C  the bytes (follow-up wp-c03b)
    * `frame_bytes`, `frame_bytes_flash`: `asm (op t)` and `asm t` agree on every byte outside the
      volumes below which the edit worked, with explicit offsets (any tree, any hooks, any editor);
    * `frame_inside_volume`, `remove_pad_bytes`: inside the re-laid volume, the bytes up to the end of
      the common file prefix, and every byte outside the replaced file's own range;
    * an inserted blob outside the grammar (round 3, wp-c03c): `blob_node` (what `NewFile` accepts and
      the node it builds: the buffer is the blob's prefix), `inserted_bytes_verbatim` (the assembled
      buffer of the inserted file appears byte for byte at the offset the alignment rule computes) —
      with `frame_bytes*` and `frame_inside_volume` this is the frame for arbitrary accepted blobs.
  Forced hypotheses met on the way (reports/C03.md): an emptied volume is not re-assembled (F26,
  `keep…`); 2^30 or more files in one volume, 16 MiB and more (`GoodFv`, `tidy`).  Two former clauses
  of `GoodFv` are gone (round 3, wp-c03c): "no volume left with exactly 24 free bytes" and "no
  header-only file at the very end of a full volume" — both were reader defects found while proving
  `reparse_abs`, repaired by 8039e86 / cce350a; the grammar of C01 no longer excludes them.
-/
import FianoModel.Uefi.ExactCor
import FianoModel.Uefi.ExactReparse
import FianoModel.Uefi.ExactE2E
import FianoModel.Uefi.ExactE2ENest
import FianoModel.Uefi.ExactE2EFlash
import FianoModel.Uefi.ExactE2EPe32
import FianoModel.Uefi.ExactE2EBlob
import FianoModel.Uefi.ExactFrameFlash
import FianoModel.Uefi.GuidLemmas
import FianoModel.Uefi.EditTie
import FianoModel.Uefi.ExactTie
import FianoModel.Uefi.CodeTie   -- T1 code-as-code tie (wp-t1x): audited as a tie module of this check
import FianoModel.Uefi.CodeTieGuid   -- T1 code-as-code tie (wp-t1x): audited as a tie module of this check

namespace Fiano.Uefi.C03
open Fiano Fiano.Uefi Fiano.Uefi.Exact

/-! ## A — the operations on the tree -/

/-- **Find reports exactly the matches, each once**: as many volume entries as volumes that satisfy
    the predicate, as many file entries as files that match in the local sense — the file itself
    satisfies the predicate, or a section of it that is not inside another file does -/
theorem find_reports_matches (p : Pred) (t : Tree) :
    tally (find p t) = cntTree p t ∧ (find p t).length = (cntTree p t).1 + (cntTree p t).2 :=
  ⟨find_tally p t, find_length p t⟩

/-- a file is reported once even if it matches by GUID *and* through several UI sections -/
theorem find_file_once (p : Pred) (i : FileInfo) (buf : Bytes) (secs : List Section) (hn : i.nvar = none)
    (hnested : cntSections p secs = (0, 0)) :
    tally (findFile p (.mk i buf secs)) = (0, if fileHit p (.mk i buf secs) then 1 else 0) := by
  rw [findFile_spec, cntFile]
  simp [hn, hnested, b2n]

/-- **Insert lands at the matched file**: the index the surgery uses is the first (with a unique
    match: the) file of the volume that is a match -/
theorem insert_position (p : Pred) (fs : List File) (i : Nat) (h : hitIndex p fs = some i) :
    (∃ f, fs[i]? = some f ∧ fileHit p f = true) ∧ ∀ j f, j < i → fs[j]? = some f → fileHit p f = false :=
  hitIndex_spec p fs i h

/-- **refinement of Insert / replace_ffs** to list surgery on the abstract volume -/
theorem insert_refines (w : Where) (nf : File) (fs : List File) (i : Nat) (hi : i < fs.length) :
    absFiles (insertAt w nf fs i) = insertSpec w nf fs i :=
  insert_abs w nf fs i hi

/-- **refinement of Remove / remove_pad**: the abstract volume loses exactly the matched files,
    whether they are dropped or (remove_pad, PEIM) replaced by pad files; the rest keeps its order -/
theorem remove_refines (p : Pred) (pad : Bool) (pol : UInt8) (fs fs' : List File)
    (h : rwFiles (removeEditor p pad pol) fs = .ok fs') :
    absFiles fs' = absFiles (fs.filter (fun f => !fileHit p f)) :=
  remove_abs p pad pol fs fs' h

/-- **frame, tree level**: an edit leaves the descriptor, the flash size, every region that is not
    the BIOS region, the BIOS region's length / buffer / position, every padding, and the header
    fields and buffer of every volume exactly as they were -/
theorem frame (E : Editor) (t t' : Tree) (h : rwTree E t = .ok t') : TreeFrame E t t' :=
  rwTree_frame E t t' h

/-- **frame, untouched subtrees**: a volume (a file, a section) below which the editor does not fire
    is returned identical -/
theorem frame_quiet (E : Editor) :
    (∀ v, quietFv E v = true → rwFv E v = .ok v) ∧ (∀ f, quietFile E f = true → rwFile E f = .ok (some f)) ∧
    (∀ s, quietSection E s = true → rwSection E s = .ok s) :=
  ⟨rwFv_quiet E, rwFile_quiet E, rwSection_quiet E⟩

/-- **`replace_pe32_exact`**: a section that is not a PE32 section keeps its header fields and its
    buffer; a PE32 section becomes a 4- or 8-byte header followed by exactly the new body -/
theorem replace_pe32_exact (body : Bytes) (s s' : Section) (h : pe32Section body s = .ok s') :
    (s.info.type ≠ secTypePE32 → s'.info = s.info ∧ s'.buf = s.buf) ∧
    (s.info.type = secTypePE32 → ∃ hdr, s'.buf = hdr ++ body ∧ (hdr.length = 4 ∨ hdr.length = 8) ∧ s'.encap = []) := by
  have := pe32Section_exact body s s' h
  refine ⟨this.1, fun ht => ?_⟩
  obtain ⟨i', buf', hg, rfl⟩ := this.2 ht
  obtain ⟨hdr, hb, hl, _⟩ := genSecHeader_body s.info i' body buf' (by rw [ht]; decide) hg
  exact ⟨hdr, hb, hl, rfl⟩

/-- **`remove_pad_offsets`**: replacing a file that sat at its 8-byte boundary by a same-size file
    without data alignment (the pad file of `remove_pad`) leaves every start offset unchanged -/
theorem remove_pad_keeps_offsets (pre post : List (Nat × Bytes)) (x x' : Nat × Bytes) (off : Nat)
    (hsize : x'.2.length = x.2.length) (hal : alignmentOf x'.1 = 1)
    (hsat : fileStart (layEndM pre off) x.1 = Spec.alignUp (layEndM pre off) 8) :
    starts (pre ++ x' :: post) off = starts (pre ++ x :: post) off :=
  remove_pad_offsets pre post x x' off hsize hal hsat

/-- the pad file `remove_pad` creates has the size of the file it replaces and no data alignment -/
theorem remove_pad_same_size (pol : UInt8) (size : Nat) (h24 : 24 ≤ size) (hp : pol = 0xFF ∨ pol = 0) :
    ∃ f, mkPadFile pol size = .ok f ∧ f.buf.length = size ∧ alignmentOf f.info.attrs = 1 := by
  obtain ⟨f, h1, h2, h3, _⟩ := mkPadFile_size pol size h24 hp
  exact ⟨f, h1, h2, h3⟩

/-- **`readonly_noop`**: find, json, table, count, validate, cat, dump, comment return the run state
    they were given — tree, process state and written files (in the model they cannot do otherwise;
    the code side is `EditTie.readonly_inventory`, `EditTie.readonly_effects` plus the T2 oracles
    `read-only-ops-change-nothing` and `read-only-deep-dump`) -/
theorem readonly_noop (h : Hooks) (r : ReadOnly) (s s' : Run) (hs : step h (.ro r) s = .ok s') : s' = s := by
  unfold step at hs
  split at hs
  · cases r <;> simp [stepNil] at hs <;> exact hs.symm
  · simp only at hs
    split at hs
    · cases hs
    · cases hs; rfl

/-- **GUID text form**: `guid.Parse (g.String()) = g`, hence selecting a file by the text of its GUID
    selects by its 16 bytes -/
theorem guid_text_roundtrip (g g' : Bytes) (h : g.length = 16) (h' : g'.length = 16) :
    guidParse (guidText g) = some g ∧ (guidText g = guidText g' → g = g') :=
  ⟨guidParse_guidText g h, guidText_injective g g' h h'⟩

/-! ## B — what a reader of the saved bytes sees -/

/-- **`asm_closure`** (volume level, any nesting depth): Assemble on a volume node that satisfies the
    invariant of edited trees — arbitrary file list surgery, pad files, replaced PE32 sections, nested
    volumes that grow — leaves the process state alone, yields a node that satisfies the invariant
    again, and writes the serialisation of a well-formed volume of the reference grammar whose
    faithful tree shows, volume by volume, the abstract file lists of the written node -/
theorem asm_closure (v v' : Fv) (st st' : St) (hc : CanonFv v) (hp : st.pol = 0xFF) (hf : st.ffs3 = false)
    (h : asmFv Hooks.none v st = .ok (v', st')) (hg : GoodFv v') :
    st' = st ∧ CanonFv v' ∧
      ∃ vi, Spec.wfFv vi = true ∧ v'.buf = Spec.serFv vi ∧ ∀ off rz, avFv (Spec.treeFv vi off rz) = avFv v' := by
  obtain ⟨h1, h2, _, _, _, _, vi, h7, h8, h9⟩ := asm_canon_fv v hc st v' st' hp hf h hg
  exact ⟨h1, h2, vi, h7, h8, h9⟩

/-- every tree the parser reports for a well-formed, tidy image of the grammar starts an edit run -/
theorem reach_parsed (i : Spec.Img) (h : Spec.WF i) (ht : tidy i = true) : Reach (Spec.tree i) :=
  Reach.parsed i h ht

/-- Insert (file- or volume-matched), Remove / remove_pad, ReplacePE32 keep a tree inside `Reach`:
    the new file satisfies the invariant (a file of the grammar, a pad file), the volume selector
    accepts only volumes that have files, the PE32 body is below 4 GiB, no volume is emptied -/
theorem reach_ops (t t' : Tree) (hr : Reach t) :
    (∀ p w nf, CanonFile nf → (∀ v, p.fv v = true → v.files ≠ []) →
        keepTree (insertFvEditor p w nf) t → keepTree (insertFileEditor p w nf) t →
        insertOp p w nf t = .ok t' → Reach t') ∧
    (∀ p pad, keepTree (removeEditor p pad 0xFF) t → removeOp p pad 0xFF t = .ok t' → Reach t') ∧
    (∀ p body, body.length + 8 < 0xFFFFFFFF → keepTree (pe32Editor p body) t →
        replacePe32Op p body t = .ok t' → Reach t') := by
  refine ⟨?_, ?_, ?_⟩
  · intro p w nf hn hsel hk1 hk2 h
    unfold insertOp at h
    split at h
    · cases h
    · cases h
    · split at h
      · exact Reach.edit _ t t' (insertFvEditor_ok p w nf hn hsel) hr hk1 h
      · exact Reach.edit _ t t' (insertFileEditor_ok p w nf hn) hr hk2 h
  · intro p pad hk h
    exact Reach.edit _ t t' (removeEditor_ok p pad) hr hk h
  · intro p body hb hk h
    unfold replacePe32Op at h
    split at h
    · cases h
    · split at h
      · exact Reach.edit _ t t' (pe32Editor_ok p body hb) hr hk h
      · cases h

/-- `save` keeps a tree inside `Reach` -/
theorem reach_save (t t' : Tree) (st st' : St) (hr : Reach t) (hp : st.pol = 0xFF) (hf : st.ffs3 = false)
    (h : asmTreeWith Hooks.none t st = .ok (t', st')) (hg : GoodTree t') : Reach t' :=
  Reach.saved t t' st st' hr hp hf h hg

/-- **`reparse_abs`** : `abs (parse (asm t).buf) = abs (asm t)` for every reachable tree.  For every
    tree `t` reachable from the parsed tree of a well-formed, tidy image of the reference grammar (flash
    image with descriptor and any region layout, bare BIOS region, single volume) by Insert / Remove /
    remove_pad / ReplacePE32 and intermediate saves: if Assemble succeeds and the written tree is
    `GoodTree`, the saved bytes are the serialisation of a well-formed image of the grammar, fiano's
    reader parses them, and the tree it reports shows — volume by volume, nested volumes included, pad
    files transparent — exactly the abstract file lists of the written tree.
    Hypotheses: `tidy` (input: sectioned files below 16 MiB, leaf files below 2^62 bytes, first block
    size of FFS volumes a power of two in [8, 2^31]); `keepTree` at each edit (no volume is emptied —
    finding F26); `GoodTree` (written tree: every buffer below 16 MiB, fewer than 2^30 files per volume;
    since round 3 no condition on the tail: a volume left with exactly 24 free bytes behind an unaligned
    file end and a header-only file at the very end of a full volume — finding F52 — are read back by the
    repaired reader and are inside the grammar of C01); erase polarity 1, no hooks (no compressed
    sections: the grammar of C01). -/
theorem reparse_abs (t t' : Tree) (st st' : St) (hr : Reach t) (hp : st.pol = 0xFF) (hf : st.ffs3 = false)
    (h : asmTreeWith Hooks.none t st = .ok (t', st')) (hg : GoodTree t') :
    ∃ i', Spec.WF i' ∧ t'.buf = Spec.ser i' ∧ parse Hooks.none t'.buf = .ok (Spec.tree i') ∧
      avTree (Spec.tree i') = avTree t' := by
  obtain ⟨i, _, hrep⟩ := reach_rep t hr
  obtain ⟨_, i', hw, _, hb, hpa, hav⟩ := asm_rep_tree t i st t' st' hrep hp hf h hg
  exact ⟨i', hw, hb, hpa, hav⟩

/-- an unedited save shows what was parsed: the abstract volumes of the parsed tree of a well-formed,
    tidy image are those of the tree its save re-parses to -/
theorem reparse_unedited (i : Spec.Img) (h : Spec.WF i) :
    parse Hooks.none (Spec.ser i) = .ok (Spec.tree i) := Fiano.Uefi.parse_ser_all i h

/-- **Insert, end to end**: the volume written after inserting `nf` at the matched index `k` is read
    back by fiano (whatever follows it) into a volume whose abstract file list is the old list with
    the new file at the stated place — minus exactly the matched file for replace_ffs -/
theorem insert_saved (w : Where) (nf : File) (i : FvInfo) (buf : Bytes) (files : List File) (k : Nat) (v' : Fv)
    (st st' : St) (hk : k < files.length) (hc : CanonFv (.mk i buf files)) (hne : files ≠ [])
    (hs : ∀ f ∈ files, Settled f) (hnc : CanonFile nf) (hns : Settled nf)
    (hp : st.pol = 0xFF) (hf : st.ffs3 = false)
    (h : asmFv Hooks.none (.mk i buf (insertAt w nf files k)) st = .ok (v', st')) (hg : GoodFv v') :
    ∃ vi, Spec.wfFv vi = true ∧ v'.buf = Spec.serFv vi ∧
      (∀ (rest : Bytes) (off : Nat) (rz : Bool) (fuel : Nat) (st0 : St), v'.buf.length ≤ fuel →
        (st0.pol = 0xFF ∨ st0.pol = 0xF0) →
        parseFv Hooks.none fuel (v'.buf ++ rest) off rz st0 = .ok (Spec.treeFv vi off rz, { st0 with pol := 0xFF })) ∧
      ∀ off rz, absFiles (Spec.treeFv vi off rz).files = insertSpec w nf files k :=
  Exact.insert_saved w nf i buf files k v' st st' hk hc hne hs hnc hns hp hf h hg

/-- **Remove / remove_pad, end to end**: the written volume is read back into the old abstract file
    list minus exactly the matched files -/
theorem remove_saved (p : Pred) (pad : Bool) (i : FvInfo) (buf : Bytes) (files files1 : List File) (v' : Fv)
    (st st' : St) (hc : CanonFv (.mk i buf files)) (hne : files1 ≠ [])
    (hrw : rwFiles (removeEditor p pad 0xFF) files = .ok files1) (hk : keepFiles (removeEditor p pad 0xFF) files)
    (hs1 : ∀ f ∈ files1, Settled f) (hp : st.pol = 0xFF) (hf : st.ffs3 = false)
    (h : asmFv Hooks.none (.mk i buf files1) st = .ok (v', st')) (hg : GoodFv v') :
    ∃ vi, Spec.wfFv vi = true ∧ v'.buf = Spec.serFv vi ∧
      (∀ (rest : Bytes) (off : Nat) (rz : Bool) (fuel : Nat) (st0 : St), v'.buf.length ≤ fuel →
        (st0.pol = 0xFF ∨ st0.pol = 0xF0) →
        parseFv Hooks.none fuel (v'.buf ++ rest) off rz st0 = .ok (Spec.treeFv vi off rz, { st0 with pol := 0xFF })) ∧
      ∀ off rz, absFiles (Spec.treeFv vi off rz).files = absFiles (files.filter (fun f => !fileHit p f)) :=
  Exact.remove_saved p pad i buf files files1 v' st st' hc hne hrw hk hs1 hp hf h hg

/-- **ReplacePE32, end to end**: in the sections written for the matched file, position by position,
    every section that is not a PE32 section is exactly what a save without the edit writes, and every
    PE32 section is a 4- or 8-byte header followed by exactly the new body -/
theorem replace_pe32_saved (body : Bytes) (hb : body.length + 8 < 0xFFFFFFFF) (ss ss1 ss' ss1' : List Section)
    (st st' st1' : St) (hc : CanonSecs ss) (hpe : pe32Sections body ss = .ok ss1) (hp : st.pol = 0xFF)
    (hf : st.ffs3 = false) (ha : asmSections Hooks.none ss st = .ok (ss', st'))
    (ha1 : asmSections Hooks.none ss1 st = .ok (ss1', st1')) (hg : GoodSecs ss') (hg1 : GoodSecs ss1')
    (k : Nat) (s : Section) (hk : ss[k]? = some s) :
    ∃ s' s1', ss'[k]? = some s' ∧ ss1'[k]? = some s1' ∧
      (s.info.type ≠ secTypePE32 → s1' = s') ∧
      (s.info.type = secTypePE32 → ∃ hdr, s1'.buf = hdr ++ body ∧ (hdr.length = 4 ∨ hdr.length = 8) ∧ s1'.encap = []) :=
  pe32_saved_sections body hb ss ss1 ss' ss1' st st' st1' hc hpe hp hf ha ha1 hg hg1 k s hk

/-! ## B2 — one statement per operation, at the tree (round 3, wp-c03c) -/

/-- **one edit, one save, one re-parse** (image without flash descriptor; any editor that satisfies
    `EditorOk`: Insert, Remove / remove_pad, ReplacePE32).  The region's elements are
    `pre ++ volume v :: post`; the editor is quiet on the volumes of `pre` and `post`, which are stable
    (`StableFv`: a save keeps their abstract lists — true of every volume of a parsed tidy tree,
    `stable_treeBios`); it turns `v` into `v1`, whose files are stable (`StableFile` — parsed files
    `stable_treeFiles`, pad files `stable_padFile`, leaf files `stable_leaf`).  Then the edit yields the
    tree with `v1` in place of `v`, and if the save succeeds with a `GoodTree` result the saved bytes are
    a well-formed image of the grammar, fiano's reader parses them, and the tree it reports shows the
    lists of `pre` as in the input, then the file list of `v1` and the lists of the volumes nested in
    its files, then the lists of `post` as in the input. -/
theorem edit_saved_tree (E : Editor) (hE : EditorOk E) (b : BiosRegion) (hr : Reach (.bios b))
    (hkeep : keepTree E (.bios b)) (pre post : List BiosElem) (v v1 : Fv)
    (hdec : b.elems = pre ++ .fv v :: post)
    (hq : ∀ u, BiosElem.fv u ∈ pre ++ post → quietFv E u = true ∧ StableFv u)
    (hrw : rwFv E v = .ok v1) (hc1 : CanonFv v1) (hs : ∀ f ∈ v1.files, StableFile f)
    (st st' : St) (t' : Tree) (hp : st.pol = 0xFF) (hf : st.ffs3 = false)
    (ha : asmTreeWith Hooks.none (.bios { b with elems := pre ++ .fv v1 :: post }) st = .ok (t', st'))
    (hg : GoodTree t') :
    rwTree E (.bios b) = .ok (.bios { b with elems := pre ++ .fv v1 :: post }) ∧
    ∃ i', Spec.WF i' ∧ t'.buf = Spec.ser i' ∧ parse Hooks.none t'.buf = .ok (Spec.tree i') ∧
      avTree (Spec.tree i') = avElems pre ++ (absFiles v1.files :: avFiles v1.files) ++ avElems post :=
  edit_saved_bios E hE b hr hkeep pre post v v1 hdec hq hrw hc1 hs st st' t' hp hf ha hg

/-- **Insert, end to end at the tree** (file-matched; front / end / dxe / after / before / replace_ffs).
    The selector's only match is the `k`-th file of the top-level volume `(i, buf, files)`; nothing
    matches in the other top-level volumes.  `insertOp` yields the tree with the new file in that list,
    and the saved, re-parsed image shows: the lists of `pre` as in the input; the old list with the new
    file at the stated place — minus exactly the matched file for replace_ffs — (`insertSpec`), then
    the lists of the volumes nested in that volume's files; the lists of `post` as in the input. -/
theorem insert_end_to_end (p : Pred) (w : Where) (nf : File) (b : BiosRegion) (hr : Reach (.bios b))
    (hkeep : keepTree (insertFileEditor p w nf) (.bios b)) (pre post : List BiosElem)
    (i : FvInfo) (buf : Bytes) (files : List File) (k : Nat)
    (hdec : b.elems = pre ++ .fv (.mk i buf files) :: post)
    (hq : ∀ u, BiosElem.fv u ∈ pre ++ post → quietFv (insertFileEditor p w nf) u = true ∧ StableFv u)
    (hfind : ∃ h, find p (.bios b) = [h] ∧ h.isFv = false)
    (hk : hitIndex p files = some k) (hc : CanonFv (.mk i buf files)) (hsf : ∀ f ∈ files, StableFile f)
    (hnc : CanonFile nf) (hns : StableFile nf)
    (st st' : St) (t' : Tree) (hp : st.pol = 0xFF) (hf : st.ffs3 = false)
    (ha : asmTreeWith Hooks.none
      (.bios { b with elems := pre ++ .fv (.mk i buf (insertAt w nf files k)) :: post }) st = .ok (t', st'))
    (hg : GoodTree t') :
    insertOp p w nf (.bios b) =
      .ok (.bios { b with elems := pre ++ .fv (.mk i buf (insertAt w nf files k)) :: post }) ∧
    ∃ i', Spec.WF i' ∧ t'.buf = Spec.ser i' ∧ parse Hooks.none t'.buf = .ok (Spec.tree i') ∧
      avTree (Spec.tree i') =
        avElems pre ++ (insertSpec w nf files k :: avFiles (insertAt w nf files k)) ++ avElems post :=
  insert_e2e_bios p w nf b hr hkeep pre post i buf files k hdec hq hfind hk hc hsf hnc hns st st' t' hp hf ha hg

/-- **Insert by volume name, end to end at the tree** (`insert_front` / `insert_end` with a volume
    selector whose only match is the top-level volume `(i, buf, files)`, which has files): `insertOp`
    yields the tree with the new file in front of / behind the list, and the saved, re-parsed image shows
    exactly that list, the lists nested in its files, and every other volume's list as in the input. -/
theorem insert_by_volume_end_to_end (p : Pred) (front : Bool) (nf : File) (b : BiosRegion) (hr : Reach (.bios b))
    (hsel : ∀ v, p.fv v = true → v.files ≠ [])
    (hkeep : keepTree (insertFvEditor p (if front then .front else .end_) nf) (.bios b)) (pre post : List BiosElem)
    (i : FvInfo) (buf : Bytes) (files : List File)
    (hdec : b.elems = pre ++ .fv (.mk i buf files) :: post)
    (hq : ∀ u, BiosElem.fv u ∈ pre ++ post →
      quietFv (insertFvEditor p (if front then .front else .end_) nf) u = true ∧ StableFv u)
    (hfind : ∃ h, find p (.bios b) = [h] ∧ h.isFv = true)
    (hhit : p.fv (.mk i buf files) = true) (hc : CanonFv (.mk i buf files)) (hsf : ∀ f ∈ files, StableFile f)
    (hnc : CanonFile nf) (hns : StableFile nf)
    (st st' : St) (t' : Tree) (hp : st.pol = 0xFF) (hf : st.ffs3 = false)
    (ha : asmTreeWith Hooks.none
      (.bios { b with elems := pre ++ .fv (.mk i buf (if front then nf :: files else files ++ [nf])) :: post }) st =
        .ok (t', st'))
    (hg : GoodTree t') :
    insertOp p (if front then .front else .end_) nf (.bios b) =
      .ok (.bios { b with elems := pre ++ .fv (.mk i buf (if front then nf :: files else files ++ [nf])) :: post }) ∧
    ∃ i', Spec.WF i' ∧ t'.buf = Spec.ser i' ∧ parse Hooks.none t'.buf = .ok (Spec.tree i') ∧
      avTree (Spec.tree i') =
        avElems pre ++
          ((if front then absFiles [nf] ++ absFiles files else absFiles files ++ absFiles [nf]) ::
            (if front then avFile nf ++ avFiles files else avFiles files ++ avFile nf)) ++
          avElems post :=
  insert_fv_e2e_bios p front nf b hr hsel hkeep pre post i buf files hdec hq hfind hhit hc hsf hnc hns st st' t' hp hf
    ha hg

/-- **Remove / remove_pad, end to end at the tree**.  The selector matches files of the top-level volume
    `(i, buf, files)` only — nothing in the other top-level volumes, nothing below a file that stays —
    and does not empty it (finding F26).  `removeOp` yields the tree with the rewritten list, and the
    saved, re-parsed image shows: the lists of `pre` as in the input; the old list minus exactly the
    matched files (a pad file left by remove_pad / for a PEIM is transparent), then the lists of the
    volumes nested in the files that stay; the lists of `post` as in the input. -/
theorem remove_end_to_end (p : Pred) (pad : Bool) (b : BiosRegion) (hr : Reach (.bios b))
    (hkeep : keepTree (removeEditor p pad 0xFF) (.bios b)) (pre post : List BiosElem)
    (i : FvInfo) (buf : Bytes) (files files1 : List File)
    (hdec : b.elems = pre ++ .fv (.mk i buf files) :: post)
    (hq : ∀ u, BiosElem.fv u ∈ pre ++ post → quietFv (removeEditor p pad 0xFF) u = true ∧ StableFv u)
    (hc : CanonFv (.mk i buf files)) (hsf : ∀ f ∈ files, StableFile f)
    (hqf : ∀ f ∈ files, fileHit p f = false → quietFile (removeEditor p pad 0xFF) f = true)
    (hrwf : rwFiles (removeEditor p pad 0xFF) files = .ok files1) (hne : files1 ≠ [])
    (st st' : St) (t' : Tree) (hp : st.pol = 0xFF) (hf : st.ffs3 = false)
    (ha : asmTreeWith Hooks.none (.bios { b with elems := pre ++ .fv (.mk i buf files1) :: post }) st = .ok (t', st'))
    (hg : GoodTree t') :
    removeOp p pad 0xFF (.bios b) = .ok (.bios { b with elems := pre ++ .fv (.mk i buf files1) :: post }) ∧
    ∃ i', Spec.WF i' ∧ t'.buf = Spec.ser i' ∧ parse Hooks.none t'.buf = .ok (Spec.tree i') ∧
      avTree (Spec.tree i') =
        avElems pre ++ (absFiles (files.filter (fun f => !fileHit p f)) :: avFiles files1) ++ avElems post :=
  remove_e2e_bios p pad b hr hkeep pre post i buf files files1 hdec hq hc hsf hqf hrwf hne st st' t' hp hf ha hg

/-- **one edit, one save, one re-parse — the target anywhere below the top-level volume `v`** (any depth
    of nesting).  As `edit_saved_tree`, with `ShowsFv v1 P` in place of "the files of `v1` are stable":
    whenever a save assembles `v1` the lists of the written node satisfy `P`.  `ShowsFv` is built level
    by level (Uefi/ExactE2ENest.lean): `shows_fv_of_files` for the edited volume (its files are stable),
    `shows_sec_of_fv` (volume-image section), `shows_file_of_sec` (the file: GUID and type kept, sibling
    sections stable), `shows_fv_of_file` (the enclosing volume: sibling files stable, keep everything).
    The re-parsed saved image shows the lists of `pre` as in the input, lists `L` with `P L`, the lists
    of `post` as in the input. -/
theorem edit_saved_tree_nested (E : Editor) (hE : EditorOk E) (b : BiosRegion) (hr : Reach (.bios b))
    (hkeep : keepTree E (.bios b)) (pre post : List BiosElem) (v v1 : Fv)
    (hdec : b.elems = pre ++ .fv v :: post)
    (hq : ∀ u, BiosElem.fv u ∈ pre ++ post → quietFv E u = true ∧ StableFv u)
    (hrw : rwFv E v = .ok v1) (P : List (List AbsFile) → Prop) (hv : ShowsFv v1 P)
    (st st' : St) (t' : Tree) (hp : st.pol = 0xFF) (hf : st.ffs3 = false)
    (ha : asmTreeWith Hooks.none (.bios { b with elems := pre ++ .fv v1 :: post }) st = .ok (t', st'))
    (hg : GoodTree t') :
    rwTree E (.bios b) = .ok (.bios { b with elems := pre ++ .fv v1 :: post }) ∧
    ∃ i' L, Spec.WF i' ∧ t'.buf = Spec.ser i' ∧ parse Hooks.none t'.buf = .ok (Spec.tree i') ∧ P L ∧
      avTree (Spec.tree i') = avElems pre ++ L ++ avElems post :=
  edit_saved_bios_shows E hE b hr hkeep pre post v v1 hdec hq hrw P hv st st' t' hp hf ha hg

/-- **an edit of a volume nested one level down, end to end** (`edit_saved_tree_nested` with the three
    levels spelled out; any `EditorOk` editor).  The top-level volume holds, in its file `F` (not a pad
    file), a volume-image section whose child is the volume `u`; the editor turns the list of `u` into
    `ufiles1` and fires nowhere else; siblings are stable (parsed nodes are), the files of `ufiles1` are.
    The re-parsed saved image shows: the lists of `pre` as in the input; the enclosing volume's list with
    the same files in the same order — `F` with its GUID and type (`A`; its body is rebuilt around the
    new volume), all others with GUID, type, attributes, body —; the lists nested in front; **the edited
    list of `u`** and the lists nested in its files; the lists nested behind; the lists of `post`. -/
theorem nested_edit_end_to_end (E : Editor) (hE : EditorOk E) (b : BiosRegion) (hr : Reach (.bios b))
    (hkeep : keepTree E (.bios b)) (pre post : List BiosElem)
    (i : FvInfo) (buf : Bytes) (fpre fpost : List File) (fi : FileInfo) (fb : Bytes)
    (spre spost : List Section) (si : SecInfo) (sb : Bytes) (u : Fv) (ui : FvInfo) (ub : Bytes) (ufiles1 : List File)
    (hdec : b.elems = pre ++ .fv (.mk i buf (fpre ++ .mk fi fb (spre ++ .mk si sb [.fv u] :: spost) :: fpost)) :: post)
    (hq : ∀ w, BiosElem.fv w ∈ pre ++ post → quietFv E w = true ∧ StableFv w)
    (hEv : E.fv (.mk i buf (fpre ++ .mk fi fb (spre ++ .mk si sb [.fv u] :: spost) :: fpost)) = none)
    (hEf : E.file (.mk fi fb (spre ++ .mk si sb [.fv u] :: spost)) = none)
    (hfpre : quietFiles E fpre = true) (hfpost : quietFiles E fpost = true)
    (hspre : quietSections E spre = true) (hspost : quietSections E spost = true)
    (hu : rwFv E u = .ok (.mk ui ub ufiles1))
    (hc : CanonFv (.mk i buf (fpre ++ .mk fi fb (spre ++ .mk si sb [.fv u] :: spost) :: fpost)))
    (hnp : fi.type ≠ 0xF0)
    (hsfpre : ∀ f ∈ fpre, StableFile f) (hsfpost : ∀ f ∈ fpost, StableFile f)
    (hsspre : ∀ s ∈ spre, StableSec s) (hsspost : ∀ s ∈ spost, StableSec s)
    (hsu : ∀ f ∈ ufiles1, StableFile f)
    (st st' : St) (t' : Tree) (hp : st.pol = 0xFF) (hf : st.ffs3 = false)
    (ha : asmTreeWith Hooks.none (.bios { b with elems := (pre ++ BiosElem.fv (.mk i buf
      (fpre ++ .mk fi fb (spre ++ .mk si sb [.fv (.mk ui ub ufiles1)] :: spost) :: fpost)) :: post) }) st =
        .ok (t', st'))
    (hg : GoodTree t') :
    rwTree E (.bios b) = .ok (.bios { b with elems := (pre ++ BiosElem.fv (.mk i buf
      (fpre ++ .mk fi fb (spre ++ .mk si sb [.fv (.mk ui ub ufiles1)] :: spost) :: fpost)) :: post) }) ∧
    ∃ (i' : Spec.Img) (A : AbsFile), Spec.WF i' ∧ t'.buf = Spec.ser i' ∧ parse Hooks.none t'.buf = .ok (Spec.tree i') ∧
      A.guid = fi.guid ∧ A.type = fi.type ∧
      avTree (Spec.tree i') =
        avElems pre ++
          ((absFiles fpre ++ A :: absFiles fpost) ::
            (avFiles fpre ++ (avSections spre ++ (absFiles ufiles1 :: avFiles ufiles1) ++ avSections spost) ++
              avFiles fpost)) ++
          avElems post :=
  nested_edit_saved_bios E hE b hr hkeep pre post i buf fpre fpost fi fb spre spost si sb u ui ub ufiles1 hdec hq hEv hEf
    hfpre hfpost hspre hspost hu hc hnp hsfpre hsfpost hsspre hsspost hsu st st' t' hp hf ha hg

/-- **one edit, one save, one re-parse — flash image with descriptor** (one BIOS region; the other
    regions — ME, table regions, gaps: `nonBios` — hold no volumes; any `EditorOk` editor; target at any
    depth below the top-level volume `v` of the BIOS region).  Assemble re-points the regions to the
    descriptor's table and sorts them; the statement is that of `edit_saved_tree_nested`: the re-parsed
    saved image shows the lists of `pre` as in the input, lists `L` with `P L` (for a top-level target,
    `P` = "is the edited list followed by the lists nested in its files": `shows_fv_of_files`), the lists
    of `post` as in the input. -/
theorem edit_saved_flash (E : Editor) (hE : EditorOk E) (f : Flash) (hr : Reach (.flash f))
    (hkeep : keepTree E (.flash f)) (rpre rpost : List Region) (b : BiosRegion)
    (hregs : f.regions = rpre ++ .bios b :: rpost)
    (hrpre : ∀ r ∈ rpre, nonBios r) (hrpost : ∀ r ∈ rpost, nonBios r)
    (pre post : List BiosElem) (v v1 : Fv) (hdec : b.elems = pre ++ .fv v :: post)
    (hq : ∀ u, BiosElem.fv u ∈ pre ++ post → quietFv E u = true ∧ StableFv u)
    (hrw : rwFv E v = .ok v1) (P : List (List AbsFile) → Prop) (hv : ShowsFv v1 P)
    (st st' : St) (t' : Tree) (hp : st.pol = 0xFF) (hf : st.ffs3 = false)
    (ha : asmTreeWith Hooks.none
      (.flash { f with regions := rpre ++ .bios { b with elems := pre ++ .fv v1 :: post } :: rpost }) st = .ok (t', st'))
    (hg : GoodTree t') :
    rwTree E (.flash f) =
      .ok (.flash { f with regions := rpre ++ .bios { b with elems := pre ++ .fv v1 :: post } :: rpost }) ∧
    ∃ i' L, Spec.WF i' ∧ t'.buf = Spec.ser i' ∧ parse Hooks.none t'.buf = .ok (Spec.tree i') ∧ P L ∧
      avTree (Spec.tree i') = avElems pre ++ L ++ avElems post :=
  edit_saved_flash_shows E hE f hr hkeep rpre rpost b hregs hrpre hrpost pre post v v1 hdec hq hrw P hv st st' t' hp hf
    ha hg

/-- **ReplacePE32, end to end at the tree** (image without flash descriptor).  The selector's match is the
    sectioned file `F = (fi, fb, secs)` of the top-level volume `(i, buf, fpre ++ F :: fpost)`; nothing
    matches elsewhere.  `rwTree` yields the tree with `pe32File body F` in its place, and the saved,
    re-parsed image shows: the lists of `pre` as in the input; that volume's list with the same files in
    the same order — `F` with its GUID and type (`A`), all others with GUID, type, attributes, body —; the
    lists of all volumes nested in its files, those below `F` included, as in the input; the lists of
    `post` as in the input.  What the sections of `F` become is `replace_pe32_saved`. -/
theorem replace_pe32_end_to_end (p : Pred) (body : Bytes) (hb : body.length + 8 < 0xFFFFFFFF) (b : BiosRegion)
    (hr : Reach (.bios b)) (hkeep : keepTree (pe32Editor p body) (.bios b)) (pre post : List BiosElem)
    (i : FvInfo) (buf : Bytes) (fpre fpost : List File) (fi : FileInfo) (fb : Bytes) (secs : List Section) (F1 : File)
    (hdec : b.elems = pre ++ .fv (.mk i buf (fpre ++ .mk fi fb secs :: fpost)) :: post)
    (hq : ∀ u, BiosElem.fv u ∈ pre ++ post → quietFv (pe32Editor p body) u = true ∧ StableFv u)
    (hhit : fileHit p (.mk fi fb secs) = true) (hpe : pe32File body (.mk fi fb secs) = .ok F1)
    (hfpre : quietFiles (pe32Editor p body) fpre = true) (hfpost : quietFiles (pe32Editor p body) fpost = true)
    (hc : CanonFv (.mk i buf (fpre ++ .mk fi fb secs :: fpost))) (hne : secs ≠ []) (hnp : fi.type ≠ 0xF0)
    (hsfpre : ∀ f ∈ fpre, StableFile f) (hsfpost : ∀ f ∈ fpost, StableFile f) (hss : ∀ s ∈ secs, StableSec s)
    (st st' : St) (t' : Tree) (hp : st.pol = 0xFF) (hf : st.ffs3 = false)
    (ha : asmTreeWith Hooks.none (.bios { b with elems := pre ++ .fv (.mk i buf (fpre ++ F1 :: fpost)) :: post }) st =
      .ok (t', st'))
    (hg : GoodTree t') :
    rwTree (pe32Editor p body) (.bios b) =
      .ok (.bios { b with elems := pre ++ .fv (.mk i buf (fpre ++ F1 :: fpost)) :: post }) ∧
    ∃ (i' : Spec.Img) (A : AbsFile), Spec.WF i' ∧ t'.buf = Spec.ser i' ∧
      parse Hooks.none t'.buf = .ok (Spec.tree i') ∧ A.guid = fi.guid ∧ A.type = fi.type ∧
      avTree (Spec.tree i') =
        avElems pre ++
          ((absFiles fpre ++ A :: absFiles fpost) ::
            (avFiles fpre ++ avFile (.mk fi fb secs) ++ avFiles fpost)) ++
          avElems post :=
  replace_pe32_e2e_bios p body hb b hr hkeep pre post i buf fpre fpost fi fb secs F1 hdec hq hhit hpe hfpre hfpost hc hne
    hnp hsfpre hsfpost hss st st' t' hp hf ha hg

/-- **a save of any reachable tree, re-parsed** (image without flash descriptor; any number of edits in any
    number of volumes since the last save — no editor appears in the statement).  If every top-level
    volume `u` of the tree as it stands shows `Ps u` (`StableFv.shows` for untouched volumes, the
    composition lemmas `shows_fv_of_files` / `shows_fv_of_file` … for edited ones), then the saved bytes are
    a well-formed image of the grammar, fiano's reader parses them, and the lists it reports split volume
    by volume (`ElemsAv`) into lists that satisfy `Ps u`. -/
theorem saved_tree_reparsed (b : BiosRegion) (hr : Reach (.bios b)) (Ps : Fv → List (List AbsFile) → Prop)
    (hs : ∀ u, BiosElem.fv u ∈ b.elems → ShowsFv u (Ps u))
    (st st' : St) (t' : Tree) (hp : st.pol = 0xFF) (hf : st.ffs3 = false)
    (ha : asmTreeWith Hooks.none (.bios b) st = .ok (t', st')) (hg : GoodTree t') :
    ∃ i', Spec.WF i' ∧ t'.buf = Spec.ser i' ∧ parse Hooks.none t'.buf = .ok (Spec.tree i') ∧
      ElemsAv Ps b.elems (avTree (Spec.tree i')) :=
  saved_tree_shows b hr Ps hs st st' t' hp hf ha hg

/-! ## C — the bytes -/

/-- **`frame_bytes`** (image without flash descriptor): any tree (no invariant, no grammar), any hooks,
    any editor.  `asm (op t)` and `asm t` have the length of the region, and agree at every offset `j`
    that does not lie inside a top-level volume below which the editor fired; the k-th element of the
    region starts at the sum of the buffer lengths of the elements before it (`InDirty`).  The process
    state after the two runs is the same.  `ElemsSized`: top-level volumes cannot grow and their buffer
    is the whole volume (true of every parsed and every assembled tree). -/
theorem frame_bytes (h : Hooks) (E : Editor) (b : BiosRegion) (u ta ua : Tree) (st sa sb : St)
    (hrw : rwTree E (.bios b) = .ok u) (hs : ElemsSized b.elems) (hf : st.ffs3 = false)
    (ha : asmTreeWith h (.bios b) st = .ok (ta, sa)) (hb : asmTreeWith h u st = .ok (ua, sb)) :
    sb = sa ∧ ta.buf.length = b.length ∧ ua.buf.length = b.length ∧
      ∀ j, ¬ InDirty E b.elems j → ta.buf[j]? = ua.buf[j]? :=
  tree_frame_bios h E b u ta ua st sa sb hrw hs hf ha hb

/-- **`frame_bytes_flash`** (flash image with descriptor): any tree, any hooks, any editor.  The two
    saved images are the same descriptor buffer followed by region buffers, in flash order, that are
    pairwise identical — except those of BIOS regions, which have the same length and agree at every
    offset (relative to the region start) outside the volumes below which the editor fired
    (`RegFrame`, `InDirty`).  The k-th region buffer starts at the descriptor length plus the lengths of
    the region buffers before it. -/
theorem frame_bytes_flash (h : Hooks) (E : Editor) (f : Flash) (u ta ua : Tree) (st sa sb : St)
    (hrw : rwTree E (.flash f) = .ok u) (hs : RegionsSized f.regions) (hf : st.ffs3 = false)
    (ha : asmTreeWith h (.flash f) st = .ok (ta, sa)) (hb : asmTreeWith h u st = .ok (ua, sb)) :
    sb = sa ∧ ∃ (d : Bytes) (ra rb : List Region),
      ta.buf = d ++ (ra.map Region.buf).flatten ∧ ua.buf = d ++ (rb.map Region.buf).flatten ∧
      Pair2 (RegFrame E f.regions) ra rb :=
  tree_frame_flash h E f u ta ua st sa sb hrw hs hf ha hb

/-- **inside the target volume, files before the edit point**: two file lists that share a prefix
    are laid out identically up to the end of that prefix — the bytes of a re-laid top-level volume
    from offset 60 on are `buf[:DataOffset] ++ lay … ++ erased tail` (`relayout_bytes`) -/
theorem frame_inside_volume (i : FvInfo) (buf : Bytes) (files : List File) (st : St) (i' : FvInfo) (out : Bytes)
    (st' : St) (h : relayoutFv i buf files st = .ok (i', out, st')) (hp : st.pol = 0xFF) (hnr : i.resizable = false)
    (hb : layEndM (placedM files) i.dataOffset < 2 ^ 62) :
    (∀ j, 60 ≤ j → out[j]? =
      (buf.take i.dataOffset ++ lay (placedM files) i.dataOffset ++
        Spec.ffs (i.length - layEndM (placedM files) i.dataOffset))[j]?) ∧
    ∀ (pre x y : List (Nat × Bytes)) (off j : Nat), off + j < layEndM pre off → layEndM pre off < 2 ^ 62 →
      (∀ z ∈ pre, z.2.length ≠ 0) → (lay (pre ++ x) off)[j]? = (lay (pre ++ y) off)[j]? :=
  ⟨(relayout_bytes i buf files st i' out st' h hp hnr hb).2,
   fun pre x y off j hj hb' hne => lay_common_prefix pre x y off j hj hb' hne⟩

/-- **remove_pad, bytes**: replacing one assembled file that sat on its 8-byte boundary by a same-size
    file without data alignment leaves every byte of the volume from offset 60 on, outside the
    replaced file's own range, unchanged: every other file keeps its offset and its bytes -/
theorem remove_pad_saved (i : FvInfo) (buf : Bytes) (pre post : List File) (x px : File) (st : St)
    (i1 i2 : FvInfo) (out1 out2 : Bytes) (s1 s2 : St)
    (h1 : relayoutFv i buf (pre ++ x :: post) st = .ok (i1, out1, s1))
    (h2 : relayoutFv i buf (pre ++ px :: post) st = .ok (i2, out2, s2))
    (hp : st.pol = 0xFF) (hnr : i.resizable = false)
    (hb1 : layEndM (placedM (pre ++ x :: post)) i.dataOffset < 2 ^ 62)
    (hsize : px.buf.length = x.buf.length) (hal : alignmentOf px.info.attrs = 1)
    (hsat : fileStart (layEndM (placedM pre) i.dataOffset) x.info.attrs =
      Spec.alignUp (layEndM (placedM pre) i.dataOffset) 8) :
    ∀ j, 60 ≤ j →
      (j < Spec.alignUp (layEndM (placedM pre) i.dataOffset) 8 ∨
        Spec.alignUp (layEndM (placedM pre) i.dataOffset) 8 + x.buf.length ≤ j) →
      out2[j]? = out1[j]? :=
  remove_pad_bytes i buf pre post x px st i1 i2 out1 out2 s1 s2 h1 h2 hp hnr hb1 hsize hal hsat

/-- **which blobs `NewFile` accepts, and the node it builds** (any hooks): the header decodes
    (`fileHeader`: at least 24 bytes, not erased, the 3-byte size — or for FFFFFF the 8-byte extended
    size, however small — within the blob), the node's buffer is the blob's prefix of that size, its
    GUID / type / attributes are the header's, and a file of a type whose sections are not parsed has no
    section nodes (so Assemble writes it as it is, `blob_leaf_verbatim`) -/
theorem blob_node (h : Hooks) (fuel : Nat) (blob : Bytes) (st st' : St) (f : File)
    (hp : parseFile h fuel blob st = .ok (some f, st')) :
    ∃ i0, fileHeader blob = .ok (some i0) ∧ f.buf = blob.take i0.extSize ∧ i0.extSize ≤ blob.length ∧
      24 ≤ blob.length ∧ f.info.extSize = i0.extSize ∧ f.info.attrs = i0.attrs ∧ f.info.type = i0.type ∧
      f.info.guid = i0.guid ∧ (supportedFile i0.type = false → f.secs = []) :=
  parseFile_node h fuel blob st st' f hp

/-- **the inserted file's bytes, verbatim, at the computed offset** (any nodes — no grammar, no
    invariant, no `CanonFile`): in a re-laid top-level volume whose file list is `pre ++ x :: post`, the
    assembled buffer of `x` is found byte for byte at `fileStart (end of pre) x.attrs`.  Together with
    `frame_inside_volume` (the files before `x` keep offset and bytes) and `frame_bytes` /
    `frame_bytes_flash` (everything outside the target volume) this is the frame theorem for an
    arbitrary blob accepted by `NewFile`. -/
theorem inserted_bytes_verbatim (i : FvInfo) (buf : Bytes) (pre post : List File) (x : File) (st : St)
    (i' : FvInfo) (out : Bytes) (st' : St)
    (h : relayoutFv i buf (pre ++ x :: post) st = .ok (i', out, st')) (hp : st.pol = 0xFF)
    (hnr : i.resizable = false) (hb : layEndM (placedM (pre ++ x :: post)) i.dataOffset < 2 ^ 62)
    (hdo : 60 ≤ i.dataOffset) (hbl : i.dataOffset ≤ buf.length) (hne : ∀ f ∈ pre, f.buf.length ≠ 0)
    (j : Nat) (hj : j < x.buf.length) :
    out[fileStart (layEndM (placedM pre) i.dataOffset) x.info.attrs + j]? = x.buf[j]? :=
  insert_blob_verbatim i buf pre post x st i' out st' h hp hnr hb hdo hbl hne j hj

/-! ## non-vacuity -/

def fileA : File := .mk { guid := List.replicate 16 1, ckHeader := 0, ckFile := 0, type := 7, attrs := 0, size3 := 28,
                          state := 0xF8, extSize := 28, dataOffset := 24 } (List.replicate 28 7) []
def fileB : File := .mk { guid := List.replicate 16 2, ckHeader := 0, ckFile := 0, type := 0xF0, attrs := 0, size3 := 24,
                          state := 0xF8, extSize := 24, dataOffset := 24 } (List.replicate 24 0xFF) []
def byGuid1 : Pred := { file := fun f => f.info.guid == List.replicate 16 1 }

example : hitIndex byGuid1 [fileB, fileA] = some 1 := by decide
example : absFiles [fileB, fileA] = [absFile fileA] := by decide
example : (match rwFiles (removeEditor byGuid1 false 0xFF) [fileB, fileA] with
    | .ok fs => absFiles fs == [] | .error _ => false) = true := by decide

/-- a hand-written volume of the grammar: a checksummed driver with a UI, a depex and a raw section, a
    pad file that aligns the next file's data to 128 bytes, an unparsed RAW file, free space -/
def g (n : Nat) : Guid := (List.range 16).map (fun i => UInt8.ofNat (n + i))

def sampleFv : Spec.FvI :=
  .ffs (List.replicate 16 0) false 0x0004FEFF 2 0 [⟨44, 8⟩] none
    [ .sect (g 1) 7 0x40 0xF8
        [.ui [0x41, 0x1F600], .depex 0x13 [⟨2, some (g 7)⟩, ⟨8, none⟩], .leaf 0x19 false [1, 2, 3, 4, 5]],
      .leaf guidFF 0x91 0xAA 0xF0 0 0xF8 false (List.replicate 64 0xFF),
      .sect (g 2) 9 0x50 0xF8 [.version 7 [0x31], .leaf 0x10 false [0x4D, 0x5A, 9]],
      .leaf (g 3) 0 0 1 0 0xF8 false [0xAA, 0xBB, 0xCC] ] 45

def sampleImg : Spec.Img := .bios ⟨[([], sampleFv)], [1, 2, 3]⟩

set_option maxRecDepth 65536 in
theorem sample_wf : Spec.WF sampleImg := by decide

set_option maxRecDepth 65536 in
theorem sample_tidy : tidy sampleImg = true := by decide

/-- `Reach` is inhabited: the parsed tree of the sample image -/
example : Reach (Spec.tree sampleImg) := Reach.parsed sampleImg sample_wf sample_tidy

/-- a flash image: 4 KiB descriptor (signature at 16, region section at 0x40, BIOS = block 3, ME = block 1),
    ME region, a gap the table does not describe, BIOS region with the sample volume -/
def sampleDesc : Bytes :=
  List.replicate 16 0xFF ++ [0x5a, 0xa5, 0xf0, 0x0f] ++
  [0, 0, 4, 0, 8, 0, 0, 0, 0, 0, 0, 0, 0, 0, 0, 0] ++ List.replicate 28 0x5A ++
  [0x34, 0x12, 0x00, 0x10, 3, 0, 3, 0, 1, 0, 1, 0] ++ (List.replicate 13 [0xFF, 0x7F, 0, 0]).flatten ++
  [0, 0, 0xFF, 0xFF, 0, 0, 0xFF, 0xFF, 0x18, 0x01, 0x08, 0x08] ++ List.replicate 3956 0x5A

def sampleFlash : Spec.Img :=
  .flash ⟨sampleDesc,
    [ .me (List.replicate 4096 0xA5), .gap (List.replicate 4096 0x77),
      .bios ⟨[([], sampleFv)], List.replicate 3744 0xFF⟩ ]⟩

set_option maxRecDepth 1000000 in
set_option maxHeartbeats 4000000 in
theorem sampleFlash_wf : Spec.WF sampleFlash := by decide

set_option maxRecDepth 65536 in
theorem sampleFlash_tidy : tidy sampleFlash = true := by decide

/-- … and so is the parsed tree of a flash image with descriptor -/
example : Reach (Spec.tree sampleFlash) := Reach.parsed sampleFlash sampleFlash_wf sampleFlash_tidy

set_option maxRecDepth 65536 in
theorem sampleFv_wf : Spec.wfFv sampleFv = true := by decide

set_option maxRecDepth 65536 in
theorem sampleFv_tidy : tidyFv sampleFv = true := by decide

/-- the hypotheses of the end-to-end corollaries hold of the sample: its volume node satisfies the
    invariant -/
example : CanonFv (Spec.treeFv sampleFv 0 false) := canon_treeFv sampleFv sampleFv_wf sampleFv_tidy 0 false

/-- a pad file satisfies the invariant and is settled -/
example : ∃ pf, mkPadFile 0xFF 40 = .ok pf ∧ CanonFile pf :=
  match h : mkPadFile 0xFF 40 with
  | .ok pf => ⟨pf, rfl, mkPadFile_canon 40 pf (by decide) h⟩
  | .error _ => by simp [mkPadFile] at h

example : Settled fileA := settled_leaf _ _ rfl

/-- a blob outside the grammar that `NewFile` accepts: RAW file, Size = FFFFFF with the small extended
    size 40 and the large-file attribute clear, followed by bytes that do not belong to it -/
def oddBlob : Bytes :=
  List.replicate 16 7 ++ [0, 0, 1, 0, 0xFF, 0xFF, 0xFF, 0xF8] ++ [40, 0, 0, 0, 0, 0, 0, 0] ++ List.replicate 8 0x55 ++ [1, 2, 3]

example : (match parseFile Hooks.none 2 oddBlob {} with
    | .ok (some f, _) => f.buf == oddBlob.take 40 && f.secs.isEmpty && f.info.dataOffset == 32 && f.info.attrs == 0
    | _ => false) = true := by decide +kernel

/-- the hypotheses of the tree-level end-to-end theorems: a leaf file is stable, the volume of the
    sample is, every top-level volume and every file of the parsed sample image is -/
example : StableFile fileA := stable_leaf _ _ rfl
example : StableFv (Spec.treeFv sampleFv 0 false) := stable_treeFv sampleFv sampleFv_wf sampleFv_tidy 0 false
example : ∀ u, BiosElem.fv u ∈ (Spec.treeBios ⟨[([], sampleFv)], [1, 2, 3]⟩ none).elems → StableFv u :=
  stable_treeBios _ sample_wf sample_tidy
example : StableSec (Spec.treeSec (.ui [0x41, 0x1F600]) 0) := stable_treeSec _ (by decide) (by decide) 0
example : ShowsFv (Spec.treeFv sampleFv 0 false) (fun L => L = avFv (Spec.treeFv sampleFv 0 false)) :=
  (stable_treeFv sampleFv sampleFv_wf sampleFv_tidy 0 false).shows
example : ElemsAv (fun v L => L = avFv v) [.pad [0] 0, .fv (Spec.treeFv sampleFv 1 false)]
    (avFv (Spec.treeFv sampleFv 1 false) ++ []) := ⟨_, _, rfl, rfl, rfl⟩
example : nonBios (.me [1, 2] default) ∧ nonBios (.raw [] default (-1)) := ⟨trivial, trivial⟩
example : ∃ pf, mkPadFile 0xFF 40 = .ok pf ∧ StableFile pf :=
  match h : mkPadFile 0xFF 40 with
  | .ok pf => ⟨pf, rfl, stable_padFile 0xFF 40 pf h⟩
  | .error _ => by simp [mkPadFile] at h

/-- `GoodFv`: a written volume of 100 bytes with one 28-byte file and 40 free bytes -/
example : GoodFv (.mk { (default : FvInfo) with freeSpace := 40 } (List.replicate 100 0) [fileA]) := by
  unfold GoodFv GoodFiles GoodFile GoodSecs B
  refine ⟨by decide, by decide, ⟨by decide, trivial⟩, trivial⟩

/-- `GoodFv` no longer excludes a volume left with exactly 24 free bytes (round 3) -/
example : GoodFv (.mk { (default : FvInfo) with freeSpace := 24 } (List.replicate 100 0) [fileA]) := by
  unfold GoodFv GoodFiles GoodFile GoodSecs B
  refine ⟨by decide, by decide, ⟨by decide, trivial⟩, trivial⟩

/-- `keepFiles`: removing `fileA` from `[fileB, fileA]` does not descend into a volume -/
example : keepFiles (removeEditor byGuid1 false 0xFF) [fileB, fileA] := by
  unfold keepFiles keepFile keepFiles keepFile keepFiles keepSections
  exact ⟨Or.inr trivial, Or.inr trivial, trivial⟩

/-- the editors satisfy `EditorOk` -/
example : EditorOk (removeEditor byGuid1 true 0xFF) := removeEditor_ok byGuid1 true
example : EditorOk (pe32Editor byGuid1 [0x4D, 0x5A]) := pe32Editor_ok byGuid1 _ (by decide)

/-- `ElemsSized` / `InDirty`: a padding, then a volume whose buffer is the whole volume -/
example : ElemsSized [.pad [1, 2] 0, .fv (.mk { (default : FvInfo) with length := 3 } [7, 8, 9] [])] :=
  ⟨rfl, rfl, trivial⟩

end Fiano.Uefi.C03
