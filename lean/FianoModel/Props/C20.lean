/-
  C20 — all other parsers are total too: error or value, bounded work.

  Property theorems only; the models and their Hoare-style specs are in `<Area>/Total.lean`
  (one per area), the regenerated-facts tie in `Total/Tie.lean`.

  Form of every theorem: for **every** byte string `bs` (no size bound), the GoM model of the
  entry point, run from an empty meter with the allocation budget `budget |bs| = 64·|bs| + 16 MiB`
  (the k and K of the harness oracle), ends `Safe`: a value or an ordinary Go `error` —
    * never `panic` (every slice / index of the Go function is a faulting primitive),
    * never `fuel`  (every loop that is not structurally decreasing consumes input),
    * never over budget (`allocB` faults when the cumulative `make`/`ReadAll`/`append`
      meter would exceed the budget — so the bound holds on error paths too).
  The tighter constants each model really needs are in the `*_spec` lemmas it is derived from.
-/
import FianoModel.Total.Tie
import FianoModel.Total.TieB
import FianoModel.Total.ManifestRefine
import FianoModel.Fmap.TotalRefine

namespace Fiano.C20
open GoM

/-- the allocation budget: `k·|input| + K` with the harness's k = 64, K = 16 MiB -/
def budget (n : Nat) : Nat := 64 * n + 16777216

/-! ## flash map (pkg/fmap) -/

/-- `fmap.Read`: total; when it returns a map, the area table has exactly `NAreas` entries. -/
theorem c20_fmap_read (bs : Bytes) :
    SafeP (Fmap.readG (budget bs.length) bs) {} (fun r _ => r.1.areas.length = r.1.hdr.nAreas) := by
  apply SafeP.mono (Fmap.readG_spec _ bs {} (by unfold budget Fmap.readK Fmap.areaMem; dsimp only; omega))
  intro r _ h; exact h.1

theorem c20_fmap_read_safe (bs : Bytes) : Safe (Fmap.readG (budget bs.length) bs {}) :=
  (c20_fmap_read bs).safe

/-- The GoM reader (Go's control flow, with the early `errMultipleFound`) and the functional model
    `Fmap.read` that carries C13's theorems agree on every byte string: the same map and position
    when the run ends with a value, an error of `Fmap.read` when it ends with an error. -/
theorem c20_fmap_read_refines (bs : Bytes) :
    SafePE (Fmap.readG (budget bs.length) bs) {} (fun r _ => Fmap.read bs = .ok r) (∃ e, Fmap.read bs = .error e) :=
  Fmap.readG_refines _ bs {} (by unfold budget Fmap.readK Fmap.areaMem; dsimp only; omega)

/-- `Read` then `ReadArea i` on the same hostile image, every index `i` -/
theorem c20_fmap_readarea_safe (bs : Bytes) (i : Int) : Safe (Fmap.readThenAreaG (budget bs.length) bs i {}) :=
  (Fmap.readThenAreaG_spec _ bs i {} (by unfold budget Fmap.readK Fmap.areaMem; dsimp only; omega)).safe

/-- `Read` then `WriteArea i data`: total, and the image keeps its length -/
theorem c20_fmap_writearea (bs : Bytes) (i : Int) (data : Bytes) :
    SafeP (Fmap.readThenWriteAreaG (budget bs.length) bs i data) {} (fun img' _ => img'.length = bs.length) :=
  Fmap.readThenWriteAreaG_spec _ bs i data {} (by unfold budget Fmap.readK Fmap.areaMem; dsimp only; omega)

theorem c20_fmap_writearea_safe (bs : Bytes) (i : Int) (data : Bytes) :
    Safe (Fmap.readThenWriteAreaG (budget bs.length) bs i data {}) := (c20_fmap_writearea bs i data).safe

/-- `Read` then `Write` of the map at any start offset -/
theorem c20_fmap_write_safe (bs : Bytes) (start : Nat) : Safe (Fmap.readThenWriteG (budget bs.length) bs start {}) :=
  (Fmap.readThenWriteG_spec _ bs start {}
    (by unfold budget Fmap.readK Fmap.areaMem Fmap.headerSize Fmap.areaSize; dsimp only; omega)).safe

/-! ## Intel microcode, ME partition table, FSP header -/

theorem c20_microcode_safe (bs : Bytes) : Safe (Microcode.parseG (budget bs.length) bs {}) :=
  (Microcode.parseG_spec _ bs {} (by unfold budget Microcode.parseKSlope Microcode.parseKConst; dsimp only; omega)).safe

theorem c20_me_safe (bs : Bytes) : Safe (Me.parseG (budget bs.length) bs {}) :=
  (Me.parseG_spec _ bs {} (by unfold budget; dsimp only; omega)).safe

theorem c20_fsp_safe (bs : Bytes) : Safe (Fsp.newInfoHeaderG bs {}) :=
  (Fsp.newInfoHeaderG_spec bs {}).safe

/-! ## FIT (pkg/intel/metadata/fit) -/

/-- `fit.GetEntries` (pointer lookup, table range, table, data segment of every entry) on an
    image shorter than 2^63 bytes — the length of every Go slice -/
theorem c20_fit_entries_safe (bs : Bytes) (hl : bs.length < FitTotal.two63) :
    Safe (FitTotal.getEntriesG (budget bs.length) bs {}) :=
  (FitTotal.getEntriesG_spec _ bs {} hl (by unfold budget FitTotal.getEntriesKSlope; dsimp only; omega)).safe

/-- startup-ACM `ParseData` on hostile data-segment bytes -/
theorem c20_fit_sacm_safe (bs : Bytes) : Safe (FitTotal.parseSACMG (budget bs.length) bs {}) :=
  (FitTotal.parseSACMG_spec _ bs {} (by unfold budget; dsimp only; omega)).safe

/-! ## AMD PSB keys and PSP binaries (pkg/amd/psb) -/

theorem c20_psb_rootkey_safe (bs : Bytes) : Safe (PsbTotal.rootKeyG (budget bs.length) bs {}) :=
  (PsbTotal.rootKeyG_spec _ bs {} (by unfold budget; dsimp only; omega)).safe

/-- `NewTokenKey`: the signature buffer is sized by the *signing* key found in the key set
    (`sigLen` bytes, `none` = unknown key), so the budget carries that term -/
theorem c20_psb_tokenkey_safe (bs : Bytes) (sigLen : Option Nat) :
    Safe (PsbTotal.tokenKeyG (budget bs.length + sigLen.getD 0) sigLen bs {}) :=
  (PsbTotal.tokenKeyG_spec _ sigLen bs {} (by unfold budget; dsimp only; omega)).safe

theorem c20_psb_keydb_safe (bs : Bytes) : Safe (PsbTotal.parseKeyDatabaseG (budget bs.length) bs {}) :=
  (PsbTotal.parseKeyDatabaseG_spec _ bs {} (by unfold budget; dsimp only; omega)).safe

/-- `ValidatePSPEntry` (`newPSPBinary` + `getSignedBlob`) for every key set: total, and what is
    handed to the signature check lies inside the entry and is longer than the PSP header -/
theorem c20_psb_pspentry (keys : List PsbTotal.KeyInfo) (bs : Bytes) :
    SafeP (PsbTotal.validateEntryG (budget bs.length) keys bs) {} (fun v _ => ∀ sg sd, v = .reach sg sd →
      sd.length ≤ bs.length ∧ sg.length ≤ bs.length ∧ PsbTotal.pspHeaderSize < sd.length) :=
  SafeP.mono (PsbTotal.validateEntryG_spec _ keys bs {} (by unfold budget; dsimp only; omega)) (fun _ _ h => h.2)

theorem c20_psb_pspentry_safe (keys : List PsbTotal.KeyInfo) (bs : Bytes) :
    Safe (PsbTotal.validateEntryG (budget bs.length) keys bs {}) := (c20_psb_pspentry keys bs).safe

/-! ## decompression framing (pkg/compression), for every (total) decoder -/

theorem c20_zlib_safe (dec : Bytes → Option Bytes) (bs : Bytes) : Safe (CompressionTotal.zlibDecodeG dec bs {}) :=
  (CompressionTotal.zlibDecodeG_spec dec bs {}).safe

theorem c20_brotli_safe (dec : Bytes → Option Bytes) (bs : Bytes) : Safe (CompressionTotal.brotliDecodeG dec bs {}) :=
  (CompressionTotal.brotliDecodeG_spec dec bs {}).safe

/-! ## AMD APCB and coreboot file system (follow-up: these families moved to C20) -/

/-- `apcb.ParseAPCBBinaryTokens`: total for every byte string.  "Never `fuel`" is the progress
    lemma of the three nested walks: every round advances by `SizeOfGroup` / `SizeOfType` ≥ 16,
    checked for every group whether it holds tokens or not. -/
theorem c20_apcb_parse_safe (bs : Bytes) : Safe (ApcbTotal.parseG (budget bs.length) bs {}) :=
  (ApcbTotal.parseG_spec _ bs {} (by unfold budget ApcbTotal.parseKSlope; dsimp only; omega)).safe

/-- `cbfs.NewImage` (flash map, area clipping, record walk, per-type readers): total for every
    image shorter than 4 GiB (`RecordStart + SubHeaderOffset` is a uint32 sum in Go, a plain sum in
    the model).  "Never `fuel`": every round of the walk advances by ≥ 16 bytes. -/
theorem c20_cbfs_newimage_safe (bs : Bytes) (_hl : bs.length < 4294967296) :
    Safe (CbfsTotal.newImageG (budget bs.length) bs {}) :=
  (CbfsTotal.newImageG_spec _ bs {}
    (by unfold budget CbfsTotal.newImageKSlope Fmap.readK Fmap.areaMem; dsimp only; omega)).safe

/-! ## the central statement (DESIGN.md §7-C20), for the entry points modelled so far

  Full statement: *every* entry point named by the property (also cbfs, apcb, the AMD
  firmware / directory parsers, the 33 manifest layouts, FIT inject) is `Safe` under `budget`.
  Proved here for the listed ones; the rest is carried by the harness oracles only (checks.d/C20.json
  `unproved`), hence `_partial`. -/
theorem c20_total_partial (bs : Bytes) (hl : bs.length < FitTotal.two63) :
    Safe (Fmap.readG (budget bs.length) bs {}) ∧
    (∀ i, Safe (Fmap.readThenAreaG (budget bs.length) bs i {})) ∧
    (∀ i d, Safe (Fmap.readThenWriteAreaG (budget bs.length) bs i d {})) ∧
    (∀ s, Safe (Fmap.readThenWriteG (budget bs.length) bs s {})) ∧
    Safe (Microcode.parseG (budget bs.length) bs {}) ∧
    Safe (Me.parseG (budget bs.length) bs {}) ∧
    Safe (Fsp.newInfoHeaderG bs {}) ∧
    Safe (FitTotal.getEntriesG (budget bs.length) bs {}) ∧
    Safe (FitTotal.parseSACMG (budget bs.length) bs {}) ∧
    Safe (PsbTotal.rootKeyG (budget bs.length) bs {}) ∧
    (∀ n, Safe (PsbTotal.tokenKeyG (budget bs.length + n.getD 0) n bs {})) ∧
    Safe (PsbTotal.parseKeyDatabaseG (budget bs.length) bs {}) ∧
    (∀ keys, Safe (PsbTotal.validateEntryG (budget bs.length) keys bs {})) ∧
    (∀ dec, Safe (CompressionTotal.zlibDecodeG dec bs {})) ∧
    (∀ dec, Safe (CompressionTotal.brotliDecodeG dec bs {})) :=
  ⟨c20_fmap_read_safe bs, c20_fmap_readarea_safe bs, c20_fmap_writearea_safe bs, c20_fmap_write_safe bs,
   c20_microcode_safe bs, c20_me_safe bs, c20_fsp_safe bs, c20_fit_entries_safe bs hl, c20_fit_sacm_safe bs,
   c20_psb_rootkey_safe bs, c20_psb_tokenkey_safe bs, c20_psb_keydb_safe bs, fun keys => c20_psb_pspentry_safe keys bs,
   fun dec => c20_zlib_safe dec bs, fun dec => c20_brotli_safe dec bs⟩

/-! ## follow-up wp-c20b: the generated manifest readers, for every layout

  `ManifestTotal.readG` is the one template all 33 `*_manifestcodegen.go` readers are instances of,
  written in GoM (every `make`, every `binary.Read`, the list loop, nested structures);
  `ManifestTotal.containerG` is the dispatch loop of the two boot policy manifests.  The theorems
  are about **every** `Layout` / `Container`, not about the 33: the budget is a function of the layout
  (`slope L · |bs| + unpaid L`), and `C20TieB.manifest_layouts_wf` evaluates it on the layouts rebuilt
  from the regenerated declarations. -/

open Fiano.Manifest in
/-- **`manifest_read_total`**: for every layout in which list items consume input (`Wf`), every
    environment of length fields and every byte string, the reader ends in a value or an ordinary
    error — never a panic, never more than `slope L·|bs| + unpaid L` bytes allocated on any path; a
    value comes with ≥ `minSize L` bytes consumed and ≤ `slope L` bytes allocated per byte consumed -/
theorem c20_manifest_read_total (L : Layout) (env : Env) (bs : Bytes) (hwf : ManifestTotal.Wf L = true) :
    SafeP (ManifestTotal.readG (ManifestTotal.slope L * bs.length + ManifestTotal.unpaid L) L env bs) {}
      (fun p m' => p.2.length + ManifestTotal.minSize L ≤ bs.length ∧
        m'.alloc + ManifestTotal.slope L * p.2.length ≤ ManifestTotal.slope L * bs.length) :=
  ManifestTotal.readG_total L env bs hwf _ (Nat.le_refl _)

open Fiano.Manifest in
/-- the same for every element container whose struct-info and elements are not empty (`WfC`):
    additionally never out of fuel — every round of the `for { … }` dispatch loop consumes input — and
    the indexed `missingFieldsByIndices` array is as long as the slot list -/
theorem c20_manifest_container_total (C : Container) (bs : Bytes) (hwf : ManifestTotal.WfC C = true) :
    SafeP (ManifestTotal.containerG (ManifestTotal.cslope C * bs.length + ManifestTotal.cunpaid C) C bs) {}
      (fun p m' => p.2.length ≤ bs.length ∧
        m'.alloc + ManifestTotal.cslope C * p.2.length ≤ ManifestTotal.cslope C * bs.length) :=
  ManifestTotal.containerG_total C bs hwf _ (Nat.le_refl _)

open Fiano.Manifest in
/-- **the GoM reader is C15's codec model**: for every layout, environment, input, meter and budget —
    when `readG` ends with a value, `Manifest.decode` returns exactly that value (field values and unread
    rest); when it ends with an ordinary error, `decode` is an error (`Agree`; a fault says nothing, and
    `c20_manifest_read_total` excludes faults).  What C15 proves and validates about `decode` is about
    the function whose totality is proved here. -/
theorem c20_manifest_read_refines (B : Nat) (L : Layout) (env : Env) (bs : Bytes) (m : Meter) :
    ManifestTotal.Agree (ManifestTotal.readG B L env bs) m (decode L env bs) :=
  ManifestTotal.readG_refines B L env bs m

open Fiano.Manifest in
/-- the same for the dispatch loop of the element containers and `Container.decode` -/
theorem c20_manifest_container_refines (B : Nat) (C : Container) (bs : Bytes) (m : Meter) :
    ManifestTotal.Agree (ManifestTotal.containerG B C bs) m (C.decode bs) :=
  ManifestTotal.containerG_refines B C bs m

/-- what `drv_c20` runs for a structure name (Driver/C20.lean `manifest.read`) -/
def manifestSafe (q : String) (bs : Bytes) : Prop :=
  match Manifest.sdefOf Manifest.Tie.src 8 q with
  | some S => Safe (ManifestTotal.readG (budget bs.length) S.body [] bs {})
  | none =>
    match Manifest.containerOf Manifest.Tie.src 8 q (Manifest.Tie.strictOf q) with
    | some C => Safe (ManifestTotal.containerG (budget bs.length) C bs {})
    | none => False

/-- **the 33 generated structures** (whatever `Gen.Manifest.structNames` lists now): `ReadFrom` of each,
    on every byte string, is Safe under the budget of the harness oracle `64·|bs| + 16 MiB` -/
theorem c20_manifest_generated_safe (q : String) (hq : q ∈ Gen.Manifest.structNames) (bs : Bytes) :
    manifestSafe q bs := by
  have hall := C20TieB.manifest_layouts_wf
  rw [List.all_eq_true] at hall
  have hq' := hall q hq
  unfold C20TieB.layoutOK at hq'
  unfold manifestSafe
  split
  · rename_i S hS
    rw [hS] at hq'
    simp only [C20TieB.structOK, Bool.and_eq_true, decide_eq_true_eq] at hq'
    obtain ⟨⟨hwf, hs⟩, hu⟩ := hq'
    have hmul : ManifestTotal.slope S.body * bs.length ≤ 64 * bs.length := Nat.mul_le_mul_right _ hs
    exact (ManifestTotal.readG_total S.body [] bs hwf _ (by unfold budget; omega)).safe
  · rename_i hS
    rw [hS] at hq'
    split
    · rename_i C hC
      simp only [hC] at hq'
      simp only [C20TieB.contOK, Bool.and_eq_true, decide_eq_true_eq] at hq'
      obtain ⟨⟨hwf, hs⟩, hu⟩ := hq'
      have hmul : ManifestTotal.cslope C * bs.length ≤ 64 * bs.length := Nat.mul_le_mul_right _ hs
      exact (ManifestTotal.containerG_total C bs hwf _ (by unfold budget; omega)).safe
    · rename_i hC
      simp [hC] at hq'

/-- the four manifests by name (the entry points of `observe_at`) -/
theorem c20_manifest_four_safe (bs : Bytes) :
    manifestSafe "bgkey.Manifest" bs ∧ manifestSafe "bgbootpolicy.Manifest" bs ∧
    manifestSafe "cbntkey.Manifest" bs ∧ manifestSafe "cbntbootpolicy.Manifest" bs :=
  ⟨c20_manifest_generated_safe _ (by decide) bs, c20_manifest_generated_safe _ (by decide) bs,
   c20_manifest_generated_safe _ (by decide) bs, c20_manifest_generated_safe _ (by decide) bs⟩

/-- `Wf` is needed, not decoration: a layout with two lists whose items consume nothing (`Wf` false)
    leaves its own budget on the 2-byte input `[255, 2]` — 257 slice headers against a budget for 256 -/
theorem c20_manifest_wf_needed :
    ManifestTotal.Wf ManifestTotal.illLayout = false ∧
    ¬ Safe (ManifestTotal.readG (ManifestTotal.slope ManifestTotal.illLayout * 2 + ManifestTotal.unpaid ManifestTotal.illLayout)
      ManifestTotal.illLayout [] [255, 2] {}) :=
  ⟨by decide, ManifestTotal.illLayout_not_safe⟩

/-! ## follow-up wp-c20b: AMD firmware, directories, entry functions (pkg/amd/manifest, pkg/amd/psb) -/

/-- the pre-check constant of `ParseBIOSDirectoryTable` as it is in the tree now -/
def amdC : Nat := Gen.C20Amd.BIOSDirectoryTableEntrySize

/-- **`ParseAMDFirmware`** (EFS probe over the six anchors with its uint64 address arithmetic, both
    directory kinds through their pointers and through the cookie scanners, level 2 through the first
    level-2 entry of level 1): a value or "not found" for every image shorter than 2^63 bytes; never
    a panic; never out of fuel — every round of a scanner moves ≥ 4 bytes on; ≤ 6·|image| allocated.
    There is no recursion into level-2 tables, hence no pointer cycle to follow. -/
theorem c20_amd_firmware_safe (bs : Bytes) (hl : bs.length < AmdTotal.two63) :
    Safe (AmdTotal.discoverG amdC (budget bs.length) bs {}) :=
  (AmdTotal.discoverG_spec amdC _ C20TieB.amd_bios_precheck_const bs hl {}
    (by unfold budget AmdTotal.discoverKSlope; dsimp only; omega)).safe

/-- parse, then **any** entry function (`ExtractPSPEntry` = `DumpPSPEntry`, `PatchPSPEntry`, `GetEntries`
    and their BIOS twins) with any level, type, instance and replacement: Safe with the bytes of the
    replacement added to the budget (`io.ReadAll` of the caller's reader) -/
theorem c20_amd_entries_safe (bs : Bytes) (hl : bs.length < AmdTotal.two63) (op : AmdTotal.Op) :
    Safe (AmdTotal.firmwareOpG amdC (budget bs.length + op.extra) bs op {}) :=
  (AmdTotal.firmwareOpG_spec amdC _ C20TieB.amd_bios_precheck_const bs hl op {}
    (by unfold budget AmdTotal.discoverKSlope AmdTotal.opKSlope; dsimp only; omega)).safe

/-- **`ParseAMDFirmware`, then `psb.GetKeys`** (root key, signed key database, ABL key, optional OEM key)
    for every level and **every** verdict function of the RSA checks: a value or an error, never a
    panic, never out of fuel (`parseKeyDatabase` consumes ≥ 4 bytes per round), ≤ 22·|image| allocated —
    every signature buffer is as long as a modulus that was itself read out of the image -/
theorem c20_amd_getkeys_safe (bs : Bytes) (hl : bs.length < AmdTotal.two63) (verify : Bytes → Bytes → Bool) (level : Nat) :
    Safe (AmdTotal.firmwareKeysG amdC (budget bs.length) verify bs level {}) :=
  (AmdTotal.firmwareKeysG_spec amdC _ C20TieB.amd_bios_precheck_const verify bs hl level {}
    (by unfold budget AmdTotal.firmwareKeysKSlope; dsimp only; omega)).safe

/-- the two scanners and the two table parsers directly on bytes (`amd.tables`) -/
theorem c20_amd_tables_safe (bs : Bytes) :
    Safe (AmdTotal.parsePSPG (budget bs.length) bs {}) ∧ Safe (AmdTotal.parseBIOSG amdC (budget bs.length) bs {}) ∧
    Safe (AmdTotal.findPSPG (budget bs.length) bs {}) ∧ Safe (AmdTotal.findBIOSG amdC (budget bs.length) bs {}) := by
  refine ⟨?_, ?_, ?_, ?_⟩
  · exact (AmdTotal.parsePSPG_ok _ bs {} (by unfold budget; dsimp only; omega)).safe
  · exact (AmdTotal.parseBIOSG_ok amdC _ C20TieB.amd_bios_precheck_const bs {} (by unfold budget; dsimp only; omega)).safe
  · exact (AmdTotal.scanG_spec _ 1 AmdTotal.pspSz _ _ (by simp) (AmdTotal.parsePSPG_ok _) _ bs 0 {} (by omega)
      (by unfold budget; dsimp only; omega)).safe
  · exact (AmdTotal.scanG_spec _ 2 AmdTotal.biosSz _ _ (by simp)
      (AmdTotal.parseBIOSG_ok amdC _ C20TieB.amd_bios_precheck_const) _ bs 0 {} (by omega)
      (by unfold budget; dsimp only; omega)).safe

set_option maxRecDepth 1000000 in
/-- **the unrepaired pre-check constant 16** (a BIOS entry has 24 bytes): on a 320-byte input of 20
    cookie headers the scanner allocates 19·|input| — it does not stay within the 6·|input| that suffice
    for the whole repaired `parsePSPFirmware`; with 24 the same input costs nothing.  (On the real
    code: 64 KiB → 567 MiB; corpus/C20/amd-bios-scan-quadratic.json.) -/
theorem c20_amd_bios_scan_unrepaired_witness :
    ¬ Safe (AmdTotal.findBIOSG 16 (6 * AmdTotal.quadWitness.length) AmdTotal.quadWitness {}) ∧
    Safe (AmdTotal.findBIOSG 24 (6 * AmdTotal.quadWitness.length) AmdTotal.quadWitness {}) := by
  constructor
  · have h : (match AmdTotal.findBIOSG 16 (6 * AmdTotal.quadWitness.length) AmdTotal.quadWitness {} with
        | .error (.panic _) => true | _ => false) = true := by decide
    intro hs
    unfold Safe at hs
    split at hs <;> simp_all
  · exact (AmdTotal.scanG_spec _ 2 AmdTotal.biosSz _ _ (by simp) (AmdTotal.parseBIOSG_ok 24 _ (by decide)) _ _ 0 {}
      (by omega) (by simp only; omega)).safe

/-! ## follow-up wp-c20b: FIT RecalculateHeaders + Inject, record ParseData -/

/-- **`GetEntries` → `RecalculateHeaders` → `Inject`** on every image shorter than 2^63 bytes, every
    `headersOffset`, with or without the recalculation: a value or an error, never a panic
    (`Uint24.SetUint32` is only ever called with values the 24-bit size fields of the same image
    produced), and the image keeps its length -/
theorem c20_fit_inject (bs : Bytes) (hl : bs.length < FitTotal.two63) (off : Nat) (recalc : Bool) :
    SafeP (FitTotal.injectPipelineG (budget bs.length) bs off recalc) {} (fun r _ => r.1.length = bs.length) :=
  FitTotal.injectPipelineG_spec _ bs off recalc {} hl (by unfold budget FitTotal.injectKSlope; dsimp only; omega)

theorem c20_fit_inject_safe (bs : Bytes) (hl : bs.length < FitTotal.two63) (off : Nat) (recalc : Bool) :
    Safe (FitTotal.injectPipelineG (budget bs.length) bs off recalc {}) := (c20_fit_inject bs hl off recalc).safe

/-- `Inject` of **any** entry list (not only a parsed one) into any image at any offset -/
theorem c20_fit_inject_any_safe (img : Bytes) (es : List Fit.Entry) (off : Nat) :
    Safe (FitTotal.injectG (budget img.length + 32 * es.length) img es off {}) :=
  (FitTotal.injectG_spec _ img es off {} (by unfold budget; dsimp only; omega)).safe

/-- the `ParseData` dispatch of the key-manifest and boot-policy-manifest records on hostile data
    segments: `DetectBGV`, then the Boot Guard 1.0 or the CBnT reader of the regenerated layouts -/
def recordSafe (q1 q2 : String) (bs : Bytes) : Prop :=
  match Manifest.sdefOf Manifest.Tie.src 8 q1, Manifest.sdefOf Manifest.Tie.src 8 q2 with
  | some S1, some S2 =>
    Safe (FitTotal.parseRecordG (fun d => ManifestTotal.readG (budget bs.length) S1.body [] d)
      (fun d => ManifestTotal.readG (budget bs.length) S2.body [] d) bs {})
  | _, _ => False

theorem c20_fit_km_record_safe (bs : Bytes) : recordSafe "bgkey.Manifest" "cbntkey.Manifest" bs := by
  have h1 := c20_manifest_generated_safe "bgkey.Manifest" (by decide) bs
  have h2 := c20_manifest_generated_safe "cbntkey.Manifest" (by decide) bs
  unfold manifestSafe at h1 h2
  unfold recordSafe
  cases hS1 : Manifest.sdefOf Manifest.Tie.src 8 "bgkey.Manifest" with
  | none => exact absurd hS1 (by decide)
  | some S1 =>
    cases hS2 : Manifest.sdefOf Manifest.Tie.src 8 "cbntkey.Manifest" with
    | none => exact absurd hS2 (by decide)
    | some S2 =>
      simp only [hS1] at h1
      simp only [hS2] at h2
      simp only
      have g1 : SafeP (ManifestTotal.readG (budget bs.length) S1.body [] bs) {} (fun _ _ => True) := by
        unfold SafeP; unfold Safe at h1; split at h1 <;> simp_all
      have g2 : SafeP (ManifestTotal.readG (budget bs.length) S2.body [] bs) {} (fun _ _ => True) := by
        unfold SafeP; unfold Safe at h2; split at h2 <;> simp_all
      exact (FitTotal.parseRecordG_spec _ _ bs {} _ g1 g2).safe

/-! ## the unrepaired code does *not* satisfy the statements (witnesses replayed on the
    implementation by corpus/C20) -/

/-- microcode, 48-byte header with DataSize = 0x7FFFFFFC: the unrepaired allocation order leaves
    the budget, the repaired parser answers with an error -/
theorem c20_microcode_unrepaired_witness :
    ¬ Safe (Microcode.parseOldG (budget Microcode.witness.length) Microcode.witness {}) ∧
    Microcode.parseG (budget Microcode.witness.length) Microcode.witness {} = .error .err := by
  refine ⟨?_, Microcode.parseG_witness_err⟩
  have h := Microcode.parseOldG_witness
  simp only [budget] at *
  rw [h]; simp [Safe]

/-- Brotli, any input shorter than 16 bytes: the unrepaired entry point panics -/
theorem c20_brotli_unrepaired_witness (dec : Bytes → Option Bytes) :
    ¬ Safe (CompressionTotal.brotliDecodeOldG dec [1, 2, 3] {}) := by
  rw [CompressionTotal.brotliDecodeOldG_witness]; simp [Safe]

/-- PSB key, 64-byte header with ExponentSize = 0xFFFFFFF8: the unrepaired `readExponent` leaves
    the budget (512 MiB, twice); the repaired `NewRootKey` answers with an error -/
theorem c20_psb_unrepaired_witness :
    ¬ Safe (PsbTotal.readSizedOldG "readExponent: make([]byte, ExponentSize/8)" (budget PsbTotal.keyWitness.length)
        (fieldLE PsbTotal.keyWitness 56 4) [] {}) ∧
    PsbTotal.rootKeyG (budget PsbTotal.keyWitness.length) PsbTotal.keyWitness {} = .error .err := by
  refine ⟨?_, PsbTotal.rootKeyG_witness_err⟩
  have h := PsbTotal.readSizedOldG_witness
  simp only [budget] at *
  rw [h]; simp [Safe]

/-- FIT startup ACM, Size = 0x3FFFFFFF dwords in a 1216-byte module: the unrepaired
    `readBytesFromReader` asks for ≈ 16 GiB -/
theorem c20_fit_sacm_unrepaired_witness :
    ¬ Safe (FitTotal.readUserAreaOldG (budget 1216) 0x3fffffff 1216 [] {}) := by
  have h := FitTotal.readUserAreaOldG_witness
  simp only [budget] at *
  rw [h]; simp [Safe]

/-- flash map with one area of Size 0xFFFFFFFF over a 98-byte image: the unrepaired `ReadArea`
    asks for 4 GiB before reading -/
def hostileMap : Fmap.FMap :=
  { hdr := { sig := Fmap.signature, verMajor := 1, verMinor := 0, base := 0, size := 1, name := [], nAreas := 1 },
    areas := [{ offset := 0, size := 0xffffffff, name := [], flags := 0 }] }

theorem c20_fmap_readarea_unrepaired_witness :
    Fmap.readAreaOldG (budget 98) hostileMap (List.replicate 98 0) 0 {} =
      .error (.panic "alloc-budget: ReadArea: make([]byte, f.Areas[i].Size)") ∧
    Fmap.readAreaG (budget 98) hostileMap (List.replicate 98 0) 0 {} = .error .err := by
  constructor <;> decide

/-- seeded defect c20-2 in the model: the group walk *without* the size check for foreign groups
    runs out of fuel on a body that starts with a foreign group of SizeOfGroup = 0 -/
def groupsNoCheckG (body : Bytes) : Nat → Bytes → GoM Unit
  | 0, _ => outOfFuel
  | fuel+1, rem =>
    if rem.length = 0 then pure ()
    else do
      let (gh, _) ← binaryReadG rem 16
      let sg := fieldLE gh 12 4
      if sg > rem.length then GoM.err
      else if fieldLE gh 4 2 = 0x3000 ∧ sg < 16 then GoM.err           -- the check, for token groups only
      else do
        let rem' ← sliceFromG "remainBytes[groupHeader.SizeOfGroup:]" rem sg
        groupsNoCheckG body fuel rem'

def foreignZero : Bytes := [0x50, 0x53, 0x50, 0x47, 0x01, 0x17, 0x10, 0, 1, 0, 0, 0, 0, 0, 0, 0]

theorem c20_apcb_unguarded_witness :
    groupsNoCheckG foreignZero (foreignZero.length + 1) foreignZero {} = .error .fuel ∧
    ApcbTotal.groupsG (budget 16) foreignZero (foreignZero.length + 1) foreignZero 0 0 {} = .error .err := by
  constructor <;> decide

/-! ## non-vacuity: the hypotheses are inhabited and the models accept well-formed inputs -/

example : ([] : Bytes).length < FitTotal.two63 := by decide

/-- a two-entry flash partition table parses to a value -/
def meSample : Bytes :=
  Me.signature ++ leN 4 2 ++ [0x20, 0x10, 0x20, 0] ++ leN 2 0 ++ leN 2 0 ++ leN 4 0 ++ leN 4 0 ++ leN 8 0 ++
    List.replicate 64 0x41

/-- `some (final allocation meter)` when the run ended with a value -/
def okAlloc {α} (r : Except Fault (α × Meter)) : Option Nat :=
  match r with
  | .ok (_, m) => some m.alloc
  | .error _ => none

example : okAlloc (Me.parseG (budget meSample.length) meSample {}) = some 64 := by decide

/-- a checksum-correct microcode update with 4 data bytes parses to a value -/
def mcuSample : Bytes :=
  leN 4 1 ++ leN 4 0 ++ leN 4 0 ++ leN 4 0 ++ leN 4 (4294967296 - 1 - 1 - 4 - 52 - 0x01020304) ++ leN 4 1 ++ leN 4 0 ++
    leN 4 4 ++ leN 4 52 ++ leN 12 0 ++ leN 4 0x01020304

example : okAlloc (Microcode.parseG (budget mcuSample.length) mcuSample {}) = some (4 + 52) := by decide

/-- a 128-byte image: FIT table (header + one BIOS-startup-module entry) at 0, its 16-byte data
    segment at 32, the FIT pointer at 128 - 0x40 -/
def fitSample : Bytes :=
  FitTotal.magic ++ leN 3 2 ++ [0] ++ leN 2 0x100 ++ [0, 0] ++
  leN 8 (4294967296 - 128 + 32) ++ leN 3 1 ++ [0] ++ leN 2 0x100 ++ [7, 0] ++
  List.replicate 16 0xAB ++ List.replicate 16 0xFF ++
  leN 8 (4294967296 - 128) ++ List.replicate 56 0

-- two headers are parsed, two entries built; the second carries its 16 data bytes
set_option maxRecDepth 100000 in
example : (match FitTotal.getEntriesG (budget fitSample.length) fitSample {} with
    | .ok (es, m) => some (es.map (fun e => (e.1.length, e.2)), m.alloc)
    | .error _ => none) = some ([(0, false), (16, false)], 2 * 16 + 2 * 64) := by decide

/-- a flash map with one area inside a 160-byte image: Read, then ReadArea 0 returns its 8 bytes -/
def fmapSample : Bytes :=
  Fmap.signature ++ [1, 1] ++ leN 8 0 ++ leN 4 160 ++ ([0x46] ++ List.replicate 31 0) ++ leN 2 1 ++
  (leN 4 100 ++ leN 4 8 ++ ([0x41] ++ List.replicate 31 0) ++ leN 2 0) ++ List.replicate 62 0x5A

set_option maxRecDepth 100000 in
example : (match Fmap.readThenAreaG (budget fmapSample.length) fmapSample 0 {} with
    | .ok (a, m) => some (a, m.alloc)
    | .error _ => none) = some (List.replicate 8 0x5A, 1 * Fmap.areaMem + 8) := by decide

/-- one key-database entry with an 8-byte modulus -/
def dbKeySample : Bytes :=
  leN 4 88 ++ leN 4 1 ++ leN 4 0 ++ leN 4 0x10001 ++ List.replicate 16 7 ++ leN 4 64 ++ List.replicate 44 0 ++
  List.replicate 8 0xC3

example : okAlloc (PsbTotal.dbLoopG (budget dbKeySample.length) (dbKeySample.length + 1) dbKeySample [] {}) = some 16 := by
  decide

/-- a PSP binary of 0x100 + 16 + 8 bytes signed by a 64-bit key reaches the signature check with
    the last 8 bytes as signature and the rest as signed data -/
def pspSample : Bytes :=
  List.replicate 20 0 ++ leN 4 16 ++ List.replicate 32 0 ++ List.replicate 16 9 ++ List.replicate 36 0 ++
  leN 4 (0x100 + 16 + 8) ++ List.replicate 144 0 ++ List.replicate 16 0x11 ++ List.replicate 8 0x22

set_option maxRecDepth 100000 in
example : (match PsbTotal.validateEntryG (budget pspSample.length) [{ id := List.replicate 16 9, modBits := 64, expBits := 64 }]
      pspSample {} with
    | .ok (.reach sg sd, _) => some (sg, sd.length)
    | _ => none) = some (List.replicate 8 0x22, 0x100 + 16) := by decide

/-- an APCB blob: a foreign group, then a token group with one boolean type holding two pairs -/
def apcbSample : Bytes :=
  ([0x41, 0x50, 0x43, 0x42] ++ leN 2 128 ++ leN 2 0x30 ++ leN 4 (128 + 24 + 48) ++ List.replicate 20 0 ++
    [0x45, 0x43, 0x42, 0x32] ++ List.replicate 88 0 ++ [0x42, 0x43, 0x42, 0x41]) ++
  ([0x50, 0x53, 0x50, 0x47] ++ leN 2 0x1701 ++ leN 2 16 ++ leN 4 1 ++ leN 4 24 ++ List.replicate 8 0xEE) ++
  ([0x54, 0x4f, 0x4b, 0x4e] ++ leN 2 0x3000 ++ leN 2 16 ++ leN 4 1 ++ leN 4 48 ++
    (leN 2 0x3000 ++ leN 2 0 ++ leN 2 32 ++ List.replicate 10 0 ++ leN 4 7 ++ leN 4 1 ++ leN 4 9 ++ leN 4 0))

set_option maxRecDepth 100000 in
example : (match ApcbTotal.parseG (budget apcbSample.length) apcbSample {} with
    | .ok (n, m) => some (n, m.alloc)
    | .error _ => none) = some (2, 2 * ApcbTotal.tokenMem) := by decide

/-- the boot-policy-manifest record: the same dispatch over the two element containers -/
def recordSafeC (q1 q2 : String) (bs : Bytes) : Prop :=
  match Manifest.containerOf Manifest.Tie.src 8 q1 (Manifest.Tie.strictOf q1),
        Manifest.containerOf Manifest.Tie.src 8 q2 (Manifest.Tie.strictOf q2) with
  | some C1, some C2 =>
    Safe (FitTotal.parseRecordG (fun d => ManifestTotal.containerG (budget bs.length) C1 d)
      (fun d => ManifestTotal.containerG (budget bs.length) C2 d) bs {})
  | _, _ => False

set_option maxRecDepth 100000 in
theorem c20_fit_bpm_record_safe (bs : Bytes) : recordSafeC "bgbootpolicy.Manifest" "cbntbootpolicy.Manifest" bs := by
  have h1 := c20_manifest_generated_safe "bgbootpolicy.Manifest" (by decide) bs
  have h2 := c20_manifest_generated_safe "cbntbootpolicy.Manifest" (by decide) bs
  unfold manifestSafe at h1 h2
  have n1 : Manifest.sdefOf Manifest.Tie.src 8 "bgbootpolicy.Manifest" = none := by decide
  have n2 : Manifest.sdefOf Manifest.Tie.src 8 "cbntbootpolicy.Manifest" = none := by decide
  simp only [n1] at h1
  simp only [n2] at h2
  unfold recordSafeC
  cases hC1 : Manifest.containerOf Manifest.Tie.src 8 "bgbootpolicy.Manifest" (Manifest.Tie.strictOf "bgbootpolicy.Manifest") with
  | none => simp only [hC1] at h1
  | some C1 =>
    cases hC2 : Manifest.containerOf Manifest.Tie.src 8 "cbntbootpolicy.Manifest" (Manifest.Tie.strictOf "cbntbootpolicy.Manifest") with
    | none => simp only [hC2] at h2
    | some C2 =>
      simp only [hC1] at h1
      simp only [hC2] at h2
      simp only
      have g1 : SafeP (ManifestTotal.containerG (budget bs.length) C1 bs) {} (fun _ _ => True) := by
        unfold SafeP; unfold Safe at h1; split at h1 <;> simp_all
      have g2 : SafeP (ManifestTotal.containerG (budget bs.length) C2 bs) {} (fun _ _ => True) := by
        unfold SafeP; unfold Safe at h2; split at h2 <;> simp_all
      exact (FitTotal.parseRecordG_spec _ _ bs {} _ g1 g2).safe

/-- the central statement for the entry-point families added by the follow-up (same form as
    `c20_total_partial`): the 33 generated manifest readers, `ParseAMDFirmware` with every entry function
    and `GetKeys`, the FIT modifying path and the manifest-record dispatch.  Still `_partial`: what is
    listed in checks.d/C20.json `unproved` is carried by the harness oracles only. -/
theorem c20_total_followup_partial (bs : Bytes) (hl : bs.length < FitTotal.two63) :
    (∀ q ∈ Gen.Manifest.structNames, manifestSafe q bs) ∧
    Safe (AmdTotal.discoverG amdC (budget bs.length) bs {}) ∧
    (∀ op : AmdTotal.Op, Safe (AmdTotal.firmwareOpG amdC (budget bs.length + op.extra) bs op {})) ∧
    (∀ verify level, Safe (AmdTotal.firmwareKeysG amdC (budget bs.length) verify bs level {})) ∧
    (∀ off recalc, Safe (FitTotal.injectPipelineG (budget bs.length) bs off recalc {})) ∧
    recordSafe "bgkey.Manifest" "cbntkey.Manifest" bs ∧
    recordSafeC "bgbootpolicy.Manifest" "cbntbootpolicy.Manifest" bs :=
  ⟨fun q hq => c20_manifest_generated_safe q hq bs, c20_amd_firmware_safe bs hl, c20_amd_entries_safe bs hl,
   fun v l => c20_amd_getkeys_safe bs hl v l, fun o r => c20_fit_inject_safe bs hl o r, c20_fit_km_record_safe bs,
   c20_fit_bpm_record_safe bs⟩

/-! ### non-vacuity of the follow-up theorems -/

example : ([] : Bytes).length < AmdTotal.two63 := by decide

/-- `cbnt.HashList` as rebuilt from the regenerated declarations is `Wf`, and the generic reader returns
    a value on a list of one SHA-256-tagged 2-byte digest: 10 bytes consumed, one 32-byte item + 2 bytes allocated -/
def hashListBytes : Bytes := [0, 0, 1, 0, 0x0b, 0, 2, 0, 0xaa, 0xbb]

set_option maxRecDepth 100000 in
example : (match Manifest.sdefOf Manifest.Tie.src 8 "cbnt.HashList" with
    | some S => ManifestTotal.Wf S.body &&
        (match ManifestTotal.readG (budget hashListBytes.length) S.body [] hashListBytes {} with
         | .ok (p, m) => p.2.length == 0 && m.alloc == 34
         | .error _ => false)
    | none => false) = true := by decide

set_option maxRecDepth 100000 in
/-- both containers are `WfC` (part of `C20TieB.manifest_layouts_wf`); an empty input is refused by the
    deferred missing-element check with an ordinary error -/
example : (match Manifest.containerOf Manifest.Tie.src 8 "bgbootpolicy.Manifest" true with
    | some C => ManifestTotal.WfC C &&
        (match ManifestTotal.containerG (budget 0) C [] {} with | .error .err => true | _ => false)
    | none => false) = true := by decide

/-- a PSP directory with one entry parses to a value: one 16-byte entry allocated -/
def pspTableSample : Bytes := leN 4 Amd.pspCookie ++ leN 4 0 ++ leN 4 1 ++ leN 4 0 ++
  [0x12, 0, 0, 0] ++ leN 4 0x80 ++ leN 8 0x680

example : (match AmdTotal.parsePSPG (budget pspTableSample.length) pspTableSample {} with
    | .ok (some (t, n), m) => some (t.entries.length, n, m.alloc)
    | _ => none) = some (1, 32, 16) := by decide

set_option maxRecDepth 1000000 in
/-- the FIT sample of above: parse, recalculate, inject at offset 0 — succeeds and keeps the length -/
example : (match FitTotal.injectPipelineG (budget fitSample.length) fitSample 0 true {} with
    | .ok (r, _) => some (r.1.length, r.2)
    | .error _ => none) = some (128, true) := by decide

end Fiano.C20
