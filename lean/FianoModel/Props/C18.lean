/-
  C18 — APCB token upsert sets exactly one token and keeps the blob well-formed.
  Property theorems only; the lemmas live in FianoModel/Apcb/*.lean.

  `upsert` / `listing` are the executable models of `UpsertToken` / `ParseAPCBBinaryTokens`
  (FianoModel/Apcb/Model.lean, the code as repaired by the four fixes named there).
  `ser`, `WF`, `tokensOf`, `absUpsert`, `specUpsert` are the format-level specification
  (FianoModel/Apcb/Spec.lean).  All statements are unbounded: every well-formed blob (any
  number of token and foreign groups, types, pairs, any extra group-header bytes, sorted or
  not, duplicates or not), every slack, every request.

  Hypotheses that the proofs forced (each was run on the real code at the excluded point, see
  reports/C18.md):
    * `(ser a ++ slack).length + 40 < 2^32` - `SizeOfAPCB + addedBytes` is computed in uint32;
    * in `WF`: `SizeOfType`, `SizeOfHeader` < 2^16, `SizeOfGroup`, `SizeOfAPCB` < 2^32 (the
      fields' widths).  A type that cannot take 8 more bytes is *not* excluded: the repaired
      code refuses (`typeFull`), the original wrapped `SizeOfType` to 0.
    * no hypothesis "group data < 64 KiB": the repaired `iterateTypes` compares in `int`.
-/
import FianoModel.Apcb.SpecLemmas
import FianoModel.Apcb.Tie

namespace Fiano.Apcb

/-! ## C18.0 the central refinement -/

/-- `UpsertToken` on a well-formed blob followed by any slack does exactly what the abstract
    upsert says: update in every matching type holding the id; else a pair into the last matching
    type after the last id ≤ new; else a new type at the end of the last token group; else a new
    group at the end; the tail shifted into the slack and the three sizes fixed - or, when the
    type is full or the slack too short, an error and the very same bytes. -/
theorem c18_upsert_refines (t : Tok) (a : Apcb) (slack : Bytes) (hw : a.WF)
    (hb : (ser a ++ slack).length + 40 < 2 ^ 32) :
    upsert t (ser a ++ slack) = specUpsert t a slack :=
  upsert_refines t a slack hw hb

/-- The listing of a well-formed blob is its abstract token table, in blob order; it fails iff
    a non-empty type has an unknown type id. -/
theorem c18_listing_exact (a : Apcb) (slack : Bytes) (hw : a.WF) (hb : (ser a ++ slack).length < 2 ^ 32) :
    (∀ l, tokensOf a = some l → listing (ser a ++ slack) = (l, .ok)) ∧
    (tokensOf a = none → (listing (ser a ++ slack)).2 = .err) :=
  ⟨fun l hl => listing_ser_some a slack hw hb l hl, listing_ser_none a slack hw hb⟩

/-! ## C18.1 a successful upsert leaves a well-formed blob of the same total length -/

/-- **Nested sizes consistent and inside the buffer.**  After a successful `UpsertToken` the
    buffer is the serialisation of a well-formed abstract blob (so SizeOfAPCB, every SizeOfGroup,
    SizeOfHeader and SizeOfType are mutually consistent) followed by what is left of the slack,
    and its total length is unchanged. -/
theorem c18_after_wellformed (t : Tok) (a : Apcb) (slack : Bytes) (hw : a.WF) (ht : t.WF)
    (hb : (ser a ++ slack).length + 40 < 2 ^ 32) (b' : Bytes) (h : upsert t (ser a ++ slack) = (b', .ok)) :
    (absUpsert t a).1.WF ∧ b' = ser (absUpsert t a).1 ++ slack.drop (absUpsert t a).2 ∧
      (absUpsert t a).1.size ≤ b'.length ∧ b'.length = (ser a ++ slack).length := by
  rw [upsert_refines t a slack hw hb] at h
  by_cases hs : succeeds t a slack
  · rw [specUpsert_ok t a slack hs] at h
    injection h with h1 _
    have hbl : (ser a ++ slack).length = a.size + slack.length := by rw [List.length_append, ser_length a hw]
    have hadd : (absUpsert t a).2 ≤ slack.length := by
      rcases hs with hh | ⟨_, hr⟩
      · simp [absUpsert, hh]
      · exact hr
    have hfull : typeFull t a = false ∨ holds t a = true := by
      rcases hs with hh | ⟨hf, _⟩
      · exact Or.inr hh
      · exact Or.inl hf
    have hwf : (absUpsert t a).1.WF := by
      rcases hfull with hf | hh
      · exact absUpsert_WF t a hw ht hf (by omega)
      · -- update: independent of typeFull
        have hr : absUpsert t a = (a.withGroups (a.groups.map (Group.upd t)), 0) := by simp [absUpsert, hh]
        rw [hr]
        refine withGroups_WF a _ hw ?_ (by rw [serGroups_upd_length]; exact hw.size)
        intro g hg
        simp only [List.mem_map] at hg
        obtain ⟨g', hg', rfl⟩ := hg
        exact Group.upd_WF t g' (hw.groups g' hg') ht.val
    have hl' : b'.length = (absUpsert t a).1.size + (slack.length - (absUpsert t a).2) := by
      rw [← h1, List.length_append, ser_length _ hwf, List.length_drop]
    refine ⟨hwf, h1.symm, by omega, ?_⟩
    rw [hl', absUpsert_size, hbl]; omega
  · rw [specUpsert_err t a slack hs] at h
    injection h with _ h2
    cases h2

/-! ## C18.2 what the listing shows afterwards -/

/-- **The new value is listed under a matching type, every other token is as before.**
    If the blob listed as `l` before, then after a successful `UpsertToken` the implementation's
    own listing succeeds and
    * contains an entry with the requested id, type id and value whose masks intersect the
      requested masks (or are exactly the requested masks, for a type created by the call);
    * in the update case is `l` with the value replaced in exactly the entries answering the
      request (same type id, intersecting masks, same id) - same length, same order;
    * in the insert case is `l` with that single entry inserted - nothing else moved or changed. -/
theorem c18_listing_after (t : Tok) (a : Apcb) (slack : Bytes) (hw : a.WF) (ht : t.WF)
    (hb : (ser a ++ slack).length + 40 < 2 ^ 32) (l : List LTok) (hl : tokensOf a = some l)
    (pv : Nat) (hpv : processValue t.tid t.val = some pv)
    (b' : Bytes) (h : upsert t (ser a ++ slack) = (b', .ok)) :
    listing (ser a ++ slack) = (l, .ok) ∧
    ∃ l', listing b' = (l', .ok) ∧ (∃ x ∈ l', x.answers t pv) ∧
      (if holds t a then l' = l.map (updTok t pv)
       else ∃ nt, InsAt nt l l' ∧ nt.answers t pv) := by
  obtain ⟨hwf, hb', _, hlen⟩ := c18_after_wellformed t a slack hw ht hb b' h
  have hbefore := listing_ser_some a slack hw (by omega) l hl
  obtain ⟨l', hl', hx⟩ := new_value_listed t a pv hpv l hl
  have hafter : listing b' = (l', .ok) := by
    rw [hb']
    exact listing_ser_some _ _ hwf (by rw [← hb', hlen]; omega) l' hl'
  refine ⟨hbefore, l', hafter, hx, ?_⟩
  have := tokens_after t a pv hpv l hl
  by_cases hh : holds t a
  · simp only [hh, if_true] at this ⊢
    rw [hl'] at this
    injection this
  · simp only [hh, if_false, Bool.false_eq_true] at this ⊢
    obtain ⟨nt, l'', h1, h2, h3⟩ := this
    rw [hl'] at h1
    injection h1 with h1
    subst h1
    exact ⟨nt, h2, h3⟩

/-- `updTok` touches nothing but the value, and only in entries answering the request -/
theorem c18_updTok_frame (t : Tok) (pv : Nat) (x : LTok) :
    (updTok t pv x).id = x.id ∧ (updTok t pv x).prio = x.prio ∧ (updTok t pv x).board = x.board ∧
    (updTok t pv x).tid = x.tid ∧ (x.hit t = false → updTok t pv x = x) ∧
    (x.hit t = true → (updTok t pv x).val = pv) := by
  unfold updTok
  by_cases hh : x.hit t <;> simp [hh]

/-! ## C18.3 updating an existing token: same length, same sizes, only values change -/

/-- **Update does not change the blob's length** (nor any size field, nor the slack): when a
    matching type already holds the id the call succeeds whatever the slack, and the result is
    the same structure with the value replaced in the pairs with that id of every matching type. -/
theorem c18_update_in_place (t : Tok) (a : Apcb) (slack : Bytes) (hw : a.WF)
    (hb : (ser a ++ slack).length + 40 < 2 ^ 32) (hh : holds t a = true) :
    upsert t (ser a ++ slack) = (ser (a.withGroups (a.groups.map (Group.upd t))) ++ slack, .ok) ∧
    (a.withGroups (a.groups.map (Group.upd t))).size = a.size := by
  rw [upsert_refines t a slack hw hb]
  refine ⟨?_, by simp [Apcb.size, Apcb.withGroups, serGroups_upd_length]⟩
  simp [specUpsert, absUpsert, hh]

/-- **Header frame.**  The upsert never touches a header byte other than SizeOfAPCB: the 8 bytes
    before it and the 116 after it (signatures, versions, unique instance, both checksum bytes,
    reserved fields) are those of the input.  In particular `CheckSumByte` and `HeaderCheckSum`
    are *not* recomputed (DESIGN App. B) - a caller that needs them valid must do so itself. -/
theorem c18_header_frame (t : Tok) (a : Apcb) :
    (absUpsert t a).1.pre = a.pre ∧ (absUpsert t a).1.post = a.post := by
  cases absUpsert_cases t a with
  | update hh hr => rw [hr]; exact ⟨rfl, rfl⟩
  | pair hh gpre gpost sig ver res extra tpre tpost e hg he htp hgp htarget hr => rw [hr]; exact ⟨rfl, rfl⟩
  | type hh gpre gpost sig ver res extra types hg hpre htm hpost htarget hr => rw [hr]; exact ⟨rfl, rfl⟩
  | group hh hf htarget hr => rw [hr]; exact ⟨rfl, rfl⟩

/-! ## C18.4 no room ⇒ error and the blob unchanged -/

/-- **If there is no room the call fails and the blob is left unchanged**; and these are the
    only failures on a well-formed blob: the slack is shorter than the bytes to add (8 for a
    pair, 24 for a type, 40 for a group), or the last matching type is full (SizeOfType + 8
    would not fit its uint16). -/
theorem c18_no_room (t : Tok) (a : Apcb) (slack : Bytes) (hw : a.WF)
    (hb : (ser a ++ slack).length + 40 < 2 ^ 32) :
    (¬ succeeds t a slack → upsert t (ser a ++ slack) = (ser a ++ slack, .err)) ∧
    (succeeds t a slack → (upsert t (ser a ++ slack)).2 = .ok) := by
  rw [upsert_refines t a slack hw hb]
  exact ⟨fun h => specUpsert_err t a slack h, fun h => by rw [specUpsert_ok t a slack h]⟩

/-- the number of bytes added is 0, 8, 24 or 40 according to the way taken -/
theorem c18_added_bytes (t : Tok) (a : Apcb) :
    (holds t a = true ∧ (absUpsert t a).2 = 0) ∨
    (holds t a = false ∧ (target t a).isSome ∧ (absUpsert t a).2 = 8) ∨
    (holds t a = false ∧ target t a = none ∧ (∃ g ∈ a.groups, ¬ g.isForeign) ∧ (absUpsert t a).2 = 24) ∨
    (holds t a = false ∧ target t a = none ∧ (∀ g ∈ a.groups, g.isForeign) ∧ (absUpsert t a).2 = 40) := by
  cases absUpsert_cases t a with
  | update hh hr => exact Or.inl ⟨hh, by rw [hr]⟩
  | pair hh gpre gpost sig ver res extra tpre tpost e hg he htp hgp htarget hr =>
    exact Or.inr (Or.inl ⟨hh, by rw [htarget]; rfl, by rw [hr]⟩)
  | type hh gpre gpost sig ver res extra types hg hpre htm hpost htarget hr =>
    exact Or.inr (Or.inr (Or.inl ⟨hh, htarget,
      ⟨Group.tokens sig ver res extra types, by rw [hg]; simp, fun h => h⟩, by rw [hr]⟩))
  | group hh hf htarget hr => exact Or.inr (Or.inr (Or.inr ⟨hh, htarget, hf, by rw [hr]⟩))

/-! ## C18.5 sorted types stay sorted -/

/-- **Sorted insert.**  If every type is sorted by token id (as the format asks), it still is
    after the upsert: the pair goes after the last id ≤ the new one. -/
theorem c18_sorted_kept (t : Tok) (a : Apcb) (hs : a.sorted) : (absUpsert t a).1.sorted := by
  cases absUpsert_cases t a with
  | update hh hr =>
    rw [hr]
    intro g hg
    simp only [Apcb.withGroups, List.mem_map] at hg
    obtain ⟨g', hg', rfl⟩ := hg
    have := hs g' hg'
    cases g' with
    | tokens sig ver res extra types =>
      intro e he
      simp only [List.mem_map] at he
      obtain ⟨e', he', rfl⟩ := he
      unfold TypeE.upd
      split
      · exact updPairs_sorted _ _ _ (this e' he')
      · exact this e' he'
    | foreign => trivial
  | pair hh gpre gpost sig ver res extra tpre tpost e hg he htp hgp htarget hr =>
    rw [hr]
    intro g hgm
    simp only [Apcb.withGroups, List.mem_append, List.mem_cons] at hgm
    have hold := hs (Group.tokens sig ver res extra (tpre ++ e :: tpost)) (by rw [hg]; simp)
    rcases hgm with hgm | rfl | hgm
    · exact hs g (by rw [hg]; simp [hgm])
    · intro x hx
      simp only [List.mem_append, List.mem_cons] at hx
      rcases hx with hx | rfl | hx
      · exact hold x (by simp [hx])
      · exact insPairs_sorted _ _ _ (hold e (by simp))
      · exact hold x (by simp [hx])
    · exact hs g (by rw [hg]; simp [hgm])
  | type hh gpre gpost sig ver res extra types hg hpre htm hpost htarget hr =>
    rw [hr]
    intro g hgm
    simp only [Apcb.withGroups, List.mem_append, List.mem_cons] at hgm
    have hold := hs (Group.tokens sig ver res extra types) (by rw [hg]; simp)
    rcases hgm with hgm | rfl | hgm
    · exact hs g (by rw [hg]; simp [hgm])
    · intro x hx
      simp only [List.mem_append, List.mem_singleton] at hx
      rcases hx with hx | rfl
      · exact hold x hx
      · simp [newType, SortedIds]
    · exact hs g (by rw [hg]; simp [hgm])
  | group hh hf htarget hr =>
    rw [hr]
    intro g hgm
    simp only [Apcb.withGroups, List.mem_append, List.mem_singleton] at hgm
    rcases hgm with hgm | rfl
    · exact hs g hgm
    · intro x hx
      simp only [List.mem_singleton] at hx
      subst hx
      simp [newType, SortedIds]

/-! ## C18.6 an update changes only the value bytes -/

/-- **Update changes only that value's bytes.**  Every byte at which the buffer after an update
    differs from the buffer before lies inside the 4-byte value field of a pair that carries the
    token id, in a type matching the request (absolute offsets, `valueByte`). -/
theorem c18_update_bytes (t : Tok) (a : Apcb) (slack : Bytes) (hw : a.WF)
    (hb : (ser a ++ slack).length + 40 < 2 ^ 32) (hh : holds t a = true) (i : Nat)
    (hd : (upsert t (ser a ++ slack)).1[i]? ≠ (ser a ++ slack)[i]?) : valueByte t a i := by
  rw [(c18_update_in_place t a slack hw hb hh).1] at hd
  exact update_diff t a slack hw i hd

/-! ## C18.7 hostile input: both entry points are total (the C20 side of this package) -/

/-- **No input makes UpsertToken or ParseAPCBBinaryTokens fault, and UpsertToken never changes
    the buffer's length** - for arbitrary bytes, no well-formedness assumed (buffers shorter than
    4 GiB − 40).  The two slice faults of the original code (SizeOfAPCB < 128, group
    SizeOfHeader > SizeOfGroup) are error returns in the repaired code the model follows. -/
theorem c18_total (t : Tok) (b : Bytes) (hb : b.length + 40 < 2 ^ 32) :
    (upsert t b).2 ≠ .panic ∧ (upsert t b).1.length = b.length ∧ (listing b).2 ≠ .panic :=
  ⟨(upsert_total t b hb).1, (upsert_total t b hb).2, listing_total b⟩

/-! ## non-vacuity: the hypotheses are met by a concrete blob that exercises every way -/

/-- header bytes of the blob in pkg/amd/apcb/testdata (0..8 and 12..128) -/
def samplePre : Bytes := [0x41, 0x50, 0x43, 0x42, 0x80, 0x00, 0x30, 0x00]
def samplePost : Bytes :=
  [0xef, 0x22, 0, 0, 0x0d, 0, 0, 0] ++ List.replicate 12 0 ++ [0x45, 0x43, 0x42, 0x32] ++
  [0, 0, 0x10, 0, 0x12, 0, 0, 1, 0x60, 0, 0, 0, 0, 0, 0xff, 0xff, 0x40, 0, 0, 0] ++ List.replicate 8 0 ++
  [0x58, 0, 0, 0] ++ List.replicate 56 0 ++ [0x42, 0x43, 0x42, 0x41]

def sampleType (tid prio : Nat) (pairs : List (Nat × Nat)) : TypeE :=
  { gid := 0x3000, tid := tid, inst := 0, ctxT := 2, ctxF := 1, unit := 8, prio := prio, keySize := 4,
    keyPos := 0, board := 0xffff, pairs := pairs }

/-- a foreign group, a token group with three types (extra header bytes), another token group -/
def sampleApcb : Apcb :=
  { pre := samplePre, post := samplePost
    groups := [ .foreign 0x20474644 0x1703 16 1 0 [1, 2, 3, 4],
                .tokens sigTokGroup 1 0 [0xAA, 0xBB, 0xCC, 0xDD]
                  [sampleType 4 0x04 [(0x10, 7), (0x3E7D5274, 2044)], sampleType 0 0x10 [],
                   sampleType 4 0x04 [(0x20, 1)]],
                .tokens sigTokGroup 1 0 [] [sampleType 1 0x20 [(5, 0xff)]] ] }

def sampleTokUpdate : Tok := { id := 0x3E7D5274, prio := 0xff, board := 0xffff, tid := 4, val := 0xffffffff }
def sampleTokPair : Tok := { id := 0x15, prio := 0x04, board := 1, tid := 4, val := 9 }
def sampleTokType : Tok := { id := 0x15, prio := 0x01, board := 1, tid := 2, val := 9 }

example : sampleApcb.WF := by
  refine ⟨rfl, rfl, by decide, ?_, ?_, ?_, ?_⟩
  rotate_left 3
  · simp [Apcb.size, sampleApcb, serGroups, serGroup, serTypes, TypeE.size, sampleType, hdrSize, gHdrSize,
      tHdrSize, pairSize]
  · simp [rd, slice, sampleApcb, samplePost, fromLE, sigV3]
  · simp [rd, slice, sampleApcb, samplePost, fromLE, sigEnd]
  intro g hg
  simp only [sampleApcb, List.mem_cons, List.not_mem_nil, or_false] at hg
  rcases hg with rfl | rfl | rfl
  · simp [Group.WF, gHdrSize, tokensGroupID]
  · refine ⟨by decide, by decide, by decide, by decide, ?_, by decide⟩
    intro e he
    simp only [List.mem_cons, List.not_mem_nil, or_false] at he
    rcases he with rfl | rfl | rfl <;>
      exact ⟨by decide, by decide, by decide, by decide, by decide, by decide, by decide, by decide, by decide,
        by decide, by decide, by decide⟩
  · refine ⟨by decide, by decide, by decide, by decide, ?_, by decide⟩
    intro e he
    simp only [List.mem_singleton] at he
    subst he
    exact ⟨by decide, by decide, by decide, by decide, by decide, by decide, by decide, by decide, by decide,
      by decide, by decide, by decide⟩

example : sampleTokUpdate.WF ∧ sampleTokPair.WF ∧ sampleTokType.WF := by
  refine ⟨⟨by decide, by decide, by decide, by decide, by decide⟩,
    ⟨by decide, by decide, by decide, by decide, by decide⟩,
    ⟨by decide, by decide, by decide, by decide, by decide⟩⟩

/-- the three requests take three different ways on the sample; the listing is defined; the
    sample is sorted; with 8 bytes of slack the pair fits and the type does not -/
example : holds sampleTokUpdate sampleApcb = true ∧
    (holds sampleTokPair sampleApcb = false ∧ (absUpsert sampleTokPair sampleApcb).2 = 8) ∧
    (holds sampleTokType sampleApcb = false ∧ (absUpsert sampleTokType sampleApcb).2 = 24) ∧
    (tokensOf sampleApcb).isSome = true ∧
    succeeds sampleTokPair sampleApcb (List.replicate 8 0) ∧
    ¬ succeeds sampleTokType sampleApcb (List.replicate 8 0) := by
  refine ⟨by decide, by decide, by decide, by decide, Or.inr ⟨by decide, by decide⟩, ?_⟩
  intro h
  rcases h with h | ⟨_, h⟩
  · exact absurd h (by decide)
  · exact absurd h (by decide)

example : sampleApcb.sorted := by
  intro g hg
  simp only [sampleApcb, List.mem_cons, List.not_mem_nil, or_false] at hg
  rcases hg with rfl | rfl | rfl
  · trivial
  · intro e he
    simp only [List.mem_cons, List.not_mem_nil, or_false] at he
    rcases he with rfl | rfl | rfl <;> simp [SortedIds, sampleType]
  · intro e he
    simp only [List.mem_singleton] at he
    subst he
    simp [SortedIds, sampleType]

end Fiano.Apcb
