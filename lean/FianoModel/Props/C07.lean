/-
  Property C07 — extracting an image to a directory and reassembling from the directory
  reproduces the image; editing a human-editable field of summary.json changes exactly that field.

  Model: FianoModel/Uefi/Extract.lean (`extract`, `parseDir`, `dirSave`, `edit`) on top of the
  UEFI core model (`parse`, `asm*`).  All theorems are about every tree / every byte string, with
  no bound on size or nesting depth.

  Hypotheses (decidable predicates on the tree, each inhabited by `sampleTree` below):
    `pwTree t`   sibling nodes are told apart by what their directory is named after: sections by
                 FileOrder, volumes and BIOS paddings by offset, regions by name and base
                 (sibling *files* need nothing: the running index separates them);
    `okTree t`   GUIDs have 16 bytes, no NVAR store (the round-trip theorems are stated for trees without
                 store; path uniqueness and the store-level round trip cover stores, see the follow-up
                 sections below), a section with children is rebuilt from them, a volume with files has
                 `DataOffset ≤ len(buf) ≤ Length`;
    `TopPol p t` every top-level volume has erase polarity `p` (and a flash image has a BIOS region) —
                 what a successful `uefi.Parse` leaves in `Attributes.ErasePolarity`.
  A tree produced by `uefi.Parse` has all three (FianoModel/Uefi/ExtractParse.lean): section "parsed
  images" below states the theorems directly for every accepted byte string.
  Follow-up wp-c07b: `savedOkAll h t st` (decidable, on the tree the first `Assemble` pass wrote; proved
  for C01's grammar) is the side condition of the fixed-point theorem that turns "two passes" into
  "the direct save"; NVAR stores; per-field end-to-end edit theorems.
-/
import FianoModel.Uefi.ExtractPaths
import FianoModel.Uefi.ExtractLoad
import FianoModel.Uefi.ExtractAsm
import FianoModel.Uefi.ExtractEdit
import FianoModel.Uefi.ExtractParse
import FianoModel.Uefi.ExtractTwiceFlash
import FianoModel.Uefi.ExtractTwiceGram
import FianoModel.Uefi.ExtractTwiceSample
import FianoModel.Uefi.ExtractNvarPaths
import FianoModel.Uefi.ExtractNvarLoad
import FianoModel.Uefi.ExtractNvarNested
import FianoModel.Uefi.ExtractNvarSample
import FianoModel.Uefi.ExtractNvTree
import FianoModel.Uefi.ExtractNvParse
import FianoModel.Uefi.ExtractNvTreeSample
import FianoModel.Uefi.ExtractMeLemmas
import FianoModel.Uefi.ExtractTwiceParsed
import FianoModel.Uefi.ExtractTwiceParsedAttrs
import FianoModel.Uefi.Lemmas.Final
import FianoModel.Uefi.Spec
import FianoModel.Uefi.Tie
import FianoModel.Uefi.ExtractTie
import FianoModel.Uefi.CodeTie   -- T1 code-as-code tie (wp-t1x): audited as a tie module of this check
import FianoModel.Uefi.CodeTieGuid   -- T1 code-as-code tie (wp-t1x): audited as a tie module of this check

namespace Fiano.Uefi.C07
open Fiano Fiano.Uefi

/-- **unique extract paths**: no two nodes of a tree are written to the same file — whatever the
    GUIDs of the files are (duplicates inside a volume, across volumes, across nesting levels). -/
theorem extract_paths_nodup_of_wf (t : Tree) (hw : pwTree t = true) :
    ((extractDir t).map Prod.fst).Nodup :=
  extractDir_nodup t hw

/-- consequently every extracted buffer can be read back from the directory -/
theorem extract_readable (t : Tree) (hw : pwTree t = true) :
    ∀ e ∈ extractEntries t, (extractDir t).read (joinPath e.1) = some e.2 :=
  readable_extractDir t (extractDir_nodup t hw)

/-- **the directory is a complete description**: loading what `extract` wrote gives the tree with
    its leaf buffers (and volume headers) back, every other buffer `nil`, the `json:"-"` fields zero
    and `File.Header.Size` whatever `ThreeUint8.UnmarshalJSON` makes of the JSON text (`junk`). -/
theorem parseDir_extract (junk : FileInfo → Nat) (t : Tree) (hw : pwTree t = true) :
    parseDir (extractDir t) junk (summaryOf t) = .ok (strip junk t) :=
  parseDir_ex _ junk t (readable_extractDir t (extractDir_nodup t hw))

/-- `Extract` itself does not fault -/
theorem extract_ok (t : Tree) (hok : okTree t = true) : extract t = .ok (extractDir t, summaryOf t) := by
  simp [extract, exFault_ok t hok]

/-- **C07a** `utk IMAGE extract DIR; utk DIR save OUT` (a fresh process: ParseDir, Assemble, then
    Save which assembles again) writes exactly what two `Assemble` passes over the parsed tree give
    in the process that parsed it (state `st`) — including the case that both fail, and for every
    value `junk` of the fields that come back as garbage. -/
theorem extract_dirsave_eq_assemble_twice (h : Hooks) (junk : FileInfo → Nat) (t : Tree) (st : St)
    (hok : okTree t = true) (hw : pwTree t = true) (hp : st.pol = 0xF0 ∨ TopPol st.pol t = true) :
    extractSave h junk t = asmTwice h t st := by
  unfold extractSave
  rw [extract_ok t hok]
  simp only [dirSave, parseDir_extract junk t hw]
  rw [asmTwice_sim h (strip junk t) t {} (strip_sim junk t hok)]
  exact asmTwice_fresh h t st hp

/-- the single-pass form (DESIGN §7: `asm (parseDir (extract t) junk) = asm t`): one `Assemble` pass over
    the loaded tree in a fresh process = one pass over the parsed tree, i.e. the direct save -/
theorem load_assemble_eq_direct_save (h : Hooks) (junk : FileInfo → Nat) (t : Tree) (st : St)
    (hok : okTree t = true) (hw : pwTree t = true) (hp : st.pol = 0xF0 ∨ TopPol st.pol t = true) :
    (match parseDir (extractDir t) junk (summaryOf t) with
      | .ok t' => asmWith h t' {}
      | .error e => .error e) = asmWith h t st := by
  simp only [parseDir_extract junk t hw]
  rw [asmWith_sim h (strip junk t) t {} (strip_sim junk t hok)]
  exact asmWith_fresh h t st hp

/-- the garbage in `File.Header.Size` is immaterial: any two values give the same image -/
theorem junk_irrelevant (h : Hooks) (j1 j2 : FileInfo → Nat) (t : Tree)
    (hok : okTree t = true) (hw : pwTree t = true) :
    extractSave h j1 t = extractSave h j2 t := by
  rw [extract_dirsave_eq_assemble_twice h j1 t {} hok hw (Or.inl rfl),
    extract_dirsave_eq_assemble_twice h j2 t {} hok hw (Or.inl rfl)]

/-! ### C07b — editing a human-editable field of summary.json

  `Edit` holds one function per editable field (file GUID, UI name, build number / version string,
  dependency opcodes); `edit e` applies it to every node of the right type and touches nothing else
  (`edit_touches_*` below).  A single-field, single-node edit is an `e` whose function changes one
  value only (`Edit.setName old new`, …). -/

/-- what `edit` changes in a section: the name of a UI section, the build number and string of a
    version section, the opcodes of a dependency section — nothing else, and no other section -/
theorem edit_touches_section (e : Edit) (i : SecInfo) :
    e.sec i =
      if i.type = 0x15 then { i with name := e.name i.name }
      else if i.type = 0x14 then { i with build := (e.ver (i.build, i.version)).1, version := (e.ver (i.build, i.version)).2 }
      else if isDepexType i.type then { i with depex := e.depex i.depex }
      else i := rfl

/-- what `edit` changes in a file: its GUID -/
theorem edit_touches_file (e : Edit) (i : FileInfo) : e.file i = { i with guid := e.guid i.guid } := rfl

/-- **C07b** extracting, editing summary.json with `e`, and reassembling from the directory writes
    exactly what two `Assemble` passes give on the parsed tree with the same fields replaced in
    memory (`edit e t`) — whatever the edit is (any of the four fields, any number of nodes), as long
    as GUIDs stay 16 bytes long; including the case that both fail (e.g. the volume has no room for
    a longer name). -/
theorem extract_edit_dirsave_eq (h : Hooks) (junk : FileInfo → Nat) (e : Edit) (t : Tree) (st : St)
    (hok : okTree t = true) (hw : pwTree t = true) (hp : st.pol = 0xF0 ∨ TopPol st.pol t = true)
    (he : e.Guid16) :
    extractEditSave h junk e t = asmTwice h (edit e t) st := by
  unfold extractEditSave
  rw [extract_ok t hok]
  simp only [dirSave, parseDir_edit, parseDir_extract (e.junk junk) t hw, mapOk_ok]
  rw [← strip_edit junk e t]
  rw [asmTwice_sim h (strip junk (edit e t)) (edit e t) {} (strip_sim junk (edit e t) (okTree_edit e he t hok))]
  exact asmTwice_fresh h (edit e t) st (by rw [TopPol_edit]; exact hp)

/-- the four single-field edits: every node holding `old` gets `new` -/
def Edit.setGuid (old new : Guid) : Edit := { guid := fun g => if g = old then new else g }
def Edit.setName (old new : List Nat) : Edit := { name := fun n => if n = old then new else n }
def Edit.setVersion (old new : Nat × List Nat) : Edit := { ver := fun v => if v = old then new else v }
def Edit.setDepex (old new : List DepOp) : Edit := { depex := fun d => if d = old then new else d }

theorem Edit.setGuid_guid16 (old new : Guid) (hn : new.length = 16) : (Edit.setGuid old new).Guid16 := by
  intro g hg
  simp only [Edit.setGuid]
  split <;> assumption

theorem Edit.noGuid_guid16 (e : Edit) (h : e.guid = id) : e.Guid16 := by
  intro g hg; rw [h]; exact hg

/-- C07b for the GUID of a file (only files rebuilt from their sections show it: `Assemble` does
    not read the header struct of a leaf file) -/
theorem edit_file_guid (h : Hooks) (junk : FileInfo → Nat) (old new : Guid) (t : Tree) (st : St)
    (hok : okTree t = true) (hw : pwTree t = true) (hp : st.pol = 0xF0 ∨ TopPol st.pol t = true)
    (hn : new.length = 16) :
    extractEditSave h junk (Edit.setGuid old new) t = asmTwice h (edit (Edit.setGuid old new) t) st :=
  extract_edit_dirsave_eq h junk _ t st hok hw hp (Edit.setGuid_guid16 old new hn)

/-- C07b for a UI name -/
theorem edit_ui_name (h : Hooks) (junk : FileInfo → Nat) (old new : List Nat) (t : Tree) (st : St)
    (hok : okTree t = true) (hw : pwTree t = true) (hp : st.pol = 0xF0 ∨ TopPol st.pol t = true) :
    extractEditSave h junk (Edit.setName old new) t = asmTwice h (edit (Edit.setName old new) t) st :=
  extract_edit_dirsave_eq h junk _ t st hok hw hp (Edit.noGuid_guid16 _ rfl)

/-- C07b for a version string / build number -/
theorem edit_version (h : Hooks) (junk : FileInfo → Nat) (old new : Nat × List Nat) (t : Tree) (st : St)
    (hok : okTree t = true) (hw : pwTree t = true) (hp : st.pol = 0xF0 ∨ TopPol st.pol t = true) :
    extractEditSave h junk (Edit.setVersion old new) t = asmTwice h (edit (Edit.setVersion old new) t) st :=
  extract_edit_dirsave_eq h junk _ t st hok hw hp (Edit.noGuid_guid16 _ rfl)

/-- C07b for a dependency expression -/
theorem edit_depex (h : Hooks) (junk : FileInfo → Nat) (old new : List DepOp) (t : Tree) (st : St)
    (hok : okTree t = true) (hw : pwTree t = true) (hp : st.pol = 0xF0 ∨ TopPol st.pol t = true) :
    extractEditSave h junk (Edit.setDepex old new) t = asmTwice h (edit (Edit.setDepex old new) t) st :=
  extract_edit_dirsave_eq h junk _ t st hok hw hp (Edit.noGuid_guid16 _ rfl)


/-! ### parsed images

  `parseWith h (defaultFuel bs) bs {}` is `uefi.Parse(bs)` in a fresh process; it returns the tree and
  the process state (erase polarity) the following `save` runs in.  `h` are the hooks of the UEFI core
  model (decompressors, NVAR parser); the NVAR store is not modelled here, so `h` must not parse one
  (`Hooks.none` does not). -/

/-- **extract_paths_nodup**: for every byte string `uefi.Parse` accepts (flash image or bare BIOS
    region, any decompressors, any NVAR hook), whatever was parsed — duplicate GUIDs inside a volume,
    across volumes, across nesting levels, several volumes, nested volumes, gap regions, and (follow-up
    wp-c07b) **NVAR stores**: every entry of the store of a RAW file, at any nesting depth, whatever the
    variable names are — no two nodes are extracted to the same path.  (For a file that carries a store
    `exFile` writes the NVar arm's files for the store C10's `NewNVarStore` model reads from the file's
    own bytes under the volume's erase polarity; that its entries have distinct offsets is proved from
    the parser, `parsed_offsDistinct`.) -/
theorem extract_paths_nodup (h : Hooks) (bs : Bytes) (t : Tree) (hp : parse h bs = .ok t) :
    ((extractDir t).map Prod.fst).Nodup :=
  extractDir_nodup _ (parse_pw h bs t hp)

/-- **C07a for every parsed image**: extract, then reassemble from the directory in a fresh process
    = two `Assemble` passes in the process that parsed the image; for all bytes, all `junk`, errors
    included. -/
theorem roundtrip_parsed (h : Hooks) (hnv : ∀ x, h.nvarParse x = none) (junk : FileInfo → Nat)
    (bs : Bytes) (t : Tree) (st : St) (hp : parseWith h (defaultFuel bs) bs {} = .ok (t, st)) :
    extractSave h junk t = asmTwice h t st :=
  have hp' := parse_of_parseWith h bs _ st hp
  extract_dirsave_eq_assemble_twice h junk _ st (parse_okTree h hnv bs _ hp') (parse_pw h bs t hp')
    (parse_topPol h bs _ st hp)

/-- **C07b for every parsed image** and every edit that keeps GUIDs 16 bytes long -/
theorem edit_parsed (h : Hooks) (hnv : ∀ x, h.nvarParse x = none) (junk : FileInfo → Nat) (e : Edit)
    (bs : Bytes) (t : Tree) (st : St) (hp : parseWith h (defaultFuel bs) bs {} = .ok (t, st))
    (he : e.Guid16) :
    extractEditSave h junk e t = asmTwice h (edit e t) st :=
  have hp' := parse_of_parseWith h bs _ st hp
  extract_edit_dirsave_eq h junk e _ st (parse_okTree h hnv bs _ hp') (parse_pw h bs t hp')
    (parse_topPol h bs _ st hp) he

/-- the hooks of the UEFI core model parse no NVAR store -/
example : ∀ x, Hooks.none.nvarParse x = none := fun _ => rfl

/-! ### follow-up wp-c07b (1): saving is a fixed point in memory — no hypothesis `asmTwice = asmWith`

  `savedOkAll h t st` (Uefi/ExtractTwiceFlash.lean, `fxFv` in Uefi/ExtractTwiceMain.lean) is a decidable
  side condition on the tree the first `Assemble` pass leaves behind: every volume with files, at any
  depth, has a buffer no longer than its `Length` field (false only when `uefi.Align` wraps around 2^64
  while a nested volume grows — buffers of 2^63 bytes, which no Go slice holds), `DataOffset ≥ 60` (the
  header patches lie in the header part of the buffer), attribute bytes below 256 and re-laid files ending
  below 2^62 (the range in which the file loop's 64-bit arithmetic is its closed form); in a flash image
  no region has an empty span (Base ≤ Limit: the tiling check then orders the regions strictly, so the
  second sort changes nothing).  It is vacuously true when the first pass fails.  No law about the codecs
  is needed: the second pass re-encodes the same children; nothing is decoded. -/

/-- **save is a fixed point in memory** (any tree — flash image or bare BIOS region —, any hooks, any
    nesting depth, compressed sections included): assembling the tree `Assemble` has just written gives
    the same root buffer; when the first pass fails both sides are that error -/
theorem save_fixed_point_in_memory (h : Hooks) (t : Tree) (st : St) (hok : okTree t = true)
    (hs : savedOkAll h t st = true) : asmTwice h t st = asmWith h t st :=
  asmTwice_eq_asmWith h t st hok hs

/-- **C07a as stated**: extract + reassemble from the directory in a fresh process writes exactly what
    the direct `utk IMAGE save OUT` writes (errors included) -/
theorem extract_dirsave_eq_direct_save (h : Hooks) (junk : FileInfo → Nat) (t : Tree) (st : St)
    (hok : okTree t = true) (hw : pwTree t = true) (hp : st.pol = 0xF0 ∨ TopPol st.pol t = true)
    (hs : savedOkAll h t st = true) :
    extractSave h junk t = asmWith h t st := by
  rw [extract_dirsave_eq_assemble_twice h junk t st hok hw hp, asmTwice_eq_asmWith h t st hok hs]

/-- … for every byte string `uefi.Parse` accepts (flash image or bare BIOS region): the directory round
    trip writes what `utk IMAGE save` (`save h bs`: parse, then one `Assemble` pass) writes -/
theorem roundtrip_parsed_eq_direct_save (h : Hooks) (hnv : ∀ x, h.nvarParse x = none) (junk : FileInfo → Nat)
    (bs : Bytes) (t : Tree) (st : St) (hp : parseWith h (defaultFuel bs) bs {} = .ok (t, st))
    (hs : savedOkAll h t st = true) :
    extractSave h junk t = asmWith h t st ∧ extractSave h junk t = save h bs := by
  have hp' := parse_of_parseWith h bs _ st hp
  have e := extract_dirsave_eq_direct_save h junk t st (parse_okTree h hnv bs _ hp') (parse_pw h bs _ hp')
    (parse_topPol h bs _ st hp) hs
  refine ⟨e, ?_⟩
  rw [e]
  unfold save
  rw [hp]

/-- **the side condition is derived for C01's grammar**: for every well-formed image of the reference
    grammar (flash image with descriptor and any region layout, bare BIOS region; any volume count,
    nesting depth, file and section kinds of C01 — no compressed sections) `savedOkAll` holds of what the
    first pass writes.  (A structural induction over the grammar that applies C01's `asm_files` / `asm_fv`
    at every nested volume: every file already sits where the placement rule puts it, so the closed-form
    end of the re-laid files is the grammar's `endFiles`, nothing grows, everything is below 2^62.) -/
theorem saved_ok_grammar (i : Spec.Img) (hwf : Spec.WF i) (st : St) (hp : st.pol = 0xFF) :
    savedOkAll Hooks.none (Spec.tree i) st = true :=
  savedOkAll_gram i hwf st hp

/-- **save is a fixed point in memory, C01 grammar, unconditionally**: two `Assemble` passes over the
    parsed tree of a well-formed image write the image — as one pass does (C01 `asm_tree`) -/
theorem save_fixed_point_grammar (i : Spec.Img) (hwf : Spec.WF i) (st : St) (hp : st.pol = 0xFF) :
    asmTwice Hooks.none (Spec.tree i) st = .ok (Spec.ser i) := by
  obtain ⟨st0, hpw, _⟩ := parseWith_ser i hwf
  have hok := parse_okTree Hooks.none (fun _ => rfl) (Spec.ser i) _ (parse_of_parseWith _ _ _ _ hpw)
  rw [asmTwice_eq_asmWith Hooks.none _ st hok (savedOkAll_gram i hwf st hp)]
  exact asm_tree_all i hwf st hp

/-- **C07a for the C01 grammar, unconditionally**: for every well-formed image of the reference grammar,
    extract followed by reassembly from the directory (fresh process, two `Assemble` passes) reproduces
    the image byte for byte -/
theorem roundtrip_grammar (i : Spec.Img) (hwf : Spec.WF i) (junk : FileInfo → Nat) :
    extractSave Hooks.none junk (Spec.tree i) = .ok (Spec.ser i) := by
  obtain ⟨st0, hpw, hp0⟩ := parseWith_ser i hwf
  have := (roundtrip_parsed_eq_direct_save Hooks.none (fun _ => rfl) junk _ _ st0 hpw
    (savedOkAll_gram i hwf st0 hp0)).1
  rw [this]
  exact asm_tree_all i hwf st0 hp0

/-! ### follow-up wp-c07b (3): single-field edits, end to end

  With the fixed point, C07b reads as the property states it: the reassembled image is the *direct
  save* (one `Assemble` pass) of the tree with the field replaced in memory. -/

/-- **C07b, end to end**, for any edit that keeps GUIDs 16 bytes long -/
theorem extract_edit_dirsave_eq_direct (h : Hooks) (junk : FileInfo → Nat) (e : Edit) (t : Tree) (st : St)
    (hok : okTree t = true) (hw : pwTree t = true)
    (hp : st.pol = 0xF0 ∨ TopPol st.pol t = true) (he : e.Guid16)
    (hs : savedOkAll h (edit e t) st = true) :
    extractEditSave h junk e t = asmWith h (edit e t) st := by
  rw [extract_edit_dirsave_eq h junk e _ st hok hw hp he]
  exact asmTwice_eq_asmWith h _ st (okTree_edit e he _ hok) hs

/-- **C07b end to end for every parsed image** -/
theorem edit_parsed_direct (h : Hooks) (hnv : ∀ x, h.nvarParse x = none) (junk : FileInfo → Nat) (e : Edit)
    (bs : Bytes) (t : Tree) (st : St) (hp : parseWith h (defaultFuel bs) bs {} = .ok (t, st))
    (he : e.Guid16) (hs : savedOkAll h (edit e t) st = true) :
    extractEditSave h junk e t = asmWith h (edit e t) st :=
  have hp' := parse_of_parseWith h bs _ st hp
  extract_edit_dirsave_eq_direct h junk e _ st (parse_okTree h hnv bs _ hp') (parse_pw h bs t hp')
    (parse_topPol h bs _ st hp) he hs

/-- what each single-field edit touches: exactly the nodes that hold `old` in that field -/
theorem setGuid_touches (old new : Guid) (i : FileInfo) (s : SecInfo) :
    (Edit.setGuid old new).file i = (if i.guid = old then { i with guid := new } else i) ∧
      (Edit.setGuid old new).sec s = s := by
  constructor
  · simp only [Edit.file, Edit.setGuid]; split <;> rfl
  · simp only [Edit.sec, Edit.setGuid, id]; repeat' split
    all_goals rfl

theorem setName_touches (old new : List Nat) (i : FileInfo) (s : SecInfo) :
    (Edit.setName old new).file i = i ∧
      (Edit.setName old new).sec s = (if s.type = 0x15 ∧ s.name = old then { s with name := new } else s) := by
  obtain ⟨sz, ty, ex, fo, ts, nm, bd, vs, dx⟩ := s
  refine ⟨rfl, ?_⟩
  simp only [Edit.sec, Edit.setName, id]
  repeat' split
  all_goals simp_all

theorem setVersion_touches (old new : Nat × List Nat) (i : FileInfo) (s : SecInfo) :
    (Edit.setVersion old new).file i = i ∧
      (Edit.setVersion old new).sec s =
        (if s.type = 0x14 ∧ (s.build, s.version) = old then { s with build := new.1, version := new.2 } else s) := by
  obtain ⟨sz, ty, ex, fo, ts, nm, bd, vs, dx⟩ := s
  refine ⟨rfl, ?_⟩
  simp only [Edit.sec, Edit.setVersion, id]
  repeat' split
  all_goals simp_all

/-- a dependency expression is editable in all three section types: DXE (0x13), PEI (0x1B), MM (0x1C) -/
theorem setDepex_touches (old new : List DepOp) (i : FileInfo) (s : SecInfo) :
    (Edit.setDepex old new).file i = i ∧
      (Edit.setDepex old new).sec s =
        (if (s.type = 0x13 ∨ s.type = 0x1b ∨ s.type = 0x1c) ∧ s.depex = old then { s with depex := new } else s) := by
  obtain ⟨sz, ty, ex, fo, ts, nm, bd, vs, dx⟩ := s
  refine ⟨rfl, ?_⟩
  simp only [Edit.sec, Edit.setDepex, id, isDepexType]
  by_cases h0 : ty = 21
  · simp [h0]
  by_cases h1 : ty = 20
  · simp [h1]
  by_cases h2 : (ty = 19 ∨ ty = 27) ∨ ty = 28
  · have h2' : ty = 19 ∨ ty = 27 ∨ ty = 28 := by omega
    by_cases h3 : dx = old <;> simp [h0, h1, h2, h2', h3]
  · have h2' : ¬ (ty = 19 ∨ ty = 27 ∨ ty = 28) := by omega
    simp [h0, h1, h2, h2']

/-- C07b end to end, the GUID of a file rebuilt from its sections -/
theorem edit_file_guid_direct (h : Hooks) (junk : FileInfo → Nat) (old new : Guid) (t : Tree) (st : St)
    (hok : okTree t = true) (hw : pwTree t = true) (hp : st.pol = 0xF0 ∨ TopPol st.pol t = true)
    (hn : new.length = 16) (hs : savedOkAll h (edit (Edit.setGuid old new) t) st = true) :
    extractEditSave h junk (Edit.setGuid old new) t = asmWith h (edit (Edit.setGuid old new) t) st :=
  extract_edit_dirsave_eq_direct h junk _ t st hok hw hp (Edit.setGuid_guid16 old new hn) hs

/-- C07b end to end, a UI name -/
theorem edit_ui_name_direct (h : Hooks) (junk : FileInfo → Nat) (old new : List Nat) (t : Tree) (st : St)
    (hok : okTree t = true) (hw : pwTree t = true) (hp : st.pol = 0xF0 ∨ TopPol st.pol t = true)
    (hs : savedOkAll h (edit (Edit.setName old new) t) st = true) :
    extractEditSave h junk (Edit.setName old new) t = asmWith h (edit (Edit.setName old new) t) st :=
  extract_edit_dirsave_eq_direct h junk _ t st hok hw hp (Edit.noGuid_guid16 _ rfl) hs

/-- C07b end to end, a version string / build number -/
theorem edit_version_direct (h : Hooks) (junk : FileInfo → Nat) (old new : Nat × List Nat) (t : Tree) (st : St)
    (hok : okTree t = true) (hw : pwTree t = true) (hp : st.pol = 0xF0 ∨ TopPol st.pol t = true)
    (hs : savedOkAll h (edit (Edit.setVersion old new) t) st = true) :
    extractEditSave h junk (Edit.setVersion old new) t = asmWith h (edit (Edit.setVersion old new) t) st :=
  extract_edit_dirsave_eq_direct h junk _ t st hok hw hp (Edit.noGuid_guid16 _ rfl) hs

/-- C07b end to end, a dependency expression (DXE, PEI and MM depex sections alike) -/
theorem edit_depex_direct (h : Hooks) (junk : FileInfo → Nat) (old new : List DepOp) (t : Tree) (st : St)
    (hok : okTree t = true) (hw : pwTree t = true) (hp : st.pol = 0xF0 ∨ TopPol st.pol t = true)
    (hs : savedOkAll h (edit (Edit.setDepex old new) t) st = true) :
    extractEditSave h junk (Edit.setDepex old new) t = asmWith h (edit (Edit.setDepex old new) t) st :=
  extract_edit_dirsave_eq_direct h junk _ t st hok hw hp (Edit.noGuid_guid16 _ rfl) hs

/-- the edited field reaches the image: an MM depex section (type 0x1C) is regenerated from its
    decoded opcodes like a DXE or PEI one (seeded defect c07-2 removed exactly this) -/
theorem mm_depex_regenerated (i : SecInfo) (ht : i.type = 0x1c) :
    regenLeaf i = (match encodeDepEx i.depex with | some b => .ok (some b) | none => .error .err) := by
  unfold regenLeaf
  rw [if_neg (by rw [ht]; decide), if_neg (by rw [ht]; decide), if_pos (by rw [ht]; decide)]
  rfl

/-! ### follow-up wp-c07b (2): NVAR stores (model: Uefi/ExtractNvar.lean on C10's store model) -/

/-- **`extract_paths_nodup` for NVAR stores**: the paths written for the store of a RAW file — at
    every nesting depth, whatever the variable names are (equal names, names equal in their first 64
    bytes, `/`, `..`, links, invalid entries) — are pairwise distinct, given that the entries of a store
    have pairwise distinct offsets -/
theorem extract_paths_nodup_nvar (d pol : Nat) (dir : List Comp) (hdir : ∀ c ∈ dir, SlashFree c) (i : FileInfo)
    (idx : Nat) (s : Nvram.Store) (ho : OffsDistinct d pol s.entries) :
    (((nvFileEntries d pol dir i idx s).map flat).map Prod.fst).Nodup :=
  nvFileEntries_nodup d pol dir hdir i idx s ho

/-- what `Extract` writes for a RAW file that carries a store: the files of the NVar arm for the store
    read from the file's own bytes, below `DIR/…/<file GUID>/<index>` -/
theorem extract_nvar_file (pol : Nat) (dir : List Comp) (idx : Nat) (i : FileInfo) (buf : Bytes) (secs : List Section)
    (nv : NvStore) (hn : i.nvar = some nv) :
    exFile pol dir idx (.mk i buf secs) =
      (match Nvram.parseStore pol (buf.drop i.dataOffset) with
       | .ok s => nvFileEntries (Nvram.depthFuel s) pol dir i idx s
       | .error _ => []) := by
  simp only [exFile, hn, nvOfFile, nvFileEntries]
  cases Nvram.parseStore pol (buf.drop i.dataOffset) <;> rfl

/-- every one of them lies strictly below the directory of the file (`DIR/…/GUID/index`): nothing is
    written outside it -/
theorem nvar_paths_below_file_dir (d pol : Nat) (dir : List Comp) (i : FileInfo) (idx : Nat) (s : Nvram.Store) :
    ∀ e ∈ nvFileEntries d pol dir i idx s, Ext (fileDir dir i idx) e.1 :=
  nvEntries_below d pol (fileDir dir i idx) s.entries

/-- **directory round trip of a store** (no nested store, names valid UTF-8): `Assemble` on what
    `ParseDir` rebuilds is `Assemble` on the parsed store -/
theorem nvar_dir_roundtrip (pol : Nat) (rec : Nvram.Store → Except Nvram.Err Nvram.Store) (s : Nvram.Store)
    (hn : ∀ v ∈ s.entries, validUtf8 v.name = true) :
    Nvram.asmStoreWith pol rec { s with entries := nvLoadAll s.entries, buf := [] } = Nvram.asmStoreWith pol rec s :=
  asmStoreWith_load pol rec s hn

/-- **directory round trip of a store, nested stores included** (any depth): `Assemble` on the tree
    `ParseDir` loads — a valid entry whose value is a store has the buffer `make([]byte, DataOffset)` and
    takes its content from the assembled `NVarStore` child summary.json recorded for it — does exactly
    what C10's `asmStore` does on the parsed store, errors included, when every name at every level is
    valid UTF-8 -/
theorem nvar_dir_roundtrip_nested (pol d : Nat) (s : Nvram.Store) (hu : Utf8Deep d pol s.entries) :
    asmDirStore pol d s = Nvram.asmStore pol d s :=
  asmDirStore_eq pol d s hu

/-- non-vacuity of `Utf8Deep`: a store with an ASCII name and no nested store -/
example : Utf8Deep 2 0xFF [{ f1Var with name := [0x41] }] :=
  ⟨by decide, fun v hv ns hns => by
    simp only [List.mem_singleton] at hv
    subst hv
    have hnone : Nvram.nestedOf 0xFF { f1Var with name := [0x41] } = none := by decide
    rw [hnone] at hns
    cases hns⟩

/-- **F-C07-1** (known finding, kept as the explicit exception): a CHAR8 name that is not valid UTF-8
    comes back from summary.json as U+FFFD and the reloaded entry is refused -/
theorem nvar_nonutf8_name_not_reloadable :
    validUtf8 f1Var.name = false ∧ jsonName f1Var.name = [0xEF, 0xBF, 0xBD] ∧
      (Nvram.asmNVar 0xFF f1Var (Nvram.content f1Var) true).toOption.isSome = true ∧
      (Nvram.asmNVar 0xFF (nvLoad f1Var (Nvram.content f1Var)) (Nvram.content f1Var) true).toOption.isSome = false :=
  f_c07_1_witness

/-- non-vacuity of the NVAR part of `extract_paths_nodup`: a parsed image whose RAW file carries a
    store with two variables of one name; `Extract` writes `…/A-0x0.bin` and `…/A-0xe.bin` -/
theorem sample_nvar_holds : NvSample.bytes.length = 184 ∧ NvSample.holds = true := NvSample.sample_nvar_holds

/-- the hypothesis `OffsDistinct` holds of every store `NewNVarStore` returns -/
theorem nvar_parsed_offsets_distinct (pol d : Nat) (b : Bytes) (s : Nvram.Store) (hp : Nvram.parseStore pol b = .ok s) :
    OffsDistinct d pol s.entries := parsed_offsDistinct pol d b s hp

/-- non-vacuity: two entries of one name at different offsets -/
example : OffsDistinct 1 0xFF [f1Var, { f1Var with offset := 14 }] :=
  ⟨by decide, fun _ _ _ _ => trivial⟩
example : validUtf8 [0x41, 0xC3, 0xA9] = true := by decide


/-! ### follow-up wp-c07c (round 3): the tree-level round trip for trees WITH NVAR stores

  The hooks of the UEFI core model are instantiated with property C10's model (Uefi/ExtractNvTreeDefs.lean):
  `c10Hooks h0 pol` — `NewNVarStore` and `Assemble` on the store of a RAW file are C10's `parseStore` / `asmStore`
  (under the one erase polarity `pol` a process has); `c10DirHooks h0 pol` — in the process that loaded the
  directory the store hanging off the file is the one `ParseDir` rebuilt (entry records from summary.json with
  `jsonName`d names, `make([]byte, DataOffset) ++ value file`, nested stores as children) and `Assemble` on it is
  `asmDirStore`.  `okNvTree` is `okTree` with such files allowed; `nvUtf8Tree pol t` says that every variable
  name of every store of the tree, nested stores included, is valid UTF-8 — its failure is known finding F-C07-1
  (`nvar_nonutf8_name_not_reloadable` above), the explicit exception. -/

/-- **C07a, single pass, trees with NVAR stores** (DESIGN §7 `asm (parseDir (extract t)) = asm t`): extract,
    then in a fresh process ParseDir and `Assemble.Run` = one `Assemble` pass over the parsed tree in the process
    that parsed it, i.e. the direct save — for every tree (flash or BIOS, any depth, any number of stores, nested
    stores included), every value of the garbage fields, errors included -/
theorem load_assemble_eq_direct_save_nvar (h0 : Hooks) (pol : UInt8) (junk : FileInfo → Nat) (t : Tree) (st : St)
    (hok : okNvTree t = true) (hw : pwTree t = true) (hu : nvUtf8Tree pol t = true)
    (hp : st.pol = 0xF0 ∨ TopPol st.pol t = true) :
    extractLoadAsmNv h0 pol junk t = asmWith (c10Hooks h0 pol) t st :=
  extractLoadAsmNv_eq h0 pol junk t st hok hw hu hp

/-- … and `utk DIR save` (ParseDir, Assemble, then Save which assembles again) = the same two passes over the
    parsed tree, whatever the second pass does with the store objects the first pass left in memory (`h2`: after
    the first pass both processes hold the same assembled stores) -/
theorem extract_dirsave_eq_assemble_twice_nvar (h0 : Hooks) (pol : UInt8) (h2 : Hooks) (junk : FileInfo → Nat)
    (t : Tree) (st : St) (hok : okNvTree t = true) (hw : pwTree t = true) (hu : nvUtf8Tree pol t = true)
    (hp : st.pol = 0xF0 ∨ TopPol st.pol t = true) :
    extractSaveNv h0 pol h2 junk t = asmTwice2 (c10Hooks h0 pol) h2 t st :=
  extractSaveNv_eq h0 pol h2 junk t st hok hw hu hp

/-- every tree `uefi.Parse` builds — with any NVAR hook, C10's included — satisfies `okNvTree` -/
theorem parse_okNvTree (h : Hooks) (bs : Bytes) (t : Tree) (hp : parse h bs = .ok t) : okNvTree t = true :=
  nvp_parse_okTree h bs t hp

/-- **… for every byte string `uefi.Parse` accepts, NVAR stores parsed by C10's `NewNVarStore`**: if all variable
    names are valid UTF-8, the directory round trip (one `Assemble` pass) writes what `utk IMAGE save` writes;
    no other hypothesis -/
theorem roundtrip_parsed_nvar (h0 : Hooks) (pol : UInt8) (junk : FileInfo → Nat) (bs : Bytes) (t : Tree) (st : St)
    (hp : parseWith (c10Hooks h0 pol) (defaultFuel bs) bs {} = .ok (t, st)) (hu : nvUtf8Tree pol t = true) :
    extractLoadAsmNv h0 pol junk t = asmWith (c10Hooks h0 pol) t st ∧
      extractLoadAsmNv h0 pol junk t = save (c10Hooks h0 pol) bs := by
  have hp' := parse_of_parseWith _ bs _ st hp
  have e := extractLoadAsmNv_eq h0 pol junk t st (nvp_parse_okTree _ bs _ hp') (parse_pw _ bs _ hp')
    hu (parse_topPol _ bs _ st hp)
  refine ⟨e, ?_⟩
  rw [e]
  unfold save
  rw [hp]

/-- the two-pass form for parsed images -/
theorem roundtrip_parsed_twice_nvar (h0 : Hooks) (pol : UInt8) (h2 : Hooks) (junk : FileInfo → Nat) (bs : Bytes)
    (t : Tree) (st : St) (hp : parseWith (c10Hooks h0 pol) (defaultFuel bs) bs {} = .ok (t, st))
    (hu : nvUtf8Tree pol t = true) :
    extractSaveNv h0 pol h2 junk t = asmTwice2 (c10Hooks h0 pol) h2 t st := by
  have hp' := parse_of_parseWith _ bs _ st hp
  exact extractSaveNv_eq h0 pol h2 junk t st (nvp_parse_okTree _ bs _ hp') (parse_pw _ bs _ hp') hu
    (parse_topPol _ bs _ st hp)

/-- the store-level fact the composition rests on: on a store whose names are valid UTF-8 the two hooks agree
    (C07's `asmDirStore_eq` against C10's `asmStore`), under every polarity -/
theorem nvar_hooks_agree (pol : UInt8) (nv : NvStore) (p : UInt8) (hu : nvUtf8Slot pol nv = true) :
    nvtAsmDir pol nv p = nvtAsmC10 pol nv p := nvtAsmDir_eq pol nv p hu

/-- non-vacuity: a parsed 184-byte image with a store (two variables of one name) satisfies `okNvTree` (not
    `okTree`), `pwTree`, `nvUtf8Tree`, `TopPol`; the directory round trip (one and two passes) and the direct save
    all return the image -/
theorem sample_nvtree_holds : NvTreeSample.bytes.length = 184 ∧ NvTreeSample.holds = true :=
  NvTreeSample.sample_nvtree_holds


/-! ### follow-up wp-c07c (round 3): the ME flash partition table (`$FPT`)

  Model: Uefi/ExtractMe.lean (`meParseFpt` = `NewMEFPT`, `meNewRegion` = `NewMERegion`, `meNameMarshal` /
  `meNameUnmarshal` = `MEName.MarshalText` / `UnmarshalText`, `meSummary` / `meLoad` = summary.json and what ParseDir
  builds, `meRoundTrip` = extract, ParseDir, Assemble on the region).  `Extract` writes only the region buffer,
  `Assemble` has no arm for the region or its table: the table travels through summary.json alone. -/

/-- every 4-byte partition name — text, trailing zeros, erased `FF FF FF FF`, arbitrary bytes — comes back from
    summary.json as it was (`MarshalText`, encoding/json, `UnmarshalText`; defect 1 of reports/C07.md, repaired) -/
theorem me_name_roundtrip (n : Bytes) (hn : n.length = 4) :
    meNameUnmarshal (jsonName (meNameMarshal n)) = .ok n := meName_roundtrip n hn

/-- what `NewMEFPT` returns: as many entries as `PartitionCount`, a buffer of `PartitionMapStart + 32·PartitionCount`
    bytes that is a prefix of the region, `PartitionMapStart ≥ 32`, 4-byte names -/
theorem me_fpt_facts (b : Bytes) (p : MeFpt) (hp : meParseFpt b = .ok p) :
    p.entries.length = p.count ∧ p.buf.length = p.mapStart + 32 * p.count ∧ 32 ≤ p.mapStart ∧
      p.buf = b.take p.buf.length ∧ ∀ e ∈ p.entries, e.name.length = 4 := meParseFpt_facts b p hp

/-- the table `ParseDir` rebuilds from summary.json is the parsed table without its buffer, for every region
    `NewMEFPT` accepts (any number of entries, any names) -/
theorem me_fpt_dir_roundtrip (b : Bytes) (p : MeFpt) (hp : meParseFpt b = .ok p) :
    meLoad (meSummary p) = .ok { p with buf := [] } := meFpt_dir_roundtrip b p hp

/-- **directory round trip of an ME region**, for every region buffer (table found or not, below any DirPath):
    extract, ParseDir, Assemble never fail and return the region's bytes, the parsed table without its buffer and the
    FreeSpaceOffset `NewMERegion` computed -/
theorem me_region_dir_roundtrip (dir : List Comp) (buf : Bytes) :
    meRoundTrip dir buf =
      .ok { buf := buf, fpt := (meNewRegion buf).fpt.map (fun p => { p with buf := [] }),
            free := (meNewRegion buf).free } := meRegion_dir_roundtrip dir buf

/-- … so after the round trip summary.json and the bytes still agree: the table in memory is the one `NewMERegion`
    reads from the reassembled region -/
theorem me_region_consistent (dir : List Comp) (buf : Bytes) (r : MeRegionX) (h : meRoundTrip dir buf = .ok r) :
    r.buf = buf ∧ r.fpt = (meNewRegion r.buf).fpt.map (fun p => { p with buf := [] }) ∧
      r.free = (meNewRegion r.buf).free := meRegion_consistent dir buf r h

/-- non-vacuity: a region with the signature at 16, one entry named `AB\0\0` at offset 16, length 32 -/
def meSampleRegion : Bytes :=
  List.replicate 16 0 ++ meSig ++ [1, 0, 0, 0] ++ List.replicate 24 0 ++
    [0x41, 0x42, 0, 0, 0xFF, 0xFF, 0xFF, 0xFF, 16, 0, 0, 0, 32, 0, 0, 0] ++ List.replicate 16 7 ++ [9, 9]

example : (match meParseFpt meSampleRegion with
    | .ok p => p.count == 1 && p.mapStart == 48 && p.buf.length == 80 && (p.entries.map (·.name)) == [[0x41, 0x42, 0, 0]]
    | .error _ => false) = true ∧ (meNewRegion meSampleRegion).free = 48 := by decide
example : meNameMarshal [0x41, 0x42, 0, 0] = [0x41, 0x42] ∧
    meNameMarshal [0xFF, 0xFF, 0xFF, 0xFF] = asc "0xffffffff".toList := by decide

/-! ### the hypotheses are inhabited -/

open Spec in
def g (n : Nat) : Guid := (List.range 16).map (fun i => UInt8.ofNat (n + i))

open Spec in
def innerFv : FvI :=
  .ffs (List.replicate 16 0) false 0x0004FEFF 2 0 [⟨19, 8⟩] none
    [ .sect (g 1) 7 0 0xF8 [.ui [0x49, 0x6E], .leaf 0x19 false [9, 9]] ] 38

open Spec in
/-- a volume with three files of the *same* GUID: a RAW leaf file; a driver with a UI section, a
    version section, a dependency section and a raw section; and a volume-image file whose nested
    volume again holds a file of that GUID -/
def sampleFv : FvI :=
  .ffs (List.replicate 16 0) false 0x0004FEFF 2 0 [⟨51, 8⟩] none
    [ .leaf (g 1) 0 0xAA 1 0 0xF8 false [1, 2, 3, 4, 5, 6, 7, 8],
      .sect (g 1) 7 0x40 0xF8 [.ui [0x41, 0x42], .version 7 [0x31], .depex 0x13 [⟨2, some (g 3)⟩, ⟨8, none⟩],
                               .leaf 0x19 false [1, 2, 3, 4, 5]],
      .sect (g 1) 11 0 0xF8 [.fvimg innerFv] ] 36

open Spec in
/-- two such volumes with padding in between: 835 bytes -/
def sampleImg : Img := .bios ⟨[([], sampleFv), (List.replicate 16 0xFF, sampleFv)], [0xFF, 0xFF, 0xFF]⟩

def sampleBytes : Bytes := Spec.ser sampleImg

/-- the parsed sample has unique sibling keys, is extractable, and the parser leaves its polarity;
    extracting and reassembling it gives the image back -/
def sampleHolds : Bool :=
  match parseWith Hooks.none (defaultFuel sampleBytes) sampleBytes {} with
  | .ok (t, st) =>
    pwTree t && okTree t && TopPol st.pol t && savedOkAll Hooks.none t st && (extractDir t).length == 20 &&
      (match extractSave Hooks.none goJunk t with
       | .ok out => out == sampleBytes
       | .error _ => false)
  | .error _ => false

theorem sample_holds : Spec.wf sampleImg = true ∧ sampleHolds = true := by decide +kernel


/-! ### follow-up wp-c07c (round 3): the side condition `savedOkAll`, split

  `savedOkAll` speaks about the tree the first `Assemble` pass wrote.  Its part `DataOffset ≥ 60` is a predicate on
  the PARSED image, `d60Tree t` (Uefi/ExtractTwiceParsedDefs.lean): every volume with files, at any depth, has
  `DataOffset ≥ 60`, `DataOffset` being `align8 HeaderLen` — `align8 (ExtHeaderOffset + ExtHeaderSize)` for a volume
  with an extended header (`fv_dataOffset_of_header`).  `uefi.Parse` does not check `HeaderLen`: `dataoffset_56_parses`
  is a 128-byte volume that parses with `DataOffset = 56` (the block map is read as the first file's GUID).
  `restOkAll` is what remains of the side condition (sizes: buffer ≤ Length, re-laid files below 2^62 — fail only when
  `uefi.Align` wraps around 2^64; attribute bytes; region spans). -/

/-- one `Assemble` pass (any hooks, NVAR files included, errors aside) changes neither the `DataOffset` of a volume
    nor which volumes have files -/
theorem first_pass_keeps_dataoffset (h : Hooks) (t : Tree) (st : St) (t1 : Tree) (st1 : St)
    (ha : asmTreeWith h t st = .ok (t1, st1)) : d60Tree t1 = d60Tree t := d60_asmTree h t st t1 st1 ha

/-- **the side condition, split**: `savedOkAll` ⇔ its remaining parts on what the first pass wrote ∧ (when the
    first pass succeeds) `DataOffset ≥ 60` in every volume with files of the tree as parsed -/
theorem saved_ok_split (h : Hooks) (t : Tree) (st : St) :
    savedOkAll h t st = true ↔
      restOkAll h t st = true ∧
        ((asmTreeWith h t { st with ffs3 := false }).toOption.isSome = true → d60Tree t = true) :=
  savedOkAll_iff h t st

/-- what `DataOffset` is in terms of the header bytes `NewFirmwareVolume` read -/
theorem fv_dataOffset_of_header (data : Bytes) (blocks : List Block) (off : Nat) (rz : Bool) :
    (fvInfoOf data blocks off rz).dataOffset =
      align8 (if (fvInfoOf data blocks off rz).extHeaderOffset ≠ 0 ∧ (fvInfoOf data blocks off rz).length ≥ 20 ∧
                (fvInfoOf data blocks off rz).extHeaderOffset ≤ (fvInfoOf data blocks off rz).length - 20
              then (fvInfoOf data blocks off rz).extHeaderOffset + (fvInfoOf data blocks off rz).extHeaderSize
              else (fvInfoOf data blocks off rz).headerLen) := by
  unfold fvInfoOf
  simp only []
  by_cases hc : (rd data 52 2 ≠ 0 ∧ rd data 32 8 ≥ 20 ∧ rd data 52 2 ≤ rd data 32 8 - 20)
  · simp [hc]
  · simp [hc]

/-- `roundtrip_parsed_eq_direct_save` with the side condition in its split form: for every byte string `uefi.Parse`
    accepts whose volumes with files have `DataOffset ≥ 60` -/
theorem roundtrip_parsed_eq_direct_save_d60 (h : Hooks) (hnv : ∀ x, h.nvarParse x = none) (junk : FileInfo → Nat)
    (bs : Bytes) (t : Tree) (st : St) (hp : parseWith h (defaultFuel bs) bs {} = .ok (t, st))
    (hd : d60Tree t = true) (hr : restOkAll h t st = true) :
    extractSave h junk t = asmWith h t st ∧ extractSave h junk t = save h bs :=
  roundtrip_parsed_eq_direct_save h hnv junk bs t st hp (savedOkAll_of_parts h t st hr hd)

/-- every parsed tree (any hooks) has attribute BYTES in its files, and one `Assemble` pass keeps that (`File.SetSize`
    only sets or clears the large-file bit): the attribute part of the side condition needs no hypothesis -/
theorem parsed_attrs_are_bytes (h : Hooks) (bs : Bytes) (t : Tree) (hp : parse h bs = .ok t) : at256Tree t = true :=
  atp_parse_okTree h bs t hp

theorem first_pass_keeps_attr_bytes (h : Hooks) (t : Tree) (st : St) (t1 : Tree) (st1 : St)
    (ha : asmTreeWith h t st = .ok (t1, st1)) (hq : at256Tree t = true) : at256Tree t1 = true :=
  at256_asmTree h t st t1 st1 ha hq

/-- **the side condition for every byte string `uefi.Parse` accepts** (any hooks): `savedOkAll` follows from
    `d60Tree t` (a predicate on the parsed image) and `sizeOkAll` — the size part alone: on what the first pass wrote,
    no volume buffer longer than its `Length` and re-laid files ending below 2^62 (both fail only when `uefi.Align`
    wraps around 2^64, i.e. for buffers beyond 2^62 bytes), and no flash region with an empty span -/
theorem saved_ok_of_parsed (h : Hooks) (bs : Bytes) (t : Tree) (st : St) (hp : parse h bs = .ok t)
    (hd : d60Tree t = true) (hs : sizeOkAll h t st = true) : savedOkAll h t st = true :=
  savedOkAll_of_parsed h bs t st hp hd hs

/-- **C07a for every parsed image, side condition reduced to `DataOffset ≥ 60` and the size bound** -/
theorem roundtrip_parsed_eq_direct_save_sized (h : Hooks) (hnv : ∀ x, h.nvarParse x = none) (junk : FileInfo → Nat)
    (bs : Bytes) (t : Tree) (st : St) (hp : parseWith h (defaultFuel bs) bs {} = .ok (t, st))
    (hd : d60Tree t = true) (hs : sizeOkAll h t st = true) :
    extractSave h junk t = asmWith h t st ∧ extractSave h junk t = save h bs :=
  roundtrip_parsed_eq_direct_save h hnv junk bs t st hp
    (savedOkAll_of_parsed h bs t st (parse_of_parseWith h bs t st hp) hd hs)

/-- non-vacuity: the 835-byte sample satisfies `d60Tree`, `at256Tree`, `sizeOkAll` -/
example : (match parseWith Hooks.none (defaultFuel sampleBytes) sampleBytes {} with
      | .ok (t, st) => d60Tree t && at256Tree t && sizeOkAll Hooks.none t st
      | .error _ => false) = true := by decide +kernel

/-- a volume of 128 bytes with `HeaderLen = 56`: the 16 bytes of the block map and 8 more are read as a pad file -/
def img56 : Bytes :=
  List.replicate 16 0 ++ guidFFS2 ++ leN 8 128 ++ [0x5F, 0x46, 0x56, 0x48] ++ leN 4 0x0004FEFF ++ leN 2 56 ++
    [0, 0] ++ [0, 0] ++ [0, 2] ++ leN 4 16 ++ leN 4 8 ++ List.replicate 8 0 ++ [0, 0, 0xF0, 0, 24, 0, 0, 0xF8] ++
    List.replicate 48 0xFF

/-- **`DataOffset < 60` does occur on parsed images**: `img56` parses, satisfies the other hypotheses (`okTree`,
    `pwTree`, `restOkAll`), and fails exactly the `DataOffset` part of the side condition -/
theorem dataoffset_56_parses :
    (match parseWith Hooks.none (defaultFuel img56) img56 {} with
      | .ok (t, st) => okTree t && pwTree t && restOkAll Hooks.none t st && !d60Tree t && !savedOkAll Hooks.none t st
      | .error _ => false) = true := by decide +kernel

/-- non-vacuity: the 835-byte sample satisfies both parts -/
example : (match parseWith Hooks.none (defaultFuel sampleBytes) sampleBytes {} with
      | .ok (t, st) => d60Tree t && restOkAll Hooks.none t st
      | .error _ => false) = true := by decide +kernel

/-- the same for a 16 KiB flash image with descriptor, ME region, gap and BIOS region (an MM depex
    section inside): every hypothesis of the theorems above, `savedOkAll` included, holds and the
    directory round trip returns the image (Uefi/ExtractTwiceSample.lean) -/
theorem sample_flash_holds : TwiceSample.sampleBytes.length = 16384 ∧ TwiceSample.sampleFlashHolds = true :=
  TwiceSample.sample_flash_holds

end Fiano.Uefi.C07
