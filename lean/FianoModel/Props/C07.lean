/-
  Property C07 — extracting an image to a directory and reassembling from the directory
  reproduces the image; editing a human-editable field of summary.json changes exactly that field.

  Model: FianoModel/Uefi/Extract.lean (`extract`, `parseDir`, `dirSave`, `edit`) on top of the
  UEFI core model (`parse`, `asm*`).  All theorems are about every tree / every byte string, with
  no bound on size or nesting depth.

  Hypotheses (decidable predicates on the tree, each inhabited by `sampleTree` below):
    `pwTree t`   sibling nodes are told apart by what their directory is named after: sections by
                 FileOrder, volumes and BIOS paddings by offset, regions by name and base
                 (sibling *files* need nothing: the running index separates them);
    `okTree t`   GUIDs have 16 bytes, no NVAR store (not modelled), a section with children is rebuilt
                 from them, a volume with files has `DataOffset ≤ len(buf) ≤ Length`;
    `TopPol p t` every top-level volume has erase polarity `p` (and a flash image has a BIOS region) —
                 what a successful `uefi.Parse` leaves in `Attributes.ErasePolarity`.
  A tree produced by `uefi.Parse` has all three (FianoModel/Uefi/ExtractParse.lean): section "parsed
  images" below states the theorems directly for every accepted byte string.
-/
import FianoModel.Uefi.ExtractPaths
import FianoModel.Uefi.ExtractLoad
import FianoModel.Uefi.ExtractAsm
import FianoModel.Uefi.ExtractEdit
import FianoModel.Uefi.ExtractParse
import FianoModel.Uefi.Spec
import FianoModel.Uefi.Tie
import FianoModel.Uefi.ExtractTie
import FianoModel.Uefi.CodeTie   -- T1 code-as-code tie (wp-t1x): audited as a tie module of this check
import FianoModel.Uefi.CodeTieGuid   -- T1 code-as-code tie (wp-t1x): audited as a tie module of this check

namespace Fiano.Uefi.C07
open Fiano Fiano.Uefi

/-- **unique extract paths**: no two nodes of a tree are written to the same file — whatever the
    GUIDs of the files are (duplicates inside a volume, across volumes, across nesting levels). -/
theorem extract_paths_nodup_of_wf (t : Tree) (hw : pwTree t = true) :
    ((extractDir t).map Prod.fst).Nodup :=
  extractDir_nodup t hw

/-- consequently every extracted buffer can be read back from the directory -/
theorem extract_readable (t : Tree) (hw : pwTree t = true) :
    ∀ e ∈ extractEntries t, (extractDir t).read (joinPath e.1) = some e.2 :=
  readable_extractDir t (extractDir_nodup t hw)

/-- **the directory is a complete description**: loading what `extract` wrote gives the tree with
    its leaf buffers (and volume headers) back, every other buffer `nil`, the `json:"-"` fields zero
    and `File.Header.Size` whatever `ThreeUint8.UnmarshalJSON` makes of the JSON text (`junk`). -/
theorem parseDir_extract (junk : FileInfo → Nat) (t : Tree) (hw : pwTree t = true) :
    parseDir (extractDir t) junk (summaryOf t) = .ok (strip junk t) :=
  parseDir_ex _ junk t (readable_extractDir t (extractDir_nodup t hw))

/-- `Extract` itself does not fault -/
theorem extract_ok (t : Tree) (hok : okTree t = true) : extract t = .ok (extractDir t, summaryOf t) := by
  simp [extract, exFault_ok t hok]

/-- **C07a** `utk IMAGE extract DIR; utk DIR save OUT` (a fresh process: ParseDir, Assemble, then
    Save which assembles again) writes exactly what two `Assemble` passes over the parsed tree give
    in the process that parsed it (state `st`) — including the case that both fail, and for every
    value `junk` of the fields that come back as garbage. -/
theorem extract_dirsave_eq_assemble_twice (h : Hooks) (junk : FileInfo → Nat) (t : Tree) (st : St)
    (hok : okTree t = true) (hw : pwTree t = true) (hp : st.pol = 0xF0 ∨ TopPol st.pol t = true) :
    extractSave h junk t = asmTwice h t st := by
  unfold extractSave
  rw [extract_ok t hok]
  simp only [dirSave, parseDir_extract junk t hw]
  rw [asmTwice_sim h (strip junk t) t {} (strip_sim junk t hok)]
  exact asmTwice_fresh h t st hp

/-- the single-pass form (DESIGN §7: `asm (parseDir (extract t) junk) = asm t`): one `Assemble` pass over
    the loaded tree in a fresh process = one pass over the parsed tree, i.e. the direct save -/
theorem load_assemble_eq_direct_save (h : Hooks) (junk : FileInfo → Nat) (t : Tree) (st : St)
    (hok : okTree t = true) (hw : pwTree t = true) (hp : st.pol = 0xF0 ∨ TopPol st.pol t = true) :
    (match parseDir (extractDir t) junk (summaryOf t) with
      | .ok t' => asmWith h t' {}
      | .error e => .error e) = asmWith h t st := by
  simp only [parseDir_extract junk t hw]
  rw [asmWith_sim h (strip junk t) t {} (strip_sim junk t hok)]
  exact asmWith_fresh h t st hp

/-- **C07a, as stated**: when saving is a fixed point on the tree (a second `Assemble` pass leaves the
    root buffer as it is — the in-memory form of C06b, checked on every case by the harness oracle
    `second-save-identical`), the directory round trip writes exactly what the direct
    `utk IMAGE save OUT` writes. -/
theorem extract_dirsave_eq_direct_save_partial (h : Hooks) (junk : FileInfo → Nat) (t : Tree) (st : St)
    (hok : okTree t = true) (hw : pwTree t = true) (hp : st.pol = 0xF0 ∨ TopPol st.pol t = true)
    (hfix : asmTwice h t st = asmWith h t st) :
    extractSave h junk t = asmWith h t st := by
  rw [extract_dirsave_eq_assemble_twice h junk t st hok hw hp, hfix]

/-- the garbage in `File.Header.Size` is immaterial: any two values give the same image -/
theorem junk_irrelevant (h : Hooks) (j1 j2 : FileInfo → Nat) (t : Tree)
    (hok : okTree t = true) (hw : pwTree t = true) :
    extractSave h j1 t = extractSave h j2 t := by
  rw [extract_dirsave_eq_assemble_twice h j1 t {} hok hw (Or.inl rfl),
    extract_dirsave_eq_assemble_twice h j2 t {} hok hw (Or.inl rfl)]

/-! ### C07b — editing a human-editable field of summary.json

  `Edit` holds one function per editable field (file GUID, UI name, build number / version string,
  dependency opcodes); `edit e` applies it to every node of the right type and touches nothing else
  (`edit_touches_*` below).  A single-field, single-node edit is an `e` whose function changes one
  value only (`Edit.setName old new`, …). -/

/-- what `edit` changes in a section: the name of a UI section, the build number and string of a
    version section, the opcodes of a dependency section — nothing else, and no other section -/
theorem edit_touches_section (e : Edit) (i : SecInfo) :
    e.sec i =
      if i.type = 0x15 then { i with name := e.name i.name }
      else if i.type = 0x14 then { i with build := (e.ver (i.build, i.version)).1, version := (e.ver (i.build, i.version)).2 }
      else if isDepexType i.type then { i with depex := e.depex i.depex }
      else i := rfl

/-- what `edit` changes in a file: its GUID -/
theorem edit_touches_file (e : Edit) (i : FileInfo) : e.file i = { i with guid := e.guid i.guid } := rfl

/-- **C07b** extracting, editing summary.json with `e`, and reassembling from the directory writes
    exactly what two `Assemble` passes give on the parsed tree with the same fields replaced in
    memory (`edit e t`) — whatever the edit is (any of the four fields, any number of nodes), as long
    as GUIDs stay 16 bytes long; including the case that both fail (e.g. the volume has no room for
    a longer name). -/
theorem extract_edit_dirsave_eq (h : Hooks) (junk : FileInfo → Nat) (e : Edit) (t : Tree) (st : St)
    (hok : okTree t = true) (hw : pwTree t = true) (hp : st.pol = 0xF0 ∨ TopPol st.pol t = true)
    (he : e.Guid16) :
    extractEditSave h junk e t = asmTwice h (edit e t) st := by
  unfold extractEditSave
  rw [extract_ok t hok]
  simp only [dirSave, parseDir_edit, parseDir_extract (e.junk junk) t hw, mapOk_ok]
  rw [← strip_edit junk e t]
  rw [asmTwice_sim h (strip junk (edit e t)) (edit e t) {} (strip_sim junk (edit e t) (okTree_edit e he t hok))]
  exact asmTwice_fresh h (edit e t) st (by rw [TopPol_edit]; exact hp)

/-- the four single-field edits: every node holding `old` gets `new` -/
def Edit.setGuid (old new : Guid) : Edit := { guid := fun g => if g = old then new else g }
def Edit.setName (old new : List Nat) : Edit := { name := fun n => if n = old then new else n }
def Edit.setVersion (old new : Nat × List Nat) : Edit := { ver := fun v => if v = old then new else v }
def Edit.setDepex (old new : List DepOp) : Edit := { depex := fun d => if d = old then new else d }

theorem Edit.setGuid_guid16 (old new : Guid) (hn : new.length = 16) : (Edit.setGuid old new).Guid16 := by
  intro g hg
  simp only [Edit.setGuid]
  split <;> assumption

theorem Edit.noGuid_guid16 (e : Edit) (h : e.guid = id) : e.Guid16 := by
  intro g hg; rw [h]; exact hg

/-- C07b for the GUID of a file (only files rebuilt from their sections show it: `Assemble` does
    not read the header struct of a leaf file) -/
theorem edit_file_guid (h : Hooks) (junk : FileInfo → Nat) (old new : Guid) (t : Tree) (st : St)
    (hok : okTree t = true) (hw : pwTree t = true) (hp : st.pol = 0xF0 ∨ TopPol st.pol t = true)
    (hn : new.length = 16) :
    extractEditSave h junk (Edit.setGuid old new) t = asmTwice h (edit (Edit.setGuid old new) t) st :=
  extract_edit_dirsave_eq h junk _ t st hok hw hp (Edit.setGuid_guid16 old new hn)

/-- C07b for a UI name -/
theorem edit_ui_name (h : Hooks) (junk : FileInfo → Nat) (old new : List Nat) (t : Tree) (st : St)
    (hok : okTree t = true) (hw : pwTree t = true) (hp : st.pol = 0xF0 ∨ TopPol st.pol t = true) :
    extractEditSave h junk (Edit.setName old new) t = asmTwice h (edit (Edit.setName old new) t) st :=
  extract_edit_dirsave_eq h junk _ t st hok hw hp (Edit.noGuid_guid16 _ rfl)

/-- C07b for a version string / build number -/
theorem edit_version (h : Hooks) (junk : FileInfo → Nat) (old new : Nat × List Nat) (t : Tree) (st : St)
    (hok : okTree t = true) (hw : pwTree t = true) (hp : st.pol = 0xF0 ∨ TopPol st.pol t = true) :
    extractEditSave h junk (Edit.setVersion old new) t = asmTwice h (edit (Edit.setVersion old new) t) st :=
  extract_edit_dirsave_eq h junk _ t st hok hw hp (Edit.noGuid_guid16 _ rfl)

/-- C07b for a dependency expression -/
theorem edit_depex (h : Hooks) (junk : FileInfo → Nat) (old new : List DepOp) (t : Tree) (st : St)
    (hok : okTree t = true) (hw : pwTree t = true) (hp : st.pol = 0xF0 ∨ TopPol st.pol t = true) :
    extractEditSave h junk (Edit.setDepex old new) t = asmTwice h (edit (Edit.setDepex old new) t) st :=
  extract_edit_dirsave_eq h junk _ t st hok hw hp (Edit.noGuid_guid16 _ rfl)


/-! ### parsed images

  `parseWith h (defaultFuel bs) bs {}` is `uefi.Parse(bs)` in a fresh process; it returns the tree and
  the process state (erase polarity) the following `save` runs in.  `h` are the hooks of the UEFI core
  model (decompressors, NVAR parser); the NVAR store is not modelled here, so `h` must not parse one
  (`Hooks.none` does not). -/

/-- **extract_paths_nodup**: for every byte string `uefi.Parse` accepts (flash image or bare BIOS
    region, any decompressors), whatever was parsed — duplicate GUIDs inside a volume, across volumes,
    across nesting levels, several volumes, nested volumes, gap regions — no two nodes are extracted
    to the same path. -/
theorem extract_paths_nodup (h : Hooks) (bs : Bytes) (t : Tree) (hp : parse h bs = .ok t) :
    ((extractDir t).map Prod.fst).Nodup :=
  extractDir_nodup _ (parse_pw h bs t hp)

/-- **C07a for every parsed image**: extract, then reassemble from the directory in a fresh process
    = two `Assemble` passes in the process that parsed the image; for all bytes, all `junk`, errors
    included. -/
theorem roundtrip_parsed (h : Hooks) (hnv : ∀ x, h.nvarParse x = none) (junk : FileInfo → Nat)
    (bs : Bytes) (t : Tree) (st : St) (hp : parseWith h (defaultFuel bs) bs {} = .ok (t, st)) :
    extractSave h junk t = asmTwice h t st :=
  have hp' := parse_of_parseWith h bs _ st hp
  extract_dirsave_eq_assemble_twice h junk _ st (parse_okTree h hnv bs _ hp') (parse_pw h bs t hp')
    (parse_topPol h bs _ st hp)

/-- **C07a, as stated, for every parsed image** — under the fixed-point hypothesis of save (see
    `extract_dirsave_eq_direct_save_partial`): the directory round trip writes what `save` writes. -/
theorem roundtrip_parsed_eq_direct_save_partial (h : Hooks) (hnv : ∀ x, h.nvarParse x = none) (junk : FileInfo → Nat)
    (bs : Bytes) (t : Tree) (st : St) (hp : parseWith h (defaultFuel bs) bs {} = .ok (t, st))
    (hfix : asmTwice h t st = asmWith h t st) :
    extractSave h junk t = asmWith h t st := by
  rw [roundtrip_parsed h hnv junk bs t st hp, hfix]

/-- **C07b for every parsed image** and every edit that keeps GUIDs 16 bytes long -/
theorem edit_parsed (h : Hooks) (hnv : ∀ x, h.nvarParse x = none) (junk : FileInfo → Nat) (e : Edit)
    (bs : Bytes) (t : Tree) (st : St) (hp : parseWith h (defaultFuel bs) bs {} = .ok (t, st))
    (he : e.Guid16) :
    extractEditSave h junk e t = asmTwice h (edit e t) st :=
  have hp' := parse_of_parseWith h bs _ st hp
  extract_edit_dirsave_eq h junk e _ st (parse_okTree h hnv bs _ hp') (parse_pw h bs t hp')
    (parse_topPol h bs _ st hp) he

/-- the hooks of the UEFI core model parse no NVAR store -/
example : ∀ x, Hooks.none.nvarParse x = none := fun _ => rfl

/-! ### the hypotheses are inhabited -/

open Spec in
def g (n : Nat) : Guid := (List.range 16).map (fun i => UInt8.ofNat (n + i))

open Spec in
def innerFv : FvI :=
  .ffs (List.replicate 16 0) false 0x0004FEFF 2 0 [⟨19, 8⟩] none
    [ .sect (g 1) 7 0 0xF8 [.ui [0x49, 0x6E], .leaf 0x19 false [9, 9]] ] 38

open Spec in
/-- a volume with three files of the *same* GUID: a RAW leaf file; a driver with a UI section, a
    version section, a dependency section and a raw section; and a volume-image file whose nested
    volume again holds a file of that GUID -/
def sampleFv : FvI :=
  .ffs (List.replicate 16 0) false 0x0004FEFF 2 0 [⟨51, 8⟩] none
    [ .leaf (g 1) 0 0xAA 1 0 0xF8 false [1, 2, 3, 4, 5, 6, 7, 8],
      .sect (g 1) 7 0x40 0xF8 [.ui [0x41, 0x42], .version 7 [0x31], .depex 0x13 [⟨2, some (g 3)⟩, ⟨8, none⟩],
                               .leaf 0x19 false [1, 2, 3, 4, 5]],
      .sect (g 1) 11 0 0xF8 [.fvimg innerFv] ] 36

open Spec in
/-- two such volumes with padding in between: 835 bytes -/
def sampleImg : Img := .bios ⟨[([], sampleFv), (List.replicate 16 0xFF, sampleFv)], [0xFF, 0xFF, 0xFF]⟩

def sampleBytes : Bytes := Spec.ser sampleImg

/-- the parsed sample has unique sibling keys, is extractable, and the parser leaves its polarity;
    extracting and reassembling it gives the image back -/
def sampleHolds : Bool :=
  match parseWith Hooks.none (defaultFuel sampleBytes) sampleBytes {} with
  | .ok (t, st) =>
    pwTree t && okTree t && TopPol st.pol t && (extractDir t).length == 20 &&
      (match extractSave Hooks.none goJunk t with
       | .ok out => out == sampleBytes
       | .error _ => false)
  | .error _ => false

theorem sample_holds : Spec.wf sampleImg = true ∧ sampleHolds = true := by decide +kernel

end Fiano.Uefi.C07
