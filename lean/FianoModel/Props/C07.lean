/-
  Property C07 — extracting an image to a directory and reassembling from the directory
  reproduces the image; editing a human-editable field of summary.json changes exactly that field.

  Model: FianoModel/Uefi/Extract.lean (`extract`, `parseDir`, `dirSave`, `edit`) on top of the
  UEFI core model (`parse`, `asm*`).  All theorems are about every tree / every byte string, with
  no bound on size or nesting depth.

  Hypotheses (decidable predicates on the tree, each inhabited by `sampleTree` below):
    `pwTree t`   sibling nodes are told apart by what their directory is named after: sections by
                 FileOrder, volumes and BIOS paddings by offset, regions by name and base
                 (sibling *files* need nothing: the running index separates them);
    `okTree t`   GUIDs have 16 bytes, no NVAR store (the round-trip theorems are stated for trees without
                 store; path uniqueness and the store-level round trip cover stores, see the follow-up
                 sections below), a section with children is rebuilt from them, a volume with files has
                 `DataOffset ≤ len(buf) ≤ Length`;
    `TopPol p t` every top-level volume has erase polarity `p` (and a flash image has a BIOS region) —
                 what a successful `uefi.Parse` leaves in `Attributes.ErasePolarity`.
  A tree produced by `uefi.Parse` has all three (FianoModel/Uefi/ExtractParse.lean): section "parsed
  images" below states the theorems directly for every accepted byte string.
  Follow-up wp-c07b: `savedOkAll h t st` (decidable, on the tree the first `Assemble` pass wrote; proved
  for C01's grammar) is the side condition of the fixed-point theorem that turns "two passes" into
  "the direct save"; NVAR stores; per-field end-to-end edit theorems.
-/
import FianoModel.Uefi.ExtractPaths
import FianoModel.Uefi.ExtractLoad
import FianoModel.Uefi.ExtractAsm
import FianoModel.Uefi.ExtractEdit
import FianoModel.Uefi.ExtractParse
import FianoModel.Uefi.ExtractTwiceFlash
import FianoModel.Uefi.ExtractTwiceGram
import FianoModel.Uefi.ExtractTwiceSample
import FianoModel.Uefi.ExtractNvarPaths
import FianoModel.Uefi.ExtractNvarLoad
import FianoModel.Uefi.ExtractNvarNested
import FianoModel.Uefi.ExtractNvarSample
import FianoModel.Uefi.Lemmas.Final
import FianoModel.Uefi.Spec
import FianoModel.Uefi.Tie
import FianoModel.Uefi.ExtractTie
import FianoModel.Uefi.CodeTie   -- T1 code-as-code tie (wp-t1x): audited as a tie module of this check
import FianoModel.Uefi.CodeTieGuid   -- T1 code-as-code tie (wp-t1x): audited as a tie module of this check

namespace Fiano.Uefi.C07
open Fiano Fiano.Uefi

/-- **unique extract paths**: no two nodes of a tree are written to the same file — whatever the
    GUIDs of the files are (duplicates inside a volume, across volumes, across nesting levels). -/
theorem extract_paths_nodup_of_wf (t : Tree) (hw : pwTree t = true) :
    ((extractDir t).map Prod.fst).Nodup :=
  extractDir_nodup t hw

/-- consequently every extracted buffer can be read back from the directory -/
theorem extract_readable (t : Tree) (hw : pwTree t = true) :
    ∀ e ∈ extractEntries t, (extractDir t).read (joinPath e.1) = some e.2 :=
  readable_extractDir t (extractDir_nodup t hw)

/-- **the directory is a complete description**: loading what `extract` wrote gives the tree with
    its leaf buffers (and volume headers) back, every other buffer `nil`, the `json:"-"` fields zero
    and `File.Header.Size` whatever `ThreeUint8.UnmarshalJSON` makes of the JSON text (`junk`). -/
theorem parseDir_extract (junk : FileInfo → Nat) (t : Tree) (hw : pwTree t = true) :
    parseDir (extractDir t) junk (summaryOf t) = .ok (strip junk t) :=
  parseDir_ex _ junk t (readable_extractDir t (extractDir_nodup t hw))

/-- `Extract` itself does not fault -/
theorem extract_ok (t : Tree) (hok : okTree t = true) : extract t = .ok (extractDir t, summaryOf t) := by
  simp [extract, exFault_ok t hok]

/-- **C07a** `utk IMAGE extract DIR; utk DIR save OUT` (a fresh process: ParseDir, Assemble, then
    Save which assembles again) writes exactly what two `Assemble` passes over the parsed tree give
    in the process that parsed it (state `st`) — including the case that both fail, and for every
    value `junk` of the fields that come back as garbage. -/
theorem extract_dirsave_eq_assemble_twice (h : Hooks) (junk : FileInfo → Nat) (t : Tree) (st : St)
    (hok : okTree t = true) (hw : pwTree t = true) (hp : st.pol = 0xF0 ∨ TopPol st.pol t = true) :
    extractSave h junk t = asmTwice h t st := by
  unfold extractSave
  rw [extract_ok t hok]
  simp only [dirSave, parseDir_extract junk t hw]
  rw [asmTwice_sim h (strip junk t) t {} (strip_sim junk t hok)]
  exact asmTwice_fresh h t st hp

/-- the single-pass form (DESIGN §7: `asm (parseDir (extract t) junk) = asm t`): one `Assemble` pass over
    the loaded tree in a fresh process = one pass over the parsed tree, i.e. the direct save -/
theorem load_assemble_eq_direct_save (h : Hooks) (junk : FileInfo → Nat) (t : Tree) (st : St)
    (hok : okTree t = true) (hw : pwTree t = true) (hp : st.pol = 0xF0 ∨ TopPol st.pol t = true) :
    (match parseDir (extractDir t) junk (summaryOf t) with
      | .ok t' => asmWith h t' {}
      | .error e => .error e) = asmWith h t st := by
  simp only [parseDir_extract junk t hw]
  rw [asmWith_sim h (strip junk t) t {} (strip_sim junk t hok)]
  exact asmWith_fresh h t st hp

/-- the garbage in `File.Header.Size` is immaterial: any two values give the same image -/
theorem junk_irrelevant (h : Hooks) (j1 j2 : FileInfo → Nat) (t : Tree)
    (hok : okTree t = true) (hw : pwTree t = true) :
    extractSave h j1 t = extractSave h j2 t := by
  rw [extract_dirsave_eq_assemble_twice h j1 t {} hok hw (Or.inl rfl),
    extract_dirsave_eq_assemble_twice h j2 t {} hok hw (Or.inl rfl)]

/-! ### C07b — editing a human-editable field of summary.json

  `Edit` holds one function per editable field (file GUID, UI name, build number / version string,
  dependency opcodes); `edit e` applies it to every node of the right type and touches nothing else
  (`edit_touches_*` below).  A single-field, single-node edit is an `e` whose function changes one
  value only (`Edit.setName old new`, …). -/

/-- what `edit` changes in a section: the name of a UI section, the build number and string of a
    version section, the opcodes of a dependency section — nothing else, and no other section -/
theorem edit_touches_section (e : Edit) (i : SecInfo) :
    e.sec i =
      if i.type = 0x15 then { i with name := e.name i.name }
      else if i.type = 0x14 then { i with build := (e.ver (i.build, i.version)).1, version := (e.ver (i.build, i.version)).2 }
      else if isDepexType i.type then { i with depex := e.depex i.depex }
      else i := rfl

/-- what `edit` changes in a file: its GUID -/
theorem edit_touches_file (e : Edit) (i : FileInfo) : e.file i = { i with guid := e.guid i.guid } := rfl

/-- **C07b** extracting, editing summary.json with `e`, and reassembling from the directory writes
    exactly what two `Assemble` passes give on the parsed tree with the same fields replaced in
    memory (`edit e t`) — whatever the edit is (any of the four fields, any number of nodes), as long
    as GUIDs stay 16 bytes long; including the case that both fail (e.g. the volume has no room for
    a longer name). -/
theorem extract_edit_dirsave_eq (h : Hooks) (junk : FileInfo → Nat) (e : Edit) (t : Tree) (st : St)
    (hok : okTree t = true) (hw : pwTree t = true) (hp : st.pol = 0xF0 ∨ TopPol st.pol t = true)
    (he : e.Guid16) :
    extractEditSave h junk e t = asmTwice h (edit e t) st := by
  unfold extractEditSave
  rw [extract_ok t hok]
  simp only [dirSave, parseDir_edit, parseDir_extract (e.junk junk) t hw, mapOk_ok]
  rw [← strip_edit junk e t]
  rw [asmTwice_sim h (strip junk (edit e t)) (edit e t) {} (strip_sim junk (edit e t) (okTree_edit e he t hok))]
  exact asmTwice_fresh h (edit e t) st (by rw [TopPol_edit]; exact hp)

/-- the four single-field edits: every node holding `old` gets `new` -/
def Edit.setGuid (old new : Guid) : Edit := { guid := fun g => if g = old then new else g }
def Edit.setName (old new : List Nat) : Edit := { name := fun n => if n = old then new else n }
def Edit.setVersion (old new : Nat × List Nat) : Edit := { ver := fun v => if v = old then new else v }
def Edit.setDepex (old new : List DepOp) : Edit := { depex := fun d => if d = old then new else d }

theorem Edit.setGuid_guid16 (old new : Guid) (hn : new.length = 16) : (Edit.setGuid old new).Guid16 := by
  intro g hg
  simp only [Edit.setGuid]
  split <;> assumption

theorem Edit.noGuid_guid16 (e : Edit) (h : e.guid = id) : e.Guid16 := by
  intro g hg; rw [h]; exact hg

/-- C07b for the GUID of a file (only files rebuilt from their sections show it: `Assemble` does
    not read the header struct of a leaf file) -/
theorem edit_file_guid (h : Hooks) (junk : FileInfo → Nat) (old new : Guid) (t : Tree) (st : St)
    (hok : okTree t = true) (hw : pwTree t = true) (hp : st.pol = 0xF0 ∨ TopPol st.pol t = true)
    (hn : new.length = 16) :
    extractEditSave h junk (Edit.setGuid old new) t = asmTwice h (edit (Edit.setGuid old new) t) st :=
  extract_edit_dirsave_eq h junk _ t st hok hw hp (Edit.setGuid_guid16 old new hn)

/-- C07b for a UI name -/
theorem edit_ui_name (h : Hooks) (junk : FileInfo → Nat) (old new : List Nat) (t : Tree) (st : St)
    (hok : okTree t = true) (hw : pwTree t = true) (hp : st.pol = 0xF0 ∨ TopPol st.pol t = true) :
    extractEditSave h junk (Edit.setName old new) t = asmTwice h (edit (Edit.setName old new) t) st :=
  extract_edit_dirsave_eq h junk _ t st hok hw hp (Edit.noGuid_guid16 _ rfl)

/-- C07b for a version string / build number -/
theorem edit_version (h : Hooks) (junk : FileInfo → Nat) (old new : Nat × List Nat) (t : Tree) (st : St)
    (hok : okTree t = true) (hw : pwTree t = true) (hp : st.pol = 0xF0 ∨ TopPol st.pol t = true) :
    extractEditSave h junk (Edit.setVersion old new) t = asmTwice h (edit (Edit.setVersion old new) t) st :=
  extract_edit_dirsave_eq h junk _ t st hok hw hp (Edit.noGuid_guid16 _ rfl)

/-- C07b for a dependency expression -/
theorem edit_depex (h : Hooks) (junk : FileInfo → Nat) (old new : List DepOp) (t : Tree) (st : St)
    (hok : okTree t = true) (hw : pwTree t = true) (hp : st.pol = 0xF0 ∨ TopPol st.pol t = true) :
    extractEditSave h junk (Edit.setDepex old new) t = asmTwice h (edit (Edit.setDepex old new) t) st :=
  extract_edit_dirsave_eq h junk _ t st hok hw hp (Edit.noGuid_guid16 _ rfl)


/-! ### parsed images

  `parseWith h (defaultFuel bs) bs {}` is `uefi.Parse(bs)` in a fresh process; it returns the tree and
  the process state (erase polarity) the following `save` runs in.  `h` are the hooks of the UEFI core
  model (decompressors, NVAR parser); the NVAR store is not modelled here, so `h` must not parse one
  (`Hooks.none` does not). -/

/-- **extract_paths_nodup**: for every byte string `uefi.Parse` accepts (flash image or bare BIOS
    region, any decompressors, any NVAR hook), whatever was parsed — duplicate GUIDs inside a volume,
    across volumes, across nesting levels, several volumes, nested volumes, gap regions, and (follow-up
    wp-c07b) **NVAR stores**: every entry of the store of a RAW file, at any nesting depth, whatever the
    variable names are — no two nodes are extracted to the same path.  (For a file that carries a store
    `exFile` writes the NVar arm's files for the store C10's `NewNVarStore` model reads from the file's
    own bytes under the volume's erase polarity; that its entries have distinct offsets is proved from
    the parser, `parsed_offsDistinct`.) -/
theorem extract_paths_nodup (h : Hooks) (bs : Bytes) (t : Tree) (hp : parse h bs = .ok t) :
    ((extractDir t).map Prod.fst).Nodup :=
  extractDir_nodup _ (parse_pw h bs t hp)

/-- **C07a for every parsed image**: extract, then reassemble from the directory in a fresh process
    = two `Assemble` passes in the process that parsed the image; for all bytes, all `junk`, errors
    included. -/
theorem roundtrip_parsed (h : Hooks) (hnv : ∀ x, h.nvarParse x = none) (junk : FileInfo → Nat)
    (bs : Bytes) (t : Tree) (st : St) (hp : parseWith h (defaultFuel bs) bs {} = .ok (t, st)) :
    extractSave h junk t = asmTwice h t st :=
  have hp' := parse_of_parseWith h bs _ st hp
  extract_dirsave_eq_assemble_twice h junk _ st (parse_okTree h hnv bs _ hp') (parse_pw h bs t hp')
    (parse_topPol h bs _ st hp)

/-- **C07b for every parsed image** and every edit that keeps GUIDs 16 bytes long -/
theorem edit_parsed (h : Hooks) (hnv : ∀ x, h.nvarParse x = none) (junk : FileInfo → Nat) (e : Edit)
    (bs : Bytes) (t : Tree) (st : St) (hp : parseWith h (defaultFuel bs) bs {} = .ok (t, st))
    (he : e.Guid16) :
    extractEditSave h junk e t = asmTwice h (edit e t) st :=
  have hp' := parse_of_parseWith h bs _ st hp
  extract_edit_dirsave_eq h junk e _ st (parse_okTree h hnv bs _ hp') (parse_pw h bs t hp')
    (parse_topPol h bs _ st hp) he

/-- the hooks of the UEFI core model parse no NVAR store -/
example : ∀ x, Hooks.none.nvarParse x = none := fun _ => rfl

/-! ### follow-up wp-c07b (1): saving is a fixed point in memory — no hypothesis `asmTwice = asmWith`

  `savedOkAll h t st` (Uefi/ExtractTwiceFlash.lean, `fxFv` in Uefi/ExtractTwiceMain.lean) is a decidable
  side condition on the tree the first `Assemble` pass leaves behind: every volume with files, at any
  depth, has a buffer no longer than its `Length` field (false only when `uefi.Align` wraps around 2^64
  while a nested volume grows — buffers of 2^63 bytes, which no Go slice holds), `DataOffset ≥ 60` (the
  header patches lie in the header part of the buffer), attribute bytes below 256 and re-laid files ending
  below 2^62 (the range in which the file loop's 64-bit arithmetic is its closed form); in a flash image
  no region has an empty span (Base ≤ Limit: the tiling check then orders the regions strictly, so the
  second sort changes nothing).  It is vacuously true when the first pass fails.  No law about the codecs
  is needed: the second pass re-encodes the same children; nothing is decoded. -/

/-- **save is a fixed point in memory** (any tree — flash image or bare BIOS region —, any hooks, any
    nesting depth, compressed sections included): assembling the tree `Assemble` has just written gives
    the same root buffer; when the first pass fails both sides are that error -/
theorem save_fixed_point_in_memory (h : Hooks) (t : Tree) (st : St) (hok : okTree t = true)
    (hs : savedOkAll h t st = true) : asmTwice h t st = asmWith h t st :=
  asmTwice_eq_asmWith h t st hok hs

/-- **C07a as stated**: extract + reassemble from the directory in a fresh process writes exactly what
    the direct `utk IMAGE save OUT` writes (errors included) -/
theorem extract_dirsave_eq_direct_save (h : Hooks) (junk : FileInfo → Nat) (t : Tree) (st : St)
    (hok : okTree t = true) (hw : pwTree t = true) (hp : st.pol = 0xF0 ∨ TopPol st.pol t = true)
    (hs : savedOkAll h t st = true) :
    extractSave h junk t = asmWith h t st := by
  rw [extract_dirsave_eq_assemble_twice h junk t st hok hw hp, asmTwice_eq_asmWith h t st hok hs]

/-- … for every byte string `uefi.Parse` accepts (flash image or bare BIOS region): the directory round
    trip writes what `utk IMAGE save` (`save h bs`: parse, then one `Assemble` pass) writes -/
theorem roundtrip_parsed_eq_direct_save (h : Hooks) (hnv : ∀ x, h.nvarParse x = none) (junk : FileInfo → Nat)
    (bs : Bytes) (t : Tree) (st : St) (hp : parseWith h (defaultFuel bs) bs {} = .ok (t, st))
    (hs : savedOkAll h t st = true) :
    extractSave h junk t = asmWith h t st ∧ extractSave h junk t = save h bs := by
  have hp' := parse_of_parseWith h bs _ st hp
  have e := extract_dirsave_eq_direct_save h junk t st (parse_okTree h hnv bs _ hp') (parse_pw h bs _ hp')
    (parse_topPol h bs _ st hp) hs
  refine ⟨e, ?_⟩
  rw [e]
  unfold save
  rw [hp]

/-- **the side condition is derived for C01's grammar**: for every well-formed image of the reference
    grammar (flash image with descriptor and any region layout, bare BIOS region; any volume count,
    nesting depth, file and section kinds of C01 — no compressed sections) `savedOkAll` holds of what the
    first pass writes.  (A structural induction over the grammar that applies C01's `asm_files` / `asm_fv`
    at every nested volume: every file already sits where the placement rule puts it, so the closed-form
    end of the re-laid files is the grammar's `endFiles`, nothing grows, everything is below 2^62.) -/
theorem saved_ok_grammar (i : Spec.Img) (hwf : Spec.WF i) (st : St) (hp : st.pol = 0xFF) :
    savedOkAll Hooks.none (Spec.tree i) st = true :=
  savedOkAll_gram i hwf st hp

/-- **save is a fixed point in memory, C01 grammar, unconditionally**: two `Assemble` passes over the
    parsed tree of a well-formed image write the image — as one pass does (C01 `asm_tree`) -/
theorem save_fixed_point_grammar (i : Spec.Img) (hwf : Spec.WF i) (st : St) (hp : st.pol = 0xFF) :
    asmTwice Hooks.none (Spec.tree i) st = .ok (Spec.ser i) := by
  obtain ⟨st0, hpw, _⟩ := parseWith_ser i hwf
  have hok := parse_okTree Hooks.none (fun _ => rfl) (Spec.ser i) _ (parse_of_parseWith _ _ _ _ hpw)
  rw [asmTwice_eq_asmWith Hooks.none _ st hok (savedOkAll_gram i hwf st hp)]
  exact asm_tree_all i hwf st hp

/-- **C07a for the C01 grammar, unconditionally**: for every well-formed image of the reference grammar,
    extract followed by reassembly from the directory (fresh process, two `Assemble` passes) reproduces
    the image byte for byte -/
theorem roundtrip_grammar (i : Spec.Img) (hwf : Spec.WF i) (junk : FileInfo → Nat) :
    extractSave Hooks.none junk (Spec.tree i) = .ok (Spec.ser i) := by
  obtain ⟨st0, hpw, hp0⟩ := parseWith_ser i hwf
  have := (roundtrip_parsed_eq_direct_save Hooks.none (fun _ => rfl) junk _ _ st0 hpw
    (savedOkAll_gram i hwf st0 hp0)).1
  rw [this]
  exact asm_tree_all i hwf st0 hp0

/-! ### follow-up wp-c07b (3): single-field edits, end to end

  With the fixed point, C07b reads as the property states it: the reassembled image is the *direct
  save* (one `Assemble` pass) of the tree with the field replaced in memory. -/

/-- **C07b, end to end**, for any edit that keeps GUIDs 16 bytes long -/
theorem extract_edit_dirsave_eq_direct (h : Hooks) (junk : FileInfo → Nat) (e : Edit) (t : Tree) (st : St)
    (hok : okTree t = true) (hw : pwTree t = true)
    (hp : st.pol = 0xF0 ∨ TopPol st.pol t = true) (he : e.Guid16)
    (hs : savedOkAll h (edit e t) st = true) :
    extractEditSave h junk e t = asmWith h (edit e t) st := by
  rw [extract_edit_dirsave_eq h junk e _ st hok hw hp he]
  exact asmTwice_eq_asmWith h _ st (okTree_edit e he _ hok) hs

/-- **C07b end to end for every parsed image** -/
theorem edit_parsed_direct (h : Hooks) (hnv : ∀ x, h.nvarParse x = none) (junk : FileInfo → Nat) (e : Edit)
    (bs : Bytes) (t : Tree) (st : St) (hp : parseWith h (defaultFuel bs) bs {} = .ok (t, st))
    (he : e.Guid16) (hs : savedOkAll h (edit e t) st = true) :
    extractEditSave h junk e t = asmWith h (edit e t) st :=
  have hp' := parse_of_parseWith h bs _ st hp
  extract_edit_dirsave_eq_direct h junk e _ st (parse_okTree h hnv bs _ hp') (parse_pw h bs t hp')
    (parse_topPol h bs _ st hp) he hs

/-- what each single-field edit touches: exactly the nodes that hold `old` in that field -/
theorem setGuid_touches (old new : Guid) (i : FileInfo) (s : SecInfo) :
    (Edit.setGuid old new).file i = (if i.guid = old then { i with guid := new } else i) ∧
      (Edit.setGuid old new).sec s = s := by
  constructor
  · simp only [Edit.file, Edit.setGuid]; split <;> rfl
  · simp only [Edit.sec, Edit.setGuid, id]; repeat' split
    all_goals rfl

theorem setName_touches (old new : List Nat) (i : FileInfo) (s : SecInfo) :
    (Edit.setName old new).file i = i ∧
      (Edit.setName old new).sec s = (if s.type = 0x15 ∧ s.name = old then { s with name := new } else s) := by
  obtain ⟨sz, ty, ex, fo, ts, nm, bd, vs, dx⟩ := s
  refine ⟨rfl, ?_⟩
  simp only [Edit.sec, Edit.setName, id]
  repeat' split
  all_goals simp_all

theorem setVersion_touches (old new : Nat × List Nat) (i : FileInfo) (s : SecInfo) :
    (Edit.setVersion old new).file i = i ∧
      (Edit.setVersion old new).sec s =
        (if s.type = 0x14 ∧ (s.build, s.version) = old then { s with build := new.1, version := new.2 } else s) := by
  obtain ⟨sz, ty, ex, fo, ts, nm, bd, vs, dx⟩ := s
  refine ⟨rfl, ?_⟩
  simp only [Edit.sec, Edit.setVersion, id]
  repeat' split
  all_goals simp_all

/-- a dependency expression is editable in all three section types: DXE (0x13), PEI (0x1B), MM (0x1C) -/
theorem setDepex_touches (old new : List DepOp) (i : FileInfo) (s : SecInfo) :
    (Edit.setDepex old new).file i = i ∧
      (Edit.setDepex old new).sec s =
        (if (s.type = 0x13 ∨ s.type = 0x1b ∨ s.type = 0x1c) ∧ s.depex = old then { s with depex := new } else s) := by
  obtain ⟨sz, ty, ex, fo, ts, nm, bd, vs, dx⟩ := s
  refine ⟨rfl, ?_⟩
  simp only [Edit.sec, Edit.setDepex, id, isDepexType]
  by_cases h0 : ty = 21
  · simp [h0]
  by_cases h1 : ty = 20
  · simp [h1]
  by_cases h2 : (ty = 19 ∨ ty = 27) ∨ ty = 28
  · have h2' : ty = 19 ∨ ty = 27 ∨ ty = 28 := by omega
    by_cases h3 : dx = old <;> simp [h0, h1, h2, h2', h3]
  · have h2' : ¬ (ty = 19 ∨ ty = 27 ∨ ty = 28) := by omega
    simp [h0, h1, h2, h2']

/-- C07b end to end, the GUID of a file rebuilt from its sections -/
theorem edit_file_guid_direct (h : Hooks) (junk : FileInfo → Nat) (old new : Guid) (t : Tree) (st : St)
    (hok : okTree t = true) (hw : pwTree t = true) (hp : st.pol = 0xF0 ∨ TopPol st.pol t = true)
    (hn : new.length = 16) (hs : savedOkAll h (edit (Edit.setGuid old new) t) st = true) :
    extractEditSave h junk (Edit.setGuid old new) t = asmWith h (edit (Edit.setGuid old new) t) st :=
  extract_edit_dirsave_eq_direct h junk _ t st hok hw hp (Edit.setGuid_guid16 old new hn) hs

/-- C07b end to end, a UI name -/
theorem edit_ui_name_direct (h : Hooks) (junk : FileInfo → Nat) (old new : List Nat) (t : Tree) (st : St)
    (hok : okTree t = true) (hw : pwTree t = true) (hp : st.pol = 0xF0 ∨ TopPol st.pol t = true)
    (hs : savedOkAll h (edit (Edit.setName old new) t) st = true) :
    extractEditSave h junk (Edit.setName old new) t = asmWith h (edit (Edit.setName old new) t) st :=
  extract_edit_dirsave_eq_direct h junk _ t st hok hw hp (Edit.noGuid_guid16 _ rfl) hs

/-- C07b end to end, a version string / build number -/
theorem edit_version_direct (h : Hooks) (junk : FileInfo → Nat) (old new : Nat × List Nat) (t : Tree) (st : St)
    (hok : okTree t = true) (hw : pwTree t = true) (hp : st.pol = 0xF0 ∨ TopPol st.pol t = true)
    (hs : savedOkAll h (edit (Edit.setVersion old new) t) st = true) :
    extractEditSave h junk (Edit.setVersion old new) t = asmWith h (edit (Edit.setVersion old new) t) st :=
  extract_edit_dirsave_eq_direct h junk _ t st hok hw hp (Edit.noGuid_guid16 _ rfl) hs

/-- C07b end to end, a dependency expression (DXE, PEI and MM depex sections alike) -/
theorem edit_depex_direct (h : Hooks) (junk : FileInfo → Nat) (old new : List DepOp) (t : Tree) (st : St)
    (hok : okTree t = true) (hw : pwTree t = true) (hp : st.pol = 0xF0 ∨ TopPol st.pol t = true)
    (hs : savedOkAll h (edit (Edit.setDepex old new) t) st = true) :
    extractEditSave h junk (Edit.setDepex old new) t = asmWith h (edit (Edit.setDepex old new) t) st :=
  extract_edit_dirsave_eq_direct h junk _ t st hok hw hp (Edit.noGuid_guid16 _ rfl) hs

/-- the edited field reaches the image: an MM depex section (type 0x1C) is regenerated from its
    decoded opcodes like a DXE or PEI one (seeded defect c07-2 removed exactly this) -/
theorem mm_depex_regenerated (i : SecInfo) (ht : i.type = 0x1c) :
    regenLeaf i = (match encodeDepEx i.depex with | some b => .ok (some b) | none => .error .err) := by
  unfold regenLeaf
  rw [if_neg (by rw [ht]; decide), if_neg (by rw [ht]; decide), if_pos (by rw [ht]; decide)]
  rfl

/-! ### follow-up wp-c07b (2): NVAR stores (model: Uefi/ExtractNvar.lean on C10's store model) -/

/-- **`extract_paths_nodup` for NVAR stores**: the paths written for the store of a RAW file — at
    every nesting depth, whatever the variable names are (equal names, names equal in their first 64
    bytes, `/`, `..`, links, invalid entries) — are pairwise distinct, given that the entries of a store
    have pairwise distinct offsets -/
theorem extract_paths_nodup_nvar (d pol : Nat) (dir : List Comp) (hdir : ∀ c ∈ dir, SlashFree c) (i : FileInfo)
    (idx : Nat) (s : Nvram.Store) (ho : OffsDistinct d pol s.entries) :
    (((nvFileEntries d pol dir i idx s).map flat).map Prod.fst).Nodup :=
  nvFileEntries_nodup d pol dir hdir i idx s ho

/-- what `Extract` writes for a RAW file that carries a store: the files of the NVar arm for the store
    read from the file's own bytes, below `DIR/…/<file GUID>/<index>` -/
theorem extract_nvar_file (pol : Nat) (dir : List Comp) (idx : Nat) (i : FileInfo) (buf : Bytes) (secs : List Section)
    (nv : NvStore) (hn : i.nvar = some nv) :
    exFile pol dir idx (.mk i buf secs) =
      (match Nvram.parseStore pol (buf.drop i.dataOffset) with
       | .ok s => nvFileEntries (Nvram.depthFuel s) pol dir i idx s
       | .error _ => []) := by
  simp only [exFile, hn, nvOfFile, nvFileEntries]
  cases Nvram.parseStore pol (buf.drop i.dataOffset) <;> rfl

/-- every one of them lies strictly below the directory of the file (`DIR/…/GUID/index`): nothing is
    written outside it -/
theorem nvar_paths_below_file_dir (d pol : Nat) (dir : List Comp) (i : FileInfo) (idx : Nat) (s : Nvram.Store) :
    ∀ e ∈ nvFileEntries d pol dir i idx s, Ext (fileDir dir i idx) e.1 :=
  nvEntries_below d pol (fileDir dir i idx) s.entries

/-- **directory round trip of a store** (no nested store, names valid UTF-8): `Assemble` on what
    `ParseDir` rebuilds is `Assemble` on the parsed store -/
theorem nvar_dir_roundtrip (pol : Nat) (rec : Nvram.Store → Except Nvram.Err Nvram.Store) (s : Nvram.Store)
    (hn : ∀ v ∈ s.entries, validUtf8 v.name = true) :
    Nvram.asmStoreWith pol rec { s with entries := nvLoadAll s.entries, buf := [] } = Nvram.asmStoreWith pol rec s :=
  asmStoreWith_load pol rec s hn

/-- **directory round trip of a store, nested stores included** (any depth): `Assemble` on the tree
    `ParseDir` loads — a valid entry whose value is a store has the buffer `make([]byte, DataOffset)` and
    takes its content from the assembled `NVarStore` child summary.json recorded for it — does exactly
    what C10's `asmStore` does on the parsed store, errors included, when every name at every level is
    valid UTF-8 -/
theorem nvar_dir_roundtrip_nested (pol d : Nat) (s : Nvram.Store) (hu : Utf8Deep d pol s.entries) :
    asmDirStore pol d s = Nvram.asmStore pol d s :=
  asmDirStore_eq pol d s hu

/-- non-vacuity of `Utf8Deep`: a store with an ASCII name and no nested store -/
example : Utf8Deep 2 0xFF [{ f1Var with name := [0x41] }] :=
  ⟨by decide, fun v hv ns hns => by
    simp only [List.mem_singleton] at hv
    subst hv
    have hnone : Nvram.nestedOf 0xFF { f1Var with name := [0x41] } = none := by decide
    rw [hnone] at hns
    cases hns⟩

/-- **F-C07-1** (known finding, kept as the explicit exception): a CHAR8 name that is not valid UTF-8
    comes back from summary.json as U+FFFD and the reloaded entry is refused -/
theorem nvar_nonutf8_name_not_reloadable :
    validUtf8 f1Var.name = false ∧ jsonName f1Var.name = [0xEF, 0xBF, 0xBD] ∧
      (Nvram.asmNVar 0xFF f1Var (Nvram.content f1Var) true).toOption.isSome = true ∧
      (Nvram.asmNVar 0xFF (nvLoad f1Var (Nvram.content f1Var)) (Nvram.content f1Var) true).toOption.isSome = false :=
  f_c07_1_witness

/-- non-vacuity of the NVAR part of `extract_paths_nodup`: a parsed image whose RAW file carries a
    store with two variables of one name; `Extract` writes `…/A-0x0.bin` and `…/A-0xe.bin` -/
theorem sample_nvar_holds : NvSample.bytes.length = 184 ∧ NvSample.holds = true := NvSample.sample_nvar_holds

/-- the hypothesis `OffsDistinct` holds of every store `NewNVarStore` returns -/
theorem nvar_parsed_offsets_distinct (pol d : Nat) (b : Bytes) (s : Nvram.Store) (hp : Nvram.parseStore pol b = .ok s) :
    OffsDistinct d pol s.entries := parsed_offsDistinct pol d b s hp

/-- non-vacuity: two entries of one name at different offsets -/
example : OffsDistinct 1 0xFF [f1Var, { f1Var with offset := 14 }] :=
  ⟨by decide, fun _ _ _ _ => trivial⟩
example : validUtf8 [0x41, 0xC3, 0xA9] = true := by decide

/-! ### the hypotheses are inhabited -/

open Spec in
def g (n : Nat) : Guid := (List.range 16).map (fun i => UInt8.ofNat (n + i))

open Spec in
def innerFv : FvI :=
  .ffs (List.replicate 16 0) false 0x0004FEFF 2 0 [⟨19, 8⟩] none
    [ .sect (g 1) 7 0 0xF8 [.ui [0x49, 0x6E], .leaf 0x19 false [9, 9]] ] 38

open Spec in
/-- a volume with three files of the *same* GUID: a RAW leaf file; a driver with a UI section, a
    version section, a dependency section and a raw section; and a volume-image file whose nested
    volume again holds a file of that GUID -/
def sampleFv : FvI :=
  .ffs (List.replicate 16 0) false 0x0004FEFF 2 0 [⟨51, 8⟩] none
    [ .leaf (g 1) 0 0xAA 1 0 0xF8 false [1, 2, 3, 4, 5, 6, 7, 8],
      .sect (g 1) 7 0x40 0xF8 [.ui [0x41, 0x42], .version 7 [0x31], .depex 0x13 [⟨2, some (g 3)⟩, ⟨8, none⟩],
                               .leaf 0x19 false [1, 2, 3, 4, 5]],
      .sect (g 1) 11 0 0xF8 [.fvimg innerFv] ] 36

open Spec in
/-- two such volumes with padding in between: 835 bytes -/
def sampleImg : Img := .bios ⟨[([], sampleFv), (List.replicate 16 0xFF, sampleFv)], [0xFF, 0xFF, 0xFF]⟩

def sampleBytes : Bytes := Spec.ser sampleImg

/-- the parsed sample has unique sibling keys, is extractable, and the parser leaves its polarity;
    extracting and reassembling it gives the image back -/
def sampleHolds : Bool :=
  match parseWith Hooks.none (defaultFuel sampleBytes) sampleBytes {} with
  | .ok (t, st) =>
    pwTree t && okTree t && TopPol st.pol t && savedOkAll Hooks.none t st && (extractDir t).length == 20 &&
      (match extractSave Hooks.none goJunk t with
       | .ok out => out == sampleBytes
       | .error _ => false)
  | .error _ => false

theorem sample_holds : Spec.wf sampleImg = true ∧ sampleHolds = true := by decide +kernel

/-- the same for a 16 KiB flash image with descriptor, ME region, gap and BIOS region (an MM depex
    section inside): every hypothesis of the theorems above, `savedOkAll` included, holds and the
    directory round trip returns the image (Uefi/ExtractTwiceSample.lean) -/
theorem sample_flash_holds : TwiceSample.sampleBytes.length = 16384 ∧ TwiceSample.sampleFlashHolds = true :=
  TwiceSample.sample_flash_holds

end Fiano.Uefi.C07
