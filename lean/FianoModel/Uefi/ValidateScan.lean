/-
  C09b, locality of the parser — part 3: the volume scan of `NewBIOSRegion`
  (`FindFirmwareVolumeOffset`: probes for `_FVH` at 32, 40, 48, … of what is left of the region) and the
  element loop.  An altered byte inside the k-th volume of a region leaves the scan and the lengths of the
  volumes before it alone; the scan still finds the k-th volume where it was unless the altered byte
  belongs to the signature itself or makes `_FVH` appear at an earlier probe (`NewSig`: the one
  exception, known finding F-C09-zerovector).
  Core Lean only.
-/
import FianoModel.Uefi.ValidateLocalFv

namespace Fiano.Uefi
open Fiano Fiano.Uefi.Spec

/-! ### the probe loop -/

theorem scanSig_lt : ∀ (n off : Nat) (d : Bytes) (t : Nat), scanSig n off d = some t → t - off + 4 < d.length
  | 0, _, _, _, h => by simp [scanSig] at h
  | n+1, off, d, t, h => by
    simp only [scanSig] at h
    split at h
    · rename_i hl
      split at h
      · simp only [Option.some.injEq] at h; omega
      · have h1 := scanSig_lt n (off + 8) (d.drop 8) t h
        have h2 := scanSig_ge n (off + 8) (d.drop 8) t h
        rw [List.length_drop] at h1
        omega
    · simp at h

/-- the scan over altered bytes: it stops at the same probe `t` when the altered byte lies behind the four
    bytes seen there, or in front of them without making the probe that covers it see `_FVH` -/
theorem scanSig_alter : ∀ (n off : Nat) (d d' : Bytes) (t x : Nat),
    scanSig n off d = some t → Alter d d' x →
    (t - off + 4 ≤ x ∨ (x < t - off ∧ isFvSig (d'.drop (x / 8 * 8)) = false)) →
    scanSig n off d' = some t
  | 0, _, _, _, _, _, h, _, _ => by simp [scanSig] at h
  | n+1, off, d, d', t, x, h, ha, hx => by
    simp only [scanSig] at h ⊢
    have el : d'.length = d.length := ha.length_eq
    by_cases hl : 4 < d.length
    · simp only [hl, if_true] at h
      simp only [el, hl, if_true]
      by_cases hs : isFvSig d = true
      · simp only [hs, if_true, Option.some.injEq] at h
        subst h
        have h4 : 4 ≤ x := by rcases hx with h | h <;> omega
        have : isFvSig d' = isFvSig d :=
          isFvSig_congr _ _ (by omega) (by omega) (ha.take_le h4)
        simp only [this, hs, if_true]
      · simp only [hs, if_false] at h
        have hge := scanSig_ge n (off + 8) (d.drop 8) t h
        have hs' : isFvSig d' = false := by
          by_cases h4 : 4 ≤ x
          · have : isFvSig d' = isFvSig d := isFvSig_congr _ _ (by omega) (by omega) (ha.take_le h4)
            rw [this]; simpa using hs
          · rcases hx with h1 | ⟨_, h2⟩
            · omega
            · have e0 : x / 8 * 8 = 0 := by omega
              rw [e0, List.drop_zero] at h2
              exact h2
        simp only [hs', Bool.false_eq_true, if_false]
        by_cases h8 : x < 8
        · rw [ha.drop_gt h8]; exact h
        · have ha8 : Alter (d.drop 8) (d'.drop 8) (x - 8) := ha.drop_le (by omega)
          apply scanSig_alter n (off + 8) (d.drop 8) (d'.drop 8) t (x - 8) h ha8
          rcases hx with h1 | ⟨h1, h2⟩
          · left; omega
          · right
            refine ⟨by omega, ?_⟩
            rw [List.drop_drop]
            have e : 8 + (x - 8) / 8 * 8 = x / 8 * 8 := by omega
            rw [e]; exact h2
    · simp [hl] at h

theorem findFvOffset_some_iff (d : Bytes) (off : Nat) : findFvOffset d = some off ↔
    (32 ≤ d.length ∧ scanSig (d.length / 8 + 1) 32 (d.drop 32) = some (off + 40)) := by
  unfold findFvOffset
  by_cases hl : d.length < 32
  · simp [hl]; omega
  simp only [hl, if_false]
  cases hs : scanSig (d.length / 8 + 1) 32 (d.drop 32) with
  | none => simp
  | some o =>
    have := scanSig_ge _ _ _ _ hs
    by_cases h40 : o < 40
    · simp only [h40, if_true]
      constructor
      · intro h; simp at h
      · intro ⟨_, h⟩; simp only [Option.some.injEq] at h; omega
    · simp only [h40, if_false, Option.some.injEq]
      constructor
      · intro h; exact ⟨by omega, by omega⟩
      · intro ⟨_, h⟩; omega

/-- a volume the scan finds has its signature inside the buffer -/
theorem findFvOffset_lt {d : Bytes} {off : Nat} (h : findFvOffset d = some off) : off + 44 < d.length := by
  obtain ⟨_, hs⟩ := (findFvOffset_some_iff d off).mp h
  have := scanSig_lt _ _ _ _ hs
  rw [List.length_drop] at this
  omega

/-- **the scan is local**: it finds the volume at `off` again when the altered byte lies behind the
    volume's signature, or in front of it without making a signature appear at an earlier probe -/
theorem findFvOffset_alter_stable {d d' : Bytes} {off x : Nat} (h0 : findFvOffset d = some off) (ha : Alter d d' x)
    (hx : off + 44 ≤ x ∨ (x < off + 40 ∧ ¬ NewSig d' x)) : findFvOffset d' = some off := by
  obtain ⟨hl, hs⟩ := (findFvOffset_some_iff d off).mp h0
  refine (findFvOffset_some_iff d' off).mpr ⟨by rw [ha.length_eq]; exact hl, ?_⟩
  rw [ha.length_eq]
  by_cases h32 : x < 32
  · rw [ha.drop_gt h32]; exact hs
  · have ha' : Alter (d.drop 32) (d'.drop 32) (x - 32) := ha.drop_le (by omega)
    apply scanSig_alter _ _ _ _ _ _ hs ha'
    rcases hx with h1 | ⟨h1, h2⟩
    · left; omega
    · right
      refine ⟨by omega, ?_⟩
      rw [List.drop_drop]
      unfold NewSig at h2
      cases hsig : isFvSig (d'.drop (32 + (x - 32) / 8 * 8))
      · rfl
      · exact absurd ⟨by omega, hsig⟩ h2

/-! ### the element loop of a BIOS region -/

theorem nthVol_shift : ∀ (es : List BiosElem) (k base cur d : Nat),
    nthVol es k (base + d) (cur + d) = (nthVol es k base cur).map (fun r => (r.1 + d, r.2.1 + d, r.2.2))
  | [], _, _, _, _ => rfl
  | .pad buf _ :: es, k, base, cur, d => by
    simp only [nthVol]
    have : cur + d + buf.length = cur + buf.length + d := by omega
    rw [this]
    exact nthVol_shift es k base (cur + buf.length) d
  | .fv v :: es, 0, base, cur, d => rfl
  | .fv v :: es, k+1, base, cur, d => by
    simp only [nthVol]
    have : cur + d + v.info.length = cur + v.info.length + d := by omega
    rw [this]
    exact nthVol_shift es k (cur + v.info.length) (cur + v.info.length) d

/-- one iteration of the loop of `NewBIOSRegion` that found a volume, inverted -/
theorem parseBiosElems_some_inv {h : Hooks} {fuel : Nat} {buf : Bytes} {abs off : Nat} {st st1 : St}
    {es : List BiosElem} (hp : parseBiosElems h fuel buf abs st = .ok (es, st1)) (h0 : findFvOffset buf = some off) :
    ∃ fuel0 fv st2 es2, fuel = fuel0 + 1 ∧
      parseFv h fuel0 (buf.drop off) (abs + off) false st = .ok (fv, st2) ∧ fv.info.length ≠ 0 ∧
      parseBiosElems h fuel0 (buf.drop (off + fv.info.length)) (abs + off + fv.info.length) st2 = .ok (es2, st1) ∧
      es = (if off > 0 then [BiosElem.pad (buf.take off) abs] else []) ++ .fv fv :: es2 := by
  cases fuel with
  | zero => simp [parseBiosElems] at hp
  | succ fuel0 =>
    rw [parseBiosElems] at hp
    simp only [h0] at hp
    cases hpf : parseFv h fuel0 (buf.drop off) (abs + off) false st with
    | error e => rw [hpf] at hp; simp at hp
    | ok r =>
      obtain ⟨fv, st2⟩ := r
      rw [hpf] at hp
      simp only at hp
      by_cases hz : fv.info.length = 0
      · simp [hz] at hp
      · simp only [hz, if_false] at hp
        cases hrest : parseBiosElems h fuel0 (buf.drop (off + fv.info.length)) (abs + off + fv.info.length) st2 with
        | error e => rw [hrest] at hp; simp at hp
        | ok r2 =>
          obtain ⟨es2, st3⟩ := r2
          rw [hrest] at hp
          simp only [Except.ok.injEq, Prod.mk.injEq] at hp
          obtain ⟨rfl, rfl⟩ := hp
          exact ⟨fuel0, fv, st2, es2, rfl, hpf, hz, hrest, rfl⟩

theorem parseBiosElems_none_inv {h : Hooks} {fuel : Nat} {buf : Bytes} {abs : Nat} {st st1 : St}
    {es : List BiosElem} (hp : parseBiosElems h fuel buf abs st = .ok (es, st1)) (h0 : findFvOffset buf = none) :
    es = (if buf.length ≠ 0 then [BiosElem.pad buf abs] else []) := by
  cases fuel with
  | zero => simp [parseBiosElems] at hp
  | succ fuel0 =>
    rw [parseBiosElems] at hp
    simp only [h0, Except.ok.injEq, Prod.mk.injEq] at hp
    exact hp.1.symm

theorem vBiosElems_pre_fv (pol : UInt8) (off abs : Nat) (b : Bytes) (fv : Fv) (es : List BiosElem) :
    vBiosElems pol ((if off > 0 then [BiosElem.pad b abs] else []) ++ .fv fv :: es) =
      vFv fv ++ (if polOfAttrs fv.info.attrs ≠ pol then [VErr.polarity] else []) ++ vBiosElems pol es := by
  by_cases ho : off > 0
  · simp only [ho, if_true, List.cons_append, List.nil_append, vBiosElems]
  · simp only [ho, if_false, List.nil_append, vBiosElems]

theorem nthVol_pre_fv (off abs : Nat) (b : Bytes) (hb : b.length = off) (fv : Fv) (es : List BiosElem) (k : Nat) :
    nthVol ((if off > 0 then [BiosElem.pad b abs] else []) ++ .fv fv :: es) k 0 0 = nthVol (.fv fv :: es) k 0 off := by
  by_cases ho : off > 0
  · simp only [ho, if_true, List.cons_append, List.nil_append, nthVol, hb, Nat.zero_add]
  · have : off = 0 := by omega
    subst this
    simp only [ho, if_false, List.nil_append]

set_option maxRecDepth 8192 in
/-- **element loop**: the loop over `buf` found the elements `es` and all volumes pass; one byte inside the
    `k`-th volume is altered; if the scan still finds that volume where it was (automatic when the byte lies
    behind the signature) and every volume the parser can report at that offset of the altered bytes fails,
    so does the list the loop over the altered bytes reports (whenever it succeeds) — from any process state,
    with any budget, against any polarity. -/
theorem biosElems_detect (h : Hooks) : ∀ (k fuel : Nat) (buf buf' : Bytes) (abs : Nat) (st st1 : St)
    (es : List BiosElem) (pol : UInt8) (base cur : Nat) (v : Fv) (q : Nat),
    parseBiosElems h fuel buf abs st = .ok (es, st1) → vBiosElems pol es = [] →
    nthVol es k 0 0 = some (base, cur, v) →
    Alter buf buf' (cur + q) → q < v.info.length →
    (q < 44 → findFvOffset (buf'.drop base) = some (cur - base)) →
    (∀ fuel' off' rs' st' fv' st2, parseFv h fuel' (buf'.drop cur) off' rs' st' = .ok (fv', st2) → vFv fv' ≠ []) →
    ∀ fuel' abs' st' es' st2 pol', parseBiosElems h fuel' buf' abs' st' = .ok (es', st2) → vBiosElems pol' es' ≠ [] := by
  intro k
  induction k with
  | zero =>
    intro fuel buf buf' abs st st1 es pol base cur v q hp hv hn ha hq hscan inner fuel' abs' st' es' st2 pol' hp'
    cases h0 : findFvOffset buf with
    | none =>
      rw [parseBiosElems_none_inv hp h0] at hn
      split at hn <;> simp [nthVol] at hn
    | some off =>
      obtain ⟨fuel0, fv, st2o, es2, rfl, hpf, hz, hrest, rfl⟩ := parseBiosElems_some_inv hp h0
      have hoff := findFvOffset_lt h0
      rw [nthVol_pre_fv off abs _ (by rw [List.length_take]; omega)] at hn
      simp only [nthVol, Option.some.injEq, Prod.mk.injEq] at hn
      obtain ⟨rfl, rfl, rfl⟩ := hn
      have h0' : findFvOffset buf' = some off := by
        by_cases h44 : q < 44
        · have := hscan h44
          simpa using this
        · exact findFvOffset_alter_stable h0 ha (Or.inl (by omega))
      obtain ⟨fuel0', fv', st3, es2', rfl, hpf', _, _, rfl⟩ := parseBiosElems_some_inv hp' h0'
      have hbad := inner _ _ _ _ _ _ hpf'
      rw [vBiosElems_pre_fv]
      intro e
      simp only [List.append_eq_nil_iff] at e
      exact hbad e.1.1
  | succ k ih =>
    intro fuel buf buf' abs st st1 es pol base cur v q hp hv hn ha hq hscan inner fuel' abs' st' es' st2 pol' hp'
    cases h0 : findFvOffset buf with
    | none =>
      rw [parseBiosElems_none_inv hp h0] at hn
      split at hn <;> simp [nthVol] at hn
    | some off =>
      obtain ⟨fuel0, fv, st2o, es2, rfl, hpf, hz, hrest, rfl⟩ := parseBiosElems_some_inv hp h0
      have hoff := findFvOffset_lt h0
      rw [nthVol_pre_fv off abs _ (by rw [List.length_take]; omega)] at hn
      simp only [nthVol] at hn
      have hsh := nthVol_shift es2 k 0 0 (off + fv.info.length)
      simp only [Nat.zero_add] at hsh
      rw [hsh] at hn
      cases hn0 : nthVol es2 k 0 0 with
      | none => rw [hn0] at hn; simp at hn
      | some r =>
        obtain ⟨b0, c0, v0⟩ := r
        rw [hn0] at hn
        simp only [Option.map_some, Option.some.injEq, Prod.mk.injEq] at hn
        obtain ⟨rfl, rfl, rfl⟩ := hn
        -- the volume in front passes: it is at least 64 bytes long
        rw [vBiosElems_pre_fv] at hv
        simp only [List.append_eq_nil_iff] at hv
        obtain ⟨⟨hvfv, _⟩, hvrest⟩ := hv
        have okn := (validateFvNode_nil_iff _ _).mp (vFv_nil hvfv).1
        obtain ⟨_, hL, hbuf, hlen, _⟩ := parseFv_ok_fields _ _ _ _ _ _ _ _ hpf
        have hL64 : 64 ≤ fv.info.length := by rw [okn.length]; exact okn.len
        have h0' : findFvOffset buf' = some off := findFvOffset_alter_stable h0 ha (Or.inl (by omega))
        obtain ⟨fuel0', fv', st3, es2', rfl, hpf', _, hrest', rfl⟩ := parseBiosElems_some_inv hp' h0'
        -- the altered parse of the volume in front reports the same length
        have ha1 : Alter (buf.drop off) (buf'.drop off) (c0 + (off + fv.info.length) + q - off) := ha.drop_le (by omega)
        obtain ⟨_, _, _, hlen', _⟩ := parseFv_ok_fields _ _ _ _ _ _ _ _ hpf'
        have e32 : rd (buf'.drop off) 32 8 = rd (buf.drop off) 32 8 := ha1.rd_eq (by omega)
        have hlen'' : fv'.info.length = fv.info.length := by rw [hlen', e32, ← hlen]
        rw [hlen''] at hrest'
        have ha2 : Alter (buf.drop (off + fv.info.length)) (buf'.drop (off + fv.info.length)) (c0 + q) := by
          have := ha.drop_le (n := off + fv.info.length) (by omega)
          have e : c0 + (off + fv.info.length) + q - (off + fv.info.length) = c0 + q := by omega
          rwa [e] at this
        have hbad := ih fuel0 _ _ _ st2o st1 es2 pol b0 c0 v0 q hrest hvrest hn0 ha2 hq
          (by
            intro h44
            have := hscan h44
            rw [List.drop_drop]
            have e1 : off + fv.info.length + b0 = b0 + (off + fv.info.length) := by omega
            have e2 : c0 + (off + fv.info.length) - (b0 + (off + fv.info.length)) = c0 - b0 := by omega
            rw [e1, ← e2]; exact this)
          (by
            intro fuel'' off'' rs'' st'' fv'' st2'' hpp
            rw [List.drop_drop] at hpp
            have e1 : off + fv.info.length + c0 = c0 + (off + fv.info.length) := by omega
            rw [e1] at hpp
            exact inner _ _ _ _ _ _ hpp)
          _ _ _ _ _ pol' hrest'
        rw [vBiosElems_pre_fv]
        intro e
        simp only [List.append_eq_nil_iff] at e
        exact hbad e.2

/-- the volume `nthVol` selects passes when the element list does -/
theorem nthVol_vFv (pol : UInt8) : ∀ (es : List BiosElem) (k base cur : Nat) (r : Nat × Nat × Fv),
    nthVol es k base cur = some r → vBiosElems pol es = [] → vFv r.2.2 = []
  | [], _, _, _, _, h, _ => by simp [nthVol] at h
  | .pad _ _ :: es, k, base, cur, r, h, hv => by
    simp only [nthVol] at h
    simp only [vBiosElems] at hv
    exact nthVol_vFv pol es k _ _ r h hv
  | .fv v :: es, 0, base, cur, r, h, hv => by
    simp only [nthVol, Option.some.injEq] at h
    subst h
    simp only [vBiosElems, List.append_eq_nil_iff] at hv
    exact hv.1.1
  | .fv v :: es, k+1, base, cur, r, h, hv => by
    simp only [nthVol] at h
    simp only [vBiosElems, List.append_eq_nil_iff] at hv
    exact nthVol_vFv pol es k _ _ r h hv.2

end Fiano.Uefi
