/-
  Driver extension of property C03 (gap closing round 2): selectors that are regular expressions.

  The model does not contain a regular-expression engine (Visitors.lean: a selection predicate is an
  arbitrary `Pred`).  The harness decides which texts a pattern names — with Go's `regexp`, anchored by
  the harness itself, over every GUID text, volume name and UI name that occurs in the input image or in
  a file handed to an operation (harness/props/uefiedit/selre.go) — and passes the *match set* in the
  selector field.  The predicate built from a match set compares exactly (case folding was done by the
  engine that produced the set):

    <sel> = cp.cp.…            literal selector (FianoModel/Uefi/EditDrv.lean, unchanged)
          | =<text>+<text>+…   match set, <text> = cp.cp.… or "-" (the empty text); "=" alone = empty set

  A section that is not a UI section has the name "" in fiano (Section.Name) and in the model
  (`SectionInfo.name = []`); a match set that holds the empty text selects through every section, as
  `FindFilePredicate` does.

  Requests: as EditDrv.  Words without "=" are parsed by EditDrv.parseOp itself.
-/
import FianoModel.Uefi.EditDrv

namespace Fiano.Uefi.EditDrvSel
open Fiano Fiano.Uefi Fiano.Uefi.EditDrv

def parseSet (s : String) : Option (List (List Nat)) :=
  if s = "" then some [] else (s.splitOn "+").mapM parseCps

/-- `FindFilePredicate(r)` for a pattern whose match set is `set` -/
def setFilePred (set : List (List Nat)) : Pred :=
  { file := fun f => set.contains (guidText f.info.guid),
    sec := fun s => set.contains s.info.name }

/-- `FindFileFVPredicate(r)` for a pattern whose match set is `set` -/
def setFvPred (set : List (List Nat)) : Pred :=
  { fv := fun v => set.contains (guidText v.info.fvName),
    file := fun f => set.contains (guidText f.info.guid),
    sec := fun s => set.contains s.info.name }

/-- the selector field of an operation word: `some set` for a match set, `none` if it is malformed -/
def parseSelSet (sel : String) : Option (List (List Nat)) :=
  if sel.startsWith "=" then parseSet (String.ofList (sel.toList.drop 1)) else none

def parseOp (w : String) : Option OpSpec :=
  if !(w.contains '=') then EditDrv.parseOp w else
  match w.splitOn ":" with
  | ["if", wh, sel, blob] =>
    match parseWhere wh, parseSelSet sel, parseHex blob with
    | some wh, some set, some blob => some (.insertFile (setFvPred set) wh blob)
    | _, _, _ => none
  | ["ip", wh, sel, size] =>
    match parseWhere wh, parseSelSet sel, size.toNat? with
    | some .replace, _, _ => none
    | some wh, some set, some size => some (.insertPad (setFvPred set) wh size)
    | _, _, _ => none
  | ["rm", sel] => (parseSelSet sel).map (fun s => .remove (setFilePred s) false)
  | ["rp", sel] => (parseSelSet sel).map (fun s => .remove (setFilePred s) true)
  | ["pe", sel, body] =>
    match parseSelSet sel, parseHex body with
    | some set, some body => some (.replacePe32 (setFilePred set) body)
    | _, _ => none
  | ["find", sel] => (parseSelSet sel).map (fun s => .ro (.find (setFilePred s)))
  | ["cat", sel] => (parseSelSet sel).map (fun s => .ro (.cat (setFilePred s)))
  | ["dump", sel] => (parseSelSet sel).map (fun s => .ro (.dump (setFilePred s)))
  | _ => none

def withRun (img : String) (ops : List String) (k : List Op → Run → String) : String :=
  match parseHex img, ops.mapM parseOp with
  | some image, some specs =>
    match cliParse hooks specs {} with
    | .error e => "cli:" ++ errName e
    | .ok (ops, st) =>
      match parseWith hooks (defaultFuel image) image st with
      | .error e => "parse:" ++ errName e
      | .ok (t, st') => k ops { tree := t, st := st' }
  | _, _ => "bad-op"

def handle : List String → String
  | "run" :: img :: ops => withRun img ops fun ops s =>
    let (status, _, s') := trace ops s []
    s!"{status} {savedText s'.outs}"
  | "steps" :: img :: ops => withRun img ops fun ops s =>
    let (status, recs, _) := trace ops s []
    s!"{status} {digestOf s.tree} {if recs.isEmpty then "-" else joinWith "," recs}"
  | "steptree" :: k :: img :: ops =>
    match k.toNat? with
    | none => "bad-op"
    | some k => withRun img ops fun ops s =>
      let (_, _, s') := trace (ops.take k) s []
      s!"ok {dumpText s'.tree}"
  | req => EditDrv.handle req

end Fiano.Uefi.EditDrvSel
