/-
  Line protocol of C02's driver: everything of FianoModel/Uefi/EditDrv.lean, and

    run2 <image-hex> <op>…     one `utk <image> <op>…` where <op> may also be
                                 cfv:<abs>:<size>:<hex16>      create-fv <abs> <size> <name>
            → the answers of `run` ("cli:…" | "parse:…" | "<status> <saved>")
-/
import FianoModel.Uefi.EditDrv
import FianoModel.Uefi.CreateFv

namespace Fiano.Uefi.CreateFvDrv
open Fiano Fiano.Uefi Fiano.Uefi.EditDrv

def parseOp2 (w : String) : Option OpSpec2 :=
  match w.splitOn ":" with
  | ["cfv", a, z, n] =>
    match a.toNat?, z.toNat?, parseHex n with
    | some a, some z, some n => if n.length = 16 then some (.createFv a z n) else none
    | _, _, _ => none
  | _ => (parseOp w).map .base

/-- the run, one visitor at a time; returns the status and the final state -/
def trace2 : List Op2 → Run → String × Run
  | [], s => ("ok", s)
  | op :: ops, s =>
    match step2 hooks op s with
    | .error e => (errName e, s)
    | .ok s' => trace2 ops s'

def handle : List String → String
  | "run2" :: img :: ops =>
    match parseHex img, ops.mapM parseOp2 with
    | some image, some specs =>
      match cliParse2 hooks specs {} with
      | .error e => "cli:" ++ errName e
      | .ok (ops, st) =>
        match parseWith hooks (defaultFuel image) image st with
        | .error e => "parse:" ++ errName e
        | .ok (t, st') =>
          let (status, s') := trace2 ops { tree := t, st := st' }
          s!"{status} {savedText s'.outs}"
    | _, _ => "bad-op"
  | req => EditDrv.handle req

end Fiano.Uefi.CreateFvDrv
