/-
  C02 (follow-up wp-c02b): `ReadAlike`, decided.  `readAlikeB t` is the executable form of the
  hypothesis of `parse_establishes_TreeOk` (`readAlikeB_sound`).
-/
import FianoModel.Uefi.ParseOk11

namespace Fiano.Uefi
open Fiano
open EditArith

def isPow2Lt32 (s : Nat) : Bool := (List.range 32).any (fun k => s == 2 ^ k)

theorem isPow2Lt32_sound (s : Nat) (h : isPow2Lt32 s = true) : ∃ k, s = 2 ^ k ∧ k < 32 := by
  unfold isPow2Lt32 at h
  rw [List.any_eq_true] at h
  obtain ⟨k, hk, he⟩ := h
  exact ⟨k, by simpa using he, by simpa using hk⟩

mutual
def secRAb : Section → Bool
  | .mk i _ encap => (knownSection i.type || i.size3 != 0xFFFFFF) && (if i.type = 0x17 then nodesRAb encap else true)
def nodesRAb : List Node → Bool
  | [.fv v] => fvRAb v
  | _ => true
def secsRAb : List Section → Bool
  | [] => true
  | s :: ss => secRAb s && secsRAb ss
def fileRAb : File → Bool
  | .mk _ _ secs => secsRAb secs
def filesRAb : List File → Bool
  | [] => true
  | f :: fs => fileRAb f && filesRAb fs
def fvRAb : Fv → Bool
  | .mk i _ files =>
    (!i.resizable || (match i.blocks with
                      | [b0] => isPow2Lt32 b0.size
                      | _ => false)) &&
    filesRAb files
end

mutual
theorem secRAb_sound : ∀ (s : Section), secRAb s = true → SecRA s
  | .mk i buf encap, h => by
    rw [secRAb] at h
    simp only [Bool.and_eq_true, Bool.or_eq_true, bne_iff_ne, ne_eq] at h
    rw [SecRA]
    refine ⟨h.1, ?_⟩
    by_cases h17 : i.type = 0x17
    · rw [if_pos h17]
      have := h.2
      rw [if_pos h17] at this
      exact nodesRAb_sound encap this
    · rw [if_neg h17]; trivial
theorem nodesRAb_sound : ∀ (ns : List Node), nodesRAb ns = true → NodesRA ns
  | [.fv v], h => by rw [nodesRAb] at h; rw [NodesRA]; exact fvRAb_sound v h
  | [], _ => by rw [NodesRA]; trivial; intro v hv; cases hv
  | .sec _ :: _, _ => by rw [NodesRA]; trivial; intro v hv; cases hv
  | .fv _ :: _ :: _, _ => by rw [NodesRA]; trivial; intro v hv; cases hv
theorem secsRAb_sound : ∀ (ss : List Section), secsRAb ss = true → SecsRA ss
  | [], _ => by rw [SecsRA]; trivial
  | s :: ss, h => by
    rw [secsRAb, Bool.and_eq_true] at h
    rw [SecsRA]
    exact ⟨secRAb_sound s h.1, secsRAb_sound ss h.2⟩
theorem fileRAb_sound : ∀ (f : File), fileRAb f = true → FileRA f
  | .mk i buf secs, h => by
    rw [fileRAb] at h
    rw [FileRA]
    exact secsRAb_sound secs h
theorem filesRAb_sound : ∀ (fs : List File), filesRAb fs = true → FilesRA fs
  | [], _ => by rw [FilesRA]; trivial
  | f :: fs, h => by
    rw [filesRAb, Bool.and_eq_true] at h
    rw [FilesRA]
    exact ⟨fileRAb_sound f h.1, filesRAb_sound fs h.2⟩
theorem fvRAb_sound : ∀ (v : Fv), fvRAb v = true → FvRA v
  | .mk i buf files, h => by
    rw [fvRAb] at h
    simp only [Bool.and_eq_true, Bool.or_eq_true, beq_iff_eq, decide_eq_true_eq, Bool.not_eq_true'] at h
    rw [FvRA]
    refine ⟨fun hr => ?_, filesRAb_sound files h.2⟩
    · rcases h.1 with c | c
      · rw [hr] at c; cases c
      · split at c
        · rename_i b0 hb
          obtain ⟨k, hk1, hk2⟩ := isPow2Lt32_sound _ c
          exact ⟨b0, k, hb, hk1, hk2⟩
        · cases c
end

def elemsRAb : List BiosElem → Bool
  | [] => true
  | .pad _ _ :: es => elemsRAb es
  | .fv v :: es => fvRAb v && elemsRAb es

theorem elemsRAb_sound : ∀ (es : List BiosElem), elemsRAb es = true → ElemsRA es
  | [], _ => by rw [ElemsRA]; trivial
  | .pad p o :: es, h => by rw [elemsRAb] at h; rw [ElemsRA]; exact elemsRAb_sound es h
  | .fv v :: es, h => by
    rw [elemsRAb, Bool.and_eq_true] at h
    rw [ElemsRA]
    exact ⟨fvRAb_sound v h.1, elemsRAb_sound es h.2⟩

/-- **`ReadAlike`, executable** -/
def readAlikeB : Tree → Bool
  | .flash f => f.regions.all (fun r => match r with
      | .bios b => elemsRAb b.elems
      | _ => true)
  | .bios b => elemsRAb b.elems

theorem readAlikeB_sound (t : Tree) (h : readAlikeB t = true) : ReadAlike t := by
  cases t with
  | bios b => exact elemsRAb_sound b.elems h
  | flash f =>
    intro b hb
    simp only [readAlikeB, List.all_eq_true] at h
    exact elemsRAb_sound b.elems (h _ hb)

end Fiano.Uefi
