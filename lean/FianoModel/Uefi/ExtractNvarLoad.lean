/-
  NVAR stores: the directory round trip (follow-up wp-c07b).

  For a store without nested stores whose variable names are valid UTF-8, `ParseDir` rebuilds entries
  on which `Assemble` (C10's `asmEntries` / `asmStoreWith`) does exactly what it does on the parsed
  entries — the zero-filled header `make([]byte, DataOffset)` is never read, the value file holds
  `buf[DataOffset:]`, an invalid entry comes back whole.  A name that is not valid UTF-8 does not
  survive `encoding/json` (`jsonName`): the exception F-C07-1, with its witness.

  Not covered here (T2 oracles only): entries whose value is itself a store — Go takes the nested store
  from the `NVarStore` child it unmarshalled, C10's model re-derives it from the entry's content
  (`nestedOf`), which after `ParseDir` is empty for such an entry.
-/
import FianoModel.Uefi.ExtractNvar

namespace Fiano.Uefi
open Fiano

theorem utf8Width_pos (b : Bytes) (w : Nat) (h : utf8Width b = some w) : 1 ≤ w := by
  unfold utf8Width at h
  cases b with
  | nil => cases h
  | cons b0 rest =>
    simp only at h
    repeat' split at h
    all_goals (cases h <;> omega)

theorem jsonNameAux_valid : ∀ (fuel : Nat) (n : Bytes), n.length ≤ fuel → validUtf8Aux fuel n = true →
    jsonNameAux fuel n = n
  | 0, n, hl, _ => by
    have : n = [] := List.eq_nil_of_length_eq_zero (by omega)
    subst this
    rfl
  | fuel + 1, [], _, _ => rfl
  | fuel + 1, b0 :: rest, hl, hv => by
    simp only [validUtf8Aux] at hv
    simp only [jsonNameAux]
    cases hw : utf8Width (b0 :: rest) with
    | none => rw [hw] at hv; cases hv
    | some w =>
      rw [hw] at hv
      simp only at hv ⊢
      have hp := utf8Width_pos _ _ hw
      rw [jsonNameAux_valid fuel ((b0 :: rest).drop w) (by simp only [List.length_drop, List.length_cons] at hl ⊢; omega) hv]
      exact List.take_append_drop w (b0 :: rest)

/-- a name that is valid UTF-8 comes back from summary.json as it was -/
theorem jsonName_valid (n : Bytes) (h : validUtf8 n = true) : jsonName n = n :=
  jsonNameAux_valid n.length n (Nat.le_refl _) h

/-- what `Assemble` reads of a reloaded valid entry: its value -/
theorem nvLoad_content (v : Nvram.NVar) (file : Bytes) (hv : v.type.isValid = true) :
    Nvram.content (nvLoad v file) = file := by
  unfold nvLoad Nvram.content
  simp [hv]

theorem nvLoad_invalid (v : Nvram.NVar) (hn : validUtf8 v.name = true) (hv : v.type.isValid = false) :
    nvLoad v v.buf = v := by
  unfold nvLoad
  simp [hv, jsonName_valid v.name hn]

theorem nvLoad_valid (v : Nvram.NVar) (hn : validUtf8 v.name = true) (hv : v.type.isValid = true) :
    nvLoad v (Nvram.content v) = { v with buf := List.replicate v.dataOffset 0 ++ Nvram.content v } := by
  unfold nvLoad
  simp [hv, jsonName_valid v.name hn]

/-- the rebuild of a valid entry does not look at the old buffer -/
theorem asmNVar_buf (pol : Nat) (v : Nvram.NVar) (b c : Bytes) (ck : Bool) :
    Nvram.asmNVar pol { v with buf := b } c ck = Nvram.asmNVar pol v c ck := by
  unfold Nvram.asmNVar Nvram.guidNamePart
  simp only []
  repeat' split
  all_goals rfl

theorem nestedOf_load (pol : Nat) (v : Nvram.NVar) :
    Nvram.nestedOf pol { v with buf := List.replicate v.dataOffset 0 ++ Nvram.content v } = Nvram.nestedOf pol v := by
  unfold Nvram.nestedOf Nvram.content
  simp

/-- **the directory round trip of a store without nested stores**: `Assemble` on the entries
    `ParseDir` rebuilt does what it does on the parsed entries, errors included -/
theorem asmEntries_load (pol : Nat) (rec : Nvram.Store → Except Nvram.Err Nvram.Store) :
    ∀ (es : List Nvram.NVar), (∀ v ∈ es, validUtf8 v.name = true) →
      Nvram.asmEntries pol rec (nvLoadAll es) = Nvram.asmEntries pol rec es
  | [], _ => rfl
  | v :: t, hn => by
    have ih := asmEntries_load pol rec t (fun w hw => hn w (by simp [hw]))
    have hnv := hn v (by simp)
    unfold nvLoadAll at ih ⊢
    simp only [List.map_cons, Nvram.asmEntries]
    rw [ih]
    by_cases hv : v.type.isValid = true
    · simp only [hv, ↓reduceIte]
      rw [nvLoad_valid v hnv hv, nestedOf_load pol v]
      simp only [hv, ↓reduceIte]
      have hc : Nvram.content { v with buf := List.replicate v.dataOffset 0 ++ Nvram.content v } = Nvram.content v := by
        unfold Nvram.content; simp
      have hb := asmNVar_buf pol v (List.replicate v.dataOffset 0 ++ Nvram.content v)
      simp only [hb, hc]
    · have hv' : v.type.isValid = false := by simpa using hv
      simp only [hv', Bool.false_eq_true, ↓reduceIte]
      rw [nvLoad_invalid v hnv hv']
      simp only [hv', Bool.false_eq_true, ↓reduceIte]

/-- … and so does the NVarStore case (`ParseDir` leaves the store's own buffer `nil`; `layout` does
    not read it) -/
theorem asmStoreWith_load (pol : Nat) (rec : Nvram.Store → Except Nvram.Err Nvram.Store) (s : Nvram.Store)
    (hn : ∀ v ∈ s.entries, validUtf8 v.name = true) :
    Nvram.asmStoreWith pol rec { s with entries := nvLoadAll s.entries, buf := [] } = Nvram.asmStoreWith pol rec s := by
  unfold Nvram.asmStoreWith
  simp only [asmEntries_load pol rec s.entries hn]
  cases Nvram.asmEntries pol rec s.entries with
  | error e => rfl
  | ok es => unfold Nvram.layout; rfl

/-! ### F-C07-1: the exception -/

/-- a full entry with the one-byte CHAR8 name 0x80, GUID by index, value `AB` -/
def f1Var : Nvram.NVar :=
  { size := 14, next := 0xFFFFFF, attrs := 0x82, guid := List.replicate 16 1, guidIndex := some 0, name := [0x80],
    type := .full, offset := 0, nextOffset := 0, buf := Nvram.sig ++ [14, 0, 0xFF, 0xFF, 0xFF, 0x82, 0, 0x80, 0, 0xAB],
    dataOffset := 13, hasContent := true }

/-- **F-C07-1**: the name is not valid UTF-8, summary.json brings back U+FFFD, and `NVar.Assemble`
    refuses the reloaded entry (header size mismatch) while it accepts the parsed one -/
theorem f_c07_1_witness :
    validUtf8 f1Var.name = false ∧ jsonName f1Var.name = [0xEF, 0xBF, 0xBD] ∧
      (Nvram.asmNVar 0xFF f1Var (Nvram.content f1Var) true).toOption.isSome = true ∧
      (Nvram.asmNVar 0xFF (nvLoad f1Var (Nvram.content f1Var)) (Nvram.content f1Var) true).toOption.isSome = false := by
  decide

end Fiano.Uefi
