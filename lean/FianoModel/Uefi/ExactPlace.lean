/-
  C03 follow-up (wp-c03b), layer 1: the file loop of `Assemble.Visit` in terms of the reference
  grammar.  Where the loop puts a file (`fileStart`, DESIGN Appendix A.1), the pad file it
  synthesises (`padI`, a leaf file of the grammar), and the closed form

      placeFiles 0xFF (fis.map (storedAttrs, serFile)) acc off = ok (acc ++ serFiles off (withPads off fis))

  together with the well-formedness of the padded list (`wfFiles_withPads`).

  Built on the lemma library of the shared core (Uefi/Lemmas/*, property C01).  The C02 library
  (Uefi/PlaceLemmas.lean, LayoutLemmas.lean) proves the same placement arithmetic for the independent
  reader; when this file was written it could not be imported next to Uefi/Lemmas/* (eight lemma
  names were declared in both; since repaired by the namespace `EditArith`), so the arithmetic is
  proved here again, in its own namespace `Fiano.Uefi.Exact`, on the grammar's `alignUp`.
-/
import FianoModel.Uefi.Lemmas.Final

namespace Fiano.Uefi.Exact
open Fiano Fiano.Uefi Fiano.Uefi.Spec

/-! ### the placement rule -/

/-- the data alignments other than 1 -/
def bigAligns : List Nat :=
  [16, 128, 512, 1024, 4096, 32768, 65536, 131072, 262144, 524288, 1048576, 2097152, 4194304, 8388608, 16777216]

/-- aligned offset `al`, header length `hl`, alignment `a` -/
def placeAt (al hl a : Nat) : Nat :=
  let d := alignUp (al + hl) a
  let gap := d - hl - al
  if 8 ≤ gap ∧ gap < 24 then alignUp (d + 1) a - hl else d - hl

/-- **A.1**: the file lands at or after the aligned offset, on an 8-byte boundary, with its data
    aligned, and the gap before it is empty or can hold a pad file -/
theorem placeAt_spec (al hl a : Nat) (ha : a ∈ bigAligns) (hhl : hl = 24 ∨ hl = 32) (h8 : al % 8 = 0) :
    al ≤ placeAt al hl a ∧ placeAt al hl a % 8 = 0 ∧ (placeAt al hl a + hl) % a = 0 ∧
    (placeAt al hl a = al ∨ al + 24 ≤ placeAt al hl a) ∧ placeAt al hl a < al + 2 * a := by
  unfold placeAt alignUp bigAligns at *
  simp only [List.mem_cons, List.mem_nil_iff, or_false] at ha
  rcases hhl with rfl | rfl <;>
  rcases ha with rfl | rfl | rfl | rfl | rfl | rfl | rfl | rfl | rfl | rfl | rfl | rfl | rfl | rfl | rfl <;>
  (simp only []; split <;> omega)

theorem alignmentOf_cases (attrs : Nat) : alignmentOf attrs = 1 ∨ alignmentOf attrs ∈ bigAligns := by
  rcases alignmentOf_mem attrs with h | h
  · unfold fileAlignments at h
    unfold bigAligns
    simp only [List.mem_cons, List.mem_nil_iff, or_false] at h ⊢
    rcases h with h | h
    · left; exact h
    · right; exact h
  · left; exact h

theorem bigAligns_pow2 (a : Nat) (ha : a ∈ bigAligns) : ∃ k, k ≤ 24 ∧ a = 2 ^ k ∧ a ≤ 16777216 ∧ 16 ≤ a := by
  unfold bigAligns at ha
  simp only [List.mem_cons, List.mem_nil_iff, or_false] at ha
  rcases ha with rfl | rfl | rfl | rfl | rfl | rfl | rfl | rfl | rfl | rfl | rfl | rfl | rfl | rfl | rfl
  · exact ⟨4, by decide⟩
  · exact ⟨7, by decide⟩
  · exact ⟨9, by decide⟩
  · exact ⟨10, by decide⟩
  · exact ⟨12, by decide⟩
  · exact ⟨15, by decide⟩
  · exact ⟨16, by decide⟩
  · exact ⟨17, by decide⟩
  · exact ⟨18, by decide⟩
  · exact ⟨19, by decide⟩
  · exact ⟨20, by decide⟩
  · exact ⟨21, by decide⟩
  · exact ⟨22, by decide⟩
  · exact ⟨23, by decide⟩
  · exact ⟨24, by decide⟩

theorem alignGo_big (v a : Nat) (ha : a ∈ bigAligns) (hv : v < 2 ^ 63) : alignGo v a = alignUp v a := by
  obtain ⟨k, hk, rfl, hle, _⟩ := bigAligns_pow2 a ha
  rw [alignGo_pow2 v k (by omega) (by omega)]
  rfl

/-- where the loop puts a file whose predecessor ended at `off` -/
def fileStart (off attrs : Nat) : Nat :=
  let al := alignUp off 8
  if alignmentOf attrs = 1 then al else placeAt al (hdrLenOfAttrs attrs) (alignmentOf attrs)

theorem alignUp8 (off : Nat) : off ≤ alignUp off 8 ∧ alignUp off 8 % 8 = 0 ∧ alignUp off 8 < off + 8 := by
  unfold alignUp; omega

theorem hdrLenOfAttrs_cases (attrs : Nat) : hdrLenOfAttrs attrs = 24 ∨ hdrLenOfAttrs attrs = 32 := by
  unfold hdrLenOfAttrs; split <;> simp

theorem fileStart_spec (off attrs : Nat) :
    alignUp off 8 ≤ fileStart off attrs ∧ fileStart off attrs % 8 = 0 ∧
    (fileStart off attrs + hdrLenOfAttrs attrs) % alignmentOf attrs = 0 ∧
    (fileStart off attrs = alignUp off 8 ∨ alignUp off 8 + 24 ≤ fileStart off attrs) ∧
    fileStart off attrs < off + 8 + 2 * 16777216 := by
  have h8 := alignUp8 off
  unfold fileStart
  simp only
  rcases alignmentOf_cases attrs with h1 | hb
  · rw [if_pos h1, h1]
    exact ⟨Nat.le_refl _, h8.2.1, Nat.mod_one _, Or.inl rfl, by omega⟩
  · have hne : alignmentOf attrs ≠ 1 := by
      intro h; rw [h] at hb; revert hb; decide
    rw [if_neg hne]
    have := placeAt_spec (alignUp off 8) (hdrLenOfAttrs attrs) (alignmentOf attrs) hb (hdrLenOfAttrs_cases attrs) h8.2.1
    obtain ⟨_, _, _, hle, _⟩ := bigAligns_pow2 _ hb
    exact ⟨this.1, this.2.1, this.2.2.1, this.2.2.2.1, by omega⟩

theorem le_fileStart (off attrs : Nat) : off ≤ fileStart off attrs := by
  have := fileStart_spec off attrs
  have := alignUp8 off
  omega

/-! ### `ChecksumAndAssemble` on any header: the header checksum does not depend on the old one -/

/-- **checksum_recompute**: `ChecksumAndAssemble` writes the header of the specification — header
    checksum = minus the sum of the other header bytes — whatever the checksum fields held before -/
theorem casm_gen (i : FileInfo) (L : Bool) (data : Bytes) (hg : i.guid.length = 16)
    (hL : (i.attrs &&& 1 ≠ 0) ↔ L = true) (hs3 : i.size3 = if L then 0xFFFFFF else i.extSize) :
    (checksumAndAssemble i data).2 =
      fileHdr i.guid (0 - sum8 (fileHdr i.guid 0 0 i.type i.attrs L i.extSize 0))
        (if i.attrs &&& 0x40 ≠ 0 then 0 - sum8 data else 0xAA) i.type i.attrs L i.extSize i.state ++ data := by
  unfold checksumAndAssemble
  have hLd : decide (i.attrs &&& 1 ≠ 0) = L := by
    cases L
    · simp only [decide_eq_false_iff_not]; intro h; exact absurd (hL.mp h) (by decide)
    · simp only [decide_eq_true_eq]; exact hL.mpr rfl
  have hhs : (if i.attrs &&& 1 ≠ 0 then (32 : Nat) else 24) = if L then 32 else 24 := by
    cases L
    · rw [if_neg (fun h => absurd (hL.mp h) (by decide))]; rfl
    · rw [if_pos (hL.mpr rfl)]; rfl
  simp only [hLd, hhs]
  have htake := encodeFileHeader_take i (byte i.ckHeader) (byte i.ckFile) L hg hs3
  have hsum := sum8_fileHdr i.guid (byte i.ckHeader) (byte i.ckFile) i.type i.attrs L i.extSize i.state
  rw [htake, hsum, Fiano.Uefi.encodeFileHeader_eq _ _ _ L hs3]
  have hz : byte i.ckHeader -
      (sum8 (fileHdr i.guid 0 0 i.type i.attrs L i.extSize 0) + byte i.ckHeader + byte i.ckFile + byte i.state -
        byte i.ckFile - byte i.state) = 0 - sum8 (fileHdr i.guid 0 0 i.type i.attrs L i.extSize 0) := by
    grind
  rw [hz]

theorem casm_info (i : FileInfo) (data : Bytes) :
    (checksumAndAssemble i data).1.guid = i.guid ∧ (checksumAndAssemble i data).1.type = i.type ∧
    (checksumAndAssemble i data).1.attrs = i.attrs ∧ (checksumAndAssemble i data).1.state = i.state ∧
    (checksumAndAssemble i data).1.dataOffset = i.dataOffset ∧ (checksumAndAssemble i data).1.nvar = i.nvar ∧
    (checksumAndAssemble i data).1.size3 = i.size3 ∧ (checksumAndAssemble i data).1.extSize = i.extSize := by
  unfold checksumAndAssemble
  exact ⟨rfl, rfl, rfl, rfl, rfl, rfl, rfl, rfl⟩

/-! ### the pad file of the loop is a leaf file of the grammar -/

/-- the pad file of `n` bytes (erase polarity 1) as a file of the grammar -/
def padI (n : Nat) : FileI :=
  let L : Bool := decide (n ≥ 0xFFFFFF)
  let a : Nat := if L then 1 else 0
  .leaf guidFF (0 - sum8 (fileHdr guidFF 0 0 0xF0 a L n 0)).toNat 0xAA 0xF0 a 0xF8 L
    (ffs (n - (if L then 32 else 24)))

theorem sizeFile_padI (n : Nat) (h : 24 ≤ n) : sizeFile (padI n) = n := by
  unfold padI
  by_cases hb : n ≥ 0xFFFFFF
  · simp [sizeFile, hb, ffs]; omega
  · simp [sizeFile, hb, ffs]; omega

theorem storedAttrs_padI (n : Nat) : storedAttrs (padI n) = if n ≥ 0xFFFFFF then 1 else 0 := by
  unfold padI
  by_cases hb : n ≥ 0xFFFFFF <;> simp [storedAttrs, hb]

theorem alignmentOf_padI (n : Nat) : alignmentOf (storedAttrs (padI n)) = 1 := by
  rw [storedAttrs_padI]; split <;> decide

theorem wfFile_padI (n : Nat) (h : 24 ≤ n) (hlt : n < 2 ^ 63) : wfFile (padI n) = true := by
  unfold padI
  by_cases hb : n ≥ 0xFFFFFF
  · simp only [hb, decide_true, if_true, wfFile, Bool.and_eq_true, decide_eq_true_eq, beq_iff_eq,
      Bool.or_eq_true, Bool.not_eq_true', ffs, List.length_replicate]
    refine ⟨⟨⟨⟨⟨⟨⟨⟨by decide, UInt8.toNat_lt _⟩, by decide⟩, by decide⟩, by decide⟩, by decide⟩, Or.inl (by decide)⟩, by decide⟩, by omega⟩
  · simp only [hb, decide_false, Bool.false_eq_true, if_false, wfFile, Bool.and_eq_true, decide_eq_true_eq,
      beq_iff_eq, Bool.or_eq_true, Bool.not_eq_true', ffs, List.length_replicate]
    refine ⟨⟨⟨⟨⟨⟨⟨⟨by decide, UInt8.toNat_lt _⟩, by decide⟩, by decide⟩, by decide⟩, by decide⟩, Or.inl (by decide)⟩, by decide⟩, by omega⟩

def padInfoX (a s3 n : Nat) : FileInfo :=
  { guid := guidFF, ckHeader := 0, ckFile := 0, type := 0xF0, attrs := a, size3 := s3, state := 0xF8,
    extSize := n, dataOffset := 24 }

/-- `uefi.CreatePadFile(n)` under erase polarity 1 writes exactly that file -/
theorem createPadFile_gram (n : Nat) (h : 24 ≤ n) : createPadFile 0xFF n = .ok (serFile (padI n)) := by
  unfold createPadFile
  rw [if_neg (by omega), if_neg (by decide)]
  have hst : (0x07 ^^^ (0xFF : UInt8)).toNat = 0xF8 := by decide
  by_cases hb : n ≥ 0xFFFFFF
  · have hs : setSize 0 n false = (1, 0xFFFFFF, n) := by
      unfold setSize write3; simp [hb]
    simp only [hs, hst, if_true]
    have hc := casm_gen (padInfoX 1 0xFFFFFF n) true (List.replicate (n - 32) 0xFF) rfl (by simp [padInfoX]) rfl
    simp only [padInfoX] at hc
    simp only [show ((1 : Nat) &&& 1 ≠ 0) = True by decide, if_true]
    rw [hc]
    unfold padI
    simp only [hb, decide_true, if_true, serFile, ffs, List.length_replicate, byte_of_toNat]
    have e : 32 + (n - 32) = n := by omega
    have e2 : byte 170 = (170 : UInt8) := by decide
    rw [e, e2]
    simp
  · have hs : setSize 0 n false = (0, n, n) := by
      unfold setSize write3; simp [hb]
    simp only [hs, hst, if_true]
    have hc := casm_gen (padInfoX 0 n n) false (List.replicate (n - 24) 0xFF) rfl (by simp [padInfoX]) rfl
    simp only [padInfoX] at hc
    simp only [show ((0 : Nat) &&& 1 ≠ 0) = False by decide, if_false]
    rw [hc]
    unfold padI
    simp only [hb, decide_false, Bool.false_eq_true, if_false, serFile, ffs, List.length_replicate, byte_of_toNat]
    have e : 24 + (n - 24) = n := by omega
    have e2 : byte 170 = (170 : UInt8) := by decide
    rw [e, e2]
    simp

/-! ### one iteration of the loop, in closed form -/

/-- the pad file (if any) the loop writes in front of a file -/
def padBefore (off attrs : Nat) : List FileI :=
  if fileStart off attrs = alignUp off 8 then [] else [padI (fileStart off attrs - alignUp off 8)]

theorem placeFile_gen (buf : Bytes) (off attrs : Nat) (fb : Bytes) (hlen : buf.length = off) (hoff : off < 2 ^ 62)
    (hfb : fb.length ≠ 0) :
    placeFile 0xFF buf off attrs fb =
      .ok (buf ++ ffs (alignUp off 8 - off) ++ ((padBefore off attrs).map serFile).flatten ++ fb,
           fileStart off attrs + fb.length) := by
  have h8 := alignUp8 off
  have hspec := fileStart_spec off attrs
  have hal : align8 off = alignUp off 8 := align8_eq off (by omega)
  unfold placeFile
  rw [if_neg hfb]
  simp only [hal]
  unfold padBefore fileStart at *
  simp only at *
  rcases alignmentOf_cases attrs with h1 | hb
  · rw [if_pos h1] at hspec ⊢
    simp only [h1, ne_eq, not_true_eq_false, if_false, if_true]
    unfold insertFile
    rw [if_neg (by omega), if_neg hfb, hlen]
    simp [ffs]
  · have hne : alignmentOf attrs ≠ 1 := by
      intro h; rw [h] at hb; revert hb; decide
    obtain ⟨k, hk, hak, hle, hge⟩ := bigAligns_pow2 _ hb
    rw [if_neg hne] at hspec ⊢
    rw [if_pos hne]
    have hhl : (if attrs &&& 1 ≠ 0 then 32 else 24) = hdrLenOfAttrs attrs := rfl
    rw [hhl]
    have hl := hdrLenOfAttrs_cases attrs
    generalize hdrLenOfAttrs attrs = hl' at *
    generalize hA : alignmentOf attrs = a at *
    have hr1 : alignGo (alignUp off 8 + hl') a = alignUp (alignUp off 8 + hl') a :=
      alignGo_big _ _ hb (by omega)
    have hpos : 0 < a := by omega
    have hd : alignUp off 8 + hl' ≤ alignUp (alignUp off 8 + hl') a ∧
        alignUp (alignUp off 8 + hl') a < alignUp off 8 + hl' + a :=
      ⟨alignUp_ge _ _ hpos, alignUp_lt _ _ hpos⟩
    rw [hr1]
    have hr2 : alignGo (alignUp (alignUp off 8 + hl') a + 1) a = alignUp (alignUp (alignUp off 8 + hl') a + 1) a :=
      alignGo_big _ _ hb (by omega)
    rw [hr2]
    have e1 : (alignUp (alignUp off 8 + hl') a + 18446744073709551616 - hl') % 18446744073709551616 =
        alignUp (alignUp off 8 + hl') a - hl' := by omega
    rw [e1]
    have e2 : (alignUp (alignUp off 8 + hl') a - hl' + 18446744073709551616 - alignUp off 8) % 18446744073709551616 =
        alignUp (alignUp off 8 + hl') a - hl' - alignUp off 8 := by omega
    rw [e2]
    have hd2 : alignUp (alignUp off 8 + hl') a + 1 ≤ alignUp (alignUp (alignUp off 8 + hl') a + 1) a ∧
        alignUp (alignUp (alignUp off 8 + hl') a + 1) a < alignUp (alignUp off 8 + hl') a + 1 + a :=
      ⟨alignUp_ge _ _ hpos, alignUp_lt _ _ hpos⟩
    have e3 : (alignUp (alignUp (alignUp off 8 + hl') a + 1) a + 18446744073709551616 - hl') % 18446744073709551616 =
        alignUp (alignUp (alignUp off 8 + hl') a + 1) a - hl' := by omega
    rw [e3]
    have hP : (if alignUp (alignUp off 8 + hl') a - hl' - alignUp off 8 ≥ 8 ∧
          alignUp (alignUp off 8 + hl') a - hl' - alignUp off 8 < 24
        then alignUp (alignUp (alignUp off 8 + hl') a + 1) a - hl' else alignUp (alignUp off 8 + hl') a - hl') =
        placeAt (alignUp off 8) hl' a := by
      unfold placeAt
      simp only [ge_iff_le]
    rw [hP]
    generalize placeAt (alignUp off 8) hl' a = n at *
    by_cases hn : n = alignUp off 8
    · rw [if_neg (by simpa using hn), if_pos hn]
      unfold insertFile
      rw [if_neg (by omega), if_neg hfb, hlen]
      simp [hn, ffs]
    · rw [if_pos hn, if_neg hn]
      have hge24 : 24 ≤ n - alignUp off 8 := by omega
      have e4 : (n + 18446744073709551616 - alignUp off 8) % 18446744073709551616 = n - alignUp off 8 := by omega
      rw [e4, createPadFile_gram _ hge24]
      have hpl : (serFile (padI (n - alignUp off 8))).length = n - alignUp off 8 := by
        rw [length_serFile _ (wfFile_padI _ hge24 (by omega)), sizeFile_padI _ hge24]
      simp only []
      unfold insertFile
      rw [if_neg (by omega), if_neg (by omega)]
      simp only
      rw [if_neg (by simp [hlen, hpl]; omega), if_neg hfb]
      have : n - (off + (alignUp off 8 - off + (n - alignUp off 8))) = 0 := by omega
      simp [hlen, hpl, ffs, this]

/-! ### the whole loop -/

/-- the file list a reader finds after the loop: the files with the synthesised pad files -/
def withPads : Nat → List FileI → List FileI
  | _, [] => []
  | off, f :: fs =>
    padBefore off (storedAttrs f) ++ f :: withPads (fileStart off (storedAttrs f) + sizeFile f) fs

/-- end offset of the last file -/
def layEnd : Nat → List FileI → Nat
  | off, [] => off
  | off, f :: fs => layEnd (fileStart off (storedAttrs f) + sizeFile f) fs

theorem le_layEnd : ∀ (fs : List FileI) (off : Nat), off ≤ layEnd off fs
  | [], _ => Nat.le_refl _
  | f :: fs, off => by
    have h1 := le_fileStart off (storedAttrs f)
    have h2 := le_layEnd fs (fileStart off (storedAttrs f) + sizeFile f)
    simp only [layEnd]
    omega

/-- serialisation and end offset of "pad file (if any), then the file" -/
theorem ser_padBefore (off : Nat) (f : FileI) (rest : List FileI) (hoff : off < 2 ^ 62) :
    serFiles off (padBefore off (storedAttrs f) ++ f :: rest) =
      ffs (alignUp off 8 - off) ++ ((padBefore off (storedAttrs f)).map serFile).flatten ++ serFile f ++
        serFiles (fileStart off (storedAttrs f) + sizeFile f) rest ∧
    endFiles off (padBefore off (storedAttrs f) ++ f :: rest) =
      endFiles (fileStart off (storedAttrs f) + sizeFile f) rest := by
  have h8 := alignUp8 off
  have hspec := fileStart_spec off (storedAttrs f)
  unfold padBefore
  by_cases hn : fileStart off (storedAttrs f) = alignUp off 8
  · rw [if_pos hn]
    simp only [List.nil_append, List.map_nil, List.flatten_nil, List.append_nil, serFiles, endFiles, hn]
    refine ⟨by simp [List.append_assoc], ?_⟩
    first | rfl | trivial
  · rw [if_neg hn]
    have hge24 : 24 ≤ fileStart off (storedAttrs f) - alignUp off 8 := by omega
    have hsz := sizeFile_padI _ hge24
    have hmod : alignUp (alignUp off 8 + (fileStart off (storedAttrs f) - alignUp off 8)) 8 =
        fileStart off (storedAttrs f) := by
      have : alignUp off 8 + (fileStart off (storedAttrs f) - alignUp off 8) = fileStart off (storedAttrs f) := by omega
      rw [this]
      exact alignUp_of_mod _ 8 (by decide) hspec.2.1
    simp only [List.singleton_append, List.map_cons, List.map_nil, List.flatten_cons, List.flatten_nil,
      List.append_nil, serFiles, endFiles, hsz, hmod]
    refine ⟨?_, ?_⟩
    · have : fileStart off (storedAttrs f) - (alignUp off 8 + (fileStart off (storedAttrs f) - alignUp off 8)) = 0 := by
        omega
      rw [this]
      simp [ffs, List.append_assoc]
    · first | rfl | trivial

/-- **the file loop in closed form, in the grammar**: placing the serialised files `fis` yields the
    serialised file area of `withPads off fis` -/
theorem placeFiles_gram : ∀ (fis : List FileI) (off : Nat) (acc : Bytes),
    (∀ f ∈ fis, wfFile f = true) → acc.length = off → layEnd off fis < 2 ^ 62 →
    placeFiles 0xFF (fis.map (fun f => (storedAttrs f, serFile f))) acc off =
      .ok (acc ++ serFiles off (withPads off fis)) ∧
    endFiles off (withPads off fis) = layEnd off fis
  | [], off, acc, _, _, _ => by simp [placeFiles, serFiles, withPads, endFiles, layEnd]
  | f :: fs, off, acc, hwf, hacc, hb => by
    have hf := hwf f List.mem_cons_self
    have hsz := length_serFile f hf
    have hge := sizeFile_ge f
    simp only [layEnd] at hb
    have hmono := le_layEnd fs (fileStart off (storedAttrs f) + sizeFile f)
    have hfs := le_fileStart off (storedAttrs f)
    have hoff : off < 2 ^ 62 := by omega
    have hser := ser_padBefore off f (withPads (fileStart off (storedAttrs f) + sizeFile f) fs) hoff
    have h8 := alignUp8 off
    have hspec := fileStart_spec off (storedAttrs f)
    simp only [List.map_cons, placeFiles, withPads, layEnd]
    rw [placeFile_gen acc off (storedAttrs f) (serFile f) hacc hoff (by rw [hsz]; omega)]
    simp only [hsz]
    have hacc' : (acc ++ ffs (alignUp off 8 - off) ++ ((padBefore off (storedAttrs f)).map serFile).flatten ++
        serFile f).length = fileStart off (storedAttrs f) + sizeFile f := by
      simp only [List.length_append, hacc, ffs, List.length_replicate, hsz]
      unfold padBefore
      by_cases hn : fileStart off (storedAttrs f) = alignUp off 8
      · rw [if_pos hn]; simp; omega
      · rw [if_neg hn]
        have hge24 : 24 ≤ fileStart off (storedAttrs f) - alignUp off 8 := by omega
        simp [length_serFile _ (wfFile_padI _ hge24 (by omega)), sizeFile_padI _ hge24]
        omega
    have ih := placeFiles_gram fs (fileStart off (storedAttrs f) + sizeFile f) _
      (fun g hg => hwf g (List.mem_cons_of_mem _ hg)) hacc' hb
    rw [ih.1, hser.1, hser.2, ih.2]
    simp [List.append_assoc]

/-! ### the padded list is a well-formed file area -/

theorem wfFiles_intro (off len : Nat) (f : FileI) (fs : List FileI) (h1 : wfFile f = true)
    (h2 : alignUp off 8 + 24 ≤ len) (h3 : alignUp off 8 + sizeFile f ≤ len)
    (h4 : (alignUp off 8 + hdrLenOfAttrs (storedAttrs f)) % alignmentOf (storedAttrs f) = 0)
    (h5 : wfFiles (alignUp off 8 + sizeFile f) len fs = true) : wfFiles off len (f :: fs) = true := by
  simp only [wfFiles, Bool.and_eq_true, decide_eq_true_eq, beq_iff_eq]
  refine ⟨⟨⟨⟨h1, h2⟩, h3⟩, ?_⟩, h5⟩
  cases f <;> simpa [storedAttrs, hdrLenOfAttrs] using h4

/-- the files fit the volume: each header lies inside the walk range of the reader (it may end exactly
    at the end of the volume: the reader accepts that since fix cce350a, finding F52), each file ends
    inside the volume -/
def Fits : Nat → Nat → List FileI → Prop
  | _, _, [] => True
  | off, len, f :: fs =>
    fileStart off (storedAttrs f) + 24 ≤ len ∧ fileStart off (storedAttrs f) + sizeFile f ≤ len ∧
      Fits (fileStart off (storedAttrs f) + sizeFile f) len fs

theorem wfFiles_withPads : ∀ (fis : List FileI) (off len : Nat),
    (∀ f ∈ fis, wfFile f = true) → Fits off len fis → len < 2 ^ 62 →
    wfFiles off len (withPads off fis) = true
  | [], _, _, _, _, _ => by simp [withPads, wfFiles]
  | f :: fs, off, len, hwf, hfit, hlen => by
    have hf := hwf f List.mem_cons_self
    obtain ⟨hf1, hf2, hf3⟩ := hfit
    have h8 := alignUp8 off
    have hspec := fileStart_spec off (storedAttrs f)
    have ih := wfFiles_withPads fs (fileStart off (storedAttrs f) + sizeFile f) len
      (fun g hg => hwf g (List.mem_cons_of_mem _ hg)) hf3 hlen
    simp only [withPads]
    unfold padBefore
    by_cases hn : fileStart off (storedAttrs f) = alignUp off 8
    · rw [if_pos hn]
      simp only [List.nil_append]
      apply wfFiles_intro off len f _ hf
      · omega
      · omega
      · rw [← hn]; exact hspec.2.2.1
      · rw [← hn]; exact ih
    · rw [if_neg hn]
      have hge24 : 24 ≤ fileStart off (storedAttrs f) - alignUp off 8 := by omega
      have hsz := sizeFile_padI _ hge24
      have hsum : alignUp off 8 + (fileStart off (storedAttrs f) - alignUp off 8) = fileStart off (storedAttrs f) := by
        omega
      have hself : alignUp (fileStart off (storedAttrs f)) 8 = fileStart off (storedAttrs f) :=
        alignUp_of_mod _ 8 (by decide) hspec.2.1
      simp only [List.singleton_append]
      apply wfFiles_intro off len _ _ (wfFile_padI _ hge24 (by omega))
      · omega
      · rw [hsz]; omega
      · rw [alignmentOf_padI]; exact Nat.mod_one _
      · rw [hsz, hsum]
        apply wfFiles_intro _ len f _ hf
        · rw [hself]; omega
        · rw [hself]; omega
        · rw [hself]; exact hspec.2.2.1
        · rw [hself]; exact ih

/-- pad files are transparent: the files of `withPads` that are not pad files are the files given,
    when none of them is a pad file -/
theorem withPads_length_ge (fis : List FileI) (off : Nat) : fis.length ≤ (withPads off fis).length := by
  induction fis generalizing off with
  | nil => simp [withPads]
  | cons f fs ih =>
    simp only [withPads, List.length_append, List.length_cons]
    have := ih (fileStart off (storedAttrs f) + sizeFile f)
    omega

end Fiano.Uefi.Exact
