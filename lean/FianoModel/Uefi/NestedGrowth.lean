/-
  Property C06 — growth of a nested (resizable) volume and the FFSv3 switch, as the model does them.
-/
import FianoModel.Uefi.NestedTop

namespace Fiano.Uefi.Nested
open Fiano Fiano.Uefi Fiano.Uefi.Spec

variable {h : Hooks}

/-- the length a grown volume gets: the next multiple of a power-of-two block size -/
theorem grow_pow2 (e k : Nat) (hk : k ≤ 63) (he : e + 2 ^ k ≤ 2 ^ 64) :
    alignGo e (2 ^ k) % 2 ^ k = 0 ∧ e ≤ alignGo e (2 ^ k) ∧ alignGo e (2 ^ k) < e + 2 ^ k ∧
      alignGo e (2 ^ k) / 2 ^ k * 2 ^ k = alignGo e (2 ^ k) := by
  have hp : 0 < 2 ^ k := Nat.pow_pos (by decide)
  rw [alignGo_pow2 e k hk he]
  have h1 : (e + 2 ^ k - 1) / 2 ^ k * 2 ^ k % 2 ^ k = 0 := Nat.mul_mod_left _ _
  have h2 := Nat.div_add_mod (e + 2 ^ k - 1) (2 ^ k)
  have h3 := Nat.mod_lt (e + 2 ^ k - 1) hp
  rw [Nat.mul_comm] at h2
  refine ⟨h1, by omega, by omega, ?_⟩
  rw [Nat.mul_div_cancel _ hp]

/-- `finishLen` when the files no longer fit: new length and new first block -/
theorem finishLenP_grow (ag : Nat → Nat → Nat) (l e : Nat) (b0 : Block) (bs : List Block) (hlt : l < e) :
    finishLenP ag l e (b0 :: bs) = (ag e b0.size, setCount b0 ((ag e b0.size / b0.size) % 4294967296) :: bs) := by
  unfold finishLenP
  rw [if_neg (by omega)]
  rfl

theorem finishLen_grow (l e : Nat) (b0 : Block) (bs : List Block) (hlt : l < e) :
    finishLen l e (b0 :: bs) =
      (alignGo e b0.size, setCount b0 ((alignGo e b0.size / b0.size) % 4294967296) :: bs) := by
  rw [finishLen_eq_P]; exact finishLenP_grow alignGo l e b0 bs hlt

theorem finishLenP_keep (ag : Nat → Nat → Nat) (l e : Nat) (blocks : List Block) (hle : e ≤ l) :
    finishLenP ag l e blocks = (l, blocks) := by
  unfold finishLenP
  rw [if_pos hle]

theorem finishLen_keep (l e : Nat) (blocks : List Block) (hle : e ≤ l) : finishLen l e blocks = (l, blocks) := by
  rw [finishLen_eq_P]; exact finishLenP_keep alignGo l e blocks hle

/-- what `finishFv` does with the visitor's `useFFS3` flag (for any alignment function) -/
theorem finishFvP_flag (ag : Nat → Nat → Nat) (i : FvInfo) (fbuf : Bytes) (st : St) (i' : FvInfo) (out : Bytes) (st' : St)
    (hfin : finishFvP ag i fbuf st = .ok (i', out, st')) :
    st'.ffs3 = false ∧ st'.pol = st.pol ∧
      i'.fsGuid = (if (st.ffs3 && i.fsGuid == guidFFS2) = true then guidFFS3 else i.fsGuid) := by
  unfold finishFvP at hfin
  simp only at hfin
  split at hfin
  · cases hfin
  · split at hfin
    · cases hfin
    · split at hfin
      · cases hfin
      · split at hfin
        · cases hfin
        · cases hfin
          exact ⟨rfl, rfl, rfl⟩

theorem finishFv_flag (i : FvInfo) (fbuf : Bytes) (st : St) (i' : FvInfo) (out : Bytes) (st' : St)
    (hfin : finishFv i fbuf st = .ok (i', out, st')) :
    st'.ffs3 = false ∧ st'.pol = st.pol ∧
      i'.fsGuid = (if (st.ffs3 && i.fsGuid == guidFFS2) = true then guidFFS3 else i.fsGuid) := by
  rw [finishFv_eq_P] at hfin
  exact finishFvP_flag alignGo i fbuf st i' out st' hfin

end Fiano.Uefi.Nested
