/-
  Property C07, follow-up wp-c07c — trees WITH NVAR stores in the tree-level round trip: DEFINITIONS
  (core Lean; what the driver evaluates).

  The shared tree keeps of the store of a RAW file only `NvStore = ⟨buf, length⟩` and hands it to the hook
  `Hooks.nvarAsm`.  Here the hooks are instantiated with property C10's model (Nvram/Model.lean, imported):

    * `c10Hooks h0 pol`     `nvarParse` = C10's `NewNVarStore` (`nvParseC10`, wp-c04b), `nvarAsm` = C10's
                            `asmStore` on the store object that hangs off the file — the store `NewNVarStore`
                            read from the slot's bytes under the erase polarity `pol` of the process (a process
                            has exactly one: `setPolarity` refuses a second one, so the polarity in force when
                            `Assemble` reaches the file is the one the store was parsed under; the hook answers
                            `err` when asked under another polarity — unreachable from a parsed image);
    * `c10DirHooks h0 pol`  the same in the process that loaded the directory: the object hanging off the file is
                            what `ParseDir` rebuilt from summary.json and the files the NVar arm wrote (entry
                            records with `jsonName`d names, `make([]byte, DataOffset) ++ value file`, nested
                            stores as children, the store's own buffer `nil`), and `nvarAsm` = `asmDirStore`
                            (Uefi/ExtractNvar.lean) — a function of the extracted store, which the slot stands for.
    * `okNvTree`            `okTree` with NVAR files allowed;
    * `nvUtf8Tree pol t`    every variable name of every store of `t` (nested stores included) is valid UTF-8 —
                            the complement of known finding F-C07-1.
-/
import FianoModel.Uefi.ExtractNvar
import FianoModel.Uefi.FaithfulNvarHook
import FianoModel.Uefi.ExtractAsm

namespace Fiano.Uefi
open Fiano

/-! ### the hooks -/

def nvtErr : Nvram.Err → Err
  | .parse => .err
  | .asm => .err
  | .panic => .panic
  | .fuel => .fuel

/-- `Assemble` on the store hanging off a file, `f` being the store-level assembler -/
def nvtAsmVia (f : Nat → Nat → Nvram.Store → Except Nvram.Err Nvram.Store) (ppol : UInt8) (nv : NvStore) (pol : UInt8) :
    Except Err NvStore :=
  if pol ≠ ppol then .error .err else
  match Nvram.parseStore ppol.toNat nv.buf with
  | .error _ => .error .err
  | .ok s =>
    match f ppol.toNat (Nvram.depthFuel s) s with
    | .ok s' => .ok (nvProj s')
    | .error e => .error (nvtErr e)

/-- in the process that parsed the image: C10's `asmStore` on the parsed store -/
def nvtAsmC10 : UInt8 → NvStore → UInt8 → Except Err NvStore := nvtAsmVia Nvram.asmStore
/-- in the process that loaded the directory: `asmDirStore` (the loaded store is a function of the parsed one) -/
def nvtAsmDir : UInt8 → NvStore → UInt8 → Except Err NvStore := nvtAsmVia asmDirStore

/-- any hooks with another `Assemble` for NVAR stores -/
def withNvAsm (h : Hooks) (g : NvStore → UInt8 → Except Err NvStore) : Hooks := { h with nvarAsm := g }

def c10Hooks (h0 : Hooks) (pol : UInt8) : Hooks := withNvAsm (nvHooks h0 pol) (nvtAsmC10 pol)
def c10DirHooks (h0 : Hooks) (pol : UInt8) : Hooks := withNvAsm (nvHooks h0 pol) (nvtAsmDir pol)

/-! ### names -/

/-- `Utf8Deep` (Uefi/ExtractNvarNested.lean) as a Boolean -/
def utf8DeepB : Nat → Nat → List Nvram.NVar → Bool
  | 0, _, _ => true
  | d + 1, pol, es =>
    es.all (fun v => validUtf8 v.name) &&
      es.all (fun v => match Nvram.nestedOf pol v with
        | some ns => utf8DeepB d pol ns.entries
        | none => true)

/-- the names of the store in a slot are valid UTF-8 at every nesting level -/
def nvUtf8Slot (pol : UInt8) (nv : NvStore) : Bool :=
  match Nvram.parseStore pol.toNat nv.buf with
  | .ok s => utf8DeepB (Nvram.depthFuel s) pol.toNat s.entries
  | .error _ => true

mutual
def nvUtf8Section (pol : UInt8) : Section → Bool
  | .mk _ _ e => nvUtf8Nodes pol e
def nvUtf8Nodes (pol : UInt8) : List Node → Bool
  | [] => true
  | .sec s :: ns => nvUtf8Section pol s && nvUtf8Nodes pol ns
  | .fv v :: ns => nvUtf8Fv pol v && nvUtf8Nodes pol ns
def nvUtf8Sections (pol : UInt8) : List Section → Bool
  | [] => true
  | s :: ss => nvUtf8Section pol s && nvUtf8Sections pol ss
def nvUtf8File (pol : UInt8) : File → Bool
  | .mk i _ s =>
    match i.nvar with
    | some nv => nvUtf8Slot pol nv
    | none => nvUtf8Sections pol s
def nvUtf8Files (pol : UInt8) : List File → Bool
  | [] => true
  | f :: fs => nvUtf8File pol f && nvUtf8Files pol fs
def nvUtf8Fv (pol : UInt8) : Fv → Bool
  | .mk _ _ fs => nvUtf8Files pol fs
end

def nvUtf8BiosElems (pol : UInt8) : List BiosElem → Bool
  | [] => true
  | .pad _ _ :: es => nvUtf8BiosElems pol es
  | .fv v :: es => nvUtf8Fv pol v && nvUtf8BiosElems pol es

def nvUtf8Regions (pol : UInt8) : List Region → Bool
  | [] => true
  | .bios b :: rs => nvUtf8BiosElems pol b.elems && nvUtf8Regions pol rs
  | _ :: rs => nvUtf8Regions pol rs

/-- every variable name of every NVAR store of the tree is valid UTF-8 (else: F-C07-1) -/
def nvUtf8Tree (pol : UInt8) : Tree → Bool
  | .flash f => nvUtf8Regions pol f.regions
  | .bios b => nvUtf8BiosElems pol b.elems

/-! ### `okTree` with stores -/

mutual
/-- `okTree` with NVAR stores allowed: a section with children is rebuilt from them, GUIDs are 16 bytes,
    a volume with files has `DataOffset ≤ len(buf) ≤ Length`; a file that carries a store needs nothing
    else (`Assemble` reads neither its buffer nor its sections) -/
def okNvSection : Section → Bool
  | .mk i _ e => okNvNodes e && (e.isEmpty || !keepsBuf i)
def okNvNodes : List Node → Bool
  | [] => true
  | .sec s :: ns => okNvSection s && okNvNodes ns
  | .fv v :: ns => okNvFv v && okNvNodes ns
def okNvSections : List Section → Bool
  | [] => true
  | s :: ss => okNvSection s && okNvSections ss
def okNvFile : File → Bool
  | .mk i _ s => i.guid.length == 16 && (i.nvar.isSome || okNvSections s)
def okNvFiles : List File → Bool
  | [] => true
  | f :: fs => okNvFile f && okNvFiles fs
def okNvFv : Fv → Bool
  | .mk i b f => okNvFiles f && (f.isEmpty || (decide (b.length ≤ i.length) && decide (i.dataOffset ≤ b.length)))
end

def okNvBiosElems : List BiosElem → Bool
  | [] => true
  | .pad _ _ :: es => okNvBiosElems es
  | .fv v :: es => okNvFv v && okNvBiosElems es

def okNvRegions : List Region → Bool
  | [] => true
  | .bios b :: rs => okNvBiosElems b.elems && okNvRegions rs
  | _ :: rs => okNvRegions rs

/-- what the round trip needs of a tree (see `okNvSection`) -/
def okNvTree : Tree → Bool
  | .flash f => okNvRegions f.regions
  | .bios b => okNvBiosElems b.elems


/-! ### the two commands on a tree with stores (single `Assemble` pass) -/

/-- `utk IMAGE extract DIR`, then in a fresh process `ParseDir` and `Assemble.Run` -/
def extractLoadAsmNv (h0 : Hooks) (pol : UInt8) (junk : FileInfo → Nat) (t : Tree) : Except Err Bytes :=
  match extract t with
  | .error e => .error e
  | .ok (d, s) =>
    match parseDir d junk s with
    | .error e => .error e
    | .ok t' => asmWith (c10DirHooks h0 pol) t' {}

/-- two `Assemble` passes (`Assemble.Run`, then `Save`, which assembles again) with the hooks of the second
    pass given separately: `h2` = what the second pass does with the store objects the first pass left -/
def asmTwice2 (h1 h2 : Hooks) (t : Tree) (st : St) : Except Err Bytes :=
  match asmTreeWith h1 t { st with ffs3 := false } with
  | .error e => .error e
  | .ok (t1, st1) =>
    match asmTreeWith h2 t1 { st1 with ffs3 := false } with
    | .error e => .error e
    | .ok (t2, _) => .ok t2.buf

/-- `utk IMAGE extract DIR`, then `utk DIR save OUT` in a fresh process (ParseDir, Assemble, Save) -/
def extractSaveNv (h0 : Hooks) (pol : UInt8) (h2 : Hooks) (junk : FileInfo → Nat) (t : Tree) : Except Err Bytes :=
  match extract t with
  | .error e => .error e
  | .ok (d, s) =>
    match parseDir d junk s with
    | .error e => .error e
    | .ok t' => asmTwice2 (c10DirHooks h0 pol) h2 t' {}

end Fiano.Uefi
