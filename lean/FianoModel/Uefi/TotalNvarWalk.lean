/-
  C05 (follow-up wp-c05b) — NVAR stores and the ME partition table as *tree nodes*, and the walkers over
  them (pkg/uefi/nvram.go: NewNVarStore / newNVar building `*NVarStore` / `*NVar` nodes, `NVar.Assemble`,
  `GetGUIDStoreBuf`; pkg/visitors: the `*uefi.NVarStore` and `*uefi.NVar` cases of `Assemble.Visit`,
  the `*uefi.NVar` case of `Extract.Visit`; `Validate.Visit` has no case for either, nor has any walker a
  case for `*uefi.MEFPT`).

  TotalNvar.lean renders a parsed store as canonical text (enough for the parser's totality).  The
  walkers need the nodes themselves, so the same parser is written once more returning the tree
  `NvTree` (store: `NvS`; node: entry `NvE`, `GUIDIndex`, the code points of a UCS-2 name, nested store).
  `nvDumpT` renders an `NvTree` with the text format of TotalNvar.lean: the driver answers the T2
  request `nvar` from the structured parser and checks on every request that the old one agrees.

  The model follows the code as repaired by fixes/C05-assemble-nvar-overlap.diff (entries overlapping the
  GUID store are an error, not a `make` of a negative length) and by wp-nvfix (round 3: NewNVarStore refuses
  `FreeSpaceOffset > GUIDStoreOffset` after an entry; no nested store behind an extended header).
-/
import FianoModel.Uefi.TotalNvar
import FianoModel.Uefi.TotalAsmBase

namespace Fiano.Uefi.Total
open Fiano GoM Fiano.Uefi

mutual
/-- `*uefi.NVar`: the flat entry, `GUIDIndex` (a `*uint8`), the runes of a UCS-2 `Name`, `NVarStore` -/
inductive NvNode where
  | mk (e : NvE) (gidx : Option Nat) (cps : List Nat) (nested : Option NvTree)
/-- `*uefi.NVarStore`: `s.entries` is the flat view of `nodes` (same order) -/
inductive NvTree where
  | mk (s : NvS) (nodes : List NvNode)
end

def NvNode.e : NvNode → NvE | .mk e _ _ _ => e
def NvNode.gidx : NvNode → Option Nat | .mk _ g _ _ => g
def NvNode.cps : NvNode → List Nat | .mk _ _ c _ => c
def NvNode.nested : NvNode → Option NvTree | .mk _ _ _ n => n
def NvTree.s : NvTree → NvS | .mk s _ => s
def NvTree.nodes : NvTree → List NvNode | .mk _ ns => ns

instance : Inhabited NvTree := ⟨.mk { buf := [], gso := 0, length := 0 } []⟩

/-- what `parseGUID` / `parseName` add to the flat entry -/
structure NvId where
  e     : NvE
  guids : List Bytes
  gidx  : Option Nat := none
  cps   : List Nat := []

/-- `parseDataOnly`, else `parseGUID` + `parseName` (as `nvIdentG`, keeping `GUIDIndex` and the runes) -/
def nvIdentT (s : NvS) (vbuf : Bytes) (attrs : Nat) (e1 : NvE) (offset : Nat) : GoM NvId :=
  if attrs &&& 0x08 ≠ 0 then
    match s.entries.find? (fun l => l.isValid && l.nextOffset == offset) with
    | some l => pure { e := { e1 with guid := l.guid, name := l.name,
                                      type := if e1.nextOffset = 0 then 3 else e1.type }, guids := s.guids }
    | none => pure { e := { e1 with type := 1 }, guids := s.guids }
  else do
    let gb ← sliceFromG "parseGUID: v.buf[v.DataOffset:]" vbuf 10
    let (g, guids, dOff, gidx) ← (
      if attrs &&& 0x04 ≠ 0 then do
        let (gg, _) ← binaryReadG gb 16
        pure (gg, s.guids, 26, none)
      else do
        let (ib, _) ← binaryReadG gb 1
        let (gg, gs) ← getGuidFromStoreG s.buf s.guids (fromLE ib)
        pure (gg, gs, 11, some (fromLE ib)) : GoM (Bytes × List Bytes × Nat × Option Nat))
    let nb ← sliceFromG "parseName: v.buf[v.DataOffset:]" vbuf dOff
    if attrs &&& 0x02 ≠ 0 then
      match indexZero nb with
      | none => err
      | some e => do
        let nm ← sliceToG "parseName: namebuf[:end] (ASCII)" nb e
        pure { e := { e1 with guid := g, name := nm, dataOffset := dOff + e + 1 }, guids := guids, gidx := gidx }
    else
      match indexZero16 nb with
      | none => err
      | some e => do
        let nm ← sliceToG "parseName: namebuf[:end] (UCS-2)" nb e
        let cps ← ucs2ToUtf8G nm
        pure { e := { e1 with guid := g, name := utf8Enc cps, dataOffset := dOff + e + 2 }, guids := guids,
               gidx := gidx, cps := cps }

mutual

/-- `newNVar(buf, offset, s)` returning the node -/
def newNvarT (pol : UInt8) : Nat → Bytes → Nat → NvS → GoM (Option (NvNode × List Bytes))
  | 0, _, _, _ => outOfFuel
  | fuel+1, buf, offset, s =>
    if isErased buf pol then pure none else do
    let (hb, _) ← binaryReadG buf 10
    if hb.take 4 ≠ nvarSig then err else
    let size := rd hb 4 2
    let next3 := rd hb 6 3
    let attrs := rd hb 9 1
    if buf.length < size then err else
    if size < 10 then err else do
    let vbuf ← copyOutG "newNVar: buf[:v.Header.Size]" buf size
    let e0 : NvE := { type := 4, size := size, attrs := attrs, offset := offset, nextOffset := 0,
                      dataOffset := 10, buf := vbuf }
    if attrs &&& 0x80 = 0 then pure (some (.mk { e0 with type := 0 } none [] none, s.guids)) else
    if pol ≠ 0xFF ∧ pol ≠ 0 then err else
    let last := if pol = 0xFF then 0xFFFFFF else 0
    let e1 : NvE := { e0 with type := if next3 ≠ last then 2 else 4,
                              nextOffset := if next3 ≠ last then offset + next3 else 0 }
    do
    let okExt ← parseExtHeaderG vbuf size attrs
    if ¬ okExt then pure (some (.mk { e1 with type := 0 } none [] none, s.guids)) else
    let id ← nvIdentT s vbuf attrs e1 offset
    if attrs &&& 0x10 = 0 then do                     -- fix wp-nvfix: no nested store behind an extended header
      let content ← sliceFromG "newNVar: v.buf[v.DataOffset:]" vbuf id.e.dataOffset
      if content.take 4 = nvarSig ∧ 4 ≤ content.length then do
        let ns ← nvarStoreT pol fuel content
        pure (some (.mk id.e id.gidx id.cps ns, id.guids))
      else pure (some (.mk id.e id.gidx id.cps none, id.guids))
    else pure (some (.mk id.e id.gidx id.cps none, id.guids))
termination_by structural fuel _ _ _ => fuel

/-- the entry loop of `NewNVarStore`: the final store state and the nodes in order -/
def nvarLoopT (pol : UInt8) : Nat → NvS → GoM (NvS × List NvNode)
  | fuel, s =>
    if s.fso < s.gso then
      match fuel with
      | 0 => outOfFuel
      | fuel+1 => do
        let eb ← sliceG "NewNVarStore: s.buf[s.FreeSpaceOffset:s.GUIDStoreOffset]" s.buf s.fso s.gso
        match ← newNvarT pol fuel eb s.fso s with
        | none => pure (s, [])
        | some (n, guids) =>
          -- fix wp-nvfix: `if s.FreeSpaceOffset > s.GUIDStoreOffset { return nil, err }`
          if s.fso + n.e.size > s.length - 16 * guids.length then err else do
          let (s', rest) ← nvarLoopT pol fuel { s with entries := s.entries ++ [n.e], guids := guids,
                                                       fso := s.fso + n.e.size,
                                                       gso := s.length - 16 * guids.length }
          pure (s', n :: rest)
    else pure (s, [])
termination_by structural fuel _ => fuel

/-- `NewNVarStore(buf)`; `none` = error -/
def nvarStoreT (pol : UInt8) : Nat → Bytes → GoM (Option NvTree)
  | 0, _ => outOfFuel
  | fuel+1, buf => do
    let own ← cloneG buf
    let s0 : NvS := { buf := own, gso := buf.length, length := buf.length }
    let r ← catchErrG (nvarLoopT pol fuel s0)
    pure (r.map (fun (s, ns) => NvTree.mk s ns))
termination_by structural fuel _ => fuel

end

/-- `uefi.NewNVarStore(buf)` under erase polarity `pol`, as a tree -/
def newNvarTreeG (pol : UInt8) (buf : Bytes) : GoM (Option NvTree) :=
  nvarStoreT pol (nvarFuel buf) buf

/-! ### canonical text (the format of `nvDump`) -/

def nvEntryText (e : NvE) (nested : Option String) : String :=
  s!"{e.type}:{e.size}:{e.dataOffset}:{e.offset}:{e.nextOffset}:{if e.isValid then hexOf e.guid else "-"}:{if e.isValid then hexOf e.name else "-"}:{fnvOf e.buf}" ++
    (match nested with | some t => "{" ++ t ++ "}" | none => "")

mutual
def nvDumpNode : NvNode → String
  | .mk e _ _ nested =>
    match nested with
    | none => nvEntryText e none
    | some t => nvEntryText e (some (nvDumpT t))
def nvDumpNodes : List NvNode → List String
  | [] => []
  | n :: ns => nvDumpNode n :: nvDumpNodes ns
def nvDumpT : NvTree → String
  | .mk s nodes =>
    s!"n={nodes.length} fso={s.fso} gso={s.gso} guids={s.guids.length}:{fnvOf s.guids.flatten} " ++
      joinWith "," (nvDumpNodes nodes)
end

/-! ### NVar.Assemble(content, checkOnly = true) -/

/-- the bytes `NVar.Assemble` writes in front of the content; `GUIDIndex == nil` is dereferenced when the
    entry has neither the data-only nor the GUID attribute -/
def nvarHeaderG (pol : UInt8) (e : NvE) (gidx : Option Nat) (cps : List Nat) : GoM Bytes := do
  let next : Bytes :=
    if e.nextOffset ≠ 0 then leN 3 (write3 ((e.nextOffset + 18446744073709551616 - e.offset) % 18446744073709551616))
    else [pol, pol, pol]
  let hdr : Bytes := nvarSig ++ leN 2 e.size ++ next ++ [byte e.attrs]
  if e.attrs &&& 0x08 = 0 then do
    let g ← (
      if e.attrs &&& 0x04 ≠ 0 then pure e.guid
      else
        match gidx with
        | some i => pure [byte i]
        | none => nilG "NVar.Assemble: *v.GUIDIndex" : GoM Bytes)
    let nm : Bytes := if e.attrs &&& 0x02 ≠ 0 then e.name ++ [0] else utf8ToUcs2 cps
    pure (hdr ++ g ++ nm)
  else pure hdr

/-- `v.Assemble(content, true)` on a valid entry: the new buffer, or an error when the regenerated
    header or the total size differ from what was parsed -/
def nvarAssembleG (pol : UInt8) (e : NvE) (gidx : Option Nat) (cps : List Nat) (content : Bytes) : GoM Bytes := do
  let hdr ← nvarHeaderG pol e gidx cps
  appendG 0 hdr.length
  if e.dataOffset ≠ hdr.length then err else do
  appendG hdr.length content.length
  if e.size ≠ (hdr.length + content.length) % 65536 then err else
  pure (hdr ++ content)

/-- `GetGUIDStoreBuf`: the GUIDs in reverse order -/
def guidStoreBuf (guids : List Bytes) : Bytes := guids.reverse.flatten

/-! ### Assemble.Visit over the NVAR nodes -/

/-- `for _, v := range f.Entries { nvData = append(nvData, v.Buf()...) }` -/
def concatBufsG : List NvNode → Bytes → GoM Bytes
  | [], acc => pure acc
  | n :: ns, acc => do
    appendG acc.length n.e.buf.length
    concatBufsG ns (acc ++ n.e.buf)

mutual

/-- the `*uefi.NVar` case (after `ApplyChildren`, i.e. the nested store) -/
def asmNvNodeG (pol : UInt8) : NvNode → GoM NvNode
  | .mk e gidx cps nested => do
    let nested' ← (
      match nested with
      | none => pure none
      | some t => do
        let t' ← asmNvTreeG pol t
        pure (some t') : GoM (Option NvTree))
    if e.isValid then do
      let content ← (
        match nested' with
        | none => sliceFromG "Assemble.Visit: f.Buf()[f.DataOffset:] (NVar)" e.buf e.dataOffset
        | some t' => pure t'.s.buf : GoM Bytes)
      let nb ← nvarAssembleG pol e gidx cps content
      pure (.mk { e with buf := nb } gidx cps nested')
    else pure (.mk e gidx cps nested')

def asmNvNodesG (pol : UInt8) : List NvNode → GoM (List NvNode)
  | [] => pure []
  | n :: ns => do
    let n' ← asmNvNodeG pol n
    let ns' ← asmNvNodesG pol ns
    pure (n' :: ns')

/-- the `*uefi.NVarStore` case (after `ApplyChildren`, i.e. every entry) -/
def asmNvTreeG (pol : UInt8) : NvTree → GoM NvTree
  | .mk s nodes => do
    let nodes' ← asmNvNodesG pol nodes
    let nvData ← concatBufsG nodes' []
    let fso := nvData.length % 18446744073709551616
    let gso := (s.length + 18446744073709551616 - (16 * s.guids.length) % 18446744073709551616) % 18446744073709551616
    if gso < fso then err else do                       -- fixes/C05-assemble-nvar-overlap.diff
    makeG (gso - fso)                                    -- make([]byte, f.GUIDStoreOffset-f.FreeSpaceOffset)
    appendG nvData.length (gso - fso)
    let nvData := nvData ++ List.replicate (gso - fso) pol
    let gb := guidStoreBuf s.guids
    appendG nvData.length gb.length
    pure (.mk { s with buf := nvData ++ gb, fso := fso, gso := gso } nodes')

end

/-- `(&visitors.Assemble{}).Run(store)` on the store of a RAW file: what the file's own case reads back
    (`f.NVarStore.Buf()`, `f.NVarStore.Length`).  The store node is `NewNVarStore(nv.buf)` under the erase
    polarity `pp` that was current when the file was parsed. -/
def nvAsmHookG (pp : UInt8) (nv : NvStore) (pol : UInt8) : GoM NvStore := do
  match ← newNvarTreeG pp nv.buf with
  | none => pure nv                                     -- (not reachable: the store parsed before)
  | some t => do
    let t' ← asmNvTreeG pol t
    pure { buf := t'.s.buf, length := nv.length }

/-! ### Validate.Visit and Extract.Visit over the NVAR nodes -/

mutual
/-- `Validate.Visit` has no case for `*uefi.NVarStore` / `*uefi.NVar`: it only applies the children -/
def validateNvNodeG : NvNode → GoM Unit
  | .mk _ _ _ nested =>
    match nested with
    | none => pure ()
    | some t => validateNvTreeG t
def validateNvNodesG : List NvNode → GoM Unit
  | [] => pure ()
  | n :: ns => do validateNvNodeG n; validateNvNodesG ns
def validateNvTreeG : NvTree → GoM Unit
  | .mk _ nodes => validateNvNodesG nodes
end

mutual
/-- the `*uefi.NVar` case of `Extract.Visit`: `name[:64]` is guarded by `len(name) > 64`; a valid entry
    without a nested store writes `f.Buf()[f.DataOffset:]`; returns the number of files written -/
def extractNvNodeG : NvNode → GoM Nat
  | .mk e _ _ nested =>
    if e.isValid then
      match nested with
      | none => do
        let _ ← sliceFromG "Extract.Visit: f.Buf()[f.DataOffset:] (NVar)" e.buf e.dataOffset
        pure 1
      | some t => extractNvTreeG t
    else
      match nested with
      | none => pure 1
      | some t => do let n ← extractNvTreeG t; pure (n + 1)
def extractNvNodesG : List NvNode → GoM Nat
  | [] => pure 0
  | n :: ns => do let a ← extractNvNodeG n; let b ← extractNvNodesG ns; pure (a + b)
def extractNvTreeG : NvTree → GoM Nat
  | .mk _ nodes => extractNvNodesG nodes
end

/-! ### the ME partition table under the walkers

    `MERegion.ApplyChildren` applies the visitor to `rr.FPT` when it parsed; `Validate.Visit`,
    `Extract.Visit` and `Assemble.Visit` have no `*uefi.MEFPT` case and `MEFPT.ApplyChildren` returns nil:
    the visit touches no buffer (inventory theorems `sites_MEFPT_Apply` … in TotalTie.lean). -/

def validateMeFptG (_ : MeFpt) : GoM Unit := pure ()
def extractMeFptG (_ : MeFpt) : GoM Nat := pure 0
def asmMeFptG (f : MeFpt) : GoM MeFpt := pure f

end Fiano.Uefi.Total
