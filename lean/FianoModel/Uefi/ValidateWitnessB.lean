/-
  C09b, exception F-C09-freespace, second half (kernel evaluation of a 64 KiB image, about a minute):
  the altered image parses and validates without any error — the alteration is missed.
-/
import FianoModel.Uefi.ValidateSample

namespace Fiano.Uefi.C09
open Fiano Fiano.Uefi Fiano.Uefi.Spec

theorem fs_missed : isClean (parseValidate Hooks.none (altered (ser fsImg) 94 0xFF)) = true := by decide +kernel

end Fiano.Uefi.C09
