/-
  C05 — Go-semantics (GoM) model of the flash-image level of pkg/uefi:
    FindSignature, ParseFlashDescriptor (NewFlashDescriptorMap / NewFlashRegionSection /
    NewFlashMasterSection), NewFlashImage (region table walk), fillRegionGaps, NewRawRegion,
    NewMERegion + NewMEFPT + parsePartitions (meregion.go), and uefi.Parse itself.
-/
import FianoModel.Uefi.TotalNvar

namespace Fiano.Uefi.Total
open Fiano GoM Fiano.Uefi

/-! ### ME flash partition table (meregion.go) -/

def fptSig : Bytes := [0x24, 0x46, 0x50, 0x54]

/-- does `b` start with `p`? -/
def startsWith : Bytes → Bytes → Bool
  | _, [] => true
  | [], _ :: _ => false
  | x :: xs, y :: ys => x == y && startsWith xs ys

/-- `bytes.Index(b, p)` -/
def indexOf (p : Bytes) : Bytes → Option Nat
  | [] => if p.isEmpty then some 0 else none
  | x :: xs => if startsWith (x :: xs) p then some 0 else (indexOf p xs).map (· + 1)

structure MeFpt where
  count    : Nat
  mapStart : Nat
  buf      : Bytes
  entries  : Bytes       -- 32·count bytes
  deriving Repr, Inhabited

/-- `NewMEFPT(buf)` followed by `parsePartitions` -/
def newMeFptG (buf : Bytes) : GoM MeFpt := do
  match indexOf fptSig buf with
  | none => err
  | some p =>
    let o := p + 4
    if buf.length < o + 28 then err else do
    let rb ← sliceFromG "NewMEFPT: buf[o:]" buf o
    let (cb, _) ← binaryReadG rb 4                    -- &fp.PartitionCount
    let count := fromLE cb
    let l := o + 28 + 32 * count
    if buf.length < l then err else do
    let fb ← copyOutG "NewMEFPT: buf[:l]" buf l
    allocG count 32                                    -- make([]MEPartitionEntry, fp.PartitionCount)
    let pb ← sliceFromG "parsePartitions: fp.buf[fp.PartitionMapStart:]" fb (o + 28)
    let (eb, _) ← binaryReadG pb (32 * count)
    pure { count := count, mapStart := o + 28, buf := fb, entries := eb }

/-- `NewMERegion`: the region buffer is copied; a table that does not parse is only logged -/
def newMeRegionG (buf : Bytes) (fr : FlashRegion) : GoM Region := do
  let own ← cloneG buf
  let _ ← catchErrG (newMeFptG buf)
  pure (.me own fr)

/-! ### flash descriptor -/

/-- `FindSignature`: offset just after the signature, `none` = an error is returned -/
def findSignatureG (buf : Bytes) : GoM (Option Nat) := do
  if buf.length < 20 then pure none else do
  let a ← sliceG "FindSignature: buf[16:16+len(FlashSignature)]" buf 16 20
  if a = flashSignature then pure (some 20) else do
  let b ← sliceToG "FindSignature: buf[:len(FlashSignature)]" buf 4
  if b = flashSignature then pure (some 4) else do
  let _ ← sliceToG "FindSignature: buf[:firstBytesCnt]" buf 20
  pure none

/-- `ParseFlashDescriptor` -/
def parseDescriptorG (buf : Bytes) : GoM Descriptor := do
  if buf.length ≠ 4096 then err else do
  match ← findSignatureG buf with
  | none => err
  | some ms =>
    let mb ← sliceFromG "ParseFlashDescriptor: fd.buf[fd.DescriptorMapStart:]" buf ms
    let (mapb, _) ← binaryReadG mb 16                 -- NewFlashDescriptorMap
    let map : DescMap := ⟨mapb.map (·.toNat)⟩
    let rs := map.regionBase * 16
    let re := rs + 64
    if rs ≥ buf.length ∨ re ≥ buf.length then err else do
    let rb ← sliceG "ParseFlashDescriptor: fd.buf[fd.RegionStart:regionEnd]" buf rs re
    if rb.length < 64 then err else do               -- NewFlashRegionSection
    let (rsb, _) ← binaryReadG rb 64
    let rsec : RegionSection := ⟨rd rsb 2 2, decodeRegions 15 (rsb.drop 4)⟩
    let mas := map.masterBase * 16
    let mbuf ← sliceG "ParseFlashDescriptor: fd.buf[fd.MasterStart:fd.MasterStart+12]" buf mas (mas + 12)
    if mbuf.length < 12 then err else do             -- NewFlashMasterSection
    let (msb, _) ← binaryReadG mbuf 12
    pure { buf := buf, mapStart := ms, regionStart := rs, masterStart := mas, map := map,
           region := rsec, master := ⟨decodePerms 3 msb⟩ }

/-- the loop over the region table in `NewFlashImage` -/
def parseRegionsG (h : HooksG) (z : Nat) (buf : Bytes) (nr : Nat) :
    List FlashRegion → Nat → St → GoM (List Region × St)
  | [], _, st => pure ([], st)
  | fr :: frs, i, st =>
    if nr ≠ 0 ∧ i ≥ nr then pure ([], st)
    else if ¬ fr.valid ∨ fr.baseOffset ≥ buf.length ∨ fr.endOffset > buf.length then
      parseRegionsG h z buf nr frs (i + 1) st
    else do
      let rbuf ← sliceG "NewFlashImage: buf[fr.BaseOffset():fr.EndOffset()]" buf fr.baseOffset fr.endOffset
      let (r, st') ← (
        if i = 0 then do
          let (b, st') ← parseBiosG h z rbuf (some fr) st
          pure (Region.bios b, st')
        else if i = 1 then do
          let r ← newMeRegionG rbuf fr
          pure (r, st)
        else do
          let own ← cloneG rbuf                        -- NewRawRegion
          pure (Region.raw own fr i, st) : GoM (Region × St))
      let (rs, st'') ← parseRegionsG h z buf nr frs (i + 1) st'
      pure (r :: rs, st'')

/-- `fillRegionGaps` over the sorted regions -/
def fillGapsG (fbuf : Bytes) (flashSize : Nat) : List Region → Nat → GoM (List Region)
  | [], offset =>
    if offset ≠ flashSize then do
      let g ← sliceG "fillRegionGaps: f.buf[offset:f.FlashSize]" fbuf offset flashSize
      pure [.raw g ⟨(offset / 4096) % 65536, (flashSize / 4096 % 65536 + 65535) % 65536⟩ (-1)]
    else pure []
  | r :: rs, offset =>
    match r.fr with
    | none => goPanic "fillRegionGaps: r.FlashRegion() (nil)"
    | some fr =>
      let nextBase := fr.baseOffset
      if nextBase < offset then err else do
      let gap ← (
        if nextBase > offset then do
          let g ← sliceG "fillRegionGaps: f.buf[offset:nextBase]" fbuf offset nextBase
          pure [Region.raw g ⟨(offset / 4096) % 65536, (nextBase / 4096 % 65536 + 65535) % 65536⟩ (-1)]
        else pure [] : GoM (List Region))
      let out ← fillGapsG fbuf flashSize rs fr.endOffset
      pure (gap ++ r :: out)

/-- `NewFlashImage(buf)` -/
def parseFlashG (h : HooksG) (z : Nat) (buf : Bytes) (st : St) : GoM (Flash × St) := do
  if buf.length < 4096 then err else do
  let fbuf ← cloneG buf                                -- f.buf = make([]byte, len(buf)); copy
  allocG 4096 1                                        -- f.IFD.buf = make([]byte, FlashDescriptorLength)
  let d0 ← sliceToG "NewFlashImage: buf[:FlashDescriptorLength]" buf 4096
  let ifd ← parseDescriptorG d0
  match ifd.region.regions[0]? with
  | none => goPanic "NewFlashImage: frs[RegionTypeBIOS]"
  | some bios =>
    if ¬ bios.valid then err else do
    let (rs, st') ← parseRegionsG h z buf ifd.map.numberOfRegions ifd.region.regions 0 st
    let rs' ← fillGapsG fbuf buf.length (sortRegions rs) 4096
    pure ({ buf := fbuf, ifd := ifd, regions := rs', flashSize := buf.length }, st')

/-- `uefi.Parse(buf)` from process state `st` -/
def parseWithG (h : HooksG) (z : Nat) (buf : Bytes) (st : St) : GoM (Tree × St) := do
  match ← findSignatureG buf with
  | some _ => do
    let (f, st') ← parseFlashG h z buf st
    pure (.flash f, st')
  | none => do
    let (b, st') ← parseBiosG h z buf none st
    pure (.bios b, st')

/-- `uefi.Parse(buf)` in a fresh process (polarity not yet set) -/
def parseG (h : HooksG) (z : Nat) (buf : Bytes) : GoM Tree := do
  let (t, _) ← parseWithG h z buf {}
  pure t

end Fiano.Uefi.Total
