/-
  UEFI core model — the side condition `savedOkAll` holds for every image of C01's reference grammar
  (follow-up wp-c07b): `Assemble` on `tree i` writes, at every nesting depth, volumes whose closed-form
  file end is the grammar's `endFiles` (every file already sits where the placement rule puts it), so
  nothing grows, lengths are below 2^62, headers are at least 64 bytes and attribute bytes are bytes.

  A structural induction over `SecI` / `FileI` / `FvI` that follows `Assemble`'s recursion, re-threading
  the state invariants of C01's lemmas (`pol = 0xFF`, `useFFS3 → all volumes below are FFSv3`) so that
  `asm_files` / `asm_fv` (Uefi/Lemmas/AsmMain.lean) can be applied at every nested volume.
-/
import FianoModel.Uefi.ExtractTwiceFlash
import FianoModel.Uefi.Lemmas.Final

namespace Fiano.Uefi
open Fiano Fiano.Uefi.Spec

/-! ### the closed form of the file loop on files of the grammar -/

theorem twRoundUp_dvd (x A : Nat) (hA : 0 < A) (h : x % A = 0) : twRoundUp x A = x := by
  obtain ⟨q, rfl⟩ := Nat.dvd_of_mod_eq_zero h
  unfold twRoundUp
  have e : A * q + A - 1 = A * q + (A - 1) := by omega
  rw [e, Nat.mul_add_div hA, Nat.div_eq_of_lt (by omega), Nat.add_zero, Nat.mul_comm]

theorem twPlaceAt_sat (al hl A : Nat) (hA : 0 < A) (h : (al + hl) % A = 0) : twPlaceAt al hl A = al := by
  unfold twPlaceAt
  simp only [twRoundUp_dvd _ _ hA h]
  have e : al + hl - hl - al = 0 := by omega
  rw [e]
  simp only [Nat.not_le_of_lt (by omega : 0 < 8), false_and, if_false]
  omega

theorem tw_storedAttrs_lt (f : FileI) (h : wfFile f = true) : storedAttrs f < 256 := by
  cases f with
  | leaf g ckh ckf t a st ext body => exact (wfFile_leaf h).ha
  | sect g t a st secs =>
    have ha := (wfFile_sect h).ha
    simp only [storedAttrs, sectAttrs]
    by_cases hc : 24 + sizeSecs 0 secs ≥ 0xFFFFFF
    · rw [if_pos hc]
      exact Nat.or_lt_two_pow (n := 8) ha (by decide)
    · rw [if_neg hc]
      exact Nat.lt_of_le_of_lt Nat.and_le_left ha

theorem twHdrLen_eq (a : Nat) : twHdrLen a = hdrLenOfAttrs a := by
  unfold twHdrLen hdrLenOfAttrs
  rw [Nat.and_one_is_mod]
  by_cases h : a % 2 = 1
  · simp [h]
  · have : a % 2 = 0 := by omega
    simp [this]

/-- a file of the grammar already sits where the placement rule puts it -/
theorem twFileStart_gram (off : Nat) (f : FileI) (hwf : wfFile f = true)
    (hal : (alignUp off 8 + hdrLenOfAttrs (storedAttrs f)) % alignmentOf (storedAttrs f) = 0) :
    twFileStart off (storedAttrs f) = alignUp off 8 := by
  unfold twFileStart
  simp only []
  by_cases h1 : alignmentOf (storedAttrs f) = 1
  · rw [if_pos h1]; rfl
  · rw [if_neg h1]
    have hpos : 0 < alignmentOf (storedAttrs f) := by
      rcases alignmentOf_cases (storedAttrs f) (tw_storedAttrs_lt f hwf) with hc | hc
      · omega
      · obtain ⟨k, _, hk, _, h16⟩ := bigAligns_pow2 _ hc
        omega
    rw [twHdrLen_eq]
    exact twPlaceAt_sat _ _ _ hpos hal

/-- … so the closed-form end of the re-laid files is the grammar's `endFiles` -/
theorem twLayEnd_gram : ∀ (fs : List FileI) (off len : Nat), wfFiles off len fs = true →
    twLayEnd (fs.map (fun f => (storedAttrs f, serFile f))) off = endFiles off fs
  | [], _, _, _ => rfl
  | f :: fs, off, len, h => by
    obtain ⟨hwf, _, _, hal, hrest⟩ := wfFiles_cons h
    simp only [List.map_cons, twLayEnd, endFiles]
    rw [twFileStart_gram off f hwf hal, length_serFile f hwf]
    exact twLayEnd_gram fs _ len hrest

/-! ### no growth when the closed-form end fits -/

theorem finishFv_fits (i : FvInfo) (fbuf : Bytes) (st : St) (i' : FvInfo) (out : Bytes) (st' : St)
    (h : finishFv i fbuf st = .ok (i', out, st')) (hfit : fbuf.length ≤ i.length) :
    i'.length = i.length ∧ out.length = i.length := by
  unfold finishFv at h
  by_cases hc : i.length < fbuf.length ∧ ¬ i.resizable = true
  · rw [if_pos hc] at h; cases h
  · rw [if_neg hc] at h
    have hng : ¬ i.length < fbuf.length := by omega
    simp only [hng, if_false] at h
    split at h
    · cases h
    · split at h
      · cases h
      · rename_i out' hp
        cases h
        refine ⟨rfl, ?_⟩
        rw [Exact.patchFvHeader_length _ _ _ _ _ _ hp]
        split
        · simp only [List.length_append, List.length_replicate]; omega
        · omega

/-- the FirmwareVolume case on files whose closed-form end fits the volume: the written buffer has the
    length of the volume and the `Length` field keeps its value -/
theorem relayoutFv_fits (i : FvInfo) (buf : Bytes) (fs : List File) (st : St) (i' : FvInfo) (out : Bytes) (st' : St)
    (h : relayoutFv i buf fs st = .ok (i', out, st'))
    (hp : st.pol = 0xFF ∨ st.pol = 0) (ha : ∀ f ∈ fs, f.info.attrs < 256)
    (hb : layEnd (fs.map (fun f => (f.info.attrs, f.buf))) i.dataOffset < 2 ^ 62)
    (hfit : layEnd (fs.map (fun f => (f.info.attrs, f.buf))) i.dataOffset ≤ i.length) :
    i'.length = i.length ∧ out.length = i.length := by
  unfold relayoutFv at h
  by_cases c1 : i.length < buf.length
  · rw [if_pos c1] at h; cases h
  rw [if_neg c1] at h
  by_cases c2 : i.blocks.isEmpty = true
  · rw [if_pos c2] at h; cases h
  rw [if_neg c2] at h
  by_cases c3 : i.dataOffset > buf.length
  · rw [if_pos c3] at h; cases h
  rw [if_neg c3] at h
  cases hpl : placeFiles st.pol (fs.map (fun f => (f.info.attrs, f.buf))) (buf.take i.dataOffset) i.dataOffset with
  | error e => rw [hpl] at h; cases h
  | ok fbuf =>
    rw [hpl] at h
    simp only at h
    have hne := Exact.placeFiles_nonempty st.pol _ _ _ fbuf hpl
    have hl : ∀ x ∈ fs.map (fun f => (f.info.attrs, f.buf)), x.1 < 256 ∧ x.2.length ≠ 0 := by
      intro x hx
      refine ⟨?_, hne x hx⟩
      rw [List.mem_map] at hx
      obtain ⟨f, hf, rfl⟩ := hx
      exact ha f hf
    have htk : (buf.take i.dataOffset).length = i.dataOffset := by simp; omega
    have heq := placeFiles_eq st.pol hp _ (buf.take i.dataOffset) i.dataOffset hl htk hb
    rw [hpl] at heq
    have hfb : fbuf = buf.take i.dataOffset ++ layAll st.pol (fs.map (fun f => (f.info.attrs, f.buf))) i.dataOffset :=
      Except.ok.inj heq.1
    have hlen : fbuf.length = layEnd (fs.map (fun f => (f.info.attrs, f.buf))) i.dataOffset := by
      rw [hfb, List.length_append, htk]; exact heq.2
    exact finishFv_fits i fbuf st i' out st' h (by rw [hlen]; exact hfit)

/-! ### the induction over the grammar -/

/-- a section without children comes out of `Assemble` without children -/
theorem asmSection_childless (h : Hooks) (i : SecInfo) (b : Bytes) (st : St) (s' : Section) (st' : St)
    (ha : asmSection h (.mk i b []) st = .ok (s', st')) : fxSection s' = true := by
  rw [asmSection_eq] at ha
  simp only [asmNodes] at ha
  obtain ⟨i', b', rfl, _, _⟩ := asmSectionTail_idem h i b [] st s' st' (Or.inl rfl) ha
  simp [fxSection, fxNodes]

theorem tw_wfFiles_mem : ∀ {fs : List FileI} {off len : Nat}, wfFiles off len fs = true → ∀ g ∈ fs, wfFile g = true
  | [], _, _, _, g, hg => by cases hg
  | f :: fs, off, len, h, g, hg => by
    obtain ⟨hwf, _, _, _, hrest⟩ := wfFiles_cons h
    simp only [List.mem_cons] at hg
    rcases hg with rfl | hg
    · exact hwf
    · exact tw_wfFiles_mem hrest g hg

mutual
theorem gram_sec : ∀ (s : SecI), wfSec s = true → ∀ (ord : Nat) (st : St) (s' : Section) (st' : St),
    st.pol = 0xFF → (st.ffs3 = true → allV3Sec s = true) →
    asmSection Hooks.none (treeSec s ord) st = .ok (s', st') → fxSection s' = true
  | .leaf t ext body, _, ord, st, s', st', _, _, ha => by
    simp only [treeSec] at ha; exact asmSection_childless _ _ _ _ _ _ ha
  | .guided ext g doff attrs body, _, ord, st, s', st', _, _, ha => by
    simp only [treeSec] at ha; exact asmSection_childless _ _ _ _ _ _ ha
  | .ui name, _, ord, st, s', st', _, _, ha => by
    simp only [treeSec] at ha; exact asmSection_childless _ _ _ _ _ _ ha
  | .version build ver, _, ord, st, s', st', _, _, ha => by
    simp only [treeSec] at ha; exact asmSection_childless _ _ _ _ _ _ ha
  | .depex t ops, _, ord, st, s', st', _, _, ha => by
    simp only [treeSec] at ha; exact asmSection_childless _ _ _ _ _ _ ha
  | .fvimg fv, h, ord, st, s', st', hp, hv, ha => by
    simp only [wfSec, Bool.and_eq_true, decide_eq_true_eq] at h
    have hvf : st.ffs3 = true → allV3Fv fv = true := by simpa [allV3Sec] using hv
    simp only [treeSec] at ha
    rw [asmSection_eq] at ha
    simp only [asmNodes] at ha
    cases h1 : asmFv Hooks.none (treeFv fv 0 true) st with
    | error e => rw [h1] at ha; cases ha
    | ok p =>
      obtain ⟨v', sta⟩ := p
      rw [h1] at ha
      simp only [] at ha
      have hk : keepsBuf (canonInfo 0x17 (sizeFv fv) ord) = false := by
        simp [keepsBuf, canonInfo_type]
      obtain ⟨i', b', rfl, _, _⟩ := asmSectionTail_idem Hooks.none _ _ [.fv v'] sta s' st' (Or.inr hk) ha
      have := gram_fv fv h.1 0 true st v' sta hp hvf h1
      simp [fxSection, fxNodes, this]
theorem gram_secs : ∀ (ss : List SecI), wfSecs ss = true → ∀ (idx : Nat) (st : St) (ss' : List Section) (st' : St),
    st.pol = 0xFF → ((st.ffs3 = true ∨ anyBigSecs ss = true) → allV3Secs ss = true) →
    asmSections Hooks.none (treeSecs ss idx) st = .ok (ss', st') → fxSections ss' = true
  | [], _, idx, st, ss', st', _, _, ha => by
    simp only [treeSecs, asmSections, Except.ok.injEq, Prod.mk.injEq] at ha
    rw [← ha.1]; rfl
  | s :: ss, h, idx, st, ss', st', hp, hv, ha => by
    have ⟨hs, hss⟩ := wfSecs_cons h
    have hvs : st.ffs3 = true → allV3Sec s = true := by
      intro hf
      have := hv (Or.inl hf)
      simp only [allV3Secs, Bool.and_eq_true] at this
      exact this.1
    obtain ⟨s1, st1, h1, _, hp1, hf1⟩ := asm_sec s hs idx st hp hvs
    have hvss : (st1.ffs3 = true ∨ anyBigSecs ss = true) → allV3Secs ss = true := by
      intro hc
      have : st.ffs3 = true ∨ anyBigSecs (s :: ss) = true := by
        rcases hc with hc | hc
        · rcases hf1 hc with h' | h'
          · left; exact h'
          · right; simp [anyBigSecs, h']
        · right; simp [anyBigSecs, hc]
      have := hv this
      simp only [allV3Secs, Bool.and_eq_true] at this
      exact this.2
    simp only [treeSecs, asmSections, h1] at ha
    cases h2 : asmSections Hooks.none (treeSecs ss (idx + 1)) st1 with
    | error e => rw [h2] at ha; cases ha
    | ok q =>
      obtain ⟨ss2, st2⟩ := q
      rw [h2] at ha
      simp only [Except.ok.injEq, Prod.mk.injEq] at ha
      rw [← ha.1]
      simp only [fxSections, Bool.and_eq_true]
      exact ⟨gram_sec s hs idx st s1 st1 hp hvs h1, gram_secs ss hss (idx + 1) st1 ss2 st2 hp1 hvss h2⟩
theorem gram_file : ∀ (f : FileI), wfFile f = true → ∀ (st : St) (f' : File) (st' : St), st.pol = 0xFF →
    ((st.ffs3 = true ∨ anyBigFiles [f] = true) → allV3Files [f] = true) →
    asmFile Hooks.none (treeFile f) st = .ok (f', st') → fxFile f' = true
  | .leaf g ckh ckf t a stt ext body, _, st, f', st', _, _, ha => by
    simp only [treeFile] at ha
    rw [asmFile] at ha
    simp only [asmSections, Except.ok.injEq, Prod.mk.injEq] at ha
    rw [← ha.1]
    simp [fxFile, fxSections]
  | .sect g t a stt secs, h, st, f', st', hp, hv, ha => by
    have w := wfFile_sect h
    have hvs : (st.ffs3 = true ∨ anyBigSecs secs = true) → allV3Secs secs = true := by
      intro hc
      have : st.ffs3 = true ∨ anyBigFiles [.sect g t a stt secs] = true := by
        rcases hc with hc | hc
        · left; exact hc
        · right; simp [anyBigFiles, hc]
      have := hv this
      simpa [allV3Files] using this
    have et : treeFile (.sect g t a stt secs) =
        File.mk (treeFile (.sect g t a stt secs)).info (treeFile (.sect g t a stt secs)).buf (treeSecs secs 0) := rfl
    have hnv : (treeFile (.sect g t a stt secs)).info.nvar = none := rfl
    have hgl : (treeFile (.sect g t a stt secs)).info.guid.length = 16 := w.hg
    rw [et, asmFile_eq _ _ _ _ _ hnv] at ha
    cases h1 : asmSections Hooks.none (treeSecs secs 0) st with
    | error e => rw [h1] at ha; cases ha
    | ok p =>
      obtain ⟨ss1, sta⟩ := p
      rw [h1] at ha
      simp only [Except.ok.injEq] at ha
      obtain ⟨i2, b2, e1, _, _⟩ := asmFileTail_idem _ (treeFile (.sect g t a stt secs)).buf ss1 sta hnv hgl
      have hf : f' = .mk i2 b2 ss1 := by rw [← e1, ha]
      rw [hf]
      simp only [fxFile]
      exact gram_secs secs w.hsecs 0 st ss1 sta hp hvs h1
theorem gram_files : ∀ (fs : List FileI) (off len : Nat), wfFiles off len fs = true →
    ∀ (st : St) (fs' : List File) (st' : St), st.pol = 0xFF →
    ((st.ffs3 = true ∨ anyBigFiles fs = true) → allV3Files fs = true) →
    asmFiles Hooks.none (treeFiles fs) st = .ok (fs', st') → fxFiles fs' = true
  | [], _, _, _, st, fs', st', _, _, ha => by
    simp only [treeFiles, asmFiles, Except.ok.injEq, Prod.mk.injEq] at ha
    rw [← ha.1]; rfl
  | f :: fs, off, len, h, st, fs', st', hp, hv, ha => by
    obtain ⟨hwf, _, _, _, hrest⟩ := wfFiles_cons h
    have hvf : (st.ffs3 = true ∨ anyBigFiles [f] = true) → allV3Files [f] = true := by
      intro hc
      have : st.ffs3 = true ∨ anyBigFiles (f :: fs) = true := by
        rcases hc with hc | hc
        · left; exact hc
        · right; rw [anyBigFiles_cons]; simp [hc]
      have := hv this
      rw [allV3Files_cons] at this
      simp only [Bool.and_eq_true] at this
      exact this.1
    obtain ⟨f1, st1, h1, _, _, hp1, hf1⟩ := asm_file f hwf st hp hvf
    have hvfs : (st1.ffs3 = true ∨ anyBigFiles fs = true) → allV3Files fs = true := by
      intro hc
      have : st.ffs3 = true ∨ anyBigFiles (f :: fs) = true := by
        rw [anyBigFiles_cons]
        rcases hc with hc | hc
        · rcases hf1 hc with h' | h'
          · left; exact h'
          · right; simp [h']
        · right; simp [hc]
      have := hv this
      rw [allV3Files_cons] at this
      simp only [Bool.and_eq_true] at this
      exact this.2
    simp only [treeFiles, asmFiles, h1] at ha
    cases h2 : asmFiles Hooks.none (treeFiles fs) st1 with
    | error e => rw [h2] at ha; cases ha
    | ok q =>
      obtain ⟨fs2, st2⟩ := q
      rw [h2] at ha
      simp only [Except.ok.injEq, Prod.mk.injEq] at ha
      rw [← ha.1]
      simp only [fxFiles, Bool.and_eq_true]
      exact ⟨gram_file f hwf st f1 st1 hp hvf h1, gram_files fs _ len hrest st1 fs2 st2 hp1 hvfs h2⟩
theorem gram_fv : ∀ (v : FvI), wfFv v = true → ∀ (off : Nat) (rz : Bool) (st : St) (v' : Fv) (st' : St),
    st.pol = 0xFF → (st.ffs3 = true → allV3Fv v = true) →
    asmFv Hooks.none (treeFv v off rz) st = .ok (v', st') → fxFv v' = true
  | .other zv g attrs rev rsv blocks body, h, off, rz, st, v', st', hp, _, ha => by
    have w := wfFv_other h
    simp only [treeFv] at ha
    rw [asmFv_eq] at ha
    simp only [setPolarity_keep attrs st w.hpol hp, asmFiles, asmFvTail, Except.ok.injEq, Prod.mk.injEq] at ha
    rw [← ha.1]
    simp [fxFv, fxFiles]
  | .ffs zv v3 attrs rev rsv blocks ext files free, h, off, rz, st, v', st', hp, hv, ha => by
    have w := wfFv_ffs h
    have hvf : (st.ffs3 = true ∨ anyBigFiles files = true) → allV3Files files = true := by
      intro hc
      rcases hc with hc | hc
      · have := hv hc
        simp only [allV3Fv, Bool.and_eq_true] at this
        exact this.2
      · exact (w.hbig hc).2
    obtain ⟨fs1, st1, h1, hb1, hp1, _⟩ := asm_files files _ _ w.hfiles st hp hvf
    have etree : treeFv (.ffs zv v3 attrs rev rsv blocks ext files free) off rz =
        Fv.mk (treeFv (.ffs zv v3 attrs rev rsv blocks ext files free) off rz).info
          (serFv (.ffs zv v3 attrs rev rsv blocks ext files free)) (treeFiles files) := rfl
    have hattrs : (treeFv (.ffs zv v3 attrs rev rsv blocks ext files free) off rz).info.attrs = attrs := rfl
    have hdo : (treeFv (.ffs zv v3 attrs rev rsv blocks ext files free) off rz).info.dataOffset = preLen blocks ext := rfl
    have hlen : (treeFv (.ffs zv v3 attrs rev rsv blocks ext files free) off rz).info.length =
        endFiles (preLen blocks ext) files + free := rfl
    rw [etree, asmFv_eq, hattrs, setPolarity_keep attrs st w.hpol hp] at ha
    simp only [h1] at ha
    have hfx1 := gram_files files _ _ w.hfiles st fs1 st1 hp hvf h1
    cases fs1 with
    | nil =>
      simp only [asmFvTail, Except.ok.injEq, Prod.mk.injEq] at ha
      rw [← ha.1]
      simp [fxFv, fxFiles]
    | cons a t =>
      simp only [asmFvTail] at ha
      cases hr : relayoutFv (treeFv (.ffs zv v3 attrs rev rsv blocks ext files free) off rz).info
          (serFv (.ffs zv v3 attrs rev rsv blocks ext files free)) (a :: t) st1 with
      | error e => rw [hr] at ha; cases ha
      | ok q =>
        obtain ⟨i', out, stc⟩ := q
        rw [hr] at ha
        simp only [Except.ok.injEq, Prod.mk.injEq] at ha
        rw [← ha.1]
        -- the files as `Assemble` returned them carry the grammar's attribute bytes and serialisations
        have hattr : ∀ f ∈ (a :: t), f.info.attrs < 256 := by
          intro f hf
          have hm : (f.info.attrs, f.buf) ∈ (a :: t).map (fun f => (f.info.attrs, f.buf)) := List.mem_map_of_mem hf
          rw [hb1, List.mem_map] at hm
          obtain ⟨g, hg, he⟩ := hm
          have := tw_storedAttrs_lt g (tw_wfFiles_mem w.hfiles g hg)
          simp only [Prod.mk.injEq] at he
          rw [← he.1]; exact this
        have hlay : layEnd ((a :: t).map (fun f => (f.info.attrs, f.buf))) (preLen blocks ext) =
            endFiles (preLen blocks ext) files := by
          rw [hb1, ← twLayEnd_eq]
          exact twLayEnd_gram files _ _ w.hfiles
        have hpol : st1.pol = 0xFF ∨ st1.pol = 0 := Or.inl hp1
        obtain ⟨k1, k2⟩ := relayoutFv_fits _ _ _ _ _ _ _ hr hpol hattr
          (by rw [hdo, hlay]; have := w.hlenlt; omega) (by rw [hdo, hlay, hlen]; omega)
        obtain ⟨kd, _⟩ := relayoutFv_keep _ _ _ _ _ _ _ hr
        simp only [fxFv, Bool.and_eq_true, Bool.or_eq_true, List.isEmpty_cons, Bool.false_eq_true, false_or,
          decide_eq_true_eq, List.all_eq_true]
        refine ⟨hfx1, ⟨⟨⟨by omega, ?_⟩, fun f hf => by simpa using hattr f hf⟩, ?_⟩⟩
        · rw [kd, hdo]; have := preLen_ge blocks ext; omega
        · rw [kd, hdo, twLayEnd_eq, hlay]; have := w.hlenlt; omega
end

/-! ### BIOS region, regions, the whole image -/

theorem gram_items : ∀ (is : List (Bytes × FvI)) (tail : Bytes), wfItems is tail = true →
    ∀ (off k : Nat) (st : St) (es' : List BiosElem) (st' : St), st.pol = 0xFF → st.ffs3 = false →
    asmBiosElems Hooks.none (treeItems is off ++ tailElems tail k) st = .ok (es', st') → fxBiosElems es' = true
  | [], tail, _, off, k, st, es', st', _, _, ha => by
    simp only [treeItems, List.nil_append, tailElems] at ha
    split at ha
    · simp only [asmBiosElems, Except.ok.injEq, Prod.mk.injEq] at ha
      rw [← ha.1]; rfl
    · simp only [asmBiosElems, Except.ok.injEq, Prod.mk.injEq] at ha
      rw [← ha.1]; rfl
  | (p, v) :: is, tail, h, off, k, st, es', st', hp, hf, ha => by
    obtain ⟨hv, _, hr⟩ := wfItems_cons h
    have hvv : st.ffs3 = true → allV3Fv v = true := by rw [hf]; intro hc; cases hc
    obtain ⟨v1, st1, h1, _, _, hp1, hf1⟩ := asm_fv v hv (off + p.length) false st hp hvv
    have hf1' : st1.ffs3 = false := by
      cases hc : st1.ffs3
      · rfl
      · have := hf1 hc; rw [hf] at this; cases this
    have hfx := gram_fv v hv (off + p.length) false st v1 st1 hp hvv h1
    by_cases hp0 : p.length = 0
    · simp only [treeItems, hp0, ne_eq, not_true_eq_false, if_false, List.nil_append, List.cons_append,
        asmBiosElems] at ha
      rw [hp0] at h1
      simp only [Nat.add_zero] at h1 ha
      rw [h1] at ha
      simp only [] at ha
      cases h2 : asmBiosElems Hooks.none (treeItems is (off + sizeFv v) ++ tailElems tail k) st1 with
      | error e => rw [h2] at ha; cases ha
      | ok q =>
        obtain ⟨es2, st2⟩ := q
        rw [h2] at ha
        simp only [Except.ok.injEq, Prod.mk.injEq] at ha
        rw [← ha.1]
        simp only [fxBiosElems, Bool.and_eq_true]
        exact ⟨hfx, gram_items is tail hr _ k st1 es2 st2 hp1 hf1' h2⟩
    · simp only [treeItems, hp0, ne_eq, not_false_eq_true, if_true, List.cons_append, List.nil_append,
        asmBiosElems] at ha
      rw [h1] at ha
      simp only [] at ha
      cases h2 : asmBiosElems Hooks.none (treeItems is (off + p.length + sizeFv v) ++ tailElems tail k) st1 with
      | error e => rw [h2] at ha; cases ha
      | ok q =>
        obtain ⟨es2, st2⟩ := q
        rw [h2] at ha
        simp only [Except.ok.injEq, Prod.mk.injEq] at ha
        rw [← ha.1]
        simp only [fxBiosElems, Bool.and_eq_true]
        exact ⟨hfx, gram_items is tail hr _ k st1 es2 st2 hp1 hf1' h2⟩

/-- the BIOSRegion case on a region of the grammar writes elements that satisfy the side condition -/
theorem gram_bios (b : BiosI) (fr : Option FlashRegion) (st : St) (b' : BiosRegion) (st' : St) (h : wfBios b = true)
    (hp : st.pol = 0xFF) (hf : st.ffs3 = false) (ha : asmBios Hooks.none (treeBios b fr) st = .ok (b', st')) :
    fxBiosElems b'.elems = true := by
  simp only [wfBios, Bool.and_eq_true, Bool.not_eq_true', List.isEmpty_eq_false_iff, beq_iff_eq] at h
  obtain ⟨⟨_, hitems⟩, _⟩ := h
  unfold asmBios at ha
  have he : (treeBios b fr).elems = treeItems b.items 0 ++ tailElems b.tail (sizeItems b.items) := rfl
  rw [he] at ha
  cases h1 : asmBiosElems Hooks.none (treeItems b.items 0 ++ tailElems b.tail (sizeItems b.items)) st with
  | error e => rw [h1] at ha; cases ha
  | ok p =>
    obtain ⟨es, st1⟩ := p
    rw [h1] at ha
    simp only [] at ha
    have hfx := gram_items b.items b.tail hitems 0 _ st es st1 hp hf h1
    split at ha
    · cases ha
    · split at ha
      · cases ha
      · split at ha
        · cases ha
        · simp only [Except.ok.injEq, Prod.mk.injEq] at ha
          rw [← ha.1]
          exact hfx

theorem gram_regions (tbl : List FlashRegion) : ∀ (rs : List RegI) (blk : Nat) (st : St) (l : List Region) (st' : St),
    rs.all wfReg = true → st.pol = 0xFF → st.ffs3 = false →
    asmRegions Hooks.none (treeRegs tbl rs blk) st = .ok (l, st') → fxRegions l = true
  | [], blk, st, l, st', _, _, _, ha => by
    simp only [treeRegs, asmRegions, Except.ok.injEq, Prod.mk.injEq] at ha
    rw [← ha.1]; rfl
  | r :: rs, blk, st, l, st', hwf, hp, hf, ha => by
    simp only [List.all_cons, Bool.and_eq_true] at hwf
    rw [treeRegs_cons] at ha
    cases r with
    | bios b =>
      have hwb : wfBios b = true := by simpa [wfReg] using hwf.1
      obtain ⟨b1, st1, h1, _, _, hp1, hf1⟩ := asm_bios b (some (tbl.getD 0 ⟨blk, blk + (RegI.bios b).blocks - 1⟩))
        st hwb hp hf
      have hfx := gram_bios b _ st b1 st1 hwb hp hf h1
      simp only [regNode, asmRegions, h1] at ha
      cases h2 : asmRegions Hooks.none (treeRegs tbl rs (blk + (RegI.bios b).blocks)) st1 with
      | error e => rw [h2] at ha; cases ha
      | ok q =>
        obtain ⟨l2, st2⟩ := q
        rw [h2] at ha
        simp only [Except.ok.injEq, Prod.mk.injEq] at ha
        rw [← ha.1]
        simp only [fxRegions, Bool.and_eq_true]
        exact ⟨hfx, gram_regions tbl rs _ st1 l2 st2 hwf.2 hp1 hf1 h2⟩
    | me d =>
      simp only [regNode, asmRegions] at ha
      cases h2 : asmRegions Hooks.none (treeRegs tbl rs (blk + (RegI.me d).blocks)) st with
      | error e => rw [h2] at ha; cases ha
      | ok q =>
        obtain ⟨l2, st2⟩ := q
        rw [h2] at ha
        simp only [Except.ok.injEq, Prod.mk.injEq] at ha
        rw [← ha.1]
        simp only [fxRegions]
        exact gram_regions tbl rs _ st l2 st2 hwf.2 hp hf h2
    | raw i d =>
      simp only [regNode, asmRegions] at ha
      cases h2 : asmRegions Hooks.none (treeRegs tbl rs (blk + (RegI.raw i d).blocks)) st with
      | error e => rw [h2] at ha; cases ha
      | ok q =>
        obtain ⟨l2, st2⟩ := q
        rw [h2] at ha
        simp only [Except.ok.injEq, Prod.mk.injEq] at ha
        rw [← ha.1]
        simp only [fxRegions]
        exact gram_regions tbl rs _ st l2 st2 hwf.2 hp hf h2
    | gap d =>
      simp only [regNode, asmRegions] at ha
      cases h2 : asmRegions Hooks.none (treeRegs tbl rs (blk + (RegI.gap d).blocks)) st with
      | error e => rw [h2] at ha; cases ha
      | ok q =>
        obtain ⟨l2, st2⟩ := q
        rw [h2] at ha
        simp only [Except.ok.injEq, Prod.mk.injEq] at ha
        rw [← ha.1]
        simp only [fxRegions]
        exact gram_regions tbl rs _ st l2 st2 hwf.2 hp hf h2

/-- the regions `Assemble` returns carry their block ranges: no empty span -/
theorem blockFrs_frOk : ∀ (rs : List RegI) (blk : Nat) (l : List Region), (∀ r ∈ rs, 1 ≤ r.blocks) →
    l.map Region.fr = blockFrs rs blk → ∀ x ∈ l, frOk x = true
  | [], _, l, _, h, x, hx => by
    simp only [blockFrs, List.map_eq_nil_iff] at h
    rw [h] at hx; cases hx
  | r :: rs, blk, [], _, h, x, hx => by cases hx
  | r :: rs, blk, y :: l, hn, h, x, hx => by
    simp only [blockFrs, List.map_cons, List.cons.injEq] at h
    simp only [List.mem_cons] at hx
    rcases hx with rfl | hx
    · unfold frOk
      rw [h.1]
      have := hn r (by simp)
      simp only [decide_eq_true_eq]
      omega
    · exact blockFrs_frOk rs _ l (fun r' hr' => hn r' (by simp [hr'])) h.2 x hx

/-- **the side condition holds for every image of the reference grammar** -/
theorem savedOkAll_gram (i : Img) (h : wf i = true) (st : St) (hp : st.pol = 0xFF) :
    savedOkAll Hooks.none (tree i) st = true := by
  unfold savedOkAll
  cases i with
  | bios b =>
    simp only [wf, Bool.and_eq_true] at h
    simp only [tree, asmTreeWith]
    cases h1 : asmBios Hooks.none (treeBios b none) { st with ffs3 := false } with
    | error e => rfl
    | ok p =>
      obtain ⟨b', st'⟩ := p
      simp only [fxTreeAll]
      exact gram_bios b none { st with ffs3 := false } b' st' h.1 hp rfl h1
  | flash f =>
    have hw := h
    simp only [wf, wfFlash, Bool.and_eq_true, beq_iff_eq, decide_eq_true_eq] at h
    obtain ⟨⟨⟨⟨⟨⟨⟨⟨hlen, hsig⟩, hrs⟩, hvalid⟩, htot⟩, hwf⟩, hbios⟩, hnadj⟩, hmatch⟩ := h
    have htblmem : ∀ e ∈ sortEntries (selectEntries (treeDesc f.desc).map.numberOfRegions
        (4096 + (serRegs f.regions).length) (treeDesc f.desc).region.regions 0),
        ∀ d, (treeDesc f.desc).region.regions.getD e.1 d = e.2 := by
      intro e he d
      obtain ⟨i, fr⟩ := e
      obtain ⟨_, h2⟩ := mem_selectEntries _ _ _ 0 i fr ((mem_sortEntries _ _).mp he)
      simp only [Nat.sub_zero] at h2
      rw [List.getD_eq_getElem?_getD, h2]; rfl
    have hfrs := regNode_fr f.regions (treeDesc f.desc).region.regions f.regions 1 _ hmatch htblmem
    have hblocks := match_blocks f.regions 1 _ hmatch
    obtain ⟨l, st1, h1, hl1, hl2, hl3, _, _⟩ := asm_regions (treeDesc f.desc).region.regions
      (treeDesc f.desc).map.numberOfRegions f.regions 1 { st with ffs3 := false } hwf hp rfl
    have hfxr := gram_regions (treeDesc f.desc).region.regions f.regions 1 { st with ffs3 := false } l st1 hwf hp rfl h1
    rw [hfrs] at hl1
    obtain ⟨b0, brest, htbl0⟩ : ∃ b0 brest, (treeDesc f.desc).region.regions = b0 :: brest := by
      simp only [treeDesc, decodeRegions]; exact ⟨_, _, rfl⟩
    have hv0 : b0.valid = true := by rw [htbl0] at hvalid; simpa using hvalid
    have hrep : l.map (repoint (treeDesc f.desc).region.regions (treeDesc f.desc).map.numberOfRegions) = l := by
      rw [List.map_congr_left hl3]; simp
    have hsorted : sortRegions l = l := by
      apply sortRegions_sorted
      intro k x y hx hy
      have hx' : (blockFrs f.regions 1)[k]? = some x.fr := by rw [← hl1]; simp [hx]
      have hy' : (blockFrs f.regions 1)[k + 1]? = some y.fr := by rw [← hl1]; simp [hy]
      exact blockFrs_sorted f.regions 1 (fun r hr => (hblocks r hr).2) k _ _ hx' hy'
    have htile := tile_ok l f.regions 1 f.desc hl1 hl2 hblocks
    have hfrok := blockFrs_frOk f.regions 1 l (fun r hr => (hblocks r hr).2) hl1
    simp only [tree, asmTreeWith]
    unfold asmFlash
    simp only [asmDescriptor_id f.desc hlen hrs, h1]
    rw [htbl0]
    simp only [hv0, not_true_eq_false, if_false]
    rw [← htbl0, hrep, hsorted]
    have e4096 : (1 : Nat) * 4096 = 4096 := rfl
    rw [e4096] at htile
    have hbuf : (treeDesc f.desc).buf = f.desc := rfl
    rw [hbuf, htile]
    have hser : ser (.flash f) = f.desc ++ serRegs f.regions := rfl
    simp only [hser, List.length_append, hlen, ne_eq, not_true_eq_false, if_false, fxTreeAll, fxFlash, hfxr,
      Bool.true_and, List.all_eq_true]
    exact hfrok

end Fiano.Uefi
