/-
  Property C07, follow-up wp-c07c — the side condition `savedOkAll` split: DEFINITIONS (core Lean).

  `savedOkAll h t st` (Uefi/ExtractTwiceDefs.lean) speaks about the tree the first `Assemble` pass wrote.  Its part
  `DataOffset ≥ 60` is a property of the PARSED image: `d60Tree t` — every volume with files, at any depth, has
  `DataOffset ≥ 60`, where `DataOffset = align8 (HeaderLen)`, resp. `align8 (ExtHeaderOffset + ExtHeaderSize)` when
  the volume has an extended header (`fvInfoOf`, Uefi/Parse.lean) — because `Assemble` changes neither the
  `DataOffset` of a volume nor which volumes have files (Uefi/ExtractTwiceParsed.lean).  `restOkAll` is what is
  left: the size parts (buffer no longer than `Length`, re-laid files below 2^62, which can fail only when
  `uefi.Align` wraps around 2^64), the attribute bytes, and the region spans of a flash image.
-/
import FianoModel.Uefi.ExtractTwiceDefs

namespace Fiano.Uefi
open Fiano

mutual
def d60Section : Section → Bool
  | .mk _ _ e => d60Nodes e
def d60Nodes : List Node → Bool
  | [] => true
  | .sec s :: ns => d60Section s && d60Nodes ns
  | .fv v :: ns => d60Fv v && d60Nodes ns
def d60Sections : List Section → Bool
  | [] => true
  | s :: ss => d60Section s && d60Sections ss
def d60File : File → Bool
  | .mk _ _ s => d60Sections s
def d60Files : List File → Bool
  | [] => true
  | f :: fs => d60File f && d60Files fs
def d60Fv : Fv → Bool
  | .mk i _ fs => d60Files fs && (fs.isEmpty || decide (60 ≤ i.dataOffset))
end

def d60BiosElems : List BiosElem → Bool
  | [] => true
  | .pad _ _ :: es => d60BiosElems es
  | .fv v :: es => d60Fv v && d60BiosElems es

def d60Regions : List Region → Bool
  | [] => true
  | .bios b :: rs => d60BiosElems b.elems && d60Regions rs
  | _ :: rs => d60Regions rs

/-- **every volume with files, at any depth, has `DataOffset ≥ 60`** — a predicate on the parsed image -/
def d60Tree : Tree → Bool
  | .flash f => d60Regions f.regions
  | .bios b => d60BiosElems b.elems

/-! ### `fx*` without the `DataOffset` part -/

mutual
def fxrSection : Section → Bool
  | .mk _ _ e => fxrNodes e
def fxrNodes : List Node → Bool
  | [] => true
  | .sec s :: ns => fxrSection s && fxrNodes ns
  | .fv v :: ns => fxrFv v && fxrNodes ns
def fxrSections : List Section → Bool
  | [] => true
  | s :: ss => fxrSection s && fxrSections ss
def fxrFile : File → Bool
  | .mk _ _ s => fxrSections s
def fxrFiles : List File → Bool
  | [] => true
  | f :: fs => fxrFile f && fxrFiles fs
def fxrFv : Fv → Bool
  | .mk i b fs =>
    fxrFiles fs &&
      (fs.isEmpty ||
        (decide (b.length ≤ i.length) &&
          fs.all (fun f => decide (f.info.attrs < 256)) &&
          decide (twLayEnd (fs.map (fun f => (f.info.attrs, f.buf))) i.dataOffset < 2 ^ 62)))
end

def fxrBiosElems : List BiosElem → Bool
  | [] => true
  | .pad _ _ :: es => fxrBiosElems es
  | .fv v :: es => fxrFv v && fxrBiosElems es

def fxrRegions : List Region → Bool
  | [] => true
  | .bios b :: rs => fxrBiosElems b.elems && fxrRegions rs
  | _ :: rs => fxrRegions rs

def fxrTreeAll : Tree → Bool
  | .flash f => fxrRegions f.regions && f.regions.all frOk
  | .bios b => fxrBiosElems b.elems

/-- `savedOkAll` without its `DataOffset ≥ 60` part: on the tree the first pass wrote, every volume with files has
    a buffer no longer than its `Length`, file attribute bytes below 256, re-laid files ending below 2^62; a flash
    image has no region with an empty span.  Vacuously true when the first pass fails. -/
def restOkAll (h : Hooks) (t : Tree) (st : St) : Bool :=
  match asmTreeWith h t { st with ffs3 := false } with
  | .ok (t1, _) => fxrTreeAll t1
  | .error _ => true

/-! ### attribute bytes; the size part alone -/

mutual
def at256Section : Section → Bool
  | .mk _ _ e => at256Nodes e
def at256Nodes : List Node → Bool
  | [] => true
  | .sec s :: ns => at256Section s && at256Nodes ns
  | .fv v :: ns => at256Fv v && at256Nodes ns
def at256Sections : List Section → Bool
  | [] => true
  | s :: ss => at256Section s && at256Sections ss
def at256File : File → Bool
  | .mk i _ s => decide (i.attrs < 256) && at256Sections s
def at256Files : List File → Bool
  | [] => true
  | f :: fs => at256File f && at256Files fs
def at256Fv : Fv → Bool
  | .mk _ _ fs => at256Files fs
end

def at256BiosElems : List BiosElem → Bool
  | [] => true
  | .pad _ _ :: es => at256BiosElems es
  | .fv v :: es => at256Fv v && at256BiosElems es

def at256Regions : List Region → Bool
  | [] => true
  | .bios b :: rs => at256BiosElems b.elems && at256Regions rs
  | _ :: rs => at256Regions rs

/-- every file, at any depth, has an attribute byte (`< 256`) — true of every parsed tree -/
def at256Tree : Tree → Bool
  | .flash f => at256Regions f.regions
  | .bios b => at256BiosElems b.elems

mutual
def fxsSection : Section → Bool
  | .mk _ _ e => fxsNodes e
def fxsNodes : List Node → Bool
  | [] => true
  | .sec s :: ns => fxsSection s && fxsNodes ns
  | .fv v :: ns => fxsFv v && fxsNodes ns
def fxsSections : List Section → Bool
  | [] => true
  | s :: ss => fxsSection s && fxsSections ss
def fxsFile : File → Bool
  | .mk _ _ s => fxsSections s
def fxsFiles : List File → Bool
  | [] => true
  | f :: fs => fxsFile f && fxsFiles fs
def fxsFv : Fv → Bool
  | .mk i b fs =>
    fxsFiles fs &&
      (fs.isEmpty ||
        (decide (b.length ≤ i.length) &&
          decide (twLayEnd (fs.map (fun f => (f.info.attrs, f.buf))) i.dataOffset < 2 ^ 62)))
end

def fxsBiosElems : List BiosElem → Bool
  | [] => true
  | .pad _ _ :: es => fxsBiosElems es
  | .fv v :: es => fxsFv v && fxsBiosElems es

def fxsRegions : List Region → Bool
  | [] => true
  | .bios b :: rs => fxsBiosElems b.elems && fxsRegions rs
  | _ :: rs => fxsRegions rs

def fxsTreeAll : Tree → Bool
  | .flash f => fxsRegions f.regions && f.regions.all frOk
  | .bios b => fxsBiosElems b.elems

/-- the SIZE part of the side condition alone (plus, for a flash image, no region with an empty span): on the tree
    the first pass wrote, every volume with files has a buffer no longer than its `Length` (fails only when
    `uefi.Align` wraps around 2^64 while the volume grows) and re-laid files ending below 2^62 -/
def sizeOkAll (h : Hooks) (t : Tree) (st : St) : Bool :=
  match asmTreeWith h t { st with ffs3 := false } with
  | .ok (t1, _) => fxsTreeAll t1
  | .error _ => true

end Fiano.Uefi
