/-
  C02, volume layer: the FirmwareVolume case of `Assemble.Visit` (`relayoutFv`) — the length rule
  (non-resizable ⇒ same length or error; resizable ⇒ next block boundary) and the validity of the
  file area it writes.
-/
import FianoModel.Uefi.LayoutLemmas

namespace Fiano.Uefi
open EditArith
open Fiano

theorem drop_splice_ge (b : Bytes) (off : Nat) (d : Bytes) (x : Nat) (hx : off + d.length ≤ x)
    (h : off + d.length ≤ b.length) : (splice b off d).drop x = b.drop x := by
  unfold splice
  have h1 : (b.take off).length = off := by simp; omega
  rw [List.append_assoc, List.drop_append, List.drop_of_length_le (by omega), List.nil_append, h1,
    List.drop_append, List.drop_of_length_le (by omega), List.nil_append, List.drop_drop]
  congr 1
  omega

theorem patch_tail (b2 buf : Bytes) (h60 : 60 ≤ buf.length) (hl2 : b2.length = buf.length)
    (hd2 : ∀ x, 60 ≤ x → b2.drop x = buf.drop x) (count headerLen : Nat) (out : Bytes)
    (h : (let b := splice b2 56 (leN 4 count)
          let b := splice b 50 [0, 0]
          if headerLen > b.length then (Except.error Err.err : Except Err Bytes)
          else if headerLen % 2 ≠ 0 then .error .err
          else .ok (splice b 50 (leN 2 ((0 - sum16 (b.take headerLen)).toNat)))) = .ok out) :
    out.length = buf.length ∧ ∀ x, 60 ≤ x → out.drop x = buf.drop x := by
  simp only at h
  have s3 : (splice b2 56 (leN 4 count)).length = buf.length ∧
      ∀ x, 60 ≤ x → (splice b2 56 (leN 4 count)).drop x = buf.drop x :=
    ⟨by rw [splice_length _ _ _ (by simp; omega)]; exact hl2,
     fun x hx => by rw [drop_splice_ge _ _ _ _ (by simp; omega) (by simp; omega)]; exact hd2 x hx⟩
  generalize splice b2 56 (leN 4 count) = b3 at *
  have s4 : (splice b3 50 [0, 0]).length = buf.length ∧
      ∀ x, 60 ≤ x → (splice b3 50 [0, 0]).drop x = buf.drop x :=
    ⟨by rw [splice_length _ _ _ (by simp; omega)]; exact s3.1,
     fun x hx => by rw [drop_splice_ge _ _ _ _ (by simp; omega) (by simp; omega)]; exact s3.2 x hx⟩
  generalize splice b3 50 [0, 0] = b4 at *
  split at h
  · cases h
  · split at h
    · cases h
    · cases h
      exact ⟨by rw [splice_length _ _ _ (by simp; omega)]; exact s4.1,
        fun x hx => by rw [drop_splice_ge _ _ _ _ (by simp; omega) (by simp; omega)]; exact s4.2 x hx⟩

/-- the header patches leave the length and everything from byte 60 on alone -/
theorem patchFvHeader_frame (buf : Bytes) (length : Nat) (guid : Option Guid) (count headerLen : Nat) (out : Bytes)
    (h : patchFvHeader buf length guid count headerLen = .ok out) :
    out.length = buf.length ∧ ∀ x, 60 ≤ x → out.drop x = buf.drop x := by
  unfold patchFvHeader at h
  split at h
  · cases h
  · rename_i h60
    have h60' : 60 ≤ buf.length := by omega
    have s1 : (splice buf 32 (leN 8 length)).length = buf.length ∧
        ∀ x, 60 ≤ x → (splice buf 32 (leN 8 length)).drop x = buf.drop x :=
      ⟨splice_length _ _ _ (by simp; omega), fun x hx => drop_splice_ge _ _ _ _ (by simp; omega) (by simp; omega)⟩
    cases guid with
    | none => exact patch_tail _ buf h60' s1.1 s1.2 count headerLen out h
    | some g =>
      have hg : (g.take 16).length ≤ 16 := by simp; omega
      refine patch_tail (splice (splice buf 32 (leN 8 length)) 16 (g.take 16)) buf h60' ?_ ?_ count headerLen out h
      · rw [splice_length _ _ _ (by omega)]; exact s1.1
      · intro x hx
        rw [drop_splice_ge _ _ _ _ (by omega) (by omega)]; exact s1.2 x hx

/-- the reader's file walk only looks at the volume length and at the bytes from its start offset on -/
theorem filesOk_congr (fuel : Nat) (e : UInt8) (fv fv' : Bytes) (D : Nat) (hlen : fv.length = fv'.length)
    (hd : ∀ x, D ≤ x → fv.drop x = fv'.drop x) : ∀ off, D ≤ off → Valid.filesOk fuel fv e off = Valid.filesOk fuel fv' e off := by
  induction fuel with
  | zero => intro off _; simp [Valid.filesOk]
  | succ n ih =>
    intro off hoff
    have h8 : off ≤ Valid.alignUp off 8 := by unfold Valid.alignUp; omega
    rw [Valid.filesOk, Valid.filesOk]
    simp only [hlen, hd off hoff, hd (Valid.alignUp off 8) (by omega)]
    split
    · rfl
    · split
      · rfl
      · split
        · rfl
        · split
          · rfl
          · rename_i size hl heq
            rw [ih (Valid.alignUp off 8 + size) (by omega)]

end Fiano.Uefi

namespace Fiano.Uefi
open EditArith
open Fiano

/-- the `(attribute byte, buffer)` pairs the file loop works on -/
def placed (files : List File) : List (Nat × Bytes) := files.map (fun f => (f.info.attrs, f.buf))

theorem goodFile_nonempty (pol : UInt8) (x : Nat × Bytes) (h : GoodFile pol x) : x.2.length ≠ 0 := by
  obtain ⟨need, hok⟩ := h.ok
  -- offset 2^24 * k - hdrLen is aligned for every alignment; any aligned offset will do
  have hal : ∃ o, (o + hdrLen x.1) % Valid.dataAlign x.1 = 0 := by
    refine ⟨Valid.dataAlign x.1 * 32 - hdrLen x.1, ?_⟩
    have hpos : 1 ≤ Valid.dataAlign x.1 := by
      rw [← alignmentOf_eq_dataAlign x.1 h.attrs]
      rcases alignmentOf_cases x.1 h.attrs with h1 | hb
      · omega
      · obtain ⟨_, _, _, _, h16⟩ := bigAligns_pow2 _ hb; omega
    have hl : hdrLen x.1 ≤ 32 := by unfold hdrLen; split <;> omega
    have : Valid.dataAlign x.1 * 32 - hdrLen x.1 + hdrLen x.1 = Valid.dataAlign x.1 * 32 := by
      have : 32 ≤ Valid.dataAlign x.1 * 32 := by omega
      omega
    rw [this]
    exact Nat.mul_mod_right _ _
  obtain ⟨o, ho⟩ := hal
  obtain ⟨hl, hfs, _⟩ := fileOk_true need x.2 o (hok need (Nat.le_refl _) o ho)
  have := (fileSize_some_length _ _ _ hfs).1
  omega

/-- the buffer a relayout without growth hands to the header patch -/
def laidOut (i : FvInfo) (buf : Bytes) (files : List File) (pol : UInt8) : Bytes :=
  buf.take i.dataOffset ++ (layAll pol (placed files) i.dataOffset ++
    List.replicate (i.length - layEnd (placed files) i.dataOffset) pol)

theorem goodPlaced (pol : UInt8) (files : List File) (hgood : ∀ f ∈ files, GoodFile pol (f.info.attrs, f.buf)) :
    ∀ x ∈ placed files, GoodFile pol x := by
  intro x hx
  unfold placed at hx
  rw [List.mem_map] at hx
  obtain ⟨f, hf, rfl⟩ := hx
  exact hgood f hf

/-- the shape of a successful relayout that does not grow the volume: the file loop in closed form,
    the erased tail, then the header patches -/
theorem relayoutFv_shape (i : FvInfo) (buf : Bytes) (files : List File) (st : St) (i' : FvInfo) (out : Bytes) (st' : St)
    (h : relayoutFv i buf files st = .ok (i', out, st'))
    (hp : st.pol = 0xFF ∨ st.pol = 0)
    (hgood : ∀ f ∈ files, GoodFile st.pol (f.info.attrs, f.buf))
    (hbound : layEnd (placed files) i.dataOffset < 2 ^ 62)
    (hfit : layEnd (placed files) i.dataOffset ≤ i.length) :
    i.dataOffset ≤ buf.length ∧ buf.length ≤ i.length ∧ (laidOut i buf files st.pol).length = i.length ∧
    i'.length = i.length ∧
    ∃ b0 bs, i.blocks = b0 :: bs ∧
      patchFvHeader (laidOut i buf files st.pol) i.length
        (if (st.ffs3 && i.fsGuid == guidFFS2) = true then some guidFFS3 else none) b0.count i.headerLen = .ok out := by
  unfold relayoutFv at h
  split at h
  · cases h
  · rename_i hlb
    split at h
    · cases h
    · split at h
      · cases h
      · rename_i hdo
        have hgl := goodPlaced st.pol files hgood
        have htake : (buf.take i.dataOffset).length = i.dataOffset := by simp; omega
        have hpf := placeFiles_eq st.pol hp (placed files) (buf.take i.dataOffset) i.dataOffset
          (fun x hx => ⟨(hgl x hx).attrs, goodFile_nonempty _ _ (hgl x hx)⟩) htake hbound
        unfold placed at hpf
        rw [hpf.1] at h
        simp only at h
        unfold finishFv at h
        simp only at h
        have hnew : (buf.take i.dataOffset ++ layAll st.pol (placed files) i.dataOffset).length =
            layEnd (placed files) i.dataOffset := by
          simp only [List.length_append, htake]; exact hpf.2
        unfold placed at hnew
        rw [hnew] at h
        split at h
        · rename_i hc; exact absurd hc.1 (by unfold placed at hfit; omega)
        · rw [if_neg (by unfold placed at hfit; omega)] at h
          simp only at h
          split at h
          · cases h
          · rename_i b0 bs hblocks
            split at h
            · cases h
            · rename_i patched hpatch
              cases h
              have hfb : (if i.length > layEnd (List.map (fun f => (f.info.attrs, f.buf)) files) i.dataOffset then
                  buf.take i.dataOffset ++ layAll st.pol (List.map (fun f => (f.info.attrs, f.buf)) files) i.dataOffset ++
                    List.replicate (i.length - layEnd (List.map (fun f => (f.info.attrs, f.buf)) files) i.dataOffset) st.pol
                  else buf.take i.dataOffset ++ layAll st.pol (List.map (fun f => (f.info.attrs, f.buf)) files) i.dataOffset) =
                  laidOut i buf files st.pol := by
                unfold laidOut placed
                split
                · simp [List.append_assoc]
                · rename_i hgt
                  have : i.length - layEnd (List.map (fun f => (f.info.attrs, f.buf)) files) i.dataOffset = 0 := by omega
                  rw [this]; simp
              rw [hfb] at hpatch
              have hlen : (laidOut i buf files st.pol).length = i.length := by
                unfold laidOut
                simp only [List.length_append, List.length_replicate, htake]
                have := hpf.2
                unfold placed at hfit ⊢
                omega
              exact ⟨by omega, by omega, hlen, rfl, b0, bs, hblocks, hpatch⟩

/-- **C02 `relayout_valid`** (the volume case of Assemble, Appendix A.1).  When the relayout of a
    volume succeeds — under a valid erase polarity, with every file in the list acceptable to the
    reader, and no growth beyond the current length —
      * the buffer has exactly the volume's length, and that length did not change;
      * from the data offset on, the buffer is a file area the independent reader accepts:
        8-aligned files, aligned data, no overlap, pad files only where a file had to move, erased
        filler and erased free space. -/
theorem relayoutFv_valid (i : FvInfo) (buf : Bytes) (files : List File) (st : St) (i' : FvInfo) (out : Bytes) (st' : St)
    (h : relayoutFv i buf files st = .ok (i', out, st'))
    (hp : st.pol = 0xFF ∨ st.pol = 0)
    (hgood : ∀ f ∈ files, GoodFile st.pol (f.info.attrs, f.buf))
    (hD : 60 ≤ i.dataOffset)
    (hbound : layEnd (placed files) i.dataOffset < 2 ^ 62)
    (hfit : layEnd (placed files) i.dataOffset ≤ i.length) :
    out.length = i.length ∧ i'.length = i.length ∧
    ∃ need, ∀ fuel, need ≤ fuel → Valid.filesOk fuel out st.pol i.dataOffset = true := by
  obtain ⟨hDle, _, hFlen, hi', b0, bs, _, hpatch⟩ := relayoutFv_shape i buf files st i' out st' h hp hgood hbound hfit
  have hfr := patchFvHeader_frame _ _ _ _ _ _ hpatch
  have htake : (buf.take i.dataOffset).length = i.dataOffset := by simp; omega
  refine ⟨by rw [hfr.1, hFlen], hi', ?_⟩
  have hlay := filesOk_layAll st.pol hp (placed files) (goodPlaced st.pol files hgood) (buf.take i.dataOffset)
    (i.length - layEnd (placed files) i.dataOffset) (by rw [htake]; exact hbound)
  rw [htake] at hlay
  obtain ⟨need, hneed⟩ := hlay
  refine ⟨need, fun fuel hf => ?_⟩
  rw [filesOk_congr fuel st.pol _ _ 60 hfr.1 hfr.2 i.dataOffset hD]
  exact hneed fuel hf

end Fiano.Uefi
