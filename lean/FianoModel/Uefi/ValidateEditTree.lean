/-
  C09a for edited trees (follow-up wp-c09c), part 2: **the tree below a volume**.  Mutual structural induction
  over section → nested volume → file → volume in lockstep with the reader's walks (`filesOk`, `sectionsOk`),
  the same shape as C02's `ParseOk4.lean` — the conclusion is "validate reports nothing" instead of the
  invariant `TreeOk`.
-/
import FianoModel.Uefi.ValidateEditNode
import FianoModel.Uefi.ValidateEditDef

namespace Fiano.Uefi.C09
open Fiano Fiano.Uefi
open EditArith

mutual

theorem ve_sec (h : Hooks) : ∀ (s : Section) (ctx : Bytes), SecF h s ctx → SecRA s → secSize ctx ≤ ctx.length →
    SecBytesOk (ctx.take (secSize ctx)) → ctx.length < 2 ^ 62 → xSection s = true →
    vSection s = [] ∧ s.info.extSize = secSize ctx
  | .mk i buf encap, ctx, hF, hRA, hsz, hb, hL, hx => by
    rw [SecRA] at hRA
    obtain ⟨hnode, hext⟩ := ve_sec_node h i buf encap ctx hF hRA.1 hsz hb
    refine ⟨?_, hext⟩
    rw [vSection, hnode, List.nil_append]
    rw [xSection] at hx
    by_cases h2 : i.type = 2
    · rw [if_pos h2] at hx
      exact List.isEmpty_iff.mp hx
    · rw [if_neg h2] at hx
      by_cases h17 : i.type = 0x17
      · obtain ⟨hnf, hfvb⟩ := sec_fv_payload h i buf encap ctx hF hRA.1 hsz hb h17
        have hRA2 := hRA.2
        rw [if_pos h17] at hRA2
        have hbl : buf.length ≤ ctx.length := by
          unfold SecF at hF
          rw [hF.2.2.1, List.length_take]; omega
        exact ve_nodesFv h encap (buf.drop (secHdrSize i)) hnf hRA2 hfvb (by rw [List.length_drop]; omega) hx
      · unfold SecF at hF
        have hc := hF.2.2.2.2.2
        rw [if_neg h2, if_neg h17] at hc
        rw [hc, vNodes]

theorem ve_nodesFv (h : Hooks) : ∀ (ns : List Node) (d : Bytes), NodesFv h ns d → NodesRA ns → FvBytesOk d →
    d.length < 2 ^ 62 → xNodes ns = true → vNodes ns = []
  | [], _, hF, _, _, _, _ => by unfold NodesFv at hF; exact hF.elim
  | .sec _ :: _, _, hF, _, _, _, _ => by unfold NodesFv at hF; exact hF.elim
  | .fv _ :: _ :: _, _, hF, _, _, _, _ => by unfold NodesFv at hF; exact hF.elim
  | [.fv v], d, hF, hRA, hb, hL, hx => by
    unfold NodesFv at hF
    rw [NodesRA] at hRA
    rw [xNodes, xNodes, Bool.and_true] at hx
    rw [vNodes, vNodes, List.append_nil]
    obtain ⟨i, buf, files⟩ := v
    have hlen : i.length = d.length := by
      have hF1 := hF.1
      unfold FvF at hF1
      rw [hF1.1.2.2.1, rd_eq_fld]
      exact (fvBytesOk_len d hb).1
    refine ve_fv h (.mk i buf files) d hF.1 hRA ?_ hL hx
    simp only [Fv.info]
    rw [hlen, List.take_of_length_le (Nat.le_refl _)]
    exact hb

theorem ve_fv (h : Hooks) : ∀ (v : Fv) (data : Bytes), FvF h v data → FvRA v → FvBytesOk (data.take v.info.length) →
    data.length < 2 ^ 62 → xFv v = true → vFv v = []
  | .mk i buf files, data, hF, hRA, hb, hL, hx => by
    rw [FvRA] at hRA
    have hF' := hF
    unfold FvF at hF'
    obtain ⟨hh, hle, hbuf, hc⟩ := hF'
    simp only [Fv.info] at hb
    rw [← hbuf] at hb
    rw [xFv] at hx
    simp only [Bool.and_eq_true, decide_eq_true_eq] at hx
    obtain ⟨⟨hg, hrev⟩, hxf⟩ := hx
    have hnode := ve_fv_node h i buf files data hF hb hrev hg
    have hhdr := fv_hdr_est h i buf files data hF hRA.1 hb
    rw [vFv, hnode, List.nil_append]
    by_cases hg2 : i.fsGuid = guidFFS2 ∨ i.fsGuid = guidFFS3
    · rw [if_pos hg2] at hc
      obtain ⟨f0, hf0⟩ := hb
      cases f0 with
      | zero => simp [Valid.fvOk] at hf0
      | succ n =>
        rw [fvOk_eq] at hf0
        simp only [Bool.and_eq_true] at hf0
        have hffs : fvIsFfs buf = true := by
          unfold fvIsFfs
          rw [← hhdr.guid, ← guidFFS2_eq, ← guidFFS3_eq]
          simpa using hg2
        rw [if_pos hffs] at hf0
        have hbl : buf.length ≤ data.length := by rw [hbuf, List.length_take]; omega
        exact ve_filesAt h files buf i.dataOffset i.freeSpace (fvErased buf) hc hRA.2 n (fvFirst buf)
          (by rw [hhdr.dOff, up8_eq_alignUp, alignUp8_idem]) hf0.2 (fvErased_cases buf) (by omega) hxf
    · rw [if_neg hg2] at hc
      rw [hc.1, vFiles]

theorem ve_filesAt (h : Hooks) : ∀ (files : List File) (fvbuf : Bytes) (off free : Nat) (e : UInt8),
    FilesAt h files fvbuf off free → FilesRA files → ∀ (fuel off' : Nat), Valid.alignUp off' 8 = up8 off →
    Valid.filesOk fuel fvbuf e off' = true → (e = 0xFF ∨ e = 0) → fvbuf.length < 2 ^ 62 → xFiles files = true →
    vFiles files = []
  | [], _, _, _, _, _, _, _, _, _, _, _, _, _ => by rw [vFiles]
  | .mk i buf secs :: fs, fvbuf, off, free, e, hF, hRA, fuel, off', hal, hok, he, hL, hx => by
    unfold FilesAt at hF
    obtain ⟨hlt, hFf, hpos, hrest⟩ := hF
    rw [FilesRA] at hRA
    rw [xFiles, Bool.and_eq_true] at hx
    simp only [File.info] at hpos hrest
    cases fuel with
    | zero => simp [Valid.filesOk] at hok
    | succ n =>
      have hFf' := hFf
      unfold FileF at hFf'
      obtain ⟨hh, hle, hbuf, _⟩ := hFf'
      have h24 := hh.1
      rw [← hal] at hlt hFf hh hle hbuf hrest h24
      generalize ho : Valid.alignUp off' 8 = o at *
      have hcl : (fvbuf.drop o).length = fvbuf.length - o := by simp
      have h8 : off' ≤ o := by rw [← ho]; unfold Valid.alignUp; omega
      -- the reader does not stop here
      have hlive : Valid.allAre e ((fvbuf.drop o).take 24) = false := by
        cases hd : Valid.allAre e ((fvbuf.drop o).take 24) with
        | false => rfl
        | true =>
          exfalso
          have hall := filesOk_erased n fvbuf e off' hok (by rw [ho]; omega) (by rw [ho]; exact hd)
          have hall' : Valid.allAre e (fvbuf.drop o) = true := by
            have := allAre_drop e (fvbuf.drop off') (o - off') hall
            rw [List.drop_drop] at this
            have e' : off' + (o - off') = o := by omega
            rw [e'] at this; exact this
          exact file_not_erased i (fvbuf.drop o) e he hh hpos hle (by omega) hall'
      obtain ⟨size, hl, hfs, _, hfit, hfok, hnext⟩ := filesOk_inv n fvbuf e off' hok (by rw [ho]; omega) (by rw [ho]; exact hlive)
      rw [ho] at hfs hfit hfok hnext
      obtain ⟨hfo, hext⟩ := ve_file h (.mk i buf secs) (fvbuf.drop o) hFf hRA.1 hpos n o size hl hfs hfok (by omega) hx.1
      simp only [File.info] at hext
      rw [hext] at hrest
      have ih := ve_filesAt h fs fvbuf (o + size) free e hrest hRA.2 n (o + size) (by rw [up8_eq_alignUp]) hnext he hL hx.2
      rw [vFiles, hfo, ih]
      rfl

theorem ve_file (h : Hooks) : ∀ (f : File) (ctx : Bytes), FileF h f ctx → FileRA f → 0 < f.info.extSize →
    ∀ (fuel o size hl : Nat), Valid.fileSize ctx = some (size, hl) → Valid.fileOk fuel (ctx.take size) o = true →
    ctx.length < 2 ^ 62 → xFile f = true → vFile f = [] ∧ f.info.extSize = size
  | .mk i buf secs, ctx, hF, hRA, hpos, fuel, o, size, hl, hfs, hok, hL, hx => by
    rw [FileRA] at hRA
    cases fuel with
    | zero => simp [Valid.fileOk] at hok
    | succ n =>
      obtain ⟨hnode, hext, hdo⟩ := ve_file_node h i buf secs ctx hF hpos n o size hl hfs hok
      refine ⟨?_, hext⟩
      rw [vFile, hnode, List.nil_append]
      by_cases hnv : i.nvar.isSome = true
      · rw [if_pos hnv]
      · rw [if_neg hnv]
        rw [xFile, if_neg hnv] at hx
        have hF' := hF
        unfold FileF at hF'
        obtain ⟨hh, hle, hbuf, _, hc⟩ := hF'
        by_cases hs : supportedFile i.type = true
        · rw [if_pos hs] at hc
          obtain ⟨hl', hfs', _, hsec'⟩ := fileOk_inv n _ o hok
          have hbufe : buf = ctx.take size := by rw [hbuf, hext]
          have hblen : (ctx.take size).length = size := by rw [List.length_take]; omega
          have h24s : 24 ≤ size := by
            have := fileSize_some_length _ _ _ hfs'
            rw [hblen] at this; exact this.1
          obtain ⟨_, _, _, _, hty, hat, _⟩ := hh
          rw [rd_eq_fld] at hty hat
          have b18 : Valid.fld (ctx.take size) 18 1 = i.type := by rw [fld_take _ _ _ _ (by omega), hty]
          have b19 : Valid.fld (ctx.take size) 19 1 = i.attrs := by rw [fld_take _ _ _ _ (by omega), hat]
          have hhl1 := fileSize_hl ctx size hl hfs
          have hhl2 := fileSize_hl _ _ hl' hfs'
          rw [b19] at hhl2
          rw [← hat] at hhl1
          have hhleq : hl' = hl := by rw [hhl1, hhl2]
          have hty256 : i.type < 256 := by rw [hty]; have := fld_lt ctx 18 1; simpa using this
          have hsx : Valid.sectionsOk n ((ctx.take size).drop hl') 0 = true := by
            apply hsec'
            rw [b18, sectioned_eq_supported _ hty256]; exact hs
          rw [hhleq, ← hbufe, ← hdo] at hsx
          have hdo2 := fileHeaderOk_doff i ctx (by unfold FileF at hF; exact hF.1)
          have hbl : buf.length ≤ ctx.length := by rw [hbuf, List.length_take]; omega
          exact ve_secsAt h secs buf i.dataOffset 0 hc hRA n i.dataOffset (Nat.le_refl _) (by omega) (by omega)
            (by rw [Nat.sub_self]; exact hsx) hx
        · rw [if_neg hs] at hc
          rw [hc, vSections]

theorem ve_secsAt (h : Hooks) : ∀ (secs : List Section) (fbuf : Bytes) (off idx : Nat), SecsAt h secs fbuf off idx →
    SecsRA secs → ∀ (fuel hl : Nat), hl ≤ off → hl % 4 = 0 → fbuf.length < 2 ^ 62 →
    Valid.sectionsOk fuel (fbuf.drop hl) (off - hl) = true → xSections secs = true → vSections secs = []
  | [], _, _, _, _, _, _, _, _, _, _, _, _ => by rw [vSections]
  | s :: ss, fbuf, off, idx, hF, hRA, fuel, hl, hle, h4, hL, hok, hx => by
    unfold SecsAt at hF
    obtain ⟨hlt, hFs, _, hpos, hrest⟩ := hF
    rw [SecsRA] at hRA
    rw [xSections, Bool.and_eq_true] at hx
    cases fuel with
    | zero => simp [Valid.sectionsOk] at hok
    | succ n =>
      have hbl : (fbuf.drop hl).length = fbuf.length - hl := by simp
      obtain ⟨_, hsz, hsb, hnext⟩ := sectionsOk_inv n (fbuf.drop hl) (off - hl) hok (by omega)
      have hctx : (fbuf.drop hl).drop (off - hl) = fbuf.drop off := by
        rw [List.drop_drop]; congr 1; omega
      rw [hctx] at hsz hsb hnext
      obtain ⟨hso, hext⟩ := ve_sec h s (fbuf.drop off) hFs hRA.1 hsz hsb (by simp; omega) hx.1
      rw [hext] at hrest
      have hnxt : up4 (off + secSize (fbuf.drop off)) - hl = Valid.alignUp (off - hl + secSize (fbuf.drop off)) 4 := by
        unfold up4 Valid.alignUp; omega
      have hge : hl ≤ up4 (off + secSize (fbuf.drop off)) := by unfold up4; omega
      have ih := ve_secsAt h ss fbuf _ (idx + 1) hrest hRA.2 n hl hge h4 hL (by rw [hnxt]; exact hnext) hx.2
      rw [vSections, hso, ih]
      rfl

end

end Fiano.Uefi.C09
