/-
  C02 (follow-up wp-c02b), create-fv, part 1: the volume `createEmptyFirmwareVolume` builds under
  erase polarity 0xFF passes the reader's volume rules V1–V7, and its node satisfies the invariant
  of the central theorem (`TopFvOk`).
-/
import FianoModel.Uefi.CreateFv
import FianoModel.Uefi.EditValidOps2

namespace Fiano.Uefi
open Fiano
open EditArith

/-! ### the pad file with the extended header -/

/-- header of the 44-byte pad file under polarity 0xFF -/
def extPadHdr : Bytes :=
  [0xFF, 0xFF, 0xFF, 0xFF, 0xFF, 0xFF, 0xFF, 0xFF, 0xFF, 0xFF, 0xFF, 0xFF, 0xFF, 0xFF, 0xFF, 0xFF, 0xF4, 0xAA, 0xF0, 0x00, 44, 0, 0, 0xF8]

theorem extPadFile_FF (name : Guid) : extPadFile 0xFF name = .ok (extPadHdr ++ (name.take 16 ++ leN 4 20)) := rfl

/-! ### the 72 header bytes -/

theorem h0_len (size : Nat) : (newFvHeader0 size).length = 72 := by
  simp [newFvHeader0, leN, guidFFS2]

theorem h0_w0 (size : Nat) : (newFvHeader0 size).take 16 = List.replicate 16 0 := rfl
theorem h0_w16 (size : Nat) : ((newFvHeader0 size).drop 16).take 16 = guidFFS2 := rfl
theorem h0_w32 (size : Nat) : ((newFvHeader0 size).drop 32).take 8 = leN 8 size := rfl
theorem h0_w40 (size : Nat) : ((newFvHeader0 size).drop 40).take 4 = Valid.fvSig := rfl
theorem h0_w44 (size : Nat) : ((newFvHeader0 size).drop 44).take 4 = leN 4 0x0004FEFF := rfl
theorem h0_w48 (size : Nat) : ((newFvHeader0 size).drop 48).take 2 = leN 2 72 := rfl
theorem h0_w50 (size : Nat) : ((newFvHeader0 size).drop 50).take 2 = [0, 0] := rfl
theorem h0_w52 (size : Nat) : ((newFvHeader0 size).drop 52).take 2 = leN 2 0x60 := rfl
theorem h0_w56 (size : Nat) : ((newFvHeader0 size).drop 56).take 4 = leN 4 ((size / 4096) % 4294967296) := rfl
theorem h0_w60 (size : Nat) : ((newFvHeader0 size).drop 60).take 4 = leN 4 4096 := rfl
theorem h0_w64 (size : Nat) : ((newFvHeader0 size).drop 64).take 8 = List.replicate 8 0 := rfl

theorem splice_window_self (b : Bytes) (off n : Nat) : splice b off ((b.drop off).take n) = b := by
  unfold splice
  by_cases h : off + n ≤ b.length
  · have : ((b.drop off).take n).length = n := by simp; omega
    rw [this, List.append_assoc]
    have e : (b.drop off).take n ++ b.drop (off + n) = b.drop off := by
      rw [← List.drop_drop]; exact List.take_append_drop n _
    rw [e, List.take_append_drop]
  · have e1 : (b.drop off).take n = b.drop off := List.take_of_length_le (by simp; omega)
    rw [e1, List.append_assoc]
    have e2 : b.drop (off + (b.drop off).length) = [] := List.drop_eq_nil_of_le (by simp; omega)
    rw [e2, List.append_nil, List.take_append_drop]

/-- the checksum patch, as a number -/
def newFvCk (size : Nat) : Nat := (0 - sum16 ((newFvHeader0 size).take 72)).toNat

theorem newFvHeader_eq (size : Nat) : newFvHeader size = splice (newFvHeader0 size) 50 (leN 2 (newFvCk size)) := rfl

theorem hdr_len (size : Nat) : (newFvHeader size).length = 72 := by
  rw [newFvHeader_eq, splice_length _ _ _ (by simp [h0_len])]
  exact h0_len size

/-- every window of the header that avoids the checksum word is that of the unpatched bytes -/
theorem hdr_window (size a n : Nat) (h : a + n ≤ 50 ∨ 52 ≤ a) :
    ((newFvHeader size).drop a).take n = ((newFvHeader0 size).drop a).take n := by
  rw [newFvHeader_eq]
  exact window_splice _ _ 50 a n (by simp [h0_len]) (by simpa using h)

/-- rule V4: the 16-bit words of the header sum to zero -/
theorem hdr_wordSum (size : Nat) : Valid.wordSum ((newFvHeader size).take 72) = 0 := by
  have h := checksum_fix (newFvHeader0 size) 72 (by omega) (by simp [h0_len]) (by omega)
  have e : splice (newFvHeader0 size) 50 [0, 0] = newFvHeader0 size := by
    have := splice_window_self (newFvHeader0 size) 50 2
    rw [h0_w50] at this
    exact this
  rw [e] at h
  exact h

/-! ### the buffer of the new volume -/

/-- the bytes of the new volume under polarity 0xFF -/
def newFvBuf (size : Nat) (name : Guid) : Bytes :=
  newFvHeader size ++ ((extPadHdr ++ (name.take 16 ++ leN 4 20)) ++ List.replicate (size - 116) 0xFF)

theorem newFvBuf_length (size : Nat) (name : Guid) (hn : name.length = 16) (hs : 116 ≤ size) :
    (newFvBuf size name).length = size := by
  simp [newFvBuf, hdr_len, extPadHdr, hn]
  omega

/-- windows inside the header -/
theorem buf_window (size : Nat) (name : Guid) (a n : Nat) (h : a + n ≤ 72) :
    ((newFvBuf size name).drop a).take n = ((newFvHeader size).drop a).take n := by
  unfold newFvBuf
  rw [List.drop_append_of_le_length (by rw [hdr_len]; omega), List.take_append_of_le_length (by simp [hdr_len]; omega)]

theorem buf_fld (size : Nat) (name : Guid) (a n : Nat) (h : a + n ≤ 72) (h2 : a + n ≤ 50 ∨ 52 ≤ a) :
    Valid.fld (newFvBuf size name) a n = fromLE (((newFvHeader0 size).drop a).take n) := by
  unfold Valid.fld
  rw [buf_window size name a n h, hdr_window size a n h2]

theorem buf_fld32 (size : Nat) (name : Guid) (hs : size < 2 ^ 64) : Valid.fld (newFvBuf size name) 32 8 = size := by
  rw [buf_fld _ _ _ _ (by omega) (by omega), h0_w32, fromLE_leN_of_lt _ _ (by simpa using hs)]

theorem buf_fld44 (size : Nat) (name : Guid) : Valid.fld (newFvBuf size name) 44 4 = 0x4FEFF := by
  rw [buf_fld _ _ _ _ (by omega) (by omega), h0_w44]; decide

theorem buf_fld48 (size : Nat) (name : Guid) : Valid.fld (newFvBuf size name) 48 2 = 72 := by
  rw [buf_fld _ _ _ _ (by omega) (by omega), h0_w48]; decide

theorem buf_fld52 (size : Nat) (name : Guid) : Valid.fld (newFvBuf size name) 52 2 = 96 := by
  rw [buf_fld _ _ _ _ (by omega) (by omega), h0_w52]; decide

theorem buf_fld56 (size : Nat) (name : Guid) (hs : size < 2 ^ 44) : Valid.fld (newFvBuf size name) 56 4 = size / 4096 := by
  rw [buf_fld _ _ _ _ (by omega) (by omega), h0_w56, fromLE_leN]
  have : size / 4096 < 4294967296 := by omega
  omega

theorem buf_fld60 (size : Nat) (name : Guid) : Valid.fld (newFvBuf size name) 60 4 = 4096 := by
  rw [buf_fld _ _ _ _ (by omega) (by omega), h0_w60]; decide

theorem buf_fld64 (size : Nat) (name : Guid) : Valid.fld (newFvBuf size name) 64 4 = 0 ∧ Valid.fld (newFvBuf size name) 68 4 = 0 := by
  have h8 : ((newFvHeader0 size).drop 64).take 8 = List.replicate 8 0 := h0_w64 size
  constructor
  · rw [buf_fld _ _ _ _ (by omega) (by omega)]
    have : ((newFvHeader0 size).drop 64).take 4 = (((newFvHeader0 size).drop 64).take 8).take 4 := by
      rw [List.take_take]; rfl
    rw [this, h8]; decide
  · rw [buf_fld _ _ _ _ (by omega) (by omega)]
    have : ((newFvHeader0 size).drop 68).take 4 = (((newFvHeader0 size).drop 64).take 8).drop 4 := by
      rw [List.drop_take, List.drop_drop]
    rw [this, h8]; decide

/-- the size field of the extended header -/
theorem buf_fld112 (size : Nat) (name : Guid) (hn : name.length = 16) : Valid.fld (newFvBuf size name) 112 4 = 20 := by
  unfold newFvBuf
  rw [fld_append_right' _ _ 72 40 4 (hdr_len size), fld_append_left _ _ _ _ (by simp [extPadHdr, hn])]
  have : extPadHdr ++ (name.take 16 ++ leN 4 20) = (extPadHdr ++ name.take 16) ++ leN 4 20 := by simp
  rw [this, fld_append_right' _ _ 40 0 4 (by simp [extPadHdr, hn])]
  decide

/-- everything from offset 116 on is erased -/
theorem buf_drop116 (size : Nat) (name : Guid) (hn : name.length = 16) :
    (newFvBuf size name).drop 116 = List.replicate (size - 116) 0xFF := by
  unfold newFvBuf
  rw [List.drop_append, List.drop_eq_nil_of_le (by rw [hdr_len]; omega), List.nil_append, hdr_len]
  rw [List.drop_append, List.drop_eq_nil_of_le (by simp [extPadHdr, hn]), List.nil_append]
  simp [extPadHdr, hn]

/-! ### the reader accepts the new volume -/

theorem buf_hdrOk (size : Nat) (name : Guid) (hn : name.length = 16) (h4 : size % 4096 = 0) (hpos : 0 < size)
    (hs : size < 2 ^ 44) : hdrOk (newFvBuf size name) = true := by
  have hlen := newFvBuf_length size name hn (by omega)
  have h32 := buf_fld32 size name (by omega)
  have h48 := buf_fld48 size name
  have h52 := buf_fld52 size name
  have h56 := buf_fld56 size name hs
  have h60 := buf_fld60 size name
  obtain ⟨h64, h68⟩ := buf_fld64 size name
  have h112 := buf_fld112 size name hn
  have hsig : ((newFvBuf size name).drop 40).take 4 = Valid.fvSig := by
    rw [buf_window _ _ _ _ (by omega), hdr_window _ _ _ (by omega), h0_w40]
  have hsum : Valid.wordSum ((newFvBuf size name).take 72) = 0 := by
    have : (newFvBuf size name).take 72 = (newFvHeader size).take 72 := by
      have := buf_window size name 0 72 (by omega)
      simpa using this
    rw [this]; exact hdr_wordSum size
  have hbm : Valid.blockMap ((newFvBuf size name).length / 8 + 1) (newFvBuf size name) 56 0 = some (size, 72) := by
    obtain ⟨m, hm⟩ : ∃ m, (newFvBuf size name).length / 8 + 1 = m + 2 := ⟨(newFvBuf size name).length / 8 - 1, by omega⟩
    rw [hm, Valid.blockMap]
    rw [if_neg (by omega)]
    simp only [h56, h60]
    rw [if_neg (by omega), if_neg (by omega), Valid.blockMap, if_neg (by omega)]
    simp only [h64, h68]
    rw [if_pos ⟨trivial, trivial⟩]
    have : 0 + size / 4096 * 4096 = size := by omega
    rw [this]
  unfold hdrOk
  rw [hbm]
  simp only [h32, h48, h52, h112, hlen, hsig, hsum, Bool.and_eq_true, decide_eq_true_eq]
  refine ⟨by omega, ⟨⟨⟨⟨trivial, trivial⟩, by omega⟩, trivial, trivial⟩, trivial⟩, ?_⟩
  rw [if_neg (by omega)]
  simp only [Bool.and_eq_true, decide_eq_true_eq]
  omega

theorem buf_isFfs (size : Nat) (name : Guid) : fvIsFfs (newFvBuf size name) = true := by
  unfold fvIsFfs
  rw [buf_window _ _ _ _ (by omega), hdr_window _ _ _ (by omega), h0_w16]
  decide

theorem buf_erased (size : Nat) (name : Guid) : fvErased (newFvBuf size name) = 0xFF := by
  unfold fvErased; rw [buf_fld44]; decide

theorem buf_first (size : Nat) (name : Guid) (hn : name.length = 16) : fvFirst (newFvBuf size name) = 116 := by
  unfold fvFirst; rw [buf_fld52, if_neg (by omega), buf_fld112 size name hn]

/-- **the new volume passes the reader** (rules V1–V7; its file area is free space) -/
theorem newFvBuf_ok (size : Nat) (name : Guid) (hn : name.length = 16) (h4 : size % 4096 = 0) (hpos : 0 < size)
    (hs : size < 2 ^ 44) : FvBytesOk (newFvBuf size name) := by
  refine ⟨2, ?_⟩
  rw [fvOk_eq, buf_hdrOk size name hn h4 hpos hs, buf_isFfs, buf_erased, buf_first size name hn]
  simp only [Bool.true_and, if_true]
  have hlen := newFvBuf_length size name hn (by omega)
  have hd := buf_drop116 size name hn
  rw [Valid.filesOk]
  have hal : Valid.alignUp 116 8 = 120 := by decide
  simp only [hal]
  rw [if_neg (by omega), if_neg (by omega)]
  have h120 : (newFvBuf size name).drop 120 = List.replicate (size - 120) 0xFF := by
    have : (newFvBuf size name).drop 120 = ((newFvBuf size name).drop 116).drop 4 := by rw [List.drop_drop]
    rw [this, hd, List.drop_replicate]
    congr 1
  have ht : Valid.allAre 0xFF (((newFvBuf size name).drop 120).take 24) = true := by
    rw [h120, List.take_replicate]; exact allAre_replicate _ _
  rw [if_pos ht, hd]
  exact allAre_replicate _ _

/-! ### the node -/

theorem createEmptyFv_FF (fvOffset size : Nat) (name : Guid) (v : Fv) (h : createEmptyFv 0xFF fvOffset size name = .ok v) :
    size ≠ 0 ∧ size % 4096 = 0 ∧ v.buf = newFvBuf size name ∧ v.files = [] ∧ v.info.length = size ∧ v.info.headerLen = 72 ∧
    v.info.blocks = [⟨(size / 4096) % 4294967296, 4096⟩, ⟨0, 0⟩] ∧ v.info.dataOffset = 120 ∧ v.info.fsGuid = guidFFS2 ∧
    v.info.attrs = 0x0004FEFF ∧ v.info.resizable = false := by
  unfold createEmptyFv at h
  split at h
  · cases h
  · rename_i hsz
    rw [extPadFile_FF] at h
    simp only [insertFile, hdr_len] at h
    rw [if_neg (by omega), if_neg (by simp [extPadHdr])] at h
    simp only at h
    cases h
    refine ⟨by omega, by omega, ?_, rfl, rfl, rfl, rfl, rfl, rfl, rfl, rfl⟩
    simp only [Fv.buf, newFvBuf, Nat.sub_self, List.replicate_zero, List.append_nil, List.append_assoc]

/-- **the new volume node satisfies the invariant** -/
theorem createEmptyFv_ok (fvOffset size : Nat) (name : Guid) (v : Fv) (hn : name.length = 16) (hs : size < 2 ^ 44)
    (h : createEmptyFv 0xFF fvOffset size name = .ok v) :
    TopFvOk v ∧ v.buf = newFvBuf size name ∧ v.buf.length = size ∧ size % 4096 = 0 ∧ 0 < size := by
  obtain ⟨h0, h4, hb, hf, hl, hhl, hbl, hdo, hg, hat, hr⟩ := createEmptyFv_FF fvOffset size name v h
  have hlen := newFvBuf_length size name hn (by omega)
  obtain ⟨i, buf, files⟩ := v
  simp only [Fv.buf, Fv.files, Fv.info] at hb hf hl hhl hbl hdo hg hat hr
  subst hb hf
  refine ⟨⟨?_, hr⟩, rfl, hlen, h4, by omega⟩
  rw [FvOk]
  refine ⟨⟨newFvBuf_ok size name hn h4 (by omega) hs, by rw [hlen, hl], by rw [hhl, buf_fld48], ?_, ?_, ?_, ?_, ?_⟩, by rw [FilesOk]; trivial⟩
  · exact ⟨_, _, hbl, by rw [Block.mk_count, buf_fld56 size name hs]; omega⟩
  · rw [hdo, buf_first size name hn]; decide
  · rw [hg, buf_window _ _ _ _ (by omega), hdr_window _ _ _ (by omega), h0_w16]
  · rw [hat, buf_fld44]
  · intro hc; rw [hr] at hc; cases hc

end Fiano.Uefi
