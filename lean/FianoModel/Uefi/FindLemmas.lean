/-
  Find.Visit reports exactly the files that are matches in the local sense (`fileHit`) and the
  volumes that satisfy the predicate, each once (property C03, "each file matched once").
-/
import FianoModel.Uefi.Visitors

namespace Fiano.Uefi
open Fiano

/-- (volume hits, file hits) of a list of matches -/
def tally : List Hit → Nat × Nat
  | [] => (0, 0)
  | .fv _ :: hs => ((tally hs).1 + 1, (tally hs).2)
  | .file _ :: hs => ((tally hs).1, (tally hs).2 + 1)

theorem tally_append (a b : List Hit) :
    tally (a ++ b) = ((tally a).1 + (tally b).1, (tally a).2 + (tally b).2) := by
  induction a with
  | nil => simp [tally]
  | cons h t ih =>
    cases h <;> simp [tally, ih] <;> omega

theorem tally_length (l : List Hit) : l.length = (tally l).1 + (tally l).2 := by
  induction l with
  | nil => rfl
  | cons h t ih => cases h <;> simp [tally, ih] <;> omega

def b2n (b : Bool) : Nat := if b then 1 else 0

/-! ### the declarative count: volumes that satisfy the predicate, files that are matches -/
mutual
/-- matches inside the volumes nested below this section -/
def cntSection (p : Pred) : Section → Nat × Nat
  | .mk _ _ encap => cntNodes p encap
def cntNodes (p : Pred) : List Node → Nat × Nat
  | [] => (0, 0)
  | .sec s :: ns => ((cntSection p s).1 + (cntNodes p ns).1, (cntSection p s).2 + (cntNodes p ns).2)
  | .fv v :: ns => ((cntFv p v).1 + (cntNodes p ns).1, (cntFv p v).2 + (cntNodes p ns).2)
def cntSections (p : Pred) : List Section → Nat × Nat
  | [] => (0, 0)
  | s :: ss => ((cntSection p s).1 + (cntSections p ss).1, (cntSection p s).2 + (cntSections p ss).2)
def cntFile (p : Pred) : File → Nat × Nat
  | .mk i buf secs =>
    if i.nvar.isSome then (0, b2n (p.file (.mk i buf secs)))
    else ((cntSections p secs).1, (cntSections p secs).2 + b2n (fileHit p (.mk i buf secs)))
def cntFiles (p : Pred) : List File → Nat × Nat
  | [] => (0, 0)
  | f :: fs => ((cntFile p f).1 + (cntFiles p fs).1, (cntFile p f).2 + (cntFiles p fs).2)
def cntFv (p : Pred) : Fv → Nat × Nat
  | .mk i buf files => ((cntFiles p files).1 + b2n (p.fv (.mk i buf files)), (cntFiles p files).2)
end

theorem secsHit_cons (p : Pred) (s : Section) (ss : List Section) :
    secsHit p (s :: ss) = (secHit p s || secsHit p ss) := rfl

mutual
theorem findSection_spec (p : Pred) : ∀ (s : Section) (cur : Option File),
    tally (findSection p s cur).1 =
      ((cntSection p s).1, (cntSection p s).2 + b2n (cur.isSome && secHit p s)) ∧
    (findSection p s cur).2 = (if secHit p s then none else cur)
  | .mk i buf encap, cur => by
    have ih := findNodes_spec p encap
    unfold findSection
    simp only [cntSection]
    rw [secHit]
    cases cur with
    | none =>
      have := ih none
      simp only [Option.isSome_none, Bool.false_and, b2n] at this ⊢
      simp [tally_append, tally, this.1, this.2]
    | some f =>
      by_cases hs : p.sec (.mk i buf encap) = true
      · have := ih none
        simp only [hs, if_true, Bool.true_or, Option.isSome_some, Bool.true_and, b2n] at this ⊢
        simp only [Option.isSome_none, Bool.false_and, b2n] at this
        simp [tally_append, tally, this.1, this.2]
      · have hs' : p.sec (.mk i buf encap) = false := by simpa using hs
        have := ih (some f)
        simp only [hs', Bool.false_or, Option.isSome_some, Bool.true_and] at this ⊢
        simp [tally_append, tally, this.1, this.2]
theorem findNodes_spec (p : Pred) : ∀ (ns : List Node) (cur : Option File),
    tally (findNodes p ns cur).1 =
      ((cntNodes p ns).1, (cntNodes p ns).2 + b2n (cur.isSome && nodesHit p ns)) ∧
    (findNodes p ns cur).2 = (if nodesHit p ns then none else cur)
  | [], cur => by simp [findNodes, cntNodes, nodesHit, tally, b2n]
  | .sec s :: ns, cur => by
    have h1 := findSection_spec p s cur
    have h2 := findNodes_spec p ns (findSection p s cur).2
    unfold findNodes
    simp only [cntNodes, nodesHit, tally_append, h1.1, h2.1, h2.2]
    rw [h1.2]
    by_cases hs : secHit p s = true
    · simp [hs, b2n]; omega
    · have hs' : secHit p s = false := by simpa using hs
      simp [hs', b2n]; omega
  | .fv v :: ns, cur => by
    have h1 := findFv_spec p v
    have h2 := findNodes_spec p ns cur
    unfold findNodes
    simp only [cntNodes, nodesHit, tally_append, h1, h2.1, h2.2]
    refine ⟨?_, rfl⟩
    ext <;> simp <;> omega
theorem findSections_spec (p : Pred) : ∀ (ss : List Section) (cur : Option File),
    tally (findSections p ss cur).1 =
      ((cntSections p ss).1, (cntSections p ss).2 + b2n (cur.isSome && secsHit p ss)) ∧
    (findSections p ss cur).2 = (if secsHit p ss then none else cur)
  | [], cur => by simp [findSections, cntSections, secsHit, tally, b2n]
  | s :: ss, cur => by
    have h1 := findSection_spec p s cur
    have h2 := findSections_spec p ss (findSection p s cur).2
    unfold findSections
    simp only [cntSections, secsHit_cons, tally_append, h1.1, h2.1, h2.2]
    rw [h1.2]
    by_cases hs : secHit p s = true
    · simp [hs, b2n]; omega
    · have hs' : secHit p s = false := by simpa using hs
      simp [hs', b2n]; omega
theorem findFile_spec (p : Pred) : ∀ (f : File), tally (findFile p f) = cntFile p f
  | .mk i buf secs => by
    have h := findSections_spec p secs
    unfold findFile cntFile fileHit
    simp only [File.info, File.secs]
    by_cases hn : i.nvar.isSome = true
    · simp only [hn, if_true, List.append_nil]
      by_cases hf : p.file (.mk i buf secs) = true <;> simp [hf, tally, b2n]
    · have hn' : i.nvar.isSome = false := by simpa using hn
      have hn'' : i.nvar.isNone = true := by
        cases hx : i.nvar <;> simp_all
      simp only [hn', hn'', Bool.false_eq_true, if_false, Bool.true_and]
      by_cases hf : p.file (.mk i buf secs) = true
      · have := (h none).1
        simp only [hf, if_true, tally_append, tally, this, Bool.true_or]
        simp [b2n]; omega
      · have hf' : p.file (.mk i buf secs) = false := by simpa using hf
        have := (h (some (.mk i buf secs))).1
        simp only [hf', Bool.false_eq_true, if_false, tally_append, tally, this, Bool.false_or]
        simp
theorem findFiles_spec (p : Pred) : ∀ (fs : List File), tally (findFiles p fs) = cntFiles p fs
  | [] => by simp [findFiles, cntFiles, tally]
  | f :: fs => by
    have h1 := findFile_spec p f
    have h2 := findFiles_spec p fs
    unfold findFiles
    simp only [cntFiles, tally_append, h1, h2]
theorem findFv_spec (p : Pred) : ∀ (v : Fv), tally (findFv p v) = cntFv p v
  | .mk i buf files => by
    have h := findFiles_spec p files
    unfold findFv
    simp only [cntFv, tally_append, h]
    by_cases hv : p.fv (.mk i buf files) = true
    · simp [hv, tally, b2n]; omega
    · have hv' : p.fv (.mk i buf files) = false := by simpa using hv
      simp [hv', tally, b2n]
end

end Fiano.Uefi
