/-
  C03 follow-up (wp-c03b), layer 5b: the BIOS region.  A region node whose elements are the paddings
  of a well-formed region of the grammar and (arbitrarily edited) volume nodes standing for its
  volumes is assembled into the serialisation of a well-formed region again: same paddings, every
  volume replaced by the volume of the grammar that `asm_canon_fv` yields.
-/
import FianoModel.Uefi.ExactScan

namespace Fiano.Uefi.Exact
open Fiano Fiano.Uefi Fiano.Uefi.Spec

/-- a top-level volume node that stands for the volume `vi` of the witness region -/
structure RepFv (v : Fv) (vi : FvI) : Prop where
  canon : CanonFv v
  nrz : v.info.resizable = false
  len : v.info.length = sizeFv vi
  hd : v.buf.take 64 = (serFv vi).take 64

/-- the element list of a region node against the (padding, volume)* list of the witness -/
def RepItems : List BiosElem → List (Bytes × FvI) → Nat → Prop
  | es, [], _ => es = []
  | es, (p, vi) :: is, off =>
    ∃ v rest, es = (if p.length ≠ 0 then [BiosElem.pad p off] else []) ++ .fv v :: rest ∧ RepFv v vi ∧
      RepItems rest is (off + p.length + sizeFv vi)

/-- same paddings; volumes of the same size, with the same first 64 bytes -/
def Shape : List (Bytes × FvI) → List (Bytes × FvI) → Prop
  | [], [] => True
  | (p, v) :: is, (p', v') :: is' =>
    p' = p ∧ wfFv v' = true ∧ sizeFv v' = sizeFv v ∧ (serFv v').take 64 = (serFv v).take 64 ∧ Shape is is'
  | _, _ => False

theorem shape_sizeItems : ∀ (is is' : List (Bytes × FvI)), Shape is is' → sizeItems is' = sizeItems is
  | [], [], _ => rfl
  | [], _ :: _, h => by cases h
  | _ :: _, [], h => by cases h
  | (p, v) :: is, (p', v') :: is', h => by
    obtain ⟨rfl, _, hs, _, hr⟩ := h
    simp only [sizeItems, hs, shape_sizeItems is is' hr]

theorem take64_split (v : FvI) (h : wfFv v = true) : serFv v = (serFv v).take 64 ++ (serFv v).drop 64 ∧
    ((serFv v).take 64).length = 64 := by
  have := sizeFv_pos v h
  have hl := length_serFv v h
  exact ⟨(List.take_append_drop 64 _).symm, by simp only [List.length_take, hl]; omega⟩

/-- the volume scan finds the re-laid volumes where the original ones were -/
theorem wfItems_shape : ∀ (is is' : List (Bytes × FvI)) (tail : Bytes), Shape is is' → wfItems is tail = true →
    wfItems is' tail = true
  | [], [], _, _, _ => rfl
  | [], _ :: _, _, h, _ => by cases h
  | _ :: _, [], _, h, _ => by cases h
  | (p, v) :: is, (p', v') :: is', tail, h, hw => by
    obtain ⟨rfl, hwv', hs, htk, hr⟩ := h
    obtain ⟨hwv, hscan, hrest⟩ := wfItems_cons hw
    have ih := wfItems_shape is is' tail hr hrest
    simp only [wfItems, Bool.and_eq_true, beq_iff_eq]
    refine ⟨⟨hwv', ?_⟩, ih⟩
    obtain ⟨e1, l1⟩ := take64_split v hwv
    obtain ⟨e2, l2⟩ := take64_split v' hwv'
    have hd : serItems ((p', v) :: is) ++ tail =
        (p' ++ (serFv v).take 64) ++ ((serFv v).drop 64 ++ (serItems is ++ tail)) := by
      simp only [serItems, List.append_assoc]
      rw [← List.append_assoc ((serFv v).take 64), ← e1]
    have hd' : serItems ((p', v') :: is') ++ tail =
        (p' ++ (serFv v).take 64) ++ ((serFv v').drop 64 ++ (serItems is' ++ tail)) := by
      simp only [serItems, List.append_assoc]
      rw [← htk, ← List.append_assoc ((serFv v').take 64), ← e2]
    rw [hd] at hscan
    rw [hd']
    exact findFvOffset_prefix _ _ _ _ hscan (by simp only [List.length_append, l1]; omega)

theorem asmBiosElems_pads (T : List BiosElem) (st : St) (h : ∀ e ∈ T, ∃ b o, e = BiosElem.pad b o) :
    asmBiosElems Hooks.none T st = .ok (T, st) := by
  induction T with
  | nil => rfl
  | cons e es ih =>
    obtain ⟨b, o, rfl⟩ := h e List.mem_cons_self
    rw [asmBiosElems, ih (fun x hx => h x (List.mem_cons_of_mem _ hx))]

theorem avElems_append (a b : List BiosElem) : avElems (a ++ b) = avElems a ++ avElems b := by
  induction a with
  | nil => rfl
  | cons e es ih =>
    cases e with
    | pad p o => simp [avElems, ih]
    | fv v => simp [avElems, ih, List.append_assoc]

theorem avElems_pads (T : List BiosElem) (h : ∀ e ∈ T, ∃ b o, e = BiosElem.pad b o) : avElems T = [] := by
  induction T with
  | nil => rfl
  | cons e es ih =>
    obtain ⟨b, o, rfl⟩ := h e List.mem_cons_self
    simp [avElems, ih (fun x hx => h x (List.mem_cons_of_mem _ hx))]

theorem goodElems_append (a b : List BiosElem) : GoodElems (a ++ b) ↔ GoodElems a ∧ GoodElems b := by
  induction a with
  | nil => simp [GoodElems]
  | cons e es ih =>
    cases e with
    | pad p o => simp [GoodElems, ih]
    | fv v => simp [GoodElems, ih, and_assoc]

theorem canonFv_pol (v : Fv) (h : CanonFv v) : v.info.attrs &&& 0x800 ≠ 0 := by
  obtain ⟨i, buf, files⟩ := v
  unfold CanonFv at h
  rcases h with ⟨_, vi, hw, _, hat, _, _⟩ | ⟨_, ⟨k, hk, hi, _⟩, _⟩
  · simp only [Fv.info, hat]; exact attrsOfFv_pol vi hw
  · simp only [Fv.info, hi.hattrs]; exact hk.hpol

/-- **Assemble on the elements of a BIOS region** -/
theorem asm_rep_items : ∀ (is : List (Bytes × FvI)) (E : List BiosElem) (off : Nat) (T : List BiosElem) (st : St)
    (es' : List BiosElem) (st' : St),
    RepItems E is off → (∀ e ∈ T, ∃ b o, e = BiosElem.pad b o) → st.pol = 0xFF → st.ffs3 = false →
    asmBiosElems Hooks.none (E ++ T) st = .ok (es', st') → GoodElems es' →
    st' = st ∧ ∃ (is' : List (Bytes × FvI)) (E' : List BiosElem), es' = E' ++ T ∧ RepItems E' is' off ∧ Shape is is' ∧
      (E'.map BiosElem.buf).flatten = serItems is' ∧ avElems (treeItems is' off) = avElems E' ∧
      (is ≠ [] → ∃ v', firstFv es' = some v' ∧ v'.info.attrs &&& 0x800 ≠ 0)
  | [], E, off, T, st, es', st', hrep, hT, _, _, h, _ => by
    have hE : E = [] := hrep
    subst hE
    rw [List.nil_append, asmBiosElems_pads T st hT] at h
    cases h
    exact ⟨rfl, [], [], rfl, rfl, trivial, rfl, rfl, fun hc => absurd rfl hc⟩
  | (p, vi) :: is, E, off, T, st, es', st', hrep, hT, hp, hf, h, hg => by
    obtain ⟨v, rest, hE, hrv, hrr⟩ := hrep
    subst hE
    have key : ∀ (es1 : List BiosElem), asmBiosElems Hooks.none (BiosElem.fv v :: (rest ++ T)) st = .ok (es1, st') →
        GoodElems es1 →
        st' = st ∧ ∃ (vi' : FvI) (v' : Fv) (is2 : List (Bytes × FvI)) (E2 : List BiosElem),
          es1 = .fv v' :: (E2 ++ T) ∧ RepFv v' vi' ∧ RepItems E2 is2 (off + p.length + sizeFv vi) ∧
          wfFv vi' = true ∧ sizeFv vi' = sizeFv vi ∧ (serFv vi').take 64 = (serFv vi).take 64 ∧ Shape is is2 ∧
          v'.buf = serFv vi' ∧ (E2.map BiosElem.buf).flatten = serItems is2 ∧
          (∀ o rz, avFv (treeFv vi' o rz) = avFv v') ∧
          avElems (treeItems is2 (off + p.length + sizeFv vi)) = avElems E2 := by
      intro es1 h1 hg1
      rw [asmBiosElems] at h1
      split at h1
      · cases h1
      rename_i v' st1 hv
      split at h1
      · cases h1
      rename_i es2 st2 h2
      cases h1
      obtain ⟨hgv, hg2⟩ := hg1
      obtain ⟨e1, c1, a1, r1, l1, nr1, vi', w1, b1, av1⟩ := asm_canon_fv v hrv.canon st v' st1 hp hf hv hgv
      subst e1
      obtain ⟨x1, x2⟩ := nr1 hrv.nrz
      obtain ⟨e2, is2, E2, he2, rep2, sh2, fl2, av2, _⟩ :=
        asm_rep_items is rest (off + p.length + sizeFv vi) T st1 es2 st' hrr hT hp hf h2 hg2
      subst e2 he2
      have hsz : sizeFv vi' = sizeFv vi := by
        rw [← length_serFv vi' w1, ← b1, l1, x1, hrv.len]
      have htk : (serFv vi').take 64 = (serFv vi).take 64 := by rw [← b1, x2, hrv.hd]
      exact ⟨rfl, vi', v', is2, E2, rfl, ⟨c1, by rw [r1, hrv.nrz], by rw [x1, hrv.len, hsz], by rw [b1]⟩, rep2, w1, hsz,
        htk, sh2, b1, fl2, av1, av2⟩
    by_cases hp0 : p.length ≠ 0
    · simp only [hp0, if_true, ne_eq, not_false_eq_true, List.singleton_append, List.cons_append] at h
      rw [asmBiosElems] at h
      split at h
      · cases h
      rename_i es1 st1 h1
      cases h
      obtain ⟨e1, vi', v', is2, E2, hes, rv', rep2, w1, hsz, htk, sh2, b1, fl2, av1, av2⟩ := key es1 h1 hg
      subst e1 hes
      refine ⟨rfl, (p, vi') :: is2, .pad p off :: .fv v' :: E2, by simp, ?_, ⟨rfl, w1, hsz, htk, sh2⟩, ?_, ?_, ?_⟩
      · exact ⟨v', E2, by simp [hp0], rv', by rw [hsz]; exact rep2⟩
      · simp [BiosElem.buf, b1, fl2, serItems]
      · simp only [treeItems, hp0, ne_eq, not_false_eq_true, if_true, List.singleton_append, avElems, hsz,
          av1, av2]
      · intro _
        exact ⟨v', by simp [firstFv], canonFv_pol v' rv'.canon⟩
    · have hp0' : p.length = 0 := by omega
      have hpe : p = [] := List.length_eq_zero_iff.mp hp0'
      simp only [hp0, if_false, List.nil_append, List.cons_append] at h
      obtain ⟨e1, vi', v', is2, E2, hes, rv', rep2, w1, hsz, htk, sh2, b1, fl2, av1, av2⟩ := key es' h hg
      subst e1 hes
      refine ⟨rfl, (p, vi') :: is2, .fv v' :: E2, by simp, ?_, ⟨rfl, w1, hsz, htk, sh2⟩, ?_, ?_, ?_⟩
      · exact ⟨v', E2, by simp [hp0], rv', by rw [hsz]; exact rep2⟩
      · simp [BiosElem.buf, b1, fl2, serItems, hpe]
      · simp only [treeItems, hp0, ne_eq, if_false, List.nil_append, avElems, hsz, av1, av2]
      · intro _
        exact ⟨v', by simp [firstFv], canonFv_pol v' rv'.canon⟩

/-! ### the region node -/

/-- the invariant of a BIOS region node, with its witness region of the grammar -/
def RepBios (b : BiosRegion) (bi : BiosI) : Prop :=
  wfBios bi = true ∧ b.length = (serBios bi).length ∧
    ∃ E, b.elems = E ++ tailElems bi.tail (sizeItems bi.items) ∧ RepItems E bi.items 0

theorem tailElems_pads (tail : Bytes) (k : Nat) : ∀ e ∈ tailElems tail k, ∃ b o, e = BiosElem.pad b o := by
  intro e he
  unfold tailElems at he
  split at he
  · simp only [List.mem_singleton] at he; exact ⟨_, _, he⟩
  · cases he

theorem tailElems_flat (tail : Bytes) (k : Nat) : ((tailElems tail k).map BiosElem.buf).flatten = tail := by
  unfold tailElems
  split
  · simp [BiosElem.buf]
  · rename_i hc
    have : tail = [] := List.length_eq_zero_iff.mp (by omega)
    simp [this]

theorem shape_nonempty (is is' : List (Bytes × FvI)) (h : Shape is is') (hne : is ≠ []) : is' ≠ [] := by
  cases is with
  | nil => exact absurd rfl hne
  | cons a b =>
    cases is' with
    | nil => obtain ⟨p, v⟩ := a; cases h
    | cons c d => simp

/-- **the BIOSRegion case of Assemble on an edited region**: the written buffer is a well-formed
    region of the grammar with the same paddings and tail -/
theorem asm_rep_bios (b : BiosRegion) (bi : BiosI) (st : St) (b' : BiosRegion) (st' : St) (hr : RepBios b bi)
    (hp : st.pol = 0xFF) (hf : st.ffs3 = false) (h : asmBios Hooks.none b st = .ok (b', st'))
    (hg : GoodElems b'.elems) :
    st' = st ∧ ∃ bi', RepBios b' bi' ∧ b'.buf = serBios bi' ∧ b'.fr = b.fr ∧ b'.length = b.length ∧
      avElems (treeBios bi' b.fr).elems = avElems b'.elems ∧ Shape bi.items bi'.items ∧ bi'.tail = bi.tail := by
  obtain ⟨hwb, hlen, E, hE, hrep⟩ := hr
  have hwb' := hwb
  simp only [wfBios, Bool.and_eq_true, Bool.not_eq_true', List.isEmpty_eq_false_iff, beq_iff_eq] at hwb'
  obtain ⟨⟨hne, hitems⟩, htail⟩ := hwb'
  unfold asmBios at h
  split at h
  · cases h
  rename_i es st1 hes
  split at h
  · cases h
  rename_i v hfirst
  split at h
  · cases h
  rename_i st2 hpol
  simp only at h
  split at h
  · cases h
  rename_i hfit
  cases h
  simp only at hg
  rw [hE] at hes
  obtain ⟨e1, is', E', hes', rep', sh, fl, av, hff⟩ :=
    asm_rep_items bi.items E 0 (tailElems bi.tail (sizeItems bi.items)) st es st1 hrep (tailElems_pads _ _) hp hf hes hg
  subst e1
  obtain ⟨v1, hv1, hpolv⟩ := hff hne
  rw [hfirst] at hv1
  cases hv1
  rw [setPolarity_keep _ st1 hpolv hp] at hpol
  cases hpol
  have hwi' := wfItems_shape bi.items is' bi.tail sh hitems
  have hne' := shape_nonempty _ _ sh hne
  have hwb2 : wfBios ⟨is', bi.tail⟩ = true := by
    simp only [wfBios, Bool.and_eq_true, Bool.not_eq_true', List.isEmpty_eq_false_iff, beq_iff_eq]
    exact ⟨⟨hne', hwi'⟩, htail⟩
  have hsz := shape_sizeItems _ _ sh
  have hdata : (es.map BiosElem.buf).flatten = serItems is' ++ bi.tail := by
    rw [hes', List.map_append, List.flatten_append, fl, tailElems_flat]
  have hl1 := serBios_length bi hwb
  have hl2 := serBios_length ⟨is', bi.tail⟩ hwb2
  simp only at hl2
  have hdl : (serItems is' ++ bi.tail).length = b.length := by
    have : (serItems is' ++ bi.tail) = serBios ⟨is', bi.tail⟩ := rfl
    rw [this, hl2, hsz, hlen, hl1]
  refine ⟨rfl, ⟨is', bi.tail⟩, ⟨hwb2, ?_, E', by simp only [hsz]; exact hes', rep'⟩, ?_, rfl, rfl, ?_, sh, rfl⟩
  · simp only; rw [hl2, hsz, hlen, hl1]
  · simp only [hdata, hdl, Nat.sub_self, List.replicate_zero, List.append_nil, serBios]
  · simp only [treeBios, avElems_append]
    rw [hes', avElems_append, av]
    have e1 : avElems (if bi.tail.length ≠ 0 then [BiosElem.pad bi.tail (sizeItems is')] else []) = [] := by
      split <;> rfl
    rw [e1, avElems_pads _ (tailElems_pads _ _)]

end Fiano.Uefi.Exact
