/-
  C05 (follow-up wp-c05b) — Go-semantics (GoM) model of `visitors.Assemble` (pkg/visitors/assemble.go
  `Assemble.Visit` on every node type) and of the pkg/uefi functions it calls:

    Section.GenSecHeader, File.SetSize / ChecksumAndAssemble / ChecksumHeader, fileAttr.GetAlignment,
    CreatePadFile, FirmwareVolume.InsertFile, the FirmwareVolume case (relayout, out-of-space check, growth
    of a resizable volume, fill, header patches), the BIOSRegion case (`make(Length)`, element copy), the
    FlashDescriptor case (three slices of the 4 KiB descriptor), the FlashImage case (region re-pointing,
    sort, tiling), and — through `AsmHooksG.nvarAsm` (TotalNvarWalk.lean) — the NVarStore / NVar cases.

  Every slice / index / make of those Go functions is a faulting primitive (site strings name the Go
  expression); `append` and `make` go through `fitsG` (TotalAsmBase.lean); a dereference of a nil pointer is
  `nilG`, `log.Fatalf` is `fatalG`.  Integer arithmetic is Go's: `uint64` / `uint32` with wrap-around,
  `uefi.Align` / `Align4` / `Align8` are the functions *translated from the source* (Gen/ArithUefi).
  The values computed are those of the functional model Uefi/Assemble.lean (same `Tree` types, so the
  shared canonical dump applies and T2 compares the whole assembled tree with Go); pure helpers without
  any fault site (`encodeGuidDef`, `setSize`, `encodeFileHeader`, `write3`, `sum8`, `sum16`, `splice`,
  `repoint`, `sortRegions`, …) are shared with it.

  The model follows the code as repaired by
    fixes/C02-setsize-boundary.diff, fixes/C01-descriptor-reserved.diff       (in /repo)
    fixes/C05-assemble-empty-blockmap.diff   a volume with files and no block map is an error
    fixes/C05-assemble-headerlen.diff        HeaderLen beyond the volume is an error, not a slice panic
    fixes/C05-assemble-nvar-overlap.diff     NVAR entries overlapping the GUID store are an error.
-/
import FianoModel.Uefi.TotalNvarWalk
import FianoModel.Uefi.Assemble

namespace Fiano.Uefi.Total
open Fiano GoM Fiano.Uefi

def u64 : Nat := 18446744073709551616

/-- `uefi.Align(val, base)` exactly as translated from the source (wraps, any base) -/
def alignG (v b : Nat) : Nat := (Gen.ArithUefi.fn_Align (UInt64.ofNat v) (UInt64.ofNat b)).toNat

structure AsmHooksG where
  /-- `compression.CompressorFromGUID(&ts.GUID)`: `none` = no compressor for this GUID; the encoder
      returns `none` for an error.  In the theorems it is any total function (`AsmHooksG.ofPure`). -/
  encoder : Guid → Option (Bytes → GoM (Option Bytes)) := fun _ => none
  /-- `Assemble.Visit` over the NVarStore of a RAW file (its entries, then the store itself) under the
      current erase polarity; what comes back is `f.NVarStore.Buf()` and `f.NVarStore.Length` -/
  nvarAsm : NvStore → UInt8 → GoM NvStore := fun s _ => pure s

/-! ### sections -/

/-- `Section.GenSecHeader` on section data `buf` -/
def genSecHeaderG (i : SecInfo) (buf : Bytes) : GoM (SecInfo × Bytes) := do
  let headerLen0 := 4 + (if i.ts.isSome then 20 else 0)
  let ext0 := (buf.length + headerLen0) % 4294967296
  let big := ext0 ≥ 0xFFFFFF
  let headerLen := if big then headerLen0 + 4 else headerLen0
  let ext := if big then (ext0 + 4) % 4294967296 else ext0
  let (ts, buf) ← (
    if i.type = 0x02 then
      match i.ts with
      | none => nilG "GenSecHeader: s.TypeSpecific.Header.(*SectionGUIDDefined)"
      | some g => do
        let g' := { g with dataOffset := headerLen % 65536 }
        appendG 20 buf.length                           -- s.buf = append(tsh.Bytes(), s.buf...)
        pure (some g', encodeGuidDef g' ++ buf)
    else pure (i.ts, buf) : GoM (Option GuidDef × Bytes))
  let size3 := write3 ext
  let hdr : Bytes := if ext ≥ 0xFFFFFF then leN 3 size3 ++ [byte i.type] ++ leN 4 ext
                     else leN 3 size3 ++ [byte i.type]
  appendG hdr.length buf.length                         -- s.buf = append(h.Bytes(), s.buf...)
  pure ({ i with size3 := size3, extSize := ext, ts := ts }, hdr ++ buf)

/-- the leaf-section branch: UI, version and depex bodies are regenerated from the decoded fields -/
def regenLeafG (i : SecInfo) : GoM (Option Bytes) :=
  if i.type = 0x15 then pure (some (utf8ToUcs2 i.name))
  else if i.type = 0x14 then do
    makeG 2                                             -- newBuf := make([]byte, 2)
    let v := utf8ToUcs2 i.version
    appendG 2 v.length
    pure (some (leN 2 i.build ++ v))
  else if isDepexType i.type then
    match encodeDepEx i.depex with
    | some b => do appendG 0 b.length; pure (some b)
    | none => err
  else pure none

/-- the loops "align to 4 bytes with zeroes, append the child" of the File and Section cases;
    `dLen` is Go's separately kept `uint64` length -/
def joinPad4G : List Bytes → Bytes → Nat → GoM (Bytes × Nat)
  | [], acc, dLen => pure (acc, dLen)
  | b :: bs, acc, dLen => do
    let a := align4G dLen
    let count := (a + u64 - dLen) % u64                 -- uefi.Align4(dLen) - dLen
    appendG acc.length count
    let acc := acc ++ List.replicate count 0
    appendG acc.length b.length
    joinPad4G bs (acc ++ b) ((a + b.length) % u64)

/-! ### files -/

/-- `File.ChecksumAndAssemble(fileData)`, with `File.ChecksumHeader` on the temporary 32-byte header -/
def checksumAndAssembleG (i : FileInfo) (fileData : Bytes) : GoM (FileInfo × Bytes) := do
  let large := i.attrs &&& 1 ≠ 0
  let tmp := encodeFileHeader i (byte i.ckHeader) (byte i.ckFile) true   -- binary.Write(header, fh)
  let hs := if large then 32 else 24
  let hs' := if hs > tmp.length then tmp.length else hs
  let hb ← sliceToG "File.ChecksumHeader: f.buf[:headerSize]" tmp hs'
  let s := sum8 hb - byte i.ckFile - byte i.state
  let ckh := byte i.ckHeader - s
  let ckf : UInt8 := if i.attrs &&& 0x40 ≠ 0 then 0 - sum8 fileData else 0xAA
  let hdr := encodeFileHeader i ckh ckf large
  appendG hdr.length fileData.length                    -- f.buf = append(f.buf, fileData...)
  pure ({ i with ckHeader := ckh.toNat, ckFile := ckf.toNat }, hdr ++ fileData)

/-- `fileAttr.GetAlignment`: `fileAlignments[alignVal]` -/
def getAlignmentG (attrs : Nat) : GoM Nat :=
  match fileAlignments[((attrs &&& 0x38) >>> 3) ||| ((attrs &&& 0x02) <<< 2)]? with
  | some a => pure a
  | none => goPanic "GetAlignment: fileAlignments[alignVal]"

/-- `uefi.CreatePadFile(size)` under erase polarity `pol`; the buffer of the pad file -/
def createPadFileG (pol : UInt8) (size : Nat) : GoM Bytes :=
  if size < 24 then err
  else if pol ≠ 0xFF ∧ pol ≠ 0 then err
  else do
    let (attrs, size3, ext) := setSize 0 size false
    let i : FileInfo := { guid := if pol = 0xFF then guidFF else guidZero, ckHeader := 0, ckFile := 0,
                          type := 0xF0, attrs := attrs, size3 := size3,
                          state := (0x07 ^^^ pol).toNat, extSize := ext, dataOffset := 24 }
    makeG ((size + u64 - 24) % u64)                     -- make([]byte, size-FileHeaderMinLength)
    let dataLen ← (
      if attrs &&& 1 ≠ 0 then do
        makeG ((size + u64 - 32) % u64)                 -- make([]byte, size-FileHeaderExtMinLength)
        pure ((size + u64 - 32) % u64)
      else pure ((size + u64 - 24) % u64) : GoM Nat)
    let (_, b) ← checksumAndAssembleG i (List.replicate dataLen pol)
    pure b

/-! ### volumes -/

/-- `FirmwareVolume.InsertFile(alignedOffset, fBuf)` -/
def insertFileG (pol : UInt8) (buf : Bytes) (alignedOffset : Nat) (fBuf : Bytes) : GoM Bytes :=
  if buf.length > alignedOffset then err
  else do
    appendG buf.length (alignedOffset - buf.length)     -- the padding loop
    if fBuf.length = 0 then err else do
    appendG alignedOffset fBuf.length                   -- fv.buf = append(fv.buf, fBuf...)
    pure (buf ++ List.replicate (alignedOffset - buf.length) pol ++ fBuf)

/-- one iteration of the file loop of the FirmwareVolume case -/
def placeFileG (pol : UInt8) (buf : Bytes) (fileOffset : Nat) (attrs : Nat) (fileBuf : Bytes) :
    GoM (Bytes × Nat) :=
  if fileBuf.length = 0 then err else do               -- repaired (fixes/C05-assemble-empty-file)
  let alignedOffset := align8G fileOffset
  let alignBase ← getAlignmentG attrs
  if alignBase ≠ 1 then do
    let hl := if attrs &&& 1 ≠ 0 then 32 else 24
    let fdo := alignG ((alignedOffset + hl) % u64) alignBase
    let newOffset := (fdo + u64 - hl) % u64
    let gap := (newOffset + u64 - alignedOffset) % u64
    let newOffset := if gap ≥ 8 ∧ gap < 24 then
        (alignG ((fdo + 1) % u64) alignBase + u64 - hl) % u64 else newOffset
    let buf ← (
      if newOffset ≠ alignedOffset then do
        let pad ← createPadFileG pol ((newOffset + u64 - alignedOffset) % u64)
        insertFileG pol buf alignedOffset pad
      else pure buf : GoM Bytes)
    let buf ← insertFileG pol buf newOffset fileBuf
    pure (buf, (newOffset + fileBuf.length) % u64)
  else do
    let buf ← insertFileG pol buf alignedOffset fileBuf
    pure (buf, (alignedOffset + fileBuf.length) % u64)

/-- the whole file loop -/
def placeFilesG (pol : UInt8) : List (Nat × Bytes) → Bytes → Nat → GoM Bytes
  | [], buf, _ => pure buf
  | (attrs, fb) :: rest, buf, off => do
    let (buf', off') ← placeFileG pol buf off attrs fb
    placeFilesG pol rest buf' off'

/-- the second half of the FirmwareVolume case: out-of-space check, growth of a resizable volume,
    re-erased tail, `FreeSpace`, FFSv3 switch, header patches; `fbuf` is the re-laid buffer -/
def finishFvG (i : FvInfo) (fbuf : Bytes) (st : St) : GoM (FvInfo × Bytes × St) := do
  let newLen := fbuf.length
  if i.length < newLen ∧ ¬ i.resizable then err else do
  let (length, blocks) ← (
    if i.length < newLen then
      match i.blocks with
      | [] => goPanic "Assemble.Visit: f.Blocks[0].Size"
      | b0 :: bs =>
        if b0.size = 0 then err
        else
          let l := alignG newLen b0.size
          pure (l, { b0 with count := (l / b0.size) % 4294967296 } :: bs)
    else pure (i.length, i.blocks) : GoM (Nat × List Block))
  let fbuf ← (
    if length > newLen then do
      makeG (length - newLen)                           -- emptyBuf := make([]byte, extLen)
      appendG newLen (length - newLen)
      pure (fbuf ++ List.replicate (length - newLen) st.pol)
    else pure fbuf : GoM Bytes)
  let free := (length + u64 - align8G newLen) % u64
  let swap : Bool := st.ffs3 && i.fsGuid == guidFFS2
  let t ← sliceFromG "Assemble.Visit: fBuf[32:]" fbuf 32
  putG "Assemble.Visit: binary.LittleEndian.PutUint64(fBuf[32:], f.Length)" t 8
  let b := splice fbuf 32 (leN 8 length)
  let b ← (
    if swap then do
      let _ ← sliceG "Assemble.Visit: fBuf[16:32]" b 16 32
      pure (splice b 16 (guidFFS3.take 16))
    else pure b : GoM Bytes)
  match blocks with
  | [] => goPanic "Assemble.Visit: f.Blocks[0].Count"
  | b0 :: _ => do
    let t ← sliceFromG "Assemble.Visit: fBuf[56:]" b 56
    putG "Assemble.Visit: binary.LittleEndian.PutUint32(fBuf[56:], f.Blocks[0].Count)" t 4
    let b := splice b 56 (leN 4 b0.count)
    let t ← sliceFromG "Assemble.Visit: fBuf[50:] (zero)" b 50
    putG "Assemble.Visit: binary.LittleEndian.PutUint16(fBuf[50:], 0)" t 2
    let b := splice b 50 [0, 0]
    if i.headerLen > b.length then err else do         -- fixes/C05-assemble-headerlen.diff
    let hb ← sliceToG "Assemble.Visit: fBuf[:f.HeaderLen]" b i.headerLen
    if hb.length % 2 ≠ 0 then err else do              -- uefi.Checksum16: odd length is an error
    let t ← sliceFromG "Assemble.Visit: fBuf[50:] (sum)" b 50
    putG "Assemble.Visit: binary.LittleEndian.PutUint16(fBuf[50:], newSum)" t 2
    let out := splice b 50 (leN 2 ((0 - sum16 hb).toNat))
    pure ({ i with length := length, blocks := blocks, freeSpace := free,
                   fsGuid := if swap then guidFFS3 else i.fsGuid }, out, { st with ffs3 := false })

/-- the FirmwareVolume case of `Assemble.Visit` once the files are assembled -/
def relayoutFvG (i : FvInfo) (buf : Bytes) (files : List File) (st : St) : GoM (FvInfo × Bytes × St) := do
  if i.length < buf.length then err else do
  if i.blocks.isEmpty then err else do                  -- fixes/C05-assemble-empty-blockmap.diff
  if i.dataOffset > buf.length then err else do         -- fixes/C05-assemble-dataoffset.diff
  let hdr ← (if i.dataOffset ≠ buf.length then sliceToG "Assemble.Visit: fBuf[:f.DataOffset]" buf i.dataOffset
             else pure buf : GoM Bytes)
  let fbuf ← placeFilesG st.pol (files.map (fun f => (f.info.attrs, f.buf))) hdr i.dataOffset
  finishFvG i fbuf st

mutual

def asmSectionG (h : AsmHooksG) : Section → St → GoM (Section × St)
  | .mk i buf encap, st => do
    let (encap', st) ← asmNodesG h encap st
    match encap' with
    | [] =>
      match ← regenLeafG i with
      | none => pure (.mk i buf [], st)
      | some body => do
        let (i', buf') ← genSecHeaderG i body
        pure (.mk i' buf' [], noteLarge i'.extSize st)
    | _ :: _ => do
      let (secData, _) ← joinPad4G (encap'.map Node.buf) [] 0
      let body ← (
        if i.type = 0x02 then
          match i.ts with
          | none => nilG "Assemble.Visit: f.TypeSpecific.Header.(*uefi.SectionGUIDDefined)"
          | some g =>
            if g.attrs &&& 1 ≠ 0 then
              match h.encoder g.guid with
              | none => err
              | some enc => do
                match ← enc secData with
                | some b => pure b
                | none => err
            else pure buf                               -- (Q) children ignored, the old buffer gets a second header
        else pure secData : GoM Bytes)
      let (i', buf') ← genSecHeaderG i body
      pure (.mk i' buf' encap', noteLarge i'.extSize st)

def asmNodesG (h : AsmHooksG) : List Node → St → GoM (List Node × St)
  | [], st => pure ([], st)
  | .sec s :: ns, st => do
    let (s', st') ← asmSectionG h s st
    let (ns', st'') ← asmNodesG h ns st'
    pure (.sec s' :: ns', st'')
  | .fv v :: ns, st => do
    let (v', st') ← asmFvG h v st
    let (ns', st'') ← asmNodesG h ns st'
    pure (.fv v' :: ns', st'')

def asmSectionsG (h : AsmHooksG) : List Section → St → GoM (List Section × St)
  | [], st => pure ([], st)
  | s :: ss, st => do
    let (s', st') ← asmSectionG h s st
    let (ss', st'') ← asmSectionsG h ss st'
    pure (s' :: ss', st'')

def asmFileG (h : AsmHooksG) : File → St → GoM (File × St)
  | .mk i buf secs, st =>
    match i.nvar with
    | some nv => do
      -- ApplyChildren visits only the store
      let nv' ← h.nvarAsm nv st.pol
      let (attrs, size3, ext) := setSize i.attrs ((24 + nv'.length) % u64) true
      let i1 := { i with attrs := attrs, size3 := size3, extSize := ext, nvar := some nv' }
      let (i2, buf') ← checksumAndAssembleG i1 nv'.buf
      pure (.mk i2 buf' secs, noteLarge ext st)
    | none => do
      let (secs', st) ← asmSectionsG h secs st
      match secs' with
      | [] => pure (.mk i buf [], st)
      | _ :: _ => do
        let (fileData, dLen) ← joinPad4G (secs'.map Section.buf) [] 0
        let (attrs, size3, ext) := setSize i.attrs ((24 + dLen) % u64) true
        let i1 := { i with attrs := attrs, size3 := size3, extSize := ext }
        let (i2, buf') ← checksumAndAssembleG i1 fileData
        pure (.mk i2 buf' secs', noteLarge ext st)

def asmFilesG (h : AsmHooksG) : List File → St → GoM (List File × St)
  | [], st => pure ([], st)
  | f :: fs, st => do
    let (f', st') ← asmFileG h f st
    let (fs', st'') ← asmFilesG h fs st'
    pure (f' :: fs', st'')

def asmFvG (h : AsmHooksG) : Fv → St → GoM (Fv × St)
  | .mk i buf files, st =>
    match setPolarity (polOfAttrs i.attrs) st with
    | .error _ => err
    | .ok st => do
      let (files', st) ← asmFilesG h files st
      match files' with
      | [] => pure (.mk i buf [], st)
      | _ :: _ => do
        let (i', buf', st') ← relayoutFvG i buf files' st
        pure (.mk i' buf' files', st')

end

/-! ### BIOS region -/

def asmBiosElemsG (h : AsmHooksG) : List BiosElem → St → GoM (List BiosElem × St)
  | [], st => pure ([], st)
  | .pad b o :: es, st => do
    let (es', st') ← asmBiosElemsG h es st
    pure (.pad b o :: es', st')
  | .fv v :: es, st => do
    let (v', st') ← asmFvG h v st
    let (es', st'') ← asmBiosElemsG h es st'
    pure (.fv v' :: es', st'')

/-- `for _, e := range f.Elements { copy(fBuf[offset:offset+uint64(len(ebuf))], ebuf); offset += … }` -/
def copyElemsG : List BiosElem → Nat → Bytes → GoM Bytes
  | [], _, fbuf => pure fbuf
  | e :: es, offset, fbuf => do
    let hi := (offset + e.buf.length) % u64
    let _ ← sliceG "Assemble.Visit: fBuf[offset:offset+uint64(len(ebuf))]" fbuf offset hi
    copyElemsG es hi (splice fbuf offset e.buf)

def asmBiosG (h : AsmHooksG) (b : BiosRegion) (st : St) : GoM (BiosRegion × St) := do
  let (es, st) ← asmBiosElemsG h b.elems st
  makeG b.length                                         -- fBuf := make([]byte, f.Length)
  match firstFv es with
  | none => err                                          -- "no firmware volumes in BIOS Region"
  | some v =>
    match setPolarity (polOfAttrs v.info.attrs) st with
    | .error _ => err
    | .ok st => do
      let fbuf ← copyElemsG es 0 (List.replicate b.length st.pol)
      pure ({ b with elems := es, buf := fbuf }, st)

/-! ### flash image -/

/-- the FlashDescriptor case -/
def asmDescriptorG (d : Descriptor) : GoM Descriptor := do
  let mapB := d.map.fields.map byte
  let regB : Bytes := [0, 0] ++ leN 2 d.region.eraseSize ++ encodeRegions d.region.regions
  let masB := encodePerms d.master.perms
  let _ ← sliceG "Assemble.Visit: fBuf[f.DescriptorMapStart:f.DescriptorMapStart+uint(uefi.FlashDescriptorMapSize)]"
             d.buf d.mapStart (d.mapStart + 16)
  let b := splice d.buf d.mapStart (mapB.take 16)
  let _ ← sliceG "Assemble.Visit: fBuf[f.RegionStart+2:f.RegionStart+uint(uefi.FlashRegionSectionSize)]"
             b (d.regionStart + 2) (d.regionStart + 64)
  let rb ← sliceFromG "Assemble.Visit: region.Bytes()[2:]" regB 2
  let b := splice b (d.regionStart + 2) (rb.take 62)
  let _ ← sliceG "Assemble.Visit: fBuf[f.MasterStart:f.MasterStart+uint(uefi.FlashMasterSectionSize)]"
             b d.masterStart (d.masterStart + 12)
  let b := splice b d.masterStart (masB.take 12)
  pure { d with buf := b }

def asmRegionsG (h : AsmHooksG) : List Region → St → GoM (List Region × St)
  | [], st => pure ([], st)
  | .bios b :: rs, st => do
    let (b', st') ← asmBiosG h b st
    let (rs', st'') ← asmRegionsG h rs st'
    pure (.bios b' :: rs', st'')
  | r :: rs, st => do
    let (rs', st') ← asmRegionsG h rs st
    pure (r :: rs', st')

/-- the tiling check and concatenation (`r.FlashRegion()` is non-nil here, see `asmFlashG`) -/
def tileRegionsG : List Region → Nat → Bytes → GoM (Bytes × Nat)
  | [], offset, acc => pure (acc, offset)
  | r :: rs, offset, acc =>
    match r.fr with
    | none => nilG "Assemble.Visit: r.FlashRegion().BaseOffset()"
    | some fr =>
      if fr.baseOffset < offset then err
      else if fr.baseOffset > offset then err
      else do
        appendG acc.length r.buf.length                  -- fBuf = append(fBuf, r.Buf()...)
        tileRegionsG rs fr.endOffset (acc ++ r.buf)

def asmFlashG (h : AsmHooksG) (f : Flash) (st : St) : GoM (Flash × St) := do
  let ifd ← asmDescriptorG f.ifd
  let (rs, st) ← asmRegionsG h f.regions st
  -- `f.IFD.Region.FlashRegions` is a `[15]FlashRegion`: the model keeps a list
  match ifd.region.regions[0]? with
  | none => goPanic "Assemble.Visit: f.IFD.Region.FlashRegions[uefi.RegionTypeBIOS]"
  | some bios =>
    if ¬ bios.valid then err else do
    let rs := rs.map (repoint ifd.region.regions ifd.map.numberOfRegions)
    -- sort.Slice compares `ri.FlashRegion().Base`, the loop below calls `r.FlashRegion().BaseOffset()`
    if rs.any (fun r => r.fr.isNone) then nilG "Assemble.Visit: r.FlashRegion() (nil)" else do
    let rs := sortRegions rs
    makeG 0                                              -- fBuf := make([]byte, 0)
    appendG 0 ifd.buf.length                             -- fBuf = append(fBuf, ifdbuf...)
    let (buf, offset) ← tileRegionsG rs 4096 ifd.buf
    if offset ≠ f.flashSize then err
    else pure ({ f with buf := buf, ifd := ifd, regions := rs }, st)

def asmTreeG (h : AsmHooksG) (t : Tree) (st : St) : GoM (Tree × St) :=
  match t with
  | .flash f => do
    let (f', st') ← asmFlashG h f st
    pure (.flash f', st')
  | .bios b => do
    let (b', st') ← asmBiosG h b st
    pure (.bios b', st')

/-- `(&visitors.Assemble{}).Run(tree)` in the process that parsed the tree (`st` = the process-wide state
    the parser left behind); a fresh visitor has `useFFS3 = false` -/
def assembleG (h : AsmHooksG) (t : Tree) (st : St) : GoM (Tree × St) :=
  asmTreeG h t { st with ffs3 := false }

/-- hooks for total encoders (what they return is charged to `Meter.alloc`) and the NVAR store walker of
    TotalNvarWalk.lean for stores parsed under erase polarity `pp` -/
def AsmHooksG.ofPure (enc : Guid → Option (Bytes → Option Bytes)) (pp : UInt8) : AsmHooksG :=
  { encoder := fun g => (enc g).map (fun f => fun b =>
      match f b with
      | some out => do allocG out.length 1; pure (some out)
      | none => pure none)
    nvarAsm := nvAsmHookG pp }

end Fiano.Uefi.Total
