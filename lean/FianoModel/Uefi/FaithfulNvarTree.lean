/-
  Property C04 — NVAR stores inside the parsed tree, and the erase polarity they were read under.

  The shared parser takes `NewNVarStore` as a parameter (`Hooks.nvarParse`) and the shared tree keeps
  only `(buf, Length)` of a store.  Here the parameter is instantiated with C10's model
  (`nvHooks`, predicate `Hooks.NvIsC10`), the store of a file node is re-derived from the node's own
  bytes (`File.nvStore`, the way C10 re-derives nested stores), and the tree-wide predicate
  `TreeD h p t` says, for every node of the tree at any depth (decoded content and nested volume
  images included):

    volume   its erase polarity (attribute bit 0x800) is `p`  — the polarity is uniform over the tree;
    file     the reported NVAR store is (the projection of) `NewNVarStore` under polarity `p` on
             buf[DataOffset:], present exactly for a RAW file with the NVAR GUID on which it succeeds.

  `parseWith_deep`: whenever `uefi.Parse` returns `(t, st')` and the hook is C10's parser under the
  final polarity `st'.pol`, `TreeD h st'.pol t` holds.  That the store so obtained is faithful to the
  bytes (entries, table, free space, nested stores) is `nv_faithful_deep` — unconditional.

  The polarity needs an argument of its own because `SetErasePolarity` is process-wide state: the
  first volume fixes it, every later volume must agree (else `Parse` fails), and an NVAR store is only
  ever parsed inside a volume, i.e. after it was fixed.  So "the polarity in force when the store was
  parsed" = "the polarity of the enclosing volume" = "the final polarity" (`Le`, `Compat` below).
-/
import FianoModel.Uefi.FaithfulLemmas
import FianoModel.Uefi.FaithfulNvarCor
import FianoModel.Uefi.FaithfulNvarHook

namespace Fiano.Uefi.Deep
open FaithfulAux
open Fiano Fiano.Uefi

/-- what the tree reports about the NVAR store of `f` is what `NewNVarStore` yields on its bytes -/
def NvNodeOk (pol : UInt8) (f : File) : Prop := f.info.nvar = (f.nvStore pol).map nvProj

mutual
def SecD (p : UInt8) : Section → Prop
  | .mk _ _ encap => NodesD p encap
def NodesD (p : UInt8) : List Node → Prop
  | [] => True
  | .sec s :: ns => SecD p s ∧ NodesD p ns
  | .fv v :: ns => FvD p v ∧ NodesD p ns
def FvD (p : UInt8) : Fv → Prop
  | .mk i _ files => polOfAttrs i.attrs = p ∧ FilesD p files
def FilesD (p : UInt8) : List File → Prop
  | [] => True
  | f :: fs => FileD p f ∧ FilesD p fs
def FileD (p : UInt8) : File → Prop
  | .mk i buf secs => NvNodeOk p (.mk i buf secs) ∧ SecsD p secs
def SecsD (p : UInt8) : List Section → Prop
  | [] => True
  | s :: ss => SecD p s ∧ SecsD p ss
end

def ElemsD (p : UInt8) : List BiosElem → Prop
  | [] => True
  | .pad _ _ :: es => ElemsD p es
  | .fv v :: es => FvD p v ∧ ElemsD p es

def RegionD (p : UInt8) : Region → Prop
  | .bios b => ElemsD p b.elems
  | _ => True

/-- **every volume of the tree has erase polarity `p`, every NVAR store is `NewNVarStore` under `p`** -/
def TreeD (p : UInt8) : Tree → Prop
  | .flash f => ∀ r ∈ f.regions, RegionD p r
  | .bios b => ElemsD p b.elems

/-! ### the polarity only ever goes from "unset" to a value -/

def Le (a b : St) : Prop := a.pol = b.pol ∨ a.pol = 0xF0
def Compat (a : St) (p : UInt8) : Prop := a.pol = p ∨ a.pol = 0xF0

theorem Le.refl (a : St) : Le a a := Or.inl rfl
theorem Le.trans {a b c : St} (h1 : Le a b) (h2 : Le b c) : Le a c := by
  unfold Le at *
  cases h1 with
  | inr h => exact Or.inr h
  | inl h => rw [h]; exact h2
theorem Compat.back {a b : St} {p : UInt8} (h1 : Le a b) (h2 : Compat b p) : Compat a p := by
  unfold Le Compat at *
  cases h1 with
  | inr h => exact Or.inr h
  | inl h => rw [h]; exact h2

theorem setPolarity_spec (ep : UInt8) (st st1 : St) (h : setPolarity ep st = .ok st1) :
    Le st st1 ∧ st1.pol = ep ∧ st1.pol ≠ 0xF0 := by
  unfold setPolarity at h
  split at h
  · cases h
  · rename_i hep
    have hep' : ep = 0xFF ∨ ep = 0 := by
      by_cases h1 : ep = 0xFF
      · exact Or.inl h1
      · by_cases h2 : ep = 0
        · exact Or.inr h2
        · exact absurd ⟨h1, h2⟩ hep
    have hne : ep ≠ 0xF0 := by cases hep' with
      | inl h1 => rw [h1]; decide
      | inr h1 => rw [h1]; decide
    split at h
    · rename_i hset
      split at h
      · cases h
      · rename_i heq
        cases h
        have : st.pol = ep := Classical.not_not.mp heq
        exact ⟨Le.refl _, this, by rw [this]; exact hne⟩
    · rename_i hset
      cases h
      have : st.pol = 0xF0 := Classical.not_not.mp hset
      exact ⟨Or.inr this, rfl, hne⟩

/-! ### layers -/

def QSec (h : Hooks) (fuel : Nat) : Prop :=
  ∀ buf order st s st', parseSection h fuel buf order st = .ok (s, st') →
    Le st st' ∧ ∀ p, Compat st' p → h.NvIsC10 p → SecD p s
def QEncap (h : Hooks) (fuel : Nat) : Prop :=
  ∀ enc off idx st ns st', parseEncap h fuel enc off idx st = .ok (ns, st') →
    Le st st' ∧ ∀ p, Compat st' p → h.NvIsC10 p → NodesD p ns
def QSecs (h : Hooks) (fuel : Nat) : Prop :=
  ∀ fbuf off ext idx st ss st', parseSections h fuel fbuf off ext idx st = .ok (ss, st') →
    Le st st' ∧ ∀ p, Compat st' p → h.NvIsC10 p → SecsD p ss
def QFile (h : Hooks) (fuel : Nat) : Prop :=
  ∀ buf st fo st', parseFile h fuel buf st = .ok (fo, st') →
    Le st st' ∧ ∀ f, fo = some f → ∀ p, Compat st' p → h.NvIsC10 p → FileD p f
def QFiles (h : Hooks) (fuel : Nat) : Prop :=
  ∀ data off lh length st fs free st', parseFiles h fuel data off lh length st = .ok (fs, free, st') →
    Le st st' ∧ ∀ p, Compat st' p → h.NvIsC10 p → FilesD p fs
def QFv (h : Hooks) (fuel : Nat) : Prop :=
  ∀ data fvo rsz st v st', parseFv h fuel data fvo rsz st = .ok (v, st') →
    Le st st' ∧ st'.pol ≠ 0xF0 ∧ ∀ p, Compat st' p → h.NvIsC10 p → FvD p v

theorem secD_nil (p : UInt8) (i : SecInfo) (b : Bytes) : SecD p (mkSection i b []) := by
  unfold mkSection SecD NodesD; trivial

theorem qsec_step (h : Hooks) (fuel : Nat) (hE : QEncap h fuel) (hV : QFv h fuel) : QSec h (fuel + 1) := by
  intro buf order st s st' hp
  rw [parseSection] at hp
  split at hp
  · cases hp
  · simp only [] at hp
    split at hp
    · split at hp
      · cases hp
      · split at hp
        · split at hp
          · split at hp
            · cases hp
            · split at hp
              · split at hp
                · cases hp
                · rename_i ns st1 hpe
                  cases hp
                  obtain ⟨h1, h2⟩ := hE _ _ _ _ _ _ hpe
                  refine ⟨h1, fun p hc hn => ?_⟩
                  unfold mkSection SecD
                  exact h2 p hc hn
              · cases hp; exact ⟨Le.refl _, fun p _ _ => secD_nil _ _ _⟩
          · cases hp; exact ⟨Le.refl _, fun p _ _ => secD_nil _ _ _⟩
        · cases hp; exact ⟨Le.refl _, fun p _ _ => secD_nil _ _ _⟩
    · split at hp
      · split at hp
        · cases hp
        · cases hp; exact ⟨Le.refl _, fun p _ _ => secD_nil _ _ _⟩
      · split at hp
        · split at hp
          · cases hp
          · cases hp; exact ⟨Le.refl _, fun p _ _ => secD_nil _ _ _⟩
        · split at hp
          · split at hp
            · cases hp
            · split at hp
              · cases hp
              · rename_i fv st1 hpv
                cases hp
                obtain ⟨h1, _, h3⟩ := hV _ _ _ _ _ _ hpv
                refine ⟨h1, fun p hc hn => ?_⟩
                unfold mkSection SecD NodesD NodesD
                exact ⟨h3 p hc hn, trivial⟩
          · split at hp
            · split at hp
              · cases hp
              · split at hp
                · cases hp; exact ⟨Le.refl _, fun p _ _ => secD_nil _ _ _⟩
                · cases hp; exact ⟨Le.refl _, fun p _ _ => secD_nil _ _ _⟩
            · cases hp; exact ⟨Le.refl _, fun p _ _ => secD_nil _ _ _⟩

theorem qencap_step (h : Hooks) (fuel : Nat) (hS : QSec h fuel) (hE : QEncap h fuel) : QEncap h (fuel + 1) := by
  intro enc off idx st ns st' hp
  rw [parseEncap] at hp
  split at hp
  · split at hp
    · cases hp
    · rename_i s st1 hps
      split at hp
      · cases hp
      · split at hp
        · cases hp
        · rename_i ns' st2 hpe
          cases hp
          obtain ⟨a1, a2⟩ := hS _ _ _ _ _ hps
          obtain ⟨b1, b2⟩ := hE _ _ _ _ _ _ hpe
          refine ⟨a1.trans b1, fun p hc hn => ?_⟩
          unfold NodesD
          exact ⟨a2 p (hc.back b1) hn, b2 p hc hn⟩
  · cases hp; exact ⟨Le.refl _, fun p _ _ => by unfold NodesD; trivial⟩

theorem qsecs_step (h : Hooks) (fuel : Nat) (hS : QSec h fuel) (hSs : QSecs h fuel) : QSecs h (fuel + 1) := by
  intro fbuf off ext idx st ss st' hp
  rw [parseSections] at hp
  split at hp
  · split at hp
    · cases hp
    · rename_i s st1 hps
      split at hp
      · cases hp
      · split at hp
        · cases hp
        · rename_i ss' st2 hpe
          cases hp
          obtain ⟨a1, a2⟩ := hS _ _ _ _ _ hps
          obtain ⟨b1, b2⟩ := hSs _ _ _ _ _ _ _ hpe
          refine ⟨a1.trans b1, fun p hc hn => ?_⟩
          unfold SecsD
          exact ⟨a2 p (hc.back b1) hn, b2 p hc hn⟩
  · cases hp; exact ⟨Le.refl _, fun p _ _ => by unfold SecsD; trivial⟩

theorem nvNodeOk_intro (h : Hooks) (p : UInt8) (hn : h.NvIsC10 p) (i : FileInfo) (fbuf : Bytes) (secs : List Section)
    (nvs : Option NvStore)
    (hnv : (if i.type = 1 ∧ i.guid = guidNVAR then
              if i.dataOffset ≥ fbuf.length then Except.error Err.err else Except.ok (h.nvarParse (fbuf.drop i.dataOffset))
            else Except.ok none) = Except.ok nvs) :
    NvNodeOk p (.mk { i with nvar := nvs } fbuf secs) := by
  show nvs = (nvStoreOf p i.type i.guid fbuf i.dataOffset).map nvProj
  unfold nvStoreOf
  split at hnv
  · rename_i hc
    rw [if_pos hc]
    split at hnv
    · cases hnv
    · cases hnv
      rw [hn]
      unfold nvParseC10
      split <;> rfl
  · rename_i hc
    rw [if_neg hc]
    cases hnv; rfl

theorem qfile_step (h : Hooks) (fuel : Nat) (hSs : QSecs h fuel) : QFile h (fuel + 1) := by
  intro buf st fo st' hp
  rw [parseFile] at hp
  split at hp
  · cases hp
  · cases hp; exact ⟨Le.refl _, fun f hf => by cases hf⟩
  · rename_i i hfh
    simp only [] at hp
    split at hp
    · cases hp
    · rename_i nvs hnv
      split at hp
      · cases hp
        refine ⟨Le.refl _, fun f hf p _ hn => ?_⟩
        cases hf
        unfold FileD
        exact ⟨nvNodeOk_intro h p hn i _ _ nvs hnv, by unfold SecsD; trivial⟩
      · split at hp
        · cases hp
        · rename_i ss st1 hps
          cases hp
          obtain ⟨a1, a2⟩ := hSs _ _ _ _ _ _ _ hps
          refine ⟨a1, fun f hf p hc hn => ?_⟩
          cases hf
          unfold FileD
          exact ⟨nvNodeOk_intro h p hn i _ _ nvs hnv, a2 p hc hn⟩

theorem qfiles_step (h : Hooks) (fuel : Nat) (hF : QFile h fuel) (hFs : QFiles h fuel) : QFiles h (fuel + 1) := by
  intro data off lh length st fs free st' hp
  rw [parseFiles] at hp
  split at hp
  · simp only [] at hp
    split at hp
    · cases hp
    · split at hp
      · cases hp
      · rename_i st1 hpf
        cases hp
        exact ⟨(hF _ _ _ _ hpf).1, fun p _ _ => by unfold FilesD; trivial⟩
      · rename_i f st1 hpf
        split at hp
        · cases hp
        · split at hp
          · cases hp
          · rename_i fs' free' st2 hpfs
            cases hp
            obtain ⟨a1, a2⟩ := hF _ _ _ _ hpf
            obtain ⟨b1, b2⟩ := hFs _ _ _ _ _ _ _ _ hpfs
            refine ⟨a1.trans b1, fun p hc hn => ?_⟩
            unfold FilesD
            exact ⟨a2 f rfl p (hc.back b1) hn, b2 p hc hn⟩
  · cases hp; exact ⟨Le.refl _, fun p _ _ => by unfold FilesD; trivial⟩

theorem qfv_step (h : Hooks) (fuel : Nat) (hFs : QFiles h fuel) : QFv h (fuel + 1) := by
  intro data fvo rsz st v st' hp
  rw [parseFv] at hp
  split at hp
  · cases hp
  · split at hp
    · cases hp
    · rename_i blocks hbl
      simp only [] at hp
      split at hp
      · cases hp
      split at hp
      · cases hp
      · rename_i st1 hpol
        obtain ⟨c1, c2, c3⟩ := setPolarity_spec _ _ _ hpol
        split at hp
        · cases hp
        · split at hp
          · cases hp
            refine ⟨c1, c3, fun p hc _ => ?_⟩
            unfold FvD FilesD
            refine ⟨?_, trivial⟩
            cases hc with
            | inl hc => rw [← hc]; exact c2.symm
            | inr hc => exact absurd hc c3
          · split at hp
            · cases hp
            · rename_i fs free st2 hpf
              obtain ⟨b1, b2⟩ := hFs _ _ _ _ _ _ _ _ hpf
              have hst2 : st2.pol = st1.pol := by
                cases b1 with
                | inl hb => exact hb.symm
                | inr hb => exact absurd hb c3
              cases hp
              refine ⟨c1.trans b1, by rw [hst2]; exact c3, fun p hc hn => ?_⟩
              unfold FvD
              refine ⟨?_, b2 p hc hn⟩
              show polOfAttrs (fvInfoOf data blocks fvo rsz).attrs = p
              cases hc with
              | inl hc => rw [← hc, hst2]; exact c2.symm
              | inr hc => rw [hst2] at hc; exact absurd hc c3

/-- all six layers, for every budget -/
theorem qlayers (h : Hooks) : ∀ fuel,
    QSec h fuel ∧ QEncap h fuel ∧ QSecs h fuel ∧ QFile h fuel ∧ QFiles h fuel ∧ QFv h fuel := by
  intro fuel
  induction fuel with
  | zero =>
    refine ⟨?_, ?_, ?_, ?_, ?_, ?_⟩
    · intro buf order st s st' hp; rw [parseSection] at hp; cases hp
    · intro enc off idx st ns st' hp; rw [parseEncap] at hp; cases hp
    · intro fbuf off ext idx st ss st' hp; rw [parseSections] at hp; cases hp
    · intro buf st f st' hp; rw [parseFile] at hp; cases hp
    · intro data off lh length st fs free st' hp; rw [parseFiles] at hp; cases hp
    · intro data fvo rsz st v st' hp; rw [parseFv] at hp; cases hp
  | succ n ih =>
    obtain ⟨hS, hE, hSs, hF, hFs, hV⟩ := ih
    exact ⟨qsec_step h n hE hV, qencap_step h n hS hE, qsecs_step h n hS hSs, qfile_step h n hSs,
      qfiles_step h n hF hFs, qfv_step h n hFs⟩

/-! ### BIOS region, flash image, Parse -/

theorem elemsD_append (p : UInt8) : ∀ (a b : List BiosElem), ElemsD p a → ElemsD p b → ElemsD p (a ++ b) := by
  intro a
  induction a with
  | nil => intro b _ hb; exact hb
  | cons x xs ih =>
    intro b ha hb
    cases x with
    | pad bb o => simp only [List.cons_append, ElemsD] at *; exact ih b ha hb
    | fv v => simp only [List.cons_append, ElemsD] at *; exact ⟨ha.1, ih b ha.2 hb⟩

theorem qbios (h : Hooks) : ∀ fuel buf abs st es st', parseBiosElems h fuel buf abs st = .ok (es, st') →
    Le st st' ∧ ∀ p, Compat st' p → h.NvIsC10 p → ElemsD p es := by
  intro fuel
  induction fuel with
  | zero => intro buf abs st es st' hp; rw [parseBiosElems] at hp; cases hp
  | succ n ih =>
    intro buf abs st es st' hp
    rw [parseBiosElems] at hp
    split at hp
    · cases hp
      refine ⟨Le.refl _, fun p _ _ => ?_⟩
      split <;> simp [ElemsD]
    · rename_i off hoff
      simp only [] at hp
      split at hp
      · cases hp
      · rename_i fv st1 hpv
        split at hp
        · cases hp
        · split at hp
          · cases hp
          · rename_i es' st2 hpe
            cases hp
            obtain ⟨a1, _, a3⟩ := (qlayers h n).2.2.2.2.2 _ _ _ _ _ _ hpv
            obtain ⟨b1, b2⟩ := ih _ _ _ _ _ hpe
            refine ⟨a1.trans b1, fun p hc hn => ?_⟩
            apply elemsD_append
            · split <;> simp [ElemsD]
            · simp only [ElemsD]
              exact ⟨a3 p (hc.back b1) hn, b2 p hc hn⟩

theorem qregions (h : Hooks) (fuel : Nat) (bs : Bytes) (nr : Nat) :
    ∀ (frs : List FlashRegion) (i : Nat) (st : St) (rs : List Region) (st' : St),
      parseRegions h fuel bs nr frs i st = .ok (rs, st') →
      Le st st' ∧ ∀ p, Compat st' p → h.NvIsC10 p → ∀ r ∈ rs, RegionD p r := by
  intro frs
  induction frs with
  | nil => intro i st rs st' hp; rw [parseRegions] at hp; cases hp; exact ⟨Le.refl _, fun p _ _ r hr => by cases hr⟩
  | cons fr frs ih =>
    intro i st rs st' hp
    rw [parseRegions] at hp
    split at hp
    · cases hp; exact ⟨Le.refl _, fun p _ _ r hr => by cases hr⟩
    · split at hp
      · exact ih _ _ _ _ hp
      · simp only [] at hp
        split at hp
        · cases hp
        · rename_i r st1 hone
          split at hp
          · cases hp
          · rename_i rs' st2 hrest
            cases hp
            obtain ⟨b1, b2⟩ := ih _ _ _ _ hrest
            have hr1 : Le st st1 ∧ ∀ p, Compat st1 p → h.NvIsC10 p → RegionD p r := by
              split at hone
              · split at hone
                · cases hone
                · rename_i b st3 hpb
                  cases hone
                  unfold parseBios at hpb
                  split at hpb
                  · cases hpb
                  · rename_i es st4 hpe
                    cases hpb
                    obtain ⟨a1, a2⟩ := qbios h _ _ _ _ _ _ hpe
                    exact ⟨a1, fun p hc hn => a2 p hc hn⟩
              · split at hone
                · cases hone; exact ⟨Le.refl _, fun p _ _ => trivial⟩
                · cases hone; exact ⟨Le.refl _, fun p _ _ => trivial⟩
            refine ⟨hr1.1.trans b1, fun p hc hn x hx => ?_⟩
            cases hx with
            | head => exact hr1.2 p (hc.back b1) hn
            | tail _ hx => exact b2 p hc hn x hx

theorem mem_fillGaps (fbuf : Bytes) (size : Nat) : ∀ (rs : List Region) (off : Nat) (out : List Region),
    fillGaps fbuf size rs off = .ok out → ∀ x ∈ out, x ∈ rs ∨ ∃ b fr, x = .raw b fr (-1) := by
  intro rs
  induction rs with
  | nil =>
    intro off out hp x hx
    rw [fillGaps] at hp
    split at hp
    · cases hp
      cases hx with
      | head => exact Or.inr ⟨_, _, rfl⟩
      | tail _ hx => cases hx
    · cases hp; cases hx
  | cons r rs ih =>
    intro off out hp x hx
    rw [fillGaps] at hp
    split at hp
    · cases hp
    · simp only [] at hp
      split at hp
      · cases hp
      · split at hp
        · cases hp
        · rename_i out' hrec
          have hin : ∀ y ∈ out', y ∈ r :: rs ∨ ∃ b fr, y = .raw b fr (-1) := by
            intro y hy
            cases ih _ _ hrec y hy with
            | inl h1 => exact Or.inl (List.mem_cons_of_mem _ h1)
            | inr h1 => exact Or.inr h1
          split at hp
          · cases hp
            cases hx with
            | head => exact Or.inr ⟨_, _, rfl⟩
            | tail _ hx =>
              cases hx with
              | head => exact Or.inl List.mem_cons_self
              | tail _ hx => exact hin x hx
          · cases hp
            cases hx with
            | head => exact Or.inl List.mem_cons_self
            | tail _ hx => exact hin x hx

/-- **the deep facts hold for whatever `uefi.Parse` returns**, from any process state and budget:
    if the NVAR hook is C10's parser under the final polarity, every volume of the tree has that
    polarity and every reported NVAR store is `NewNVarStore` on the file's bytes under it -/
theorem parseWith_deep' (h : Hooks) (fuel : Nat) (bs : Bytes) (st st' : St) (t : Tree) (p : UInt8)
    (hp : parseWith h fuel bs st = .ok (t, st')) (hc : Compat st' p) (hn : h.NvIsC10 p) : TreeD p t := by
  unfold parseWith at hp
  split at hp
  · split at hp
    · cases hp
    · rename_i f st1 hpf
      cases hp
      unfold parseFlash at hpf
      split at hpf
      · cases hpf
      · split at hpf
        · cases hpf
        · split at hpf
          · cases hpf
          · split at hpf
            · cases hpf
            · split at hpf
              · cases hpf
              · rename_i rs st2 hpr
                split at hpf
                · cases hpf
                · rename_i rs' hfill
                  cases hpf
                  obtain ⟨_, a2⟩ := qregions h fuel bs _ _ _ _ _ _ hpr
                  unfold TreeD
                  intro r hr
                  cases mem_fillGaps _ _ _ _ _ hfill r hr with
                  | inl h1 => exact a2 _ hc hn r (mem_sortRegions r rs h1)
                  | inr h1 => obtain ⟨b, fr, hb⟩ := h1; rw [hb]; trivial
  · split at hp
    · cases hp
    · rename_i b st1 hpb
      cases hp
      unfold parseBios at hpb
      split at hpb
      · cases hpb
      · rename_i es st4 hpe
        cases hpb
        exact (qbios h _ _ _ _ _ _ hpe).2 _ hc hn

theorem parseWith_deep (h : Hooks) (fuel : Nat) (bs : Bytes) (st st' : St) (t : Tree)
    (hp : parseWith h fuel bs st = .ok (t, st')) (hn : h.NvIsC10 st'.pol) : TreeD st'.pol t :=
  parseWith_deep' h fuel bs st st' t st'.pol hp (Or.inl rfl) hn

/-- **`parseC10` — `uefi.Parse` with the real NVAR parser, no hook left to assume**: whatever it returns
    is faithful (with the NVAR hook it actually used) and satisfies the deep facts under the polarity it
    reports -/
theorem parseC10_spec (h0 : Hooks) (hb : h0.BoundedCodecs) (fuel : Nat) (bs : Bytes) (st : St) (t : Tree) (p : UInt8)
    (hlen : GoLen bs) (hp : parseC10 h0 fuel bs st = .ok (t, p)) :
    Faithful (nvHooks h0 p) t bs ∧ TreeD p t := by
  have hb' : ∀ q, (nvHooks h0 q).BoundedCodecs := fun q => hb
  unfold parseC10 at hp
  split at hp
  · cases hp
  · rename_i t1 st1 hp1
    split at hp
    · rename_i hpol
      cases hp
      refine ⟨parseWith_faithful _ (hb' _) fuel bs st t st1 hlen hp1, ?_⟩
      refine parseWith_deep' _ fuel bs st st1 t 0xFF hp1 ?_ (nvHooks_isC10 h0 0xFF)
      cases hpol with
      | inl h1 => exact Or.inl h1
      | inr h1 => exact Or.inr h1
    · split at hp
      · cases hp
      · rename_i t2 st2 hp2
        split at hp
        · rename_i heq
          cases hp
          refine ⟨parseWith_faithful _ (hb' _) fuel bs st t st2 hlen hp2, ?_⟩
          exact parseWith_deep' _ fuel bs st st2 t st1.pol hp2 (Or.inl heq) (nvHooks_isC10 h0 st1.pol)
        · cases hp

/-- the store the tree reports for a file, and its faithfulness to the file's bytes, in one statement -/
theorem nvar_node (p : UInt8) (f : File) (hd : FileD p f) :
    (f.info.nvar = none ∧ f.nvStore p = none) ∨
    ∃ s, f.nvStore p = some s ∧ f.info.nvar = some (nvProj s) ∧ f.info.type = 1 ∧ f.info.guid = guidNVAR ∧
      Nvram.parseStore p.toNat (f.buf.drop f.info.dataOffset) = .ok s ∧
      ∀ d, NvFaithful.NvFDeep p.toNat d s (f.buf.drop f.info.dataOffset) := by
  cases f with
  | mk i buf secs =>
    unfold FileD NvNodeOk at hd
    obtain ⟨hnv, _⟩ := hd
    match hs : File.nvStore p (.mk i buf secs) with
    | none => rw [hs] at hnv; exact Or.inl ⟨hnv, rfl⟩
    | some s =>
      rw [hs] at hnv
      refine Or.inr ⟨s, rfl, hnv, ?_⟩
      have hs' : nvStoreOf p i.type i.guid buf i.dataOffset = some s := hs
      show i.type = 1 ∧ i.guid = guidNVAR ∧ Nvram.parseStore p.toNat (buf.drop i.dataOffset) = .ok s ∧
        ∀ d, NvFaithful.NvFDeep p.toNat d s (buf.drop i.dataOffset)
      unfold nvStoreOf at hs'
      by_cases hc : i.type = 1 ∧ i.guid = guidNVAR
      · rw [if_pos hc] at hs'
        match hps : Nvram.parseStore p.toNat (buf.drop i.dataOffset), hs' with
        | .ok s', hs' =>
          cases hs'
          exact ⟨hc.1, hc.2, rfl, fun d => NvFaithful.nv_faithful_deep _ d _ _ hps⟩
      · rw [if_neg hc] at hs'; cases hs'

end Fiano.Uefi.Deep
