/-
  Tie T1 "code as code" for the Go-semantics model of property C05 (Uefi/Total*.lean): its
  `isErased` is `uefi.IsErased` as translated from the source on every run (Gen/CodeUefi.lean).
  Kept apart from Uefi/CodeTie.lean so that the checks of C01–C04/C09 do not depend on the C05 model.
-/
import FianoModel.Uefi.CodeTie
import FianoModel.Uefi.TotalNvar

namespace Fiano.Uefi.CodeTie
open Fiano Fiano.Uefi
open Fiano.Gen.CodeUefi

/-- `Total.isErased` (used by the NVAR walk of the totality model) is the translated `uefi.IsErased` -/
theorem total_isErased_tie (b : Bytes) (pol : UInt8) : Total.isErased b pol = fn_IsErased b pol := by
  rw [isErased_tie]; rfl

end Fiano.Uefi.CodeTie
