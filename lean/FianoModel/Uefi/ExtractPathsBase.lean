/-
  Lemmas for property C07: the sibling-key predicate `pw*` and paths below a directory (`Ext`), shared
  by the tree-level argument (Uefi/ExtractPaths.lean) and the NVAR-store argument
  (Uefi/ExtractNvarPaths.lean); `pwTree` is also what the driver evaluates (op `hyp`).
-/
import FianoModel.Uefi.ExtractText

namespace Fiano.Uefi
open Fiano

/-! ### sibling keys -/

def nodeOrders : List Node → List Nat
  | [] => []
  | .sec s :: ns => s.info.fileOrder :: nodeOrders ns
  | .fv _ :: ns => nodeOrders ns

def nodeOffsets : List Node → List Nat
  | [] => []
  | .sec _ :: ns => nodeOffsets ns
  | .fv v :: ns => v.info.fvOffset :: nodeOffsets ns

def secOrders (ss : List Section) : List Nat := ss.map (fun s => s.info.fileOrder)

def padOffsets : List BiosElem → List Nat
  | [] => []
  | .pad _ o :: es => o :: padOffsets es
  | .fv _ :: es => padOffsets es

def elemFvOffsets : List BiosElem → List Nat
  | [] => []
  | .pad _ _ :: es => elemFvOffsets es
  | .fv v :: es => v.info.fvOffset :: elemFvOffsets es

mutual
def pwSection : Section → Bool
  | .mk _ _ e => pwNodes e
def pwNodes : List Node → Bool
  | [] => true
  | .sec s :: ns => pwSection s && pwNodes ns && !(nodeOrders ns).contains s.info.fileOrder
  | .fv v :: ns => pwFv v && pwNodes ns && !(nodeOffsets ns).contains v.info.fvOffset
def pwSections : List Section → Bool
  | [] => true
  | s :: ss => pwSection s && pwSections ss && !(secOrders ss).contains s.info.fileOrder
def pwFile : File → Bool
  | .mk _ _ secs => pwSections secs
def pwFiles : List File → Bool
  | [] => true
  | f :: fs => pwFile f && pwFiles fs
def pwFv : Fv → Bool
  | .mk _ _ files => pwFiles files
end

def pwBiosElems : List BiosElem → Bool
  | [] => true
  | .pad _ o :: es => pwBiosElems es && !(padOffsets es).contains o
  | .fv v :: es => pwFv v && pwBiosElems es && !(elemFvOffsets es).contains v.info.fvOffset

/-- the first one or two path components of a region -/
def regionHead : Region → List Comp
  | .bios _ => [nameBios]
  | .me _ _ => [nameMe]
  | .raw _ fr t => [regionName t, hexStr (fr.baseOffset % 4294967296) ++ extBin]

def pwRegions : List Region → Bool
  | [] => true
  | r :: rs =>
    (match r with
      | .bios b => pwBiosElems b.elems
      | _ => true) && pwRegions rs && !(rs.map regionHead).contains (regionHead r)

/-- sibling nodes are told apart by what their directory is named after -/
def pwTree : Tree → Bool
  | .flash f => pwRegions f.regions
  | .bios b => pwBiosElems b.elems

/-! ### paths below a directory -/

/-- `p` lies strictly below the directory `pre`, all further components being clean -/
def Ext (pre p : List Comp) : Prop := ∃ rest, rest ≠ [] ∧ (∀ c ∈ rest, SlashFree c) ∧ p = pre ++ rest

theorem Ext.leaf (pre : List Comp) (c : Comp) (hc : SlashFree c) : Ext pre (pre ++ [c]) :=
  ⟨[c], by simp, by simpa using hc, rfl⟩

theorem Ext.up {pre p : List Comp} {c : Comp} (h : Ext (pre ++ [c]) p) (hc : SlashFree c) : Ext pre p := by
  obtain ⟨rest, _, hsf, rfl⟩ := h
  refine ⟨c :: rest, by simp, ?_, by simp⟩
  intro x hx
  simp only [List.mem_cons] at hx
  rcases hx with rfl | hx
  · exact hc
  · exact hsf x hx

theorem Ext.up2 {pre p : List Comp} {a b : Comp} (h : Ext (pre ++ [a, b]) p) (ha : SlashFree a) (hb : SlashFree b) :
    Ext pre p := by
  have h1 : Ext ((pre ++ [a]) ++ [b]) p := by simpa using h
  exact (h1.up hb).up ha

theorem Ext.ne {pre p q : List Comp} {c c' : Comp} (hp : Ext (pre ++ [c]) p) (hq : Ext (pre ++ [c']) q) (hne : c ≠ c') :
    p ≠ q := by
  obtain ⟨r1, _, _, rfl⟩ := hp
  obtain ⟨r2, _, _, rfl⟩ := hq
  intro h
  simp only [List.append_assoc] at h
  have := List.append_cancel_left h
  simp only [List.cons_append, List.nil_append, List.cons.injEq] at this
  exact hne this.1

theorem Ext.ne2 {pre p q : List Comp} {a a' b b' : Comp} (hp : Ext (pre ++ [a, b]) p) (hq : Ext (pre ++ [a', b']) q)
    (hne : b ≠ b') : p ≠ q := by
  obtain ⟨r1, _, _, rfl⟩ := hp
  obtain ⟨r2, _, _, rfl⟩ := hq
  intro h
  simp only [List.append_assoc] at h
  have := List.append_cancel_left h
  simp only [List.cons_append, List.nil_append, List.cons.injEq] at this
  exact hne this.2.1

/-- a file directly in `pre` is not a path below a subdirectory of `pre` -/
theorem Ext.ne_leaf {pre q : List Comp} {x c : Comp} (hq : Ext (pre ++ [c]) q) : pre ++ [x] ≠ q := by
  obtain ⟨r, hr, _, rfl⟩ := hq
  intro h
  simp only [List.append_assoc] at h
  have := List.append_cancel_left h
  simp only [List.cons_append, List.nil_append, List.cons.injEq] at this
  exact hr this.2.symm

theorem Ext.clean {pre p : List Comp} (h : Ext pre p) (hpre : ∀ c ∈ pre, SlashFree c) : ∀ c ∈ p, SlashFree c := by
  obtain ⟨r, _, hsf, rfl⟩ := h
  intro c hc
  simp only [List.mem_append] at hc
  rcases hc with hc | hc
  · exact hpre c hc
  · exact hsf c hc

theorem Ext.ne_nil {pre p : List Comp} (h : Ext pre p) : p ≠ [] := by
  obtain ⟨r, hr, _, rfl⟩ := h
  simp [hr]

theorem sf_ext (a b : Bytes) (ha : SlashFree a) (hb : SlashFree b) : SlashFree (a ++ b) := slashFree_append ha hb

theorem paths_append (a b : List Entry) : (a ++ b).map Prod.fst = a.map Prod.fst ++ b.map Prod.fst := by simp

theorem nodup_map_on {α β : Type} (f : α → β) : ∀ (l : List α), (∀ a ∈ l, ∀ b ∈ l, f a = f b → a = b) → l.Nodup →
    (l.map f).Nodup
  | [], _, _ => by simp
  | a :: t, hinj, hn => by
    simp only [List.nodup_cons] at hn
    simp only [List.map_cons, List.nodup_cons, List.mem_map, not_exists, not_and]
    refine ⟨fun b hb hfb => ?_, nodup_map_on f t (fun x hx y hy => hinj x (by simp [hx]) y (by simp [hy])) hn.2⟩
    have := hinj b (by simp [hb]) a (by simp) hfb
    exact hn.1 (this ▸ hb)

end Fiano.Uefi
