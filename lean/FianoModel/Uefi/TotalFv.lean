/-
  C05 — Go-semantics (GoM) model of the volume / file / section parsers of pkg/uefi:

    FindFirmwareVolumeOffset, NewFirmwareVolume (fixed header, block map, extended header, file walk),
    NewFile (size / extended size, NVAR hook, section walk), NewSection (extended size, GUID-defined
    sub-header and DataOffset, UI / version / volume image / depex bounds), UCS2ToUTF8, NewBIOSRegion.

  Every `b[lo:hi]`, `b[i]` and `make` of those Go functions goes through a faulting primitive of
  Base/GoM.lean (the site strings name the Go expression), `binary.Read` on a `bytes.Reader` is
  `binaryReadG` (an ordinary error on short input), loops take fuel.  The values computed are those of
  the functional model Uefi/Parse.lean (same `Tree` types, so the canonical dump of Uefi/Dump.lean
  applies and the T2 correspondence compares whole trees with Go).

  The model follows the code *as repaired* by
    fixes/C04-file-clipped-to-volume.diff   (already in /repo)
    fixes/C05-guided-dataoffset.diff        DataOffset beyond the buffer is an error, not a slice panic
    fixes/C05-encap-zero-size.diff          a zero-size section inside a decoded payload is an error, not an endless loop
    fixes/C05-blockmap-bounded.diff         the block map is read inside the volume only
    fixes/C05-brotli-short.diff             SystemBROTLI.Decode checks for its 16-byte header
    (wp-c10) NVAR / UCS-2 repairs           UCS2ToUTF8 of an empty string does not index [-1]

  Decompression: a codec is a *total* function `Bytes → Option Bytes` (third-party decoders are not
  modelled); what it returns is added to `Meter.decompressed`.  Because a decoder's output is a fresh
  buffer of any size, recursion into decoded payloads cannot be paid for by bytes of the input: it is
  bounded by an explicit budget `z` of nested decompressions (`innerZ`).  When the budget is used up
  the section is returned undecoded with the compression tag `zBudgetTag` — visibly, never silently —
  so every run is a value or an error for every `z`, and agrees with Go whenever the tag is absent.
-/
import FianoModel.Uefi.TotalBase
import FianoModel.Uefi.Parse

namespace Fiano.Uefi.Total
open Fiano GoM Fiano.Uefi

/-- `compression.Compressor` as the parser sees it -/
structure CodecG where
  name   : String
  /-- `SystemBROTLI.Decode` feeds `encodedData[0x10:]` to the decoder; 0 for the other codecs -/
  skip   : Nat := 0
  /-- the decoder.  In the theorems it is `decodeG dec` for a total `dec : Bytes → Option Bytes`
      (`CodecG.ofPure`); the T2 driver uses a table of the real decoders' answers and asks for a missing
      entry through a fault, which is why the field lives in `GoM`. -/
  decode : Bytes → GoM (Option Bytes)

/-- a codec given by a total decoder; what it returns is added to `Meter.decompressed` -/
def CodecG.ofPure (name : String) (skip : Nat) (dec : Bytes → Option Bytes) : CodecG :=
  { name := name, skip := skip, decode := decodeG dec }

structure HooksG where
  /-- `compression.CompressorFromGUID` -/
  codec : Guid → Option CodecG := fun _ => none
  /-- `uefi.DisableDecompression` -/
  disableDecompression : Bool := false
  /-- `NewNVarStore(f.buf[f.DataOffset:])` under the current erase polarity; `none` = error (only logged) -/
  nvar : Bytes → UInt8 → GoM (Option NvStore) := fun _ _ => pure none

def zBudgetTag : String := "!decompression-nesting-budget"

def fvSig : Bytes := [0x5F, 0x46, 0x56, 0x48]

/-! ### FindFirmwareVolumeOffset -/

/-- `for offset = 32; offset+4 < len(data); offset += 8 { if bytes.Equal(data[offset:offset+4], fvSig) … }` -/
def scanSigG (data : Bytes) : Nat → Nat → GoM (Option Nat)
  | fuel, offset =>
    if offset + 4 < data.length then
      match fuel with
      | 0 => outOfFuel
      | fuel+1 => do
        let w ← sliceG "FindFirmwareVolumeOffset: data[offset:offset+4]" data offset (offset + 4)
        if w = fvSig then pure (some offset) else scanSigG data fuel (offset + 8)
    else pure none

/-- the same loop carrying `rest = data.drop offset` so that a probe costs O(1) on lists; the compiler
    uses it in place of `scanSigG` (`scanSigG_eq_fast`, proved — the kernel only ever sees `scanSigG`) -/
def scanSigFast (n : Nat) : Nat → Nat → Bytes → GoM (Option Nat)
  | fuel, offset, rest =>
    if offset + 4 < n then
      match fuel with
      | 0 => outOfFuel
      | fuel+1 =>
        if rest.take 4 = fvSig then pure (some offset) else scanSigFast n fuel (offset + 8) (rest.drop 8)
    else pure none

def scanSigImpl (data : Bytes) (fuel offset : Nat) : GoM (Option Nat) :=
  scanSigFast data.length fuel offset (data.drop offset)

theorem scanSigFast_eq (data : Bytes) (fuel offset : Nat) :
    scanSigFast data.length fuel offset (data.drop offset) = scanSigG data fuel offset := by
  induction fuel generalizing offset with
  | zero => rw [scanSigFast, scanSigG]
  | succ fuel ih =>
    rw [scanSigFast, scanSigG]
    split
    · rename_i hlt
      have hs : sliceG "FindFirmwareVolumeOffset: data[offset:offset+4]" data offset (offset + 4)
          = pure ((data.drop offset).take 4) := by
        unfold sliceG
        rw [if_pos ⟨by omega, by omega⟩]
        congr 2; omega
      rw [hs]
      simp only [pure_bind]
      split
      · rfl
      · rw [List.drop_drop]
        exact ih (offset + 8)
    · rfl

@[csimp] theorem scanSigG_eq_fast : @scanSigG = @scanSigImpl := by
  funext data fuel offset
  exact (scanSigFast_eq data fuel offset).symm

/-- `none` when Go returns a negative number (that includes -8 for a hit of the very first probe) -/
def findFvOffsetG (data : Bytes) : GoM (Option Nat) :=
  if data.length < 32 then pure none
  else do
    match ← scanSigG data (data.length / 8 + 1) 32 with
    | some o => if o < 40 then pure none else pure (some (o - 40))
    | none => pure none

/-! ### the block map -/

/-- the `for { binary.Read(reader, …, &block) … }` loop; `r` is what the reader has left, `pos` its
    position.  Repaired: an entry that does not lie inside `[0, Length)` is an error. -/
def readBlocksG (length : Nat) : Nat → Bytes → Nat → GoM (List Block)
  | fuel, r, pos =>
    if pos + 8 > length then err else
    match fuel with
    | 0 => outOfFuel
    | fuel+1 => do
      let (e, r') ← binaryReadG r 8
      let c := fromLE (e.take 4)
      let s := fromLE (e.drop 4)
      if c = 0 ∧ s = 0 then pure []
      else do
        allocG 1 8                                  -- blocks = append(blocks, block)
        let rest ← readBlocksG length fuel r' (pos + 8)
        pure (⟨c, s⟩ :: rest)

/-! ### unicode.UCS2ToUTF8 (repaired: no `output[len(output)-1]` on an empty output) -/

def ucs2ToUtf8G (b : Bytes) : GoM (List Nat) := do
  let out := utf16Dec b
  if out.length > 0 then
    match out[out.length - 1]? with
    | some c => if c = 0 then pure out.dropLast else pure out
    | none => goPanic "UCS2ToUTF8: output[len(output)-1]"
  else pure out

/-! ### sections, files, volumes (mutually recursive, one unit of fuel per call or loop iteration) -/

abbrev Inner := Bytes → St → GoM (Option (List Node × St))

def u64max : Nat := 18446744073709551615

mutual

/-- `NewSection(buf, fileOrder)` -/
def parseSectionG (h : HooksG) (inner : Inner) : Nat → Bytes → Nat → St → GoM (Section × St)
  | 0, _, _, _ => outOfFuel
  | fuel+1, buf, order, st => do
    let (hb, r1) ← binaryReadG buf 4                -- binary.Read(r, …, &s.Header.SectionHeader)
    let size3 := fromLE (hb.take 3)
    let type := fromLE (hb.drop 3)
    let (ext, hs, r2) ← (
      if knownSection type then
        if size3 = 0xFFFFFF then do
          let (eb, r2) ← binaryReadG r1 4             -- &s.Header.ExtendedSize
          if fromLE eb = 0xFFFFFFFF then err else pure (fromLE eb, 8, r2)
        else pure (size3, 4, r1)
      else pure (min size3 buf.length, 4, r1) : GoM (Nat × Nat × Bytes))
    if ext > buf.length then err else do
    let sbuf ← copyOutG "NewSection: buf[:s.Header.ExtendedSize]" buf ext
    let i : SecInfo := { size3 := size3, type := type, extSize := ext, fileOrder := order }
    if type = 0x02 then do
      let (tb, _) ← binaryReadG r2 20                -- &typeSpec.SectionGUIDDefinedHeader
      let g := tb.take 16
      let dataOffset := fromLE ((tb.drop 16).take 2)
      let attrs := fromLE (tb.drop 18)
      if attrs &&& 1 ≠ 0 ∧ ¬ h.disableDecompression then
        match h.codec g with
        | some c =>
          -- repaired (fixes/C05-guided-dataoffset.diff)
          if dataOffset > buf.length then err else do
          let payload ← sliceFromG "NewSection: buf[typeSpec.DataOffset:]" buf dataOffset
          -- repaired (fixes/C05-brotli-short.diff): a payload shorter than the skipped header is a decode error
          let dec ← (if payload.length < c.skip then pure none
                     else do
                       let p ← sliceFromG "SystemBROTLI.Decode: encodedData[0x10:]" payload c.skip
                       c.decode p : GoM (Option Bytes))
          match dec with
          | some enc =>
            match ← inner enc st with
            | some (ns, st') => pure (.mk { i with ts := some ⟨g, dataOffset, attrs, c.name⟩ } sbuf ns, st')
            | none => pure (.mk { i with ts := some ⟨g, dataOffset, attrs, zBudgetTag⟩ } sbuf [], st)
          | none => pure (.mk { i with ts := some ⟨g, dataOffset, attrs, "UNKNOWN"⟩ } sbuf [], st)
        | none => pure (.mk { i with ts := some ⟨g, dataOffset, attrs, "UNKNOWN"⟩ } sbuf [], st)
      else pure (.mk { i with ts := some ⟨g, dataOffset, attrs, ""⟩ } sbuf [], st)
    else if type = 0x15 then
      if sbuf.length ≤ hs then err else do
      let nb ← sliceFromG "NewSection: s.buf[headerSize:] (UI)" sbuf hs
      let name ← ucs2ToUtf8G nb
      pure (.mk { i with name := name } sbuf [], st)
    else if type = 0x14 then
      if sbuf.length ≤ hs + 2 then err else do
      let bn ← sliceG "NewSection: s.buf[headerSize:headerSize+2]" sbuf hs (hs + 2)
      let vb ← sliceFromG "NewSection: s.buf[headerSize+2:]" sbuf (hs + 2)
      let ver ← ucs2ToUtf8G vb
      pure (.mk { i with build := fromLE bn, version := ver } sbuf [], st)
    else if type = 0x17 then
      if sbuf.length ≤ hs then err else do
      let vb ← sliceFromG "NewSection: s.buf[headerSize:] (volume image)" sbuf hs
      let (fv, st') ← parseFvG h inner fuel vb 0 true st
      pure (.mk i sbuf [.fv fv], st')
    else if isDepexType type then
      if sbuf.length ≤ hs then err else do
      let db ← sliceFromG "NewSection: s.buf[headerSize:] (depex)" sbuf hs
      match parseDepEx db with
      | some ops => pure (.mk { i with depex := ops } sbuf [], st)
      | none => pure (.mk i sbuf [], st)
    else pure (.mk i sbuf [], st)
termination_by structural fuel _ _ _ => fuel

/-- the section loop of `NewFile`: `for i, offset := 0, f.DataOffset; offset < f.Header.ExtendedSize; i++` -/
def parseSectionsG (h : HooksG) (inner : Inner) : Nat → Bytes → Nat → Nat → Nat → St → GoM (List Section × St)
  | fuel, fbuf, offset, ext, idx, st =>
    if offset < ext then
      match fuel with
      | 0 => outOfFuel
      | fuel+1 => do
        let sb ← sliceFromG "NewFile: f.buf[offset:]" fbuf offset
        let (s, st') ← parseSectionG h inner fuel sb idx st
        if s.info.extSize = 0 then err else do
        let (ss, st'') ← parseSectionsG h inner fuel fbuf (align4G (offset + s.info.extSize)) ext (idx + 1) st'
        pure (s :: ss, st'')
    else pure ([], st)
termination_by structural fuel _ _ _ _ _ => fuel

/-- `NewFile(buf)`; `none` = free space reached -/
def parseFileG (h : HooksG) (inner : Inner) : Nat → Bytes → St → GoM (Option File × St)
  | 0, _, _ => outOfFuel
  | fuel+1, buf, st => do
    let (hb, r1) ← binaryReadG buf 24               -- &f.Header.FileHeader
    let g := hb.take 16
    let size3 := rd hb 20 3
    let type := rd hb 18 1
    let i0 : FileInfo := { guid := g, ckHeader := rd hb 16 1, ckFile := rd hb 17 1, type := type,
                           attrs := rd hb 19 1, size3 := size3, state := rd hb 23 1,
                           extSize := size3, dataOffset := 24 }
    let hr ← (
      if size3 = 0xFFFFFF then
        if r1.length < 8 then do
          -- repaired (fixes/C02-erased-tail-24): binary.Read fails; an erased header is free space
          let hd ← sliceToG "NewFile: buf[:FileHeaderMinLength]" buf 24
          if hd.all (· == 0xFF) then pure none else err
        else do
        let (eb, _) ← binaryReadG r1 8                -- &f.Header.ExtendedSize
        if fromLE eb = u64max then pure none
        else pure (some { i0 with extSize := fromLE eb, dataOffset := 32 })
      else pure (some i0) : GoM (Option FileInfo))
    match hr with
    | none => pure (none, st)
    | some i =>
    if i.extSize > buf.length then err else do
    let fbuf ← copyOutG "NewFile: buf[:f.Header.ExtendedSize]" buf i.extSize
    let nvs ← (
      if type = 1 ∧ g = guidNVAR then
        if i.dataOffset ≥ fbuf.length then err else do
        let nb ← sliceFromG "NewFile: f.buf[f.DataOffset:]" fbuf i.dataOffset
        h.nvar nb st.pol
      else pure none : GoM (Option NvStore))
    let i := { i with nvar := nvs }
    if ¬ supportedFile type then pure (some (.mk i fbuf []), st) else do
    let (ss, st') ← parseSectionsG h inner fuel fbuf i.dataOffset i.extSize 0 st
    pure (some (.mk i fbuf ss), st')
termination_by structural fuel _ _ => fuel

/-- the file loop of `NewFirmwareVolume`: `for offset := fv.DataOffset; offset < lh; offset += prevLen`;
    `data` is already clipped to the volume; returns the files and `FreeSpace` -/
def parseFilesG (h : HooksG) (inner : Inner) : Nat → Bytes → Nat → Nat → Nat → St → GoM (List File × Nat × St)
  | fuel, data, offset, lh, length, st =>
    if offset ≤ lh then
      match fuel with
      | 0 => outOfFuel
      | fuel+1 =>
        let offset := align8G offset
        if data.length ≤ offset then err else do
        let fb ← sliceFromG "NewFirmwareVolume: data[offset:]" data offset
        let (fo, st') ← parseFileG h inner fuel fb st
        match fo with
        | none => pure ([], length - offset, st')
        | some f =>
          if f.info.extSize = 0 then err else do
          let (fs, free, st'') ← parseFilesG h inner fuel data (offset + f.info.extSize) lh length st'
          pure (f :: fs, free, st'')
    else pure ([], 0, st)
termination_by structural fuel _ _ _ _ _ => fuel

/-- `NewFirmwareVolume(data, fvOffset, resizable)` -/
def parseFvG (h : HooksG) (inner : Inner) : Nat → Bytes → Nat → Bool → St → GoM (Fv × St)
  | 0, _, _, _, _ => outOfFuel
  | fuel+1, data, fvOffset, resizable, st =>
    if data.length < 64 then err else do
    let (hd, r1) ← binaryReadG data 56              -- &fv.FirmwareVolumeFixedHeader
    let fsGuid := slice hd 16 16
    let length := rd hd 32 8
    let attrs := rd hd 44 4
    let headerLen := rd hd 48 2
    let eho := rd hd 52 2
    let blocks ← readBlocksG length (data.length / 8 + 1) r1 56
    match setPolarity (polOfAttrs attrs) st with
    | .error _ => err
    | .ok st =>
    if length > data.length then err else do
    let hasExt : Bool := eho ≠ 0 ∧ length ≥ 20 ∧ eho ≤ length - 20
    let (fvName, ehs) ← (
      if hasExt then do
        let eb ← sliceFromG "NewFirmwareVolume: data[fv.ExtHeaderOffset:]" data eho
        let (xb, _) ← binaryReadG eb 20              -- &fv.FirmwareVolumeExtHeader
        pure (xb.take 16, fromLE (xb.drop 16))
      else pure (guidZero, 0) : GoM (Guid × Nat))
    let dataOffset := align8G (if hasExt then eho + ehs else headerLen)
    let fbuf ← copyOutG "NewFirmwareVolume: data[:fv.Length] (copy)" data length
    let i : FvInfo := { fsGuid := fsGuid, length := length, signature := rd hd 40 4, attrs := attrs,
                        headerLen := headerLen, checksum := rd hd 50 2, extHeaderOffset := eho,
                        reserved := rd hd 54 1, revision := rd hd 55 1, blocks := blocks,
                        fvName := fvName, extHeaderSize := ehs, dataOffset := dataOffset,
                        fvOffset := fvOffset, resizable := resizable, freeSpace := 0 }
    if fsGuid ≠ guidFFS2 ∧ fsGuid ≠ guidFFS3 then pure (.mk i fbuf [], st) else do
    let clipped ← sliceToG "NewFirmwareVolume: data[:fv.Length] (clip)" data length
    -- `lh := fv.Length - FileHeaderMinLength` wraps for Length < 24
    let lh := (length + 18446744073709551616 - 24) % 18446744073709551616
    let (fs, free, st') ← parseFilesG h inner fuel clipped dataOffset lh length st
    pure (.mk { i with freeSpace := free } fbuf fs, st')
termination_by structural fuel _ _ _ _ => fuel

end

/-- fuel that always suffices for a buffer of this length (proved in TotalFvSafe.lean) -/
def fuelFor (b : Bytes) : Nat := 5 * b.length + 8

/-- the loop over a decoded payload in `NewSection` (repaired: a zero-size section is an error) -/
def encapLoopG (sec : Bytes → Nat → St → GoM (Section × St)) : Nat → Bytes → Nat → Nat → St → GoM (List Node × St)
  | fuel, enc, offset, idx, st =>
    if offset < enc.length then
      match fuel with
      | 0 => outOfFuel
      | fuel+1 => do
        let sb ← sliceFromG "NewSection: encapBuf[offset:]" enc offset
        let (s, st') ← sec sb idx st
        if s.info.extSize = 0 then err else do        -- fixes/C05-encap-zero-size.diff
        let (ns, st'') ← encapLoopG sec fuel enc (align4G (offset + s.info.extSize)) (idx + 1) st'
        pure (.sec s :: ns, st'')
    else pure ([], st)

/-- what happens to a decoded payload when `z` further nested decompressions are allowed -/
def innerZ (h : HooksG) : Nat → Inner
  | 0 => fun _ _ => pure none
  | z+1 => fun enc st => do
    let r ← encapLoopG (fun sb idx st => parseSectionG h (innerZ h z) (fuelFor sb) sb idx st)
              (enc.length + 1) enc 0 0 st
    pure (some r)

/-- `uefi.NewSection(buf, order)` with a budget of `z` nested decompressions -/
def newSectionG (h : HooksG) (z : Nat) (buf : Bytes) (order : Nat) (st : St) : GoM (Section × St) :=
  parseSectionG h (innerZ h z) (fuelFor buf) buf order st

/-- `uefi.NewFile(buf)` -/
def newFileG (h : HooksG) (z : Nat) (buf : Bytes) (st : St) : GoM (Option File × St) :=
  parseFileG h (innerZ h z) (fuelFor buf) buf st

/-- `uefi.NewFirmwareVolume(data, fvOffset, resizable)` -/
def newFvG (h : HooksG) (z : Nat) (data : Bytes) (fvOffset : Nat) (resizable : Bool) (st : St) : GoM (Fv × St) :=
  parseFvG h (innerZ h z) (fuelFor data) data fvOffset resizable st

/-! ### NewBIOSRegion -/

def parseBiosElemsG (h : HooksG) (z : Nat) : Nat → Bytes → Nat → St → GoM (List BiosElem × St)
  | fuel, buf, absOffset, st => do
    match ← findFvOffsetG buf with
    | none => pure (if buf.length ≠ 0 then [.pad buf absOffset] else [], st)
    | some off =>
      match fuel with
      | 0 => outOfFuel
      | fuel+1 => do
        let pre ← (if off > 0 then do
                     let pb ← sliceToG "NewBIOSRegion: buf[:offset]" buf off
                     pure [BiosElem.pad pb absOffset]
                   else pure [] : GoM (List BiosElem))
        let absOffset := absOffset + off
        let vb ← sliceFromG "NewBIOSRegion: buf[offset:]" buf off
        let (fv, st') ← newFvG h z vb absOffset false st
        if fv.info.length = 0 then err else do
        let rest ← sliceFromG "NewBIOSRegion: buf[uint64(offset)+fv.Length:]" buf (off + fv.info.length)
        let (es, st'') ← parseBiosElemsG h z fuel rest (absOffset + fv.info.length) st'
        pure (pre ++ .fv fv :: es, st'')

/-- `NewBIOSRegion(buf, r, _)` (ReadOnly = false: the region buffer is copied) -/
def parseBiosG (h : HooksG) (z : Nat) (buf : Bytes) (fr : Option FlashRegion) (st : St) : GoM (BiosRegion × St) := do
  let own ← cloneG buf                                 -- br.buf = make([]byte, len(buf)); copy
  let (es, st') ← parseBiosElemsG h z (buf.length + 1) buf 0 st
  pure ({ elems := es, buf := own, length := buf.length, fr := fr }, st')

end Fiano.Uefi.Total
